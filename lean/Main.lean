/-
zmodel — JSON-lines driver for the executable model.  One request per input
line `{"engine": ..., ...}`, one response per output line: `{"ok": {...}}` or
`{"err": "..."}`.  Imports the core-only model and Lean.Data.Json, never Mathlib.
-/
import ZenoModel.Driver.SeqEngine
import ZenoModel.Driver.StoreEngine
import ZenoModel.Driver.ClusterEngine
import ZenoModel.Driver.SnapshotEngine
import ZenoModel.Driver.AlterEngine
import ZenoModel.Driver.ReportEngine
import ZenoModel.Driver.RobustEngine
import ZenoModel.Driver.HeapEngine
import ZenoModel.Driver.PlanEngine
import ZenoModel.Driver.CrashEngine
import ZenoModel.Driver.CoalesceEngine
import ZenoModel.Driver.QueryEngine
import ZenoModel.Driver.SubQueryEngine
import ZenoModel.Driver.CodecEngine
import ZenoModel.Driver.SortEngine
import ZenoModel.Driver.AuthEngine

open Lean Zeno.Drv

def dispatch (j : Json) : R Json := do
  match (← str j "engine") with
  | "seq" => seqEngine j
  | "store" => storeEngine j
  | "cluster" => clusterEngine j
  | "snapshot" => snapshotEngine j
  | "alter" => alterEngine j
  | "report" => reportEngine j
  | "robust" => robustEngine j
  | "heap" => heapEngine j
  | "plan" => planEngine j
  | "crash" => crashEngine j
  | "coalesce" => coalesceEngine j
  | "spec" => specEngine j
  | "query" => queryEngine j
  | "subquery" => subQueryEngine j
  | "codec" => codecEngine j
  | "sort" => sortEngine j
  | "auth" => authEngine j
  | e => throw s!"unknown engine {e}"

def handle (line : String) : String :=
  match Json.parse line with
  | .error e => (Json.mkObj [("err", Json.str s!"parse: {e}")]).compress
  | .ok j =>
    match dispatch j with
    | .ok r => (Json.mkObj [("ok", r)]).compress
    | .error e => (Json.mkObj [("err", Json.str e)]).compress

partial def loop (hin hout : IO.FS.Stream) : IO Unit := do
  let line ← hin.getLine
  if line.isEmpty then return ()
  let l := line.trimAscii.toString
  if !l.isEmpty then
    hout.putStrLn (handle l)
    hout.flush
  loop hin hout

def main : IO Unit := do
  loop (← IO.getStdin) (← IO.getStdout)
