import ZenoModel.Model.Time
import ZenoModel.Model.Expr
import ZenoModel.Model.Seq
import ZenoModel.Model.SubMerge
import ZenoModel.Model.Store
