import ZenoModel.Model.Time
import ZenoModel.Model.Expr
import ZenoModel.Model.Seq
import ZenoModel.Model.SubMerge
import ZenoModel.Model.Store
import ZenoModel.Model.Auth
import ZenoModel.Model.Sort
import ZenoModel.Model.Codec
