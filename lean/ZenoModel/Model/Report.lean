/-
M-REPORT — how truncation of a query result is reported (property C13).

Every stage of the query path as a function on (rows delivered, failure, statistics),
following Go's push protocol: a source calls `onRow(row) (more bool, err error)` for each
row and stops when `!more || err != nil`; `Iterate` returns `(metadata, err)`.

Go sources followed branch for branch (the comment at each definition names the function):
  core/core.go        Guard / timeoutGuard.{TimedOut,Proceed,ProceedAfter}, stop()
  core/limit.go, offset.go, filter.go (rowFilter, flatRowFilter), flatten.go, unflatten.go
  core/group.go       group.Iterate (collect, crosstab deadline branches, Walk, walkErr vs err)
  core/sort.go        sorter.Iterate (collect, then emit)
  planner/subquery.go planSubQueries; planner/local.go applySubQueryFilters
  row_store.go        fileStore.iterate (file loop, memstore Walk), rowStore.iterate (guard)
  table.go            doProcessIterations (coalescing fan-out, batch deadline)
  query.go            queryable.Iterate (OOM check every 1000 rows, statistics 0/1)
  cluster_query.go    queryCluster (fail / finish / stop, timeout branch, missing handler,
                      halved sub-deadline)
  rpc/server/rpc_server.go  Query
  web/query.go        doQuery (size estimate), execQuery (final size check), cache entry
                      status, respondWithCacheEntry

The model is of the code AFTER the `fix:` commits for the defects found by C13 / C17 —
selected by `Cfg.fixed`:
  d3   (0040f81) fileStore.iterate returned nil although the memstore `Walk` returned an error
  d15  (dd8e0db) a file row mapping none of the requested columns ended the whole scan with nil
  d4   web doQuery discarded the error of `rs.Iterate`
  subq applySubQueryFilters ignored ErrDeadlineExceeded of the subquery
  subqStats planSubQueries dropped the subquery's statistics (missing partitions of a cluster
       subquery went unreported)
Each flag set to `false` gives the pre-fix code; `Props/C13.lean` proves a concrete
witness (truncated rows, no report) for each.  `Cfg.coalesce` selects the fan-out of
`doProcessIterations`: `perIteration` is the code as it is (49f0895, the fix for D8: every
iteration keeps its own outcome and its own deadline), `abortAll` the code before it (one
iteration's error ended the shared scan for all, the batch ran under the latest deadline).
The theorems hold for both.

Nat is an abstract clock (`Nat`); a deadline is exceeded when `deadline < now`
(`time.Now().After(deadline)`).  Callbacks and loops return the time they took (a `Nat`
duration), so the clock is monotone by construction; it advances only where a fault schedule
says so (a consumer or source that sleeps, a `tick` between cluster events).

Core Lean only; everything is total and computable (the driver links it).
-/

namespace Zeno.Report

/-! ## Basic protocol -/

/-- error classes the callers can distinguish -/
inductive Err where
  | deadline        -- core.ErrDeadlineExceeded
  | oom             -- zenodb.ErrOutOfMemory
  | consumer        -- error returned by the caller's own onRow
  | source          -- error of a (mock) row source
  | filter          -- error returned by a filter's Include
  | size            -- web: estimated / final result size exceeds MaxResponseBytes
  | missingHandler  -- zenodb.ErrMissingQueryHandler
  | handler         -- error returned by a partition's query handler
  | incomplete      -- planner: a subquery's statistics report missing partitions (after the fix)
  /-- not an error VALUE: a panic raised inside per-row processing (goexpr SUBSTR/SPLIT/LEN on a
      value of an unexpected type in WHERE / GROUP BY, a consumer callback, …).  A panic unwinds
      through the callers of the callback without running their code; every operator of this
      model hands a failing reply up unchanged (`StepOK.post_ok`), so the unwinding IS the reply
      `fail .panic` travelling up to the next recover boundary (`recoverStep`), which decides
      what the code above the boundary sees. -/
  | panic
deriving DecidableEq, Repr, Inhabited

def Err.str : Err → String
  | .deadline => "deadline" | .oom => "oom" | .consumer => "consumer" | .source => "source"
  | .filter => "filter" | .size => "size" | .missingHandler => "missing_handler" | .handler => "handler"
  | .incomplete => "incomplete" | .panic => "panic"

/-! Times and durations are `Nat`s. -/

/-- one row; `part` is the cluster partition it came from (0 elsewhere), `vals` one value
    per period (unflat) or a single value (flat) -/
structure Row where
  key : Nat
  ts : Nat := 0
  vals : List Nat := []
  part : Nat := 0
deriving DecidableEq, Repr, Inhabited

/-- the pair `(more bool, err error)` returned by an `onRow` callback -/
structure Reply where
  more : Bool
  err : Option Err
deriving DecidableEq, Repr

/-- `return true, nil` -/
def Reply.proceed : Reply := ⟨true, none⟩
/-- core.stop(): `return false, nil` — a requested end, not a failure -/
def Reply.stop : Reply := ⟨false, none⟩
def Reply.fail (e : Err) : Reply := ⟨false, some e⟩
/-- the caller's loop goes on: `!(!more || err != nil)` -/
def Reply.ok (r : Reply) : Bool := r.more && r.err.isNone

/-- core.Guard(ctx): `noopTimeoutGuard` when the context has no deadline -/
structure Guard where
  deadline : Option Nat
deriving Repr

/-- TimedOut: `time.Now().After(g.deadline)` -/
def Guard.timedOut (g : Guard) (now : Nat) : Bool :=
  match g.deadline with
  | none => false
  | some d => decide (d < now)

/-- Proceed -/
def Guard.proceed (g : Guard) (now : Nat) : Reply :=
  if g.timedOut now then .fail .deadline else .proceed

/-- ProceedAfter(origMore, origErr) -/
def Guard.proceedAfter (g : Guard) (now : Nat) (r : Reply) : Reply :=
  if !r.more || r.err.isSome then r else g.proceed now

/-- An `onRow` callback with its captured state made explicit: called at time `now` it
    returns its new state, the time it took, and its reply. -/
structure Sink (σ : Type) where
  onRow : σ → Nat → Row → σ × Nat × Reply

/-- `for _, row := range rows { more, err := onRow(row); if !more || err != nil { return … } }`:
    the delivery loop of every source.  Result: final state, time taken, the reply that ended
    the loop (`proceed` when the rows ran out). -/
def feed {σ : Type} (s : Sink σ) : σ → Nat → List Row → σ × Nat × Reply
  | st, _, [] => (st, 0, .proceed)
  | st, now, r :: rs =>
    let (st1, d1, rep) := s.onRow st now r
    if rep.ok then
      let (st2, d2, rep2) := feed s st1 (now + d1) rs
      (st2, d1 + d2, rep2)
    else (st1, d1, rep)

/-! ## Stream operators as callback wrappers

`Iterate` of limit / offset / rowFilter / flatRowFilter / flatten / unflatten (and, inside the
table, rowStore.iterate's guard and queryable.Iterate's memory check) all have the shape
"call `source.Iterate` with a wrapped callback".  `Step` is that wrapper as data: what
happens before the downstream callback is (possibly) called, and what is done with its
reply. -/

inductive Pre where
  /-- call the downstream callback for these rows, in order, stopping at the first reply
      that is not `(true, nil)` -/
  | forward (rows : List Row)
  /-- return without calling downstream -/
  | reply (r : Reply)

structure Step (τ : Type) where
  /-- new state, time taken, what to do -/
  pre : τ → Nat → Row → τ × Nat × Pre
  /-- given the time after the downstream calls and the downstream's last reply -/
  post : τ → Nat → Reply → τ × Reply

def wrap {τ σ : Type} (stp : Step τ) (s : Sink σ) : Sink (τ × σ) where
  onRow := fun (x, st) now r =>
    match stp.pre x now r with
    | (x1, d0, .reply rep) => ((x1, st), d0, rep)
    | (x1, d0, .forward rs) =>
      let (st1, d1, rep) := feed s st (now + d0) rs
      let (x2, rep') := stp.post x1 (now + d0 + d1) rep
      ((x2, st1), d0 + d1, rep')

/-- core/limit.go: `if oldIdx < l.limit { return onRow(row) }; return stop()` -/
def limitStep (n : Nat) : Step Nat where
  pre := fun idx _ r => if idx < n then (idx + 1, 0, .forward [r]) else (idx + 1, 0, .reply .stop)
  post := fun idx _ rep => (idx, rep)

/-- core/offset.go: `if oldIdx >= o.offset { return onRow(row) }; return guard.Proceed()` -/
def offsetStep (g : Guard) (n : Nat) : Step Nat where
  pre := fun idx now r => if n ≤ idx then (idx + 1, 0, .forward [r]) else (idx + 1, 0, .reply (g.proceed now))
  post := fun idx _ rep => (idx, rep)

/-- what a filter's Include returns: an error, a (possibly rewritten) row, or nil -/
inductive Incl where
  | err (e : Err)
  | keep (r : Row)
  | drop

/-- core/filter.go rowFilter.Iterate and flatRowFilter.Iterate (same shape):
    `if err != nil { return false, err }; if key != nil { return onRow(..) }; return guard.Proceed()` -/
def filterStep (g : Guard) (incl : Row → Incl) : Step Unit where
  pre := fun _ now r =>
    match incl r with
    | .err e => ((), 0, .reply (.fail e))
    | .keep r' => ((), 0, .forward [r'])
    | .drop => ((), 0, .reply (g.proceed now))
  post := fun _ _ rep => ((), rep)

/-- core/flatten.go: one callback per period that has a value,
    `if !more || err != nil { return more, err }`, then `return guard.Proceed()` -/
def flattenStep (g : Guard) (fl : Row → List Row) : Step Unit where
  pre := fun _ _ r => ((), 0, .forward (fl r))
  post := fun _ now rep => ((), if rep.ok then g.proceed now else rep)

/-- core/unflatten.go: `return onRow(row.Key, outRow)` (no guard) -/
def unflattenStep (f : Row → Row) : Step Unit where
  pre := fun _ _ r => ((), 0, .forward [f r])
  post := fun _ _ rep => ((), rep)

/-- row_store.go rowStore.iterate: `return guard.ProceedAfter(onValue(key, columns))` -/
def guardStep (g : Guard) : Step Unit where
  pre := fun _ _ r => ((), 0, .forward [r])
  post := fun _ now rep => ((), g.proceedAfter now rep)

/-- query.go queryable.Iterate: `i` starts at 1;
    `if i%1000 == 0 { if !capMemorySize(false) { return false, ErrOutOfMemory } }; i++; return onRow(..)`.
    `oomAt = some c`: the c-th memory check (c ≥ 1) and all later ones find the memory over the cap. -/
def oomHit (oomAt : Option Nat) (i : Nat) : Bool :=
  i % 1000 == 0 && (match oomAt with | some c => decide (c ≤ i / 1000) | none => false)

/-- table.go `iteration.safeOnValue`: the recover boundary between the shared scan goroutine and
    one query's per-row processing.
    `func (it *iteration) safeOnValue(..) (more bool, err error) { defer func() { if p := recover(); p != nil
       { more = false; err = fmt.Errorf("Panic while iterating: %v", p) } }(); return it.onValue(..) }`
    `reports = true` is that code: the deferred closure assigns the NAMED results, the scan sees
    `(false, err)`.  `reports = false` is the boundary whose closure assigns local variables
    only: after the unwinding the function returns the zero values `(false, nil)`, which
    doProcessIterations reads as "this query wants no more rows". -/
def recoverStep (reports : Bool) : Step Unit where
  pre := fun _ _ r => ((), 0, .forward [r])
  post := fun _ _ rep => ((), if rep.err == some .panic && !reports then .stop else rep)

def oomStep (oomAt : Option Nat) : Step Nat where
  pre := fun i _ r =>
    if oomHit oomAt i then
      (i, 0, .reply (.fail .oom))
    else (i + 1, 0, .forward [r])
  post := fun i _ rep => (i, rep)

/-! ## The caller's callback (what the harness passes as `onRow`) -/

/-- what the caller's callback does besides recording rows -/
inductive UFault where
  | none
  /-- the call with index k (0-based) returns `false, errConsumer` without recording -/
  | failAt (k : Nat)
  /-- the call with index k returns `false, nil` without recording: a stop the caller asked for -/
  | stopAt (k : Nat)
  /-- the call with index k records the row, then sleeps d before returning `true, nil` -/
  | sleepAt (k d : Nat)
  /-- web.doQuery's callback: `estimatedResultBytes += size(row)`; over `max` ⇒ `false, err` -/
  | sizeCap (max : Nat)
  /-- the call with index k panics (nothing recorded) -/
  | panicAt (k : Nat)
deriving Repr, DecidableEq

structure UState where
  rows : List Row := []   -- delivered rows, in delivery order
  n : Nat := 0            -- calls so far
  est : Nat := 0          -- web: estimatedResultBytes
deriving Repr

def userSink (f : UFault) (size : Row → Nat) : Sink UState where
  onRow := fun st _ r =>
    let rec_ : UState := { st with rows := st.rows ++ [r], n := st.n + 1 }
    match f with
    | .none => (rec_, 0, .proceed)
    | .failAt k => if st.n == k then ({ st with n := st.n + 1 }, 0, .fail .consumer) else (rec_, 0, .proceed)
    | .stopAt k => if st.n == k then ({ st with n := st.n + 1 }, 0, .stop) else (rec_, 0, .proceed)
    | .sleepAt k d => if st.n == k then (rec_, d, .proceed) else (rec_, 0, .proceed)
    | .panicAt k => if st.n == k then ({ st with n := st.n + 1 }, 0, .fail .panic) else (rec_, 0, .proceed)
    | .sizeCap max =>
      let est := st.est + size r
      if max < est then ({ st with n := st.n + 1, est := est }, 0, .fail .size)
      else ({ rec_ with est := est }, 0, .proceed)

/-- did the caller itself ask to stop (UFault.stopAt fired)? -/
def UFault.stopped (f : UFault) (st : UState) : Bool :=
  match f with
  | .stopAt k => decide (k < st.n)
  | _ => false

/-! ## Statistics and results -/

/-- common.QueryStats (partition counts only) -/
structure Stats where
  total : Nat
  successful : Nat
  missing : List Nat
deriving Repr, DecidableEq

def Stats.partial_ (s : Stats) : Bool := decide (s.successful < s.total)

/-- result of `Iterate`: captured callback state, time taken, `err`, metadata -/
structure Res (σ : Type) where
  st : σ
  took : Nat
  err : Option Err
  stats : Option Stats

def Res.mapSt {σ τ : Type} (r : Res σ) (f : σ → τ) : Res τ := { st := f r.st, took := r.took, err := r.err, stats := r.stats }

/-- the caller has been told that the result may be incomplete: non-nil error, or
    statistics with fewer successful than total partitions -/
def Res.told {σ : Type} (r : Res σ) : Bool :=
  r.err.isSome || (match r.stats with | some s => s.partial_ | none => false)

/-! ## Fix flags -/

inductive Coalesce where
  | abortAll       -- table.go doProcessIterations before 49f0895
  | perIteration   -- … as it is (after the fix for D8)
deriving DecidableEq, Repr

structure Cfg where
  d3 : Bool
  d15 : Bool
  d4 : Bool
  subq : Bool
  subqStats : Bool
  /-- table.go safeOnValue hands the recovered panic to the scan as an error (see `recoverStep`) -/
  recover : Bool := true
  coalesce : Coalesce
deriving Repr

def Cfg.fixed : Cfg := { d3 := true, d15 := true, d4 := true, subq := true, subqStats := true, coalesce := .perIteration }
def Cfg.preD8 : Cfg := { Cfg.fixed with coalesce := .abortAll }

structure Env where
  cfg : Cfg
  /-- deadline of the query's context (`ctx.Deadline()`) -/
  deadline : Option Nat
deriving Repr

def Env.guard (e : Env) : Guard := ⟨e.deadline⟩

/-! ## Mock source (harness `core` mode; shape of the sources in core/*_test.go) -/

def sleepFor (sleepAt : Option (Nat × Nat)) (i : Nat) : Nat :=
  match sleepAt with
  | some (k, d) => if k == i then d else 0
  | none => 0

/-- `for i, row := range rows { if i == failAt { return nil, errSource }; if i == sleepAt { sleep(d) };
     more, err := onRow(row); if !more || err != nil { return nil, err } }; return nil, nil` -/
def mockLoop {σ : Type} (s : Sink σ) (failAt : Option Nat) (sleepAt : Option (Nat × Nat)) :
    Nat → σ → Nat → List Row → σ × Nat × Option Err
  | _, st, _, [] => (st, 0, none)
  | i, st, now, r :: rs =>
    if failAt == some i then (st, 0, some .source)
    else
      let (st1, d1, rep) := s.onRow st (now + sleepFor sleepAt i) r
      if rep.ok then
        let (st2, d2, e) := mockLoop s failAt sleepAt (i + 1) st1 (now + sleepFor sleepAt i + d1) rs
        (st2, sleepFor sleepAt i + d1 + d2, e)
      else (st1, sleepFor sleepAt i + d1, rep.err)

/-! ## The table: fileStore.iterate under rowStore.iterate under doProcessIterations under
    queryable.Iterate -/

/-- the other iteration of a coalesced batch, abstractly: an arbitrary callback (its whole
    pipeline) over a row counter, its context deadline, and whether Go's map iteration
    visits it before ours -/
structure CoIter where
  sink : Sink Nat
  deadline : Option Nat
  first : Bool

structure Table where
  /-- rows of the file, in file order; the flag is `includesAtLeastOneColumn` after merging
      the memstore columns of the same key -/
  file : List (Row × Bool)
  /-- keys that are only in the memstore, in `Walk` order -/
  mem : List Row
  includeMem : Bool
  /-- capMemorySize fails from this check on -/
  oomAt : Option Nat
  co : Option CoIter

/-- the rows a complete scan delivers -/
def Table.rows (t : Table) : List Row :=
  (t.file.filter (·.2)).map (·.1) ++ (if t.includeMem then t.mem else [])

/-- file part of fileStore.iterate.  `some e` = `return offsetsBySource, e`; `none` = the loop
    reached EOF.  A row that maps none of the requested columns is passed over (`continue`)
    without a callback — and therefore without a look at the deadline: the scan's only guard is
    `guard.ProceedAfter(onValue(..))` behind a delivered row (rowStore.iterate, combinedOnValue).  Pre-fix (`d15 = false`): `var more bool` stays false for a row that maps no
    requested column, so `if !more || err != nil { return offsetsBySource, err }` returns nil. -/
def fileLoop {σ : Type} (d15 : Bool) (s : Sink σ) : σ → Nat → List (Row × Bool) → σ × Nat × Option (Option Err)
  | st, _, [] => (st, 0, none)
  | st, now, (r, incl) :: rest =>
    if incl then
      let (st1, d1, rep) := s.onRow st now r
      if rep.ok then
        let (st2, d2, e) := fileLoop d15 s st1 (now + d1) rest
        (st2, d1 + d2, e)
      else (st1, d1, some rep.err)
    else if d15 then fileLoop d15 s st now rest
    else (st, 0, some none)

/-- fileStore.iterate: file loop, then `ms.tree.Walk` over the remaining memstore keys.
    bytetree.Walk returns the callback's error; pre-fix (`d3 = false`) it is dropped and the
    function ends with `return offsetsBySource, nil`. -/
def fileStoreIterate {σ : Type} (cfg : Cfg) (t : Table) (s : Sink σ) (st : σ) (now : Nat) : σ × Nat × Option Err :=
  match fileLoop cfg.d15 s st now t.file with
  | (st1, d1, some e) => (st1, d1, e)
  | (st1, d1, none) =>
    if t.includeMem then
      let (st2, d2, rep) := feed s st1 (now + d1) t.mem
      (st2, d1 + d2, if cfg.d3 then rep.err else none)
    else (st1, d1, none)

/-- per-batch state of combinedOnValue in doProcessIterations -/
structure Fan (σ : Type) where
  ours : σ
  oursAlive : Bool := true      -- still in remainingIterations
  oursErr : Option Err := none  -- perIteration: it.err
  co : Nat := 0
  coAlive : Bool := true
deriving Repr

/-- result of offering the row to one iteration -/
inductive Visit (σ : Type) where
  | abort (f : Fan σ) (took : Nat) (e : Err)   -- abortAll: `return false, err`
  | next (f : Fan σ) (took : Nat) (more : Bool)

def visitOurs {σ : Type} (mode : Coalesce) (g : Guard) (s : Sink σ) (f : Fan σ) (now : Nat) (r : Row) (more : Bool) : Visit σ :=
  if !f.oursAlive then .next f 0 more
  else
    let (st1, d1, rep0) := s.onRow f.ours now r
    match mode with
    | .abortAll =>
      match rep0.err with
      | some e => .abort { f with ours := st1 } d1 e
      | none =>
        if !rep0.more then .next { f with ours := st1, oursAlive := false } d1 more
        else .next { f with ours := st1 } d1 true
    | .perIteration =>
      -- itMore, err := it.guard.ProceedAfter(it.onValue(dims, itVals))
      let rep := g.proceedAfter (now + d1) rep0
      if !rep.more || rep.err.isSome then .next { f with ours := st1, oursAlive := false, oursErr := rep.err } d1 more
      else .next { f with ours := st1 } d1 true

def visitCo {σ : Type} (mode : Coalesce) (c : CoIter) (f : Fan σ) (now : Nat) (r : Row) (more : Bool) : Visit σ :=
  if !f.coAlive then .next f 0 more
  else
    let (n1, d1, rep0) := c.sink.onRow f.co now r
    match mode with
    | .abortAll =>
      match rep0.err with
      | some e => .abort { f with co := n1 } d1 e
      | none =>
        if !rep0.more then .next { f with co := n1, coAlive := false } d1 more
        else .next { f with co := n1 } d1 true
    | .perIteration =>
      let rep := (Guard.mk c.deadline).proceedAfter (now + d1) rep0
      if !rep.more || rep.err.isSome then .next { f with co := n1, coAlive := false } d1 more
      else .next { f with co := n1 } d1 true

/-- table.go doProcessIterations `combinedOnValue` for a batch of our iteration and one other:
    `more := false; for _, it := range remainingIterations { … }; return more, nil` -/
def fanout {σ : Type} (mode : Coalesce) (g : Guard) (s : Sink σ) (c : CoIter) : Sink (Fan σ) where
  onRow := fun f now r =>
    if c.first then
      match visitCo mode c f now r false with
      | .abort f1 d1 e => (f1, d1, .fail e)
      | .next f1 d1 more1 =>
        match visitOurs mode g s f1 (now + d1) r more1 with
        | .abort f2 d2 e => (f2, d1 + d2, .fail e)
        | .next f2 d2 more2 => (f2, d1 + d2, ⟨more2, none⟩)
    else
      match visitOurs mode g s f now r false with
      | .abort f1 d1 e => (f1, d1, .fail e)
      | .next f1 d1 more1 =>
        match visitCo mode c f1 (now + d1) r more1 with
        | .abort f2 d2 e => (f2, d1 + d2, .fail e)
        | .next f2 d2 more2 => (f2, d1 + d2, ⟨more2, none⟩)

/-- `maxDeadline`: the latest deadline among the iterations that have one -/
def maxDeadline (a b : Option Nat) : Option Nat :=
  match a, b with
  | none, none => none
  | some x, none => some x
  | none, some y => some y
  | some x, some y => some (max x y)

/-- table.iterate → doProcessIterations → rowStore.iterate → fileStore.iterate, as seen by our
    iteration: the error it receives on `errCh`. -/
def coalescedScan {σ : Type} (env : Env) (t : Table) (s : Sink σ) (st : σ) (now : Nat) : σ × Nat × Option Err :=
  match t.co with
  | none =>
    match env.cfg.coalesce with
    | .abortAll =>
      -- a batch of one: combinedOnValue passes the reply through (an error returns `false, err`,
      -- `!itMore` empties remainingIterations ⇒ `more = false`); rowStore.iterate guards with
      -- the batch deadline = our own
      let (x, d, e) := fileStoreIterate env.cfg t (wrap (guardStep env.guard) s) ((), st) now
      (x.2, d, e)
    | .perIteration =>
      -- rowStore.iterate runs under context.Background(); our own guard sits in combinedOnValue,
      -- our outcome is it.err when we finished before the scan did, else the scan's error
      let c0 : CoIter := { sink := ⟨fun n _ _ => (n, 0, .stop)⟩, deadline := none, first := false }
      let (f, d, e) := fileStoreIterate env.cfg t (fanout .perIteration env.guard s c0) { ours := st, coAlive := false } now
      (f.ours, d, if f.oursAlive then e else f.oursErr)
  | some c =>
    match env.cfg.coalesce with
    | .abortAll =>
      let bg : Guard := ⟨maxDeadline env.deadline c.deadline⟩
      let (x, d, e) := fileStoreIterate env.cfg t (wrap (guardStep bg) (fanout .abortAll env.guard s c)) ((), { ours := st }) now
      (x.2.ours, d, e)
    | .perIteration =>
      let (f, d, e) := fileStoreIterate env.cfg t (fanout .perIteration env.guard s c) { ours := st } now
      (f.ours, d, if f.oursAlive then e else f.oursErr)

/-- query.go queryable.Iterate (onFields of the caller does not fail; the table has fields) -/
def tableIterate {σ : Type} (env : Env) (t : Table) (s : Sink σ) (st : σ) (now : Nat) : Res σ :=
  let (x, d, e) := coalescedScan env t (wrap (recoverStep env.cfg.recover) (wrap (oomStep t.oomAt) s)) ((), 1, st) now
  { st := x.2.2, took := d, err := e,
    stats := some { total := 1, successful := if e.isNone then 1 else 0, missing := [] } }

/-! ## Cluster: cluster_query.go queryCluster -/

/-- what the handler of one partition does with the (rewritten) query -/
inductive PartOutcome where
  | ok                      -- delivers all its rows, returns nil
  | noHandler               -- remoteQueryHandlerForPartition returned nil
  | failAfter (k : Nat)     -- delivers k rows, then returns a non-retriable error
  | silentAfter (k : Nat)   -- delivers k rows, then hangs (slower than the leader's timer)
  | retryAfter (k : Nat)    -- delivers k rows, returns a common.Retriable error; the partition
                            -- goroutine `continue`s with the next handler, which delivers everything
  /-- a remote handler (rpc/server HandleRemoteQueries) whose stream ended — EOF because the
      follower closed its send side, or a reset — after the field list and k rows, WITHOUT the
      end-of-results message: "Unable to receive result", not retriable once something arrived -/
  | eofAfter (k : Nat)
  /-- a remote handler whose follower's query FAILED after its field list and k rows (deadline
      on the follower, ErrOutOfMemory, a per-row panic turned into an error by queryForRemote):
      rpc/rpc_client.go ProcessRemoteQuery puts the error text ON the final message —
      `&RemoteQueryResult{Stats: stats, EndOfResults: true, Error: queryErr.Error()}` — so the
      end-of-results message IS received, but it is not a clean one: HandleRemoteQueries must
      read `Error` before it leaves the loop on `EndOfResults`, and returns that error -/
  | endErrorAfter (k : Nat)
deriving Repr, DecidableEq

structure Part where
  /-- the rows the partition holds for this query, in its delivery order -/
  rows : List Row
  outcome : PartOutcome
deriving Repr

/-- what the partition goroutine sends to `results` over its lifetime when it is never told
    to stop: the rows (the field list, which precedes them, is not modelled: the caller's
    onFields does not fail), then — except when it hangs — its final result -/
def Part.script (pt : Part) : List Row :=
  match pt.outcome with
  | .ok => pt.rows
  | .noHandler => []
  | .failAfter k => pt.rows.take k
  | .silentAfter k => pt.rows.take k
  | .retryAfter k => pt.rows.take k ++ pt.rows
  | .eofAfter k => pt.rows.take k
  | .endErrorAfter k => pt.rows.take k

/-- `some e` = the final result `&remoteResult{err: e}`; `none` = never sent -/
def Part.finalErr (pt : Part) : Option (Option Err) :=
  match pt.outcome with
  | .ok => some none
  | .noHandler => some (some .missingHandler)
  | .failAfter _ => some (some .handler)
  | .silentAfter _ => none
  | .retryAfter _ => some none
  | .eofAfter _ => some (some .handler)
  | .endErrorAfter _ => some (some .handler)

/-- One handler taken from a partition's queue by the partition goroutine of queryCluster. -/
inductive Attempt where
  /-- the handler's stream had already ended (or ends, or cannot be written to) before its
      first message: HandleRemoteQueries' receive loop sees `recvErr != nil` with `first`, returns
      a common.Retriable error, the partition goroutine `continue`s with the next handler.
      This is the stale handler of a follower that gave up waiting (NextQueryTimeout). -/
  | stale
  | answer (o : PartOutcome)
deriving Repr

/-- what a partition's queue of handlers amounts to: stale handlers are passed over, the first
    one that answers decides; an exhausted queue is `remoteQueryHandlerForPartition == nil` -/
def effectiveOutcome : List Attempt → PartOutcome
  | [] => .noHandler
  | .stale :: rest => effectiveOutcome rest
  | .answer o :: _ => o

/-- what arrives at the leader's `select`, in order -/
inductive CEvent where
  | tick (d : Nat)                    -- time passes
  /-- the next message of partition p arrives; `early`: the partition's callback had seen
      `stopped()` and returned `false, nil`, so the handler returned nil before the end of its
      script (only possible once the leader has stopped) -/
  | msg (p : Nat) (early : Bool)
  | timeout                           -- `<-timeoutTimer.C`
deriving Repr

structure Cluster where
  parts : List Part         -- index = partition; db.opts.NumPartitions = parts.length
  events : List CEvent
  unflat : Bool

structure CState where
  pending : Nat
  stopped : Bool := false
  finalErr : Option Err := none    -- `_finalErr`
  missing : List Nat := []         -- missingPartitions
  successful : Nat := 0
  finished : List Nat := []        -- partitions deleted from resultsByPartition
  recvd : List Nat := []           -- partition of every row message received so far
deriving Repr

/-- `fail`: `if _finalErr != nil { _finalErr = err }; missingPartitions[partition] = true`
    (the test is inverted in the code: the first error is never recorded) -/
def CState.fail (c : CState) (p : Nat) (e : Option Err) : CState :=
  { c with finalErr := if c.finalErr.isSome then e else c.finalErr,
           missing := if c.missing.contains p then c.missing else c.missing ++ [p] }

/-- `finish`: `if result.err == nil { stats.NumSuccessfulPartitions++ … }` -/
def CState.finish (c : CState) (e : Option Err) : CState :=
  if e.isNone then { c with successful := c.successful + 1 } else c

/-- `finalStats()`: missing partitions sorted -/
def CState.stats (c : CState) (n : Nat) : Stats :=
  { total := n, successful := c.successful, missing := (List.range n).filter (fun p => c.missing.contains p) }

/-- the message partition p sends next -/
inductive PMsg where
  | row (r : Row)
  | final (e : Option Err)
  | nothing

def nextMsg (parts : List Part) (c : CState) (p : Nat) (early : Bool) : PMsg :=
  match parts[p]? with
  | none => .nothing
  | some pt =>
    if c.finished.contains p then .nothing
    else
      match pt.script[c.recvd.count p]? with
      | some r => if early && c.stopped then .final none else .row r
      | none =>
        match pt.finalErr with
        | some e => .final e
        | none => .nothing

/-- outcome of handling one event of the receive loop -/
inductive CStep (σ : Type) where
  | halt (st : σ) (took : Nat) (e : Option Err) (c : CState)   -- `return finalStats(), …`
  | next (c : CState) (st : σ) (took : Nat)                    -- `continue`

/-- `case <-timeoutTimer.C`:
    `for partition := range resultsByPartition { fail(partition, ErrDeadlineExceeded) }; return finalStats(), finalErr()` -/
def timeoutFail (n : Nat) (c : CState) : CState :=
  ((List.range n).filter (fun p => !c.finished.contains p)).foldl (fun c p => c.fail p (some .deadline)) c

/-- `case result := <-results` for a row of partition p -/
def rowStep {σ : Type} (unflat : Bool) (s : Sink σ) (c : CState) (st : σ) (now : Nat) (p : Nat) (r : Row) : CStep σ :=
  let c0 := { c with recvd := p :: c.recvd }
  if c.stopped || c.finalErr.isSome then .next c0 st 0     -- `if stopped() || finalErr() != nil { continue }`
  else
    let (st1, d1, rep) := s.onRow st now r
    if unflat then
      -- `if err == nil && !more { fail(result.partition, err); stop() }`: an error is dropped
      if rep.err.isNone && !rep.more then .next { c0.fail p none with stopped := true } st1 d1
      else .next c0 st1 d1
    else
      match rep.err with
      | some e => .halt st1 d1 (some e) (c0.fail p (some e))   -- `fail(..); return finalStats(), err`
      | none =>
        if !rep.more then .next { c0 with stopped := true } st1 d1   -- `stop()`
        else .next c0 st1 d1

def clusterStep {σ : Type} (parts : List Part) (unflat : Bool) (s : Sink σ) (c : CState) (st : σ) (now : Nat) : CEvent → CStep σ
  | .timeout => .halt st 0 (timeoutFail parts.length c).finalErr (timeoutFail parts.length c)
  | .tick d => .next c st d
  | .msg p early =>
    match nextMsg parts c p early with
    | .nothing => .next c st 0
    | .row r => rowStep unflat s c st now p r
    | .final e =>
      -- `if result.err != nil { fail(result.partition, result.err) }; finish(result); pendingPartitions--;
      --  delete(resultsByPartition, result.partition)`
      let c1 := if e.isSome then c.fail p e else c
      let c2 := c1.finish e
      .next { c2 with pending := c2.pending - 1, finished := p :: c2.finished } st 0

/-- the receive loop `for pendingPartitions := numPartitions; pendingPartitions > 0; { select … }`.
    A schedule that ends while partitions are pending is completed by the timer. -/
def clusterLoop {σ : Type} (parts : List Part) (unflat : Bool) (s : Sink σ) :
    CState → σ → Nat → List CEvent → σ × Nat × Option Err × CState
  | c, st, _, [] =>
    if c.pending == 0 then (st, 0, c.finalErr, c)
    else (st, 0, (timeoutFail parts.length c).finalErr, timeoutFail parts.length c)
  | c, st, now, ev :: rest =>
    if c.pending == 0 then (st, 0, c.finalErr, c)
    else
      match clusterStep parts unflat s c st now ev with
      | .halt st1 d e c1 => (st1, d, e, c1)
      | .next c1 st1 d =>
        let r := clusterLoop parts unflat s c1 st1 (now + d) rest
        (r.1, d + r.2.1, r.2.2)

def clusterIterate {σ : Type} (cl : Cluster) (s : Sink σ) (st : σ) (now : Nat) : Res σ :=
  let (st1, d, e, c) := clusterLoop cl.parts cl.unflat s { pending := cl.parts.length } st now cl.events
  { st := st1, took := d, err := e, stats := some (c.stats cl.parts.length) }

/-- the halved sub-deadline handed to the partitions, which is also the leader's timer when the
    context has a deadline; otherwise the timer is ClusterQueryTimeout -/
def clusterTimerDeadline (ctxDeadline : Option Nat) (clusterQueryTimeout : Nat) (start : Nat) : Nat :=
  match ctxDeadline with
  | some d => start + (d - start) / 2
  | none => start + clusterQueryTimeout

/-! ## Plans -/

/-- core.Group: `gf` abstracts bytetree Update + Walk (collected rows ↦ output rows in walk
    order); `crosstab` selects the branch that buffers `kvs` and re-checks the deadline -/
structure GroupSpec where
  gf : List Row → List Row
  crosstab : Bool

inductive Plan where
  | mock (rows : List Row) (failAt : Option Nat) (sleepAt : Option (Nat × Nat))
  | table (t : Table)
  | cluster (c : Cluster)
  | filter (incl : Row → Incl) (p : Plan)
  /-- applySubQueryFilters: a rowFilter whose first Include runs the subquery plan `sub`,
      collecting `dimOf row` of every subquery row; `keep dims row` is `query.Where.Eval(key)` -/
  | subqFilter (sub : Plan) (dimOf : Row → Nat) (keep : List Nat → Row → Bool) (p : Plan)
  | group (g : GroupSpec) (p : Plan)
  | flatten (fl : Row → List Row) (p : Plan)
  | unflatten (f : Row → Row) (p : Plan)
  | sort (sf : List Row → List Row) (p : Plan)
  | offset (n : Nat) (p : Plan)
  | limit (n : Nat) (p : Plan)

/-- group's and sort's first phase: `…append / updateTree…; return guard.Proceed()` -/
def collectSink (g : Guard) : Sink (List Row) where
  onRow := fun acc now r => (acc ++ [r], 0, g.proceed now)

/-- planSubQueries' onRow: `uniques[dim] = true; return true, nil` -/
def dimSink (dimOf : Row → Nat) : Sink (List Nat) where
  onRow := fun acc _ r => (acc ++ [dimOf r], 0, .proceed)

/-- sorter.Iterate's second phase:
    `for _, row := range rows { if guard.TimedOut() { return ErrDeadlineExceeded };
       more, onRowErr := onRow(row); if onRowErr != nil { return onRowErr }; if !more { break } }` -/
def sortEmit {σ : Type} (g : Guard) (s : Sink σ) : σ → Nat → List Row → σ × Nat × Option Err
  | st, _, [] => (st, 0, none)
  | st, now, r :: rs =>
    if g.timedOut now then (st, 0, some .deadline)
    else
      let (st1, d1, rep) := s.onRow st now r
      match rep.err with
      | some e => (st1, d1, some e)
      | none =>
        if !rep.more then (st1, d1, none)
        else
          let (st2, d2, e) := sortEmit g s st1 (now + d1) rs
          (st2, d1 + d2, e)

/-- sorter.Iterate after `s.source.Iterate` returned `(metadata, err)` with the collected rows -/
def sortFinish {σ : Type} (g : Guard) (sf : List Row → List Row) (s : Sink σ) (st : σ) (now : Nat) (up : Res (List Row)) : Res σ :=
  if up.err == some .deadline then { st := st, took := up.took, err := up.err, stats := up.stats }
  else
    let (st1, d1, e) := sortEmit g s st (now + up.took) (sf up.st)
    match e with
    | some e' => { st := st1, took := up.took + d1, err := some e', stats := up.stats }   -- return metadata, ErrDeadlineExceeded / onRowErr
    | none => { st := st1, took := up.took + d1, err := up.err, stats := up.stats }       -- return metadata, err

/-- group.Iterate's `bt.Walk`:
    `more, iterErr := onRow(key, data); if iterErr == nil && guard.TimedOut() { more = false; iterErr = ErrDeadlineExceeded }`
    and bytetree.Walk's `if !more || err != nil { return err }` -/
def groupWalk {σ : Type} (g : Guard) (s : Sink σ) : σ → Nat → List Row → σ × Nat × Option Err
  | st, _, [] => (st, 0, none)
  | st, now, r :: rs =>
    let (st1, d1, rep0) := s.onRow st now r
    let rep : Reply := if rep0.err.isNone && g.timedOut (now + d1) then .fail .deadline else rep0
    if rep.ok then
      let (st2, d2, e) := groupWalk g s st1 (now + d1) rs
      (st2, d1 + d2, e)
    else (st1, d1, rep.err)

/-- group.Iterate after `g.source.Iterate` returned (the caller's onFields does not fail) -/
def groupFinish {σ : Type} (g : Guard) (gs : GroupSpec) (s : Sink σ) (st : σ) (now : Nat) (up : Res (List Row)) : Res σ :=
  if up.err == some .deadline then { st := st, took := up.took, err := up.err, stats := up.stats }
  else if gs.crosstab && !up.st.isEmpty && g.timedOut (now + up.took) then
    -- `for _, ctab := range sortedCtabs { if guard.TimedOut() { return metadata, ErrDeadlineExceeded } …`
    -- and `for _, kv := range kvs { if guard.TimedOut() { … } updateTree(..) }`: no callback runs in
    -- between, the clock does not move
    { st := st, took := up.took, err := some .deadline, stats := up.stats }
  else if up.st.isEmpty then
    { st := st, took := up.took, err := up.err, stats := up.stats }   -- `bt == nil`: nothing to walk
  else
    let (st1, d1, walkErr) := groupWalk g s st (now + up.took) (gs.gf up.st)
    match walkErr with
    | some e => { st := st1, took := up.took + d1, err := some e, stats := up.stats }   -- `return metadata, walkErr`
    | none => { st := st1, took := up.took + d1, err := up.err, stats := up.stats }     -- `return metadata, err`

/-- applySubQueryFilters' Include, as a wrapper around the rowFilter protocol.  State: has the
    subquery been run (`hasRunSubqueries`), its dims (`sq.SetResult`).
    `runSub now` = `runSubQueries(ctx)`: (dims, time taken, finalErr).
    Pre-fix: `if err != nil && err != core.ErrDeadlineExceeded { return nil, nil, err }`. -/
def subqStep (fixed : Bool) (g : Guard) (runSub : Nat → List Nat × Nat × Option Err)
    (keep : List Nat → Row → Bool) : Step (Bool × List Nat) where
  pre := fun (ran, dims) now r =>
    let (dims1, d1, e) : List Nat × Nat × Option Err := if ran then (dims, 0, none) else runSub now
    let bad : Bool := match e with
      | some e' => fixed || e' != .deadline
      | none => false
    if bad then ((true, dims1), d1, .reply ⟨false, e⟩)
    else if keep dims1 r then ((true, dims1), d1, .forward [r])
    else ((true, dims1), d1, .reply (g.proceed (now + d1)))
  post := fun x _ rep => (x, rep)

/-- `Iterate` of a plan with the callback `s` -/
def iterate (env : Env) : (p : Plan) → {σ : Type} → Sink σ → σ → Nat → Res σ
  | .mock rows failAt sleepAt, _, s, st, now =>
    let (st1, d, e) := mockLoop s failAt sleepAt 0 st now rows
    { st := st1, took := d, err := e, stats := none }
  | .table t, _, s, st, now => tableIterate env t s st now
  | .cluster c, _, s, st, now => clusterIterate c s st now
  | .filter incl p, _, s, st, now =>
    (iterate env p (wrap (filterStep env.guard incl) s) ((), st) now).mapSt (·.2)
  | .subqFilter sub dimOf keep p, _, s, st, now =>
    let runSub : Nat → List Nat × Nat × Option Err := fun t =>
      let r := iterate env sub (dimSink dimOf) [] t
      -- `_, err := sqPlan.Iterate(ctx, core.FieldsIgnored, onRow)`: pre-fix the metadata is dropped
      let e : Option Err := match r.err with
        | some e => some e
        | none => if env.cfg.subqStats && (match r.stats with | some st => st.partial_ | none => false) then some .incomplete else none
      (r.st, r.took, e)
    (iterate env p (wrap (subqStep env.cfg.subq env.guard runSub keep) s) ((false, []), st) now).mapSt (·.2)
  | .group gs p, _, s, st, now =>
    groupFinish env.guard gs s st now (iterate env p (collectSink env.guard) [] now)
  | .flatten fl p, _, s, st, now =>
    (iterate env p (wrap (flattenStep env.guard fl) s) ((), st) now).mapSt (·.2)
  | .unflatten f p, _, s, st, now =>
    (iterate env p (wrap (unflattenStep f) s) ((), st) now).mapSt (·.2)
  | .sort sf p, _, s, st, now =>
    sortFinish env.guard sf s st now (iterate env p (collectSink env.guard) [] now)
  | .offset n p, _, s, st, now =>
    (iterate env p (wrap (offsetStep env.guard n) s) (0, st) now).mapSt (·.2)
  | .limit n p, _, s, st, now =>
    (iterate env p (wrap (limitStep n) s) (0, st) now).mapSt (·.2)

/-! ## Specification: the rows of a fault-free run -/

/-- a complete cluster answer: every partition's rows, in the partition's order, interleaved
    in any way -/
def Cluster.Out (c : Cluster) (l : List Row) : Prop :=
  (∀ r, r ∈ l → r.part < c.parts.length) ∧
  ∀ p, p < c.parts.length → l.filter (fun r => r.part == p) = (c.parts.getD p ⟨[], .ok⟩).rows

/-- the rows of partition p carry `part = p`, and no handler is retried (a retry delivers the
    rows of the failed attempt a second time: duplicates, not omissions) -/
def Cluster.wf (c : Cluster) : Prop :=
  ∀ (p : Nat) (pt : Part), c.parts[p]? = some pt → (∀ r : Row, r ∈ pt.rows → r.part = p) ∧ ∀ k, pt.outcome ≠ PartOutcome.retryAfter k

/-- `Out p l`: `l` is what plan `p` delivers when nothing goes wrong (a function of the plan
    except for the arrival order of cluster rows) -/
def Out : Plan → List Row → Prop
  | .mock rows _ _, l => l = rows
  | .table t, l => l = t.rows
  | .cluster c, l => c.Out l
  | .filter incl p, l => ∃ l0, Out p l0 ∧ l = l0.filterMap (fun r => match incl r with | .keep r' => some r' | _ => none)
  | .subqFilter sub dimOf keep p, l => ∃ ls l0, Out sub ls ∧ Out p l0 ∧ l = l0.filter (keep (ls.map dimOf))
  | .group gs p, l => ∃ l0, Out p l0 ∧ l = if l0.isEmpty then [] else gs.gf l0
  | .flatten fl p, l => ∃ l0, Out p l0 ∧ l = l0.flatMap fl
  | .unflatten f p, l => ∃ l0, Out p l0 ∧ l = l0.map f
  | .sort sf p, l => ∃ l0, Out p l0 ∧ l = sf l0
  | .offset n p, l => ∃ l0, Out p l0 ∧ l = l0.drop n
  | .limit n p, l => ∃ l0, Out p l0 ∧ l = l0.take n

/-- Plans the planner can build: rows of an unflat cluster query are consumed by `group`
    (planClusterNonPushdown always adds the group-by). -/
def Plan.wf : Plan → Prop
  | .mock _ _ _ => True
  | .table _ => True
  | .cluster c => c.unflat = false ∧ c.wf
  | .group _ (.cluster c) => c.wf
  | .group _ p => p.wf
  | .filter _ p => p.wf
  | .subqFilter sub _ _ p => sub.wf ∧ p.wf
  | .flatten _ p => p.wf
  | .unflatten _ p => p.wf
  | .sort _ p => p.wf
  | .offset _ p => p.wf
  | .limit _ p => p.wf

/-! ## Callers: embedded API, RPC server, web -/

/-- what a caller of `db.Query(..).Iterate(ctx, onFields, onRow)` ends up with -/
structure Outcome where
  rows : List Row
  err : Option Err
  stats : Option Stats
  now : Nat
  stopped : Bool     -- the caller's own callback asked to stop
  calls : Nat := 0   -- how often the caller's callback was called
deriving Repr

def embedded (env : Env) (p : Plan) (f : UFault) (size : Row → Nat) (now : Nat) : Outcome :=
  let r := iterate env p (userSink f size) {} now
  { rows := r.st.rows, err := r.err, stats := r.stats, now := now + r.took, stopped := f.stopped r.st,
    calls := r.st.n }

/-- the caller has been told (error, or partial statistics) -/
def Outcome.told (o : Outcome) : Bool :=
  o.err.isSome || (match o.stats with | some s => s.partial_ | none => false)

/-- rpc/server/rpc_server.go Query: rows are sent as they come; `if err != nil { return err }`
    ends the stream with an error, otherwise an end-of-results message carries the stats -/
inductive RpcEnd where
  | streamError (e : Err)
  | endOfResults (stats : Option Stats)
deriving Repr

structure RpcOutcome where
  rows : List Row
  fin : RpcEnd
deriving Repr

def rpcQuery (env : Env) (p : Plan) (now : Nat) : RpcOutcome :=
  -- onRow: `rr.Row = row; return true, stream.SendMsg(rr)` (the transport does not fail here)
  let o := embedded env p .none (fun _ => 0) now
  match o.err with
  | some e => { rows := o.rows, fin := .streamError e }
  | none => { rows := o.rows, fin := .endOfResults o.stats }

inductive CacheStatus where
  | pending | success | error
deriving DecidableEq, Repr

/-- web/cache.go cacheEntry after execQuery -/
structure CacheEntry where
  status : CacheStatus
  rows : List Row            -- data() of a success entry
  stats : Option Stats
  err : Option Err           -- error() of an error entry
deriving Repr

structure WebOpts where
  maxResponseBytes : Nat
  queryTimeout : Nat
  /-- time between `context.WithTimeout` and the start of the scan (sampled) -/
  lag : Nat := 0
  /-- `8*len(row.Values) + Σ len(dim)+len(valueBytes)` -/
  rowSize : Row → Nat
  /-- `len(compress(json.Marshal(result)))` -/
  finalSize : List Row → Nat

/-- web/query.go doQuery: `ctx := WithTimeout(Background, h.QueryTimeout)`, iterate with the
    size-estimating callback.  Pre-fix: `stats, _ := rs.Iterate(…)`. -/
def webDoQuery (cfg : Cfg) (w : WebOpts) (p : Plan) (now : Nat) : Except Err (List Row × Option Stats) :=
  let env : Env := { cfg := cfg, deadline := some (now + w.queryTimeout) }
  let o := embedded env p (.sizeCap w.maxResponseBytes) w.rowSize (now + w.lag)
  match o.err with
  | some e => if cfg.d4 then .error e else .ok (o.rows, o.stats)
  | none => .ok (o.rows, o.stats)

/-- web/query.go execQuery: fail / final size check / succeed, then `h.cache.put` -/
def webExecQuery (cfg : Cfg) (w : WebOpts) (p : Plan) (now : Nat) : CacheEntry :=
  match webDoQuery cfg w p now with
  | .error e => { status := .error, rows := [], stats := none, err := some e }
  | .ok (rows, stats) =>
    if w.maxResponseBytes < w.finalSize rows then { status := .error, rows := [], stats := none, err := some .size }
    else { status := .success, rows := rows, stats := stats, err := none }

/-- respondWithCacheEntry on a finished entry: HTTP status and the rows in the body -/
def webRespond (ce : CacheEntry) : Nat × List Row :=
  match ce.status with
  | .success => (200, ce.rows)
  | .error => (500, [])
  | .pending => (202, [])

end Zeno.Report
