/-
M-TIME — model of /repo/encoding/time.go.

Times are `Int` nanoseconds since Go's zero time (0001-01-01T00:00:00Z), so the
zero `time.Time` is `0` and `Time.Round` (which rounds relative to the zero
time) is plain modular arithmetic.  Durations are `Int` nanoseconds.
Not modelled: int64 wrap-around, and the float64 floor/ceil used by
`RoundTimeUntilUp/Down` (exact for |delta| < 2^53 ns).
-/
namespace Zeno

abbrev Time := Int
abbrev Dur := Int

/-- `time.Time.Round(d)`: nearest multiple of `d` since the zero time, halves up;
    `d <= 0` returns the time unchanged. -/
def goRound (t : Int) (d : Int) : Int :=
  if d ≤ 0 then t
  else
    let r := t % d
    if r + r < d then t - r else t + (d - r)

/-- encoding.RoundTimeUp -/
def roundUp (t : Int) (res : Int) : Int :=
  let rounded := goRound t res
  if rounded < t then rounded + res else rounded

/-- encoding.RoundTimeDown -/
def roundDown (t : Int) (res : Int) : Int :=
  let rounded := goRound t res
  if rounded > t then rounded - res else rounded

/-- ceiling division for a positive divisor -/
def cdiv (x r : Int) : Int := -((-x) / r)

/-- encoding.RoundTimeUntilUp -/
def roundUntilUp (t : Int) (res : Int) (hi : Int) : Int :=
  if t = 0 then t
  else if hi = 0 then roundUp t res
  else hi - ((hi - t) / res) * res

/-- encoding.RoundTimeUntilDown -/
def roundUntilDown (t : Int) (res : Int) (hi : Int) : Int :=
  if t = 0 then t
  else if hi = 0 then roundDown t res
  else hi - (cdiv (hi - t) res) * res

end Zeno
