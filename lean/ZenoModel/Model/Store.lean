/-
M-STORE — model of the row store: /repo/insert.go (`table.insert`, `doInsert`),
/repo/row_store.go (`processInserts`, `doProcessFlush`, `fileStore.flush`,
`doWrite`, `fileStore.iterate`, `rowMapper`, `rowMerger`, `outIdxsFor`) and the
memstore side of /repo/bytetree (`Tree.Update` with params).

The radix tree and the on-disk file are finite maps from key to one sequence per
field (lists of rows; order is not part of the model — results are compared as
sets keyed by row key).  Dimension expressions (WHERE, GROUP BY, IF conditions)
are evaluated outside (goexpr) and arrive with the point.
-/
import ZenoModel.Model.SubMerge

namespace Zeno

structure Field where
  name : String
  ex : Ex
  deriving Repr, Inhabited, DecidableEq

/-- `core.Field.Equals`: same printed form `name (expr)` -/
def Field.same (a b : Field) : Bool := a.name == b.name && a.ex.sameStr b.ex

/-- group key: dim name ↦ canonical value text, sorted by name -/
abbrev Key := List (String × String)

structure TableCfg where
  fields : List Field            -- the table's fields (`_points` first)
  res : Int
  retention : Int
  groupBy : Option (List String) -- `none`: GROUP BY all dims
  deriving Repr, Inhabited

/-- a WAL entry as the table sees it -/
structure RawPoint where
  ts : Int
  dims : Key
  whereOk : Bool := true
  /-- numeric values after coercion (`float64`, `int`, arrays thereof); values of
      unsupported type are already dropped -/
  vals : List (String × List Rat)
  conds : List Nat := []
  /-- the payload makes `doInsert` panic (empty array value): recovered ⇒ skipped -/
  panics : Bool := false
  deriving Repr, Inhabited

structure Row where
  key : Key
  cols : List Sq
  deriving Repr, Inhabited

structure Store where
  memFields : List Field
  mem : List Row := []
  fileFields : List (Option Field) := []
  file : Option (List Row) := none
  now : Int := 0
  flushCount : Nat := 0
  deriving Repr, Inhabited

def Store.init (cfg : TableCfg) : Store := { memFields := cfg.fields }

/-- `outIdxsFor(outFields, inFields)`: first out position with an equal field, per in field -/
def outIdxsFor (out : List Field) (inn : List (Option Field)) : List (Option Nat) :=
  inn.map (fun f => match f with
    | none => none
    | some f => out.findIdx? (fun o => f.same o))

def reslice (cfg : TableCfg) (dims : Key) : Key :=
  match cfg.groupBy with
  | none => dims
  | some names => dims.filter (fun kv => names.contains kv.1)

/-- the rows a point stands for: the main row (first element of every value) and one extra
    row per further array element; `dup` = every extra row twice -/
def pointRowsD (dup : Bool) (p : RawPoint) : List (List (String × Rat)) :=
  let main := p.vals.filterMap (fun (k, vs) => vs.head?.map (fun v => (k, v)))
  let extra := p.vals.flatMap (fun (k, vs) => (vs.drop 1).map (fun v => [(k, v)]))
  (if main.isEmpty then [] else [main]) ++ extra ++ (if dup then extra else [])

/-- the rows `doInsert` sends to the row store for one point.  The code collects the extra
    rows inside the callback it hands to `bytemap.Build`, which runs that callback twice
    (sizing pass, writing pass), so every extra row is queued — and inserted — twice
    (known finding C01-array-double; the repo's TestSingleDB expectations encode it). -/
def pointRows (p : RawPoint) : List (List (String × Rat)) := pointRowsD true p

def mkPt (p : RawPoint) (vals : List (String × Rat)) : Pt :=
  { vals := ("_point", 1) :: vals, conds := p.conds }

/-- `Tree.Update(key, nil, params, metadata)` on the memstore: every field's sequence of the
    key's row is updated with the point (truncateBefore = zero time) -/
def memUpdate (x : Ext) (cfg : TableCfg) (fields : List Field) (mem : List Row) (key : Key)
    (ts : Int) (pt : Pt) : List Row :=
  let upd := fun (cols : List Sq) =>
    (fields.zip cols).map (fun (f, c) => Sq.updateValue x f.ex cfg.res c ts pt 0)
  if mem.any (fun r => r.key == key) then
    mem.map (fun r => if r.key == key then { r with cols := upd r.cols } else r)
  else mem ++ [{ key := key, cols := upd (fields.map (fun _ => none)) }]

/-- `table.insert` + `doInsert` + `rowStore.insert`: returns the new store and whether the
    point was accepted (`false` = skipped: only the offset advances) -/
def Store.ingest (x : Ext) (cfg : TableCfg) (st : Store) (p : RawPoint) : Store × Bool :=
  if p.ts < st.now - cfg.retention then (st, false)
  else if !p.whereOk then (st, false)
  else
    let st := { st with now := max st.now p.ts }
    if p.panics then (st, false)
    else
      let key := reslice cfg p.dims
      let rows := pointRows p
      let mem := rows.foldl (fun m vals => memUpdate x cfg st.memFields m key p.ts (mkPt p vals)) st.mem
      ({ st with mem := mem }, true)

/-- merge the memstore columns of one row into the outbound columns (`rowMerger`) -/
def mergeMemCols (outFields : List Field) (memFields : List Field) (res tb : Int)
    (columns : List Sq) (msCols : List Sq) : List Sq × Bool :=
  let idxs := outIdxsFor outFields (memFields.map some)
  (msCols.zipIdx).foldl (fun (acc : List Sq × Bool) (c, i) =>
    match idxs.getD i none with
    | some o =>
        let e := (outFields.getD o default).ex
        (acc.1.modify o (fun cur => Sq.merge e res cur c tb), true)
    | none => acc) (columns, false)

/-- map one file row's columns into the outbound columns (`rowMapper`) -/
def mapFileCols (outFields : List Field) (fileFields : List (Option Field)) (cols : List Sq) :
    List Sq × Bool :=
  let idxs := outIdxsFor outFields fileFields
  (cols.zipIdx).foldl (fun (acc : List Sq × Bool) (c, i) =>
    match idxs.getD i none with
    | some o => (acc.1.set o c, true)
    | none => acc) (outFields.map (fun _ => none), false)

/-- one step of the file loop of `fileStore.iterate` (not the raw pass-through) -/
structure ScanOut where
  rows : List Row := []
  stopped : Bool := false   -- (unused since the skip-row fix; kept for the JSON protocol)
  deriving Repr, Inhabited

/-- `fileStore.iterate(outFields, ms, _, rawOkay = false, onRow)`: file rows first (merged with
    the memstore row of the same key), then the memstore rows that were not in the file. -/
def Store.iterate (cfg : TableCfg) (st : Store) (outFields : List Field) (includeMem : Bool) : ScanOut :=
  let tb := st.now - cfg.retention
  let mem := if includeMem then st.mem else []
  let fileRows := st.file.getD []
  let fileOut := fileRows.foldl (fun (acc : ScanOut) (r : Row) =>
    if acc.stopped then acc
    else
      let (cols, inc1) := mapFileCols outFields st.fileFields r.cols
      let ms := mem.find? (fun m => m.key == r.key)
      let (cols, inc2) := match ms with
        | some m => mergeMemCols outFields st.memFields cfg.res tb cols m.cols
        | none => (cols, false)
      if inc1 || inc2 then { acc with rows := acc.rows ++ [{ key := r.key, cols := cols }] }
      else acc /- the row maps no requested column: skipped (before the fix recorded in
                  known_findings.json the whole scan ended here with a nil error) -/) ({} : ScanOut)
  if fileOut.stopped then fileOut
  else
    let rest := mem.filter (fun m => !(fileRows.any (fun r => r.key == m.key)))
    let memOut := rest.map (fun m =>
      let (cols, _) := mergeMemCols outFields st.memFields cfg.res tb (outFields.map (fun _ => none)) m.cols
      ({ key := m.key, cols := cols } : Row))
    { fileOut with rows := fileOut.rows ++ memOut }

/-- `doWrite` for a decoded row: truncate every column to the retention window; drop the row
    when nothing is left -/
def writeRow (cfg : TableCfg) (tb : Int) (r : Row) : Option Row :=
  let cols := r.cols.map (fun c => Sq.truncate c cfg.res tb 0)
  if cols.any (fun c => c.isSome) then some { r with cols := cols } else none

/-- `doProcessFlush` + `fileStore.flush`.  `sorted` = the flush uses the sorting writer
    (`allowSort ∧ shouldSort`); it only changes the order of rows in the file, which is not
    part of the model.  (Before the fix recorded in known_findings.json a sorted flush dropped
    every raw pass-through row.)  With an empty memstore nothing happens. -/
def Store.flush (cfg : TableCfg) (st : Store) (_sorted : Bool) : Store :=
  if st.mem.isEmpty then st
  else
    let tb := st.now - cfg.retention
    let disallowRaw := st.flushCount % 10 == 9
    let outFields := cfg.fields
    let fileSame := st.fileFields.length == outFields.length &&
      (st.fileFields.zip outFields).all (fun (f, o) => match f with | some f => f.same o | none => false)
    let rawOkay := !disallowRaw && fileSame
    let fileRows := st.file.getD []
    let fromFile := fileRows.foldl (fun (acc : List Row × Bool) (r : Row) =>
      if acc.2 then acc
      else
        let ms := st.mem.find? (fun m => m.key == r.key)
        if ms.isNone && rawOkay then
          -- raw pass-through (sorted or not: `doWrite` writes `raw` as it is)
          (acc.1 ++ [r], false)
        else
          let (cols, inc1) := mapFileCols outFields st.fileFields r.cols
          let (cols, inc2) := match ms with
            | some m => mergeMemCols outFields st.memFields cfg.res tb cols m.cols
            | none => (cols, false)
          if inc1 || inc2 then
            match writeRow cfg tb { key := r.key, cols := cols } with
            | some w => (acc.1 ++ [w], false)
            | none => acc
          else acc) (([] : List Row), false)
    let rest := if fromFile.2 then [] else st.mem.filter (fun m => !(fileRows.any (fun r => r.key == m.key)))
    let fromMem := rest.filterMap (fun m =>
      let (cols, _) := mergeMemCols outFields st.memFields cfg.res tb (outFields.map (fun _ => none)) m.cols
      writeRow cfg tb { key := m.key, cols := cols })
    { st with
      mem := [], memFields := cfg.fields,
      file := some (fromFile.1 ++ fromMem), fileFields := cfg.fields.map some,
      flushCount := st.flushCount + 1 }

end Zeno
