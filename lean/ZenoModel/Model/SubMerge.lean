/-
M-SEQ (cont.) — `Expr.SubMergers` (expr/*.go) and `Sequence.SubMerge`
(encoding/seq.go), value level.

A Go `SubMerge` closure is represented by a first-order description `SM` so that it
can be executed, printed and reasoned about.  `other` is the list of periods of the
source column from the current source period on (newest first), exactly what the Go
code passes as `other[Width64bits+po*otherWidth:]`.
-/
import ZenoModel.Model.Seq

namespace Zeno

/-- printed identity (`String()`): AVG and WAVG print alike (the weight is not printed) -/
def Ex.norm : Ex → Ex
  | .field n => .field n
  | .const v => .const v
  | .agg k w => .agg k w.norm
  | .avg v _ => .avg v.norm (.const 1)
  | .bin op l r => .bin op l.norm r.norm
  | .ifE c w => .ifE c w.norm
  | .bounded w lo hi => .bounded w.norm lo hi
  | .shift w off => .shift w.norm off
  | .unary f w => .unary f w.norm
  | .ptile id v p n => .ptile id v.norm p.norm n

/-- `a.String() == b.String()` -/
def Ex.sameStr (a b : Ex) : Bool := a.norm == b.norm

inductive SM
  | direct (e : Ex)                    -- `e.Merge(data, data, other)`
  | right (skip : Nat) (r : SM)         -- combinedSubMerge with left == nil
  | both (l : SM) (skip : Nat) (r : SM) -- combinedSubMerge
  | cond (c : Nat) (w : SM)             -- ifExpr.condSubMerger
  | shifted (off : Int) (w : SM)        -- shift.shiftedSubMerger
  deriving Repr, Inhabited

/-- run a sub-merger: `data` = the target expression's cells for one output period -/
def SM.apply : SM → List Cell → List (List Cell) → Int → Pt → List Cell
  | .direct e, data, other, _, _ =>
      let o := other.headD []
      let (m, _, _) := e.merge data o
      m ++ data.drop m.length
  | .right skip r, data, other, otherRes, p =>
      data.take skip ++ r.apply (data.drop skip) other otherRes p
  | .both l skip r, data, other, otherRes, p =>
      let d1 := l.apply data other otherRes p
      d1.take skip ++ r.apply (d1.drop skip) other otherRes p
  | .cond c w, data, other, otherRes, p =>
      if p.includes c then w.apply data other otherRes p else data
  | .shifted off w, data, other, otherRes, p =>
      let k := -(off.tdiv otherRes)
      if k ≥ 0 ∧ k.toNat < other.length then w.apply data (other.drop k.toNat) otherRes p else data

def combinedSM (l : Option SM) (skip : Nat) (r : Option SM) : Option SM :=
  match l, r with
  | none, none => none
  | some l, none => some l
  | none, some r => some (.right skip r)
  | some l, some r => some (.both l skip r)

/-- `Expr.SubMergers(subs)` -/
def Ex.subMergers : Ex → List Ex → List (Option SM)
  | .field _, subs => subs.map (fun _ => none)
  | .const _, subs => subs.map (fun _ => none)
  | .agg k w, subs => subs.map (fun s => if (Ex.agg k w).sameStr s then some (.direct (.agg k w)) else none)
  | .avg v w, subs => subs.map (fun s => if (Ex.avg v w).sameStr s then some (.direct (.avg v w)) else none)
  | .ptile id v p n, subs =>
      subs.map (fun s => if (Ex.ptile id v p n).sameStr s then some (.direct (.ptile id v p n)) else none)
  | .bin op l r, subs =>
      let e := Ex.bin op l r
      match subs.findIdx? (fun s => e.sameStr s) with
      | some i => (List.range subs.length).map (fun j => if j = i then some (.direct e) else none)
      | none =>
        let ls := l.subMergers subs
        let rs := r.subMergers subs
        (List.range subs.length).map (fun j => combinedSM (ls.getD j none) l.width (rs.getD j none))
  | .ifE c w, subs =>
      let e := Ex.ifE c w
      if subs.any (fun s => e.sameStr s) then
        subs.map (fun s => if e.sameStr s then some (.direct e) else none)
      else (w.subMergers subs).map (fun sm => sm.map (SM.cond c))
  | .bounded w lo hi, subs =>
      let e := Ex.bounded w lo hi
      if subs.any (fun s => e.sameStr s) then
        subs.map (fun s => if e.sameStr s then some (.direct e) else none)
      else w.subMergers subs
  | .shift w off, subs =>
      let e := Ex.shift w off
      if subs.any (fun s => e.sameStr s) then
        subs.map (fun s => if e.sameStr s then some (.direct e) else none)
      else (w.subMergers subs).map (fun sm => sm.map (SM.shifted off))
  | .unary u w, subs =>
      -- expr/math.go unaryMathExpr.SubMergers (since the repair of the unary-math sub-mergers):
      -- an input column that prints like the whole expression is merged as it is (the state of
      -- LN(x) is the state of x), otherwise the wrapped expression's sub-mergers apply
      let e := Ex.unary u w
      if subs.any (fun s => e.sameStr s) then
        subs.map (fun s => if e.sameStr s then some (.direct e) else none)
      else w.subMergers subs

/-- `bytetree.New` (/repo 22d56a6): of the input columns with the same printed expression only
    the first is merged into the outputs; the sub-mergers of the later ones are cleared -/
def dedupInputs (ins : List Ex) (sms : List (Option SM)) : List (Option SM) :=
  (sms.zipIdx).map (fun (sm, i) =>
    match ins[i]? with
    | some e => if (ins.take i).any (fun e' => e'.sameStr e) then none else sm
    | none => sm)

/-- Go's `%` on ints (sign of the dividend) -/
def goMod (a b : Int) : Int := a.tmod b

/-- the `for po := 0; po < otherPeriods; po++` loop of `SubMerge` -/
def subMergeLoop (sm : SM) (otherRes : Int) (p : Pt) (scale untilOffset strideSlice strideSlicePeriods : Int)
    (resultPeriods : Nat) : Nat → List (List Cell) → List (List Cell) → List (List Cell)
  | _, [], result => result
  | po, o :: os, result =>
      let idx := ((po : Int) + untilOffset) / scale
      if idx ≥ (resultPeriods : Int) then result
      else
        let result :=
          if strideSlice ≤ 0 ∨ goMod ((po : Int) + untilOffset) scale < strideSlicePeriods then
            if idx < 0 then result  -- negative index: the Go code would panic; never reached on aligned input
            else result.modify idx.toNat (fun d => sm.apply d (o :: os) otherRes p)
          else result
        subMergeLoop sm otherRes p scale untilOffset strideSlice strideSlicePeriods resultPeriods (po + 1) os result

/-- `seq.SubMerge(other, metadata, resolution, otherResolution, ex, otherEx, submerge, asOf, until, strideSlice)` -/
def Sq.subMerge (ex otherEx : Ex) (sm : SM) (res otherRes : Int) (s other : Sq) (p : Pt)
    (asOf hi strideSlice : Int) : Sq :=
  let shiftBack := -ex.shiftOf
  let otherAsOf0 := other.asOf otherRes
  let otherAsOf := if otherAsOf0 < asOf then asOf else otherAsOf0
  -- `asOf.Add(-1*shiftBack)`: adding to the zero time does not stay zero in Go
  let other := other.truncate otherRes (asOf - shiftBack) hi
  match other with
  | none => s
  | some o0 =>
    if o0.cells.length = 0 then s
    else
      let result := s.truncate res asOf hi
      let resultUntil0 := result.until
      -- grow other for shifted reads
      let o :=
        if shiftBack > 0 then
          let shifted0 := o0.hi + shiftBack
          let shifted := if shifted0 > hi then hi else shifted0
          let growBy := (shifted - o0.hi).tdiv otherRes
          if growBy > 0 then
            (⟨shifted, List.replicate growBy.toNat otherEx.empty ++ o0.cells⟩ : Seq)
          else o0
        else o0
      let otherUntil := o.hi
      let newUntil := roundUntilUp otherUntil res hi
      let (r1, resultUntil) : Seq × Int :=
        match result with
        | none => (⟨newUntil, [ex.empty]⟩, newUntil)
        | some r =>
          if r.cells.length = 0 then (⟨newUntil, [ex.empty]⟩, newUntil)
          else
            let periodsToPrepend := (newUntil - resultUntil0).tdiv res
            if periodsToPrepend > 0 then
              (⟨newUntil, List.replicate periodsToPrepend.toNat ex.empty ++ r.cells⟩, newUntil)
            else (r, resultUntil0)
      let oldAsOf := roundUntilUp (Sq.asOf (some r1) res) res resultUntil
      let newAsOf := roundUntilDown otherAsOf res resultUntil
      let periodsToAppend := (oldAsOf - newAsOf).tdiv res
      let r2 : Seq :=
        if periodsToAppend > 0 then ⟨r1.hi, r1.cells ++ List.replicate periodsToAppend.toNat ex.empty⟩ else r1
      let scale := res.tdiv otherRes
      let untilOffset := (resultUntil - otherUntil).tdiv otherRes
      let strideSlicePeriods := strideSlice.tdiv otherRes
      some ⟨r2.hi, subMergeLoop sm otherRes p scale untilOffset strideSlice strideSlicePeriods
        r2.cells.length 0 o.cells r2.cells⟩

end Zeno
