/-
M-PLAN — model of /repo/planner/cluster.go, planner.go, local.go (the parts that decide
and build the distributed plan) and of the row semantics of /repo/core/group.go,
flatten.go, unflatten.go, planner/having.go needed to state "cluster plan = local plan".

Rows.  A source (a table, or the flat rows of a FROM-subquery turned back into rows by
`core.Unflatten`) is a list of `PRow`s: key, period timestamp, raw values by name.  A table
row of the real system holds per-field sequences; it is represented by the points it
aggregates (one `PRow` per point), which is also how `Unflatten` hands a subquery's flat rows
to the enclosing query (`encoding.NewValue(field.Expr, ts, params, row.DKey)` = one point per
flat row).  The state of a field expression `e` over a group of rows is `e.acc` of the
group's points (Model/Expr.lean); that stored per-field states equal this accumulation is
the business of C01/C05/C06, not of C11.

Everything evaluated by goexpr (WHERE, IF conditions, GROUP BY expressions, CROSSTAB
expressions) is a function on keys supplied from outside; of a GROUP BY expression the
model also knows the params it reads and which of them goexpr declares one-to-one
(`WalkParams` / `WalkOneToOneParams`).

`runPre`/`run` are the SPEC-level evaluator of one SELECT over a source (filter, group by
key projection + period, `Ex.acc`, crosstab, flatten's "some non-constant value found" rule,
HAVING, ORDER BY, LIMIT).  `pushdownAllowed`, `rewriteAst`, `runStates`, `leaderPre`,
`clusterRun` follow planner/cluster.go.  The second half of the file is the textual view:
`render` (sqlparser's canonical formatting of a SELECT), `rewriteTextPre` (the string surgery
of `planClusterNonPushdown` as found: `strings.Index` for "group by " …, the `from\s+` regex,
`concatForCrosstab`'s parenthesis scan) and `rewriteText` (after the fix: the statement is
re-parsed, the clauses are cleared on the AST and it is rendered again).
-/
import ZenoModel.Model.Expr
import ZenoModel.Model.Sort

namespace Zeno.Plan

/-! ## rows and queries -/

/-- a bytemap key: dimension ↦ dynamic value -/
abbrev DKey := List (String × DimVal)

def DKey.get (k : DKey) (n : String) : Option DimVal := List.lookup n k

/-- one point of a source -/
structure PRow where
  key : DKey
  ts : Int
  vals : List (String × Rat)
  deriving DecidableEq, Repr, Inhabited

/-- core.GroupBy plus what goexpr reports about the expression -/
structure GroupBy where
  name : String
  /-- `WalkParams` order; the flag says whether `WalkOneToOneParams` reports the param -/
  params : List (String × Bool)
  /-- `groupBy.Expr.Eval(key)`; `none` = nil (the dimension is then left out of the key) -/
  eval : DKey → Option DimVal

def GroupBy.allParams (g : GroupBy) : List String := g.params.map (·.1)
def GroupBy.oneToOne (g : GroupBy) : List String := (g.params.filter (·.2)).map (·.1)

/-- sql.Query, one SELECT level (FROM is in `QTree`) -/
structure Query where
  /-- selected fields in order, without `_having` -/
  fields : List (String × Ex)
  /-- the HAVING condition as an expression (`_having` field) -/
  having : Option Ex := none
  /-- WHERE on the row key, IN-subqueries resolved.  The leader resolves the IN-subqueries of
      the statement it hands to the cluster (`clusterSource.doIterate`) and passes the results
      along, so the function is the same on every partition — except for an IN-subquery in the
      WHERE of a FROM-subquery of a pushed-down statement, which is why `whereSub` forbids
      pushdown (fix-06). -/
  whr : DKey → Bool := fun _ => true
  /-- the WHERE clause contains an IN-subquery -/
  whereSub : Bool := false
  /-- ids of the IF conditions of the field expressions that hold on a key -/
  conds : DKey → List Nat := fun _ => []
  /-- GroupBy, sorted by name by the parser -/
  by_ : List GroupBy := []
  /-- GroupByAll: no GROUP BY clause, or a `*` in it -/
  byAll : Bool := true
  /-- CROSSTAB expression (a string valued concat) -/
  ctab : Option (DKey → String) := none
  ctabTotal : Bool := false
  /-- period(..) in ns, 0 = not given -/
  res : Int := 0
  /-- stride(..) in ns, 0 = not given -/
  stride : Int := 0
  olo : OLO := { orderBy := [], limit := 0, offset := 0 }

/-- a SELECT with its FROM: a table, or a FROM-subquery -/
inductive QTree
  | table (q : Query)
  | sub (q : Query) (inner : QTree)

def QTree.top : QTree → Query
  | .table q => q
  | .sub q _ => q

/-- resolution and `until` of a source (`GetResolution`, `GetUntil`) -/
structure Src where
  res : Int
  hi : Int
  deriving Repr, Inhabited

/-! ## partition routing (cluster_follow.go `partitionFor`) -/

/-- what the hash is fed: the values of the partition keys that are present, or the whole
    key when the table has no partition keys -/
def pkProj (keys : List String) (k : DKey) : DKey :=
  if keys.isEmpty then k else keys.filterMap (fun n => (k.get n).map (fun v => (n, v)))

/-- `int(h.Sum32()) % NumPartitions` with the hash uninterpreted -/
def partitionFor (h : DKey → Nat) (keys : List String) (k : DKey) (n : Nat) : Nat :=
  h (pkProj keys k) % n

/-- a split of rows over `n` partitions by a routing function -/
def splitBy (p : PRow → Nat) (n : Nat) (rows : List PRow) : List (List PRow) :=
  (List.range n).map (fun i => rows.filter (fun r => p r == i))

/-! ## the spec-level evaluator of one SELECT -/

/-- core/group.go `sliceKey` -/
def sliceKey (q : Query) (k : DKey) : DKey :=
  if q.by_.isEmpty then
    match q.ctab with
    | some _ => []      -- "Don't group by anything"
    | none => k         -- "Wildcard, select all"
  else q.by_.filterMap (fun g => (g.eval k).map (fun v => (g.name, v)))

/-- planner/local.go `resolutionFor` without the window truncation: stride, else period,
    else the source's resolution -/
def effRes (q : Query) (s : Src) : Int :=
  if q.stride > 0 then q.stride else if q.res > 0 then q.res else s.res

/-- the stride slice (`strideSlice = resolution` before the stride replaces it) -/
def sliceRes (q : Query) (s : Src) : Int := if q.res > 0 then q.res else s.res

/-- end of the output period a timestamp falls into; periods are aligned to the source's
    `until` (encoding/seq.go `SubMerge`: `p = ⌊(po+untilOffset)/scale⌋`) -/
def bucket (hi res ts : Int) : Int := hi - ((hi - ts) / res) * res

/-- `SubMerge`: with a stride, only the newest `strideSlice` of every stride period is read -/
def strideKeep (q : Query) (s : Src) (ts : Int) : Bool :=
  if q.stride > 0 then
    decide (((s.hi - ts) / s.res) % (q.stride / s.res) < sliceRes q s / s.res)
  else true

def admits (q : Query) (s : Src) (r : PRow) : Bool := q.whr r.key && strideKeep q s r.ts

/-- output group of a row: projected key and period end -/
def gid (q : Query) (s : Src) (r : PRow) : DKey × Int :=
  (sliceKey q r.key, bucket s.hi (effRes q s) r.ts)

def toPt (q : Query) (r : PRow) : Pt := { vals := r.vals, conds := q.conds r.key }

/-- first occurrences, in order -/
def dedup {α : Type} [DecidableEq α] : List α → List α
  | [] => []
  | a :: l => a :: (dedup l).filter (fun b => b ≠ a)

/-- the base fields whose states are kept: selected fields, then `_having` -/
def bfields (q : Query) : List (String × Ex) :=
  q.fields ++ (match q.having with | some h => [("_having", h)] | none => [])

/-- an output column: name, expression, and the crosstab value it is restricted to -/
structure XField where
  name : String
  ex : Ex
  sel : Option String

/-- core/group.go: the output fields of a group operator.  Without crosstab the base fields;
    with crosstab, per crosstab value (in the given order `cv`) every selected field
    restricted to that value, then the totals, then `_having` (never crosstabbed). -/
def xfields (q : Query) (cv : List String) : List XField :=
  let hv := match q.having with | some h => [XField.mk "_having" h none] | none => []
  match q.ctab with
  | none => q.fields.map (fun f => XField.mk f.1 f.2 none) ++ hv
  | some _ =>
    cv.flatMap (fun v => q.fields.map (fun f => XField.mk (v.toLower ++ "_" ++ f.1) f.2 (some v)))
      ++ (if q.ctabTotal then q.fields.map (fun f => XField.mk ("total_" ++ f.1) f.2 none) else [])
      ++ hv

/-- does a source row count for a column restricted to a crosstab value -/
def selR (q : Query) (sel : Option String) (r : PRow) : Bool :=
  match sel, q.ctab with
  | some v, some ct => ct r.key == v
  | _, _ => true

/-- core/flatten.go + planner/having.go on one group: the row is emitted iff some
    non-constant column has a value ("anyNonConstantValueFound"; `_having` counts), unset
    values read as 0, and with HAVING the row is kept iff the last column is 1, which is then
    removed.  `stf e sel` is the state of expression `e` restricted to crosstab value `sel`. -/
def mkRow (x : Ext) (q : Query) (cv : List String) (g : DKey × Int)
    (stf : Ex → Option String → List Cell) : Option FlatRow :=
  let xs := xfields q cv
  let vals := xs.map (fun f => f.ex.val x (stf f.ex f.sel))
  let found := (xs.zip vals).any (fun p => !p.1.ex.isConstant && p.2.isSome)
  if !found then none
  else
    let cols := (xs.zip vals).map (fun p => (p.1.name, p.2.getD 0))
    match q.having with
    | none => some { ts := g.2, key := g.1, fields := cols }
    | some _ =>
      if (cols.getLast?.map (·.2)) == some 1 then
        some { ts := g.2, key := g.1, fields := cols.dropLast }
      else none

/-- rows of one SELECT before ORDER BY / LIMIT: filter, group, aggregate, flatten, HAVING.
    `cv` = the crosstab values in column order (ignored without CROSSTAB). -/
def runPre (x : Ext) (q : Query) (s : Src) (cv : List String) (rows : List PRow) : List FlatRow :=
  let rs := rows.filter (admits q s)
  (dedup (rs.map (gid q s))).filterMap (fun g =>
    mkRow x q cv g (fun e sel =>
      e.acc x (((rs.filter (fun r => gid q s r == g)).filter (selR q sel)).map (toPt q))))

/-- the crosstab values occurring in the admitted rows (the code sorts the distinct values:
    `sort.Strings` over the keys of a map) -/
def ctabValues (q : Query) (s : Src) (rows : List PRow) : List String :=
  match q.ctab with
  | none => []
  | some ct => dedup ((rows.filter (admits q s)).map (fun r => ct r.key))

def cvOf (q : Query) (s : Src) (rows : List PRow) : List String :=
  (ctabValues q s rows).mergeSort (fun a b => decide (a ≤ b))

/-- `addOrderLimitOffset` with the model's sort -/
def olo (o : OLO) (rows : List FlatRow) : List FlatRow := addOrderLimitOffset isort o rows

def run (x : Ext) (q : Query) (s : Src) (rows : List PRow) : List FlatRow :=
  olo q.olo (runPre x q s (cvOf q s rows) rows)

/-- core/unflatten.go: every flat row of the subquery becomes one point of the enclosing
    query (values by field name, the row key as key and metadata) -/
def toPRows (rs : List FlatRow) : List PRow := rs.map (fun r => ⟨r.key, r.ts, r.fields⟩)

/-- the source a SELECT presents to the enclosing one -/
def outSrc (q : Query) (s : Src) : Src := { res := effRes q s, hi := s.hi }

def QTree.outSrc : QTree → Src → Src
  | .table q, s => Zeno.Plan.outSrc q s
  | .sub q inner, s => Zeno.Plan.outSrc q (inner.outSrc s)

/-- the local plan of a SELECT with its FROM chain, over the table's rows -/
def runTree (x : Ext) : QTree → Src → List PRow → List FlatRow
  | .table q, s, rows => run x q s rows
  | .sub q inner, s, rows => run x q (inner.outSrc s) (toPRows (runTree x inner s rows))

/-- the same without the outermost ORDER BY / LIMIT -/
def runTreePre (x : Ext) : QTree → Src → List PRow → List FlatRow
  | .table q, s, rows => runPre x q s (cvOf q s rows) rows
  | .sub q inner, s, rows =>
      let src := toPRows (runTree x inner s rows)
      runPre x q (inner.outSrc s) (cvOf q (inner.outSrc s) src) src

/-- the key of the outermost group a table row ends up in -/
def chainKey : QTree → DKey → DKey
  | .table q, k => sliceKey q k
  | .sub q inner, k => sliceKey q (chainKey inner k)

/-! ## planner/cluster.go `pushdownAllowed` -/

/-- `groupBy.Expr.WalkOneToOneParams(func(param) { if parentGroupByAll ||
    parentGroupParams[groupBy.Name] { groupParams[param] = true } })` over all GroupBys -/
def gbParams (all : Bool) (parent : List String) (by_ : List GroupBy) : List String :=
  by_.flatMap (fun g => if all || parent.contains g.name then g.oneToOne else [])

/-- the loop `for current := query; current != nil; current = current.FromSubQuery` with its
    two variables `parentGroupByAll`, `parentGroupParams` -/
def pushdownWalk (pk : List String) : Bool → List String → QTree → Bool
  | all, parent, .table q =>
      if q.byAll && all then true                      -- "we're grouping by all"
      else if pk.isEmpty then false                    -- "table is not partitioned"
      else
        let gp := if q.byAll then parent else gbParams all parent q.by_
        pk.all (fun k => gp.contains k)                -- every partition key represented
  | all, parent, .sub q inner =>
      if !q.byAll then pushdownWalk pk false (gbParams all parent q.by_) inner
      else pushdownWalk pk all parent inner

/-- ORDER BY, CROSSTAB, LIMIT or OFFSET in a subquery forbid pushdown -/
def disallowedInSub (q : Query) : Bool :=
  q.olo.orderBy.length > 0 || q.ctab.isSome || q.olo.limit > 0 || q.olo.offset > 0

/-- every FROM-subquery of the chain is free of the disallowed clauses (after fix-02) and
    of IN-subqueries in its WHERE (after fix-06) -/
def subsClean : QTree → Bool
  | .table _ => true
  | .sub _ inner => !disallowedInSub inner.top && !inner.top.whereSub && subsClean inner

/-- as found: only the immediate FROM-subquery was inspected -/
def subsCleanPre : QTree → Bool
  | .table _ => true
  | .sub _ inner => !disallowedInSub inner.top

def pushdownAllowed (pk : List String) (t : QTree) : Bool :=
  if t.top.ctab.isSome then false
  else if !subsClean t then false
  else pushdownWalk pk true [] t

def pushdownAllowedPre (pk : List String) (t : QTree) : Bool :=
  if t.top.ctab.isSome then false
  else if !subsCleanPre t then false
  else pushdownWalk pk true [] t

/-! ## the non-pushdown path (`planClusterNonPushdown`) -/

/-- a plain dimension as a GroupBy -/
def dimGB (p : String) : GroupBy := { name := p, params := [(p, true)], eval := fun k => k.get p }

/-- `concat('_', <crosstab args>) as _crosstab` -/
def ctabGB (ct : DKey → String) : GroupBy :=
  { name := "_crosstab", params := [], eval := fun k => some (.str (ct k)) }

/-- all params of all GROUP BY expressions (`WalkParams` into a set) -/
def paramDims (q : Query) : List String := dedup (q.by_.flatMap GroupBy.allParams)

/-- the partition-side query: HAVING becomes the last selected field, GROUP BY is replaced
    by the params of the GROUP BY expressions plus the crosstab concat, period and stride are
    kept, ORDER BY / LIMIT go.  (`*` is kept when there was one; see `byAll`.) -/
def rewriteAst (q : Query) : Query :=
  { fields := bfields q
    having := none
    whr := q.whr
    whereSub := q.whereSub
    conds := q.conds
    by_ := (paramDims q).map dimGB ++ (match q.ctab with | some ct => [ctabGB ct] | none => [])
    byAll := q.byAll
    ctab := none
    ctabTotal := false
    res := q.res
    stride := q.stride
    olo := { orderBy := [], limit := 0, offset := 0 } }

/-- what a partition returns on the non-pushdown path (`unflat = true`): per group the
    accumulator states of the selected expressions.  The states are given as a function of
    the expression, of which the leader reads the query's field expressions only. -/
structure SRow where
  key : DKey
  ts : Int
  st : Ex → List Cell

def runStates (x : Ext) (q : Query) (s : Src) (rows : List PRow) : List SRow :=
  let rs := rows.filter (admits q s)
  (dedup (rs.map (gid q s))).map (fun g =>
    { key := g.1, ts := g.2,
      st := fun e => e.acc x ((rs.filter (fun r => gid q s r == g)).map (toPt q)) })

/-- value of the `_crosstab` dimension of a partition row (`ClusterCrosstab.Eval(key)`; a
    missing dimension reads as "") -/
def ctabOf (k : DKey) : String :=
  match k.get "_crosstab" with
  | some (.str v) => v
  | _ => ""

/-- core/group.go `sliceKey` on the leader: the query's GroupBys evaluated on the partition
    row's key; without GroupBys the key minus `_crosstab` -/
def leaderKey (q : Query) (k : DKey) : DKey :=
  if q.by_.isEmpty then
    match q.ctab with
    | some _ => k.filter (fun p => p.1 != "_crosstab")
    | none => k
  else q.by_.filterMap (fun g => (g.eval k).map (fun v => (g.name, v)))

/-- the leader groups at the resolution of the partitions' result: the period is kept -/
def cid (q : Query) (m : SRow) : DKey × Int := (leaderKey q m.key, m.ts)

def selS (sel : Option String) (m : SRow) : Bool :=
  match sel with
  | some v => ctabOf m.key == v
  | none => true

/-- bytetree.Update on the leader with pass-through fields: the states of the partition rows
    of a group are merged with the expression's own `Merge` -/
def leaderState (e : Ex) (sel : Option String) (ms : List SRow) : List Cell :=
  ((ms.filter (selS sel)).map (fun m => m.st e)).foldl e.mrg e.empty

def leaderPre (x : Ext) (q : Query) (cv : List String) (ms : List SRow) : List FlatRow :=
  (dedup (ms.map (cid q))).filterMap (fun g =>
    mkRow x q cv g (fun e sel => leaderState e sel (ms.filter (fun m => cid q m == g))))

/-- crosstab values as the leader sees them -/
def leaderCtabValues (q : Query) (ms : List SRow) : List String :=
  match q.ctab with
  | none => []
  | some _ => dedup (ms.map (fun m => ctabOf m.key))

def leaderSide (x : Ext) (q : Query) (ms : List SRow) : List FlatRow :=
  olo q.olo (leaderPre x q ((leaderCtabValues q ms).mergeSort (fun a b => decide (a ≤ b))) ms)

/-! ## the cluster plan as a whole (`planner.Plan` with `QueryCluster` set) -/

/-- ORDER BY / LIMIT of the partition-side statement of a pushed-down query (after fix-05:
    `LIMIT offset, n` is sent as `LIMIT offset+n`) -/
def partOlo (o : OLO) : OLO :=
  { orderBy := o.orderBy, limit := if o.limit > 0 then o.offset + o.limit else 0, offset := 0 }

def withOlo (t : QTree) (o : OLO) : QTree :=
  match t with
  | .table q => .table { q with olo := o }
  | .sub q inner => .sub { q with olo := o } inner

/-- `Plan`: pushdown if allowed; else for a table query the non-pushdown plan; else the
    enclosing SELECT runs on the leader over the cluster plan of its FROM-subquery -/
def clusterRun (x : Ext) (pk : List String) (parts : List (List PRow)) : QTree → Src → List FlatRow
  | .table q, s =>
      if pushdownAllowed pk (.table q) then
        olo q.olo (parts.flatMap (fun p => run x { q with olo := partOlo q.olo } s p))
      else leaderSide x q (parts.flatMap (runStates x (rewriteAst q) s))
  | .sub q inner, s =>
      if pushdownAllowed pk (.sub q inner) then
        olo q.olo (parts.flatMap (fun p => runTree x (withOlo (.sub q inner) (partOlo q.olo)) s p))
      else run x q (inner.outSrc s) (toPRows (clusterRun x pk parts inner s))

/-! ## IN-subqueries (planner/subquery.go) -/

/-- core.PointsField -/
def pointsField : String × Ex := ("_points", .agg .sum (.field "_point"))

/-- `fixupSubQuery`: a statement planned with `Opts.IsSubQuery` selects `_points` (and
    `_having`, which `bfields` adds) instead of its own fields -/
def asSubQ (q : Query) : Query := { q with fields := [pointsField] }

/-- `Opts.IsSubQuery` is handed down to the FROM-subqueries of the sub-query -/
def asSub : QTree → QTree
  | .table q => .table (asSubQ q)
  | .sub q inner => .sub (asSubQ q) (asSub inner)

/-- `planSubQueries`: the distinct values of the sub-query's dimension over its result rows
    (`uniques[row.Key.Get(sq.Dim)] = true`; a missing dimension contributes nil) -/
def inList (dim : String) (rows : List FlatRow) : List (Option DimVal) :=
  dedup (rows.map (fun r => List.lookup dim r.key))

/-- the IN list as the local plan computes it -/
def inListLocal (x : Ext) (t : QTree) (s : Src) (dim : String) (rows : List PRow) :
    List (Option DimVal) := inList dim (runTree x (asSub t) s rows)

/-- the IN list as the leader of a cluster computes it: the sub-query is planned for the
    cluster like any statement (`Plan(sq.SQL, sqOpts)` with `QueryCluster` still set) -/
def inListCluster (x : Ext) (pk : List String) (parts : List (List PRow)) (t : QTree) (s : Src)
    (dim : String) : List (Option DimVal) := inList dim (clusterRun x pk parts (asSub t) s)

/-- goexpr `In(Param(dim), subQuery)` once the result is set: the WHERE function of the
    enclosing statement -/
def whereIn (dim : String) (vals : List (Option DimVal)) (k : DKey) : Bool :=
  vals.contains (k.get dim)

/-- what a plan that hands the sub-query to the partitions whole would compute, allowed or
    not (the regression "an IN-subquery can always be pushed down") -/
def forcedPushdown (x : Ext) (parts : List (List PRow)) (t : QTree) (s : Src) : List FlatRow :=
  olo t.top.olo (parts.flatMap (fun p => runTree x (withOlo t (partOlo t.top.olo)) s p))

/-! ## the sub-query protocol between leader and partitions

`clusterSource.doIterate` resolves the IN-subqueries of the statement it sends (`planSubQueries`
→ one result list per element of `query.WhereSubQueries`, in that order) and ships the lists
with the statement; on the partition `planSubQueries` uses the shipped lists iff there is
exactly one per IN-subquery of the statement (`len(opts.SubQueryResults) == len(subQueries)`),
setting the i-th list on the i-th sub-query — otherwise it plans and runs the sub-queries
itself, on the partition's own rows. -/

abbrev InVals := List (Option DimVal)

/-- the lists a partition filters with: the shipped ones when their number fits, else its own -/
def partitionLists (shipped own : List InVals) : List InVals :=
  if shipped.length = own.length then shipped else own

/-- truth values of the IN conditions of a WHERE, slot by slot (`dims` = the outer dimension of
    each IN-subquery in `WhereSubQueries` order) -/
def slotFilters (dims : List String) (lists : List InVals) (k : DKey) : List Bool :=
  List.zipWith (fun d l => whereIn d l k) dims lists

/-- a WHERE clause as a function of its IN slots and the key (`comb` = the boolean structure
    and the other conditions) -/
def whereWith (comb : List Bool → DKey → Bool) (dims : List String) (lists : List InVals)
    (k : DKey) : Bool := comb (slotFilters dims lists k) k

/-- the table's own GROUP BY and the partition keys (`partitionKeysKept`, /repo d1dff43): the
    partition of a point is a function of the stored row key iff the table keeps all dimensions
    or every partition key is one of its GROUP BY dimensions -/
def partitionKeysKept (tableGroupBy pk : List String) : Bool :=
  tableGroupBy.isEmpty || (!pk.isEmpty && pk.all (fun k => tableGroupBy.contains k))

/-- the key a table stores for a point -/
def storedKey (tableGroupBy : List String) (k : DKey) : DKey :=
  if tableGroupBy.isEmpty then k else k.filter (fun p => tableGroupBy.contains p.1)

/-- `pushdownAllowed` with the table clause -/
def pushdownAllowedT (tableGroupBy pk : List String) (t : QTree) : Bool :=
  partitionKeysKept tableGroupBy pk && pushdownAllowed pk t

/-! ## overlapping partition-side columns

On the non-pushdown path the leader re-groups with pass-through fields: its input columns are
the partition-side select list, its output columns the same expressions, and bytetree merges
input column i into output column o through `outExprs[o].SubMergers(inExprs)[i]`.  When select
expressions overlap (IF(c, f) next to f, f + g next to f, the same aggregate twice) an output
column could match several input columns.  The real rules — the exact match of the whole
expression wins over matches of its parts (expr/if.go, binary.go, bounded.go, shift.go), and
of input columns with the same printed expression only the first is merged (bytetree.New) —
are modelled in Model/SubMerge.lean (`Ex.subMergers`, `dedupInputs`); for pass-through fields
their effect is `pickExact`: an output column is merged from the first input column with its
own expression and from nothing else. -/

/-- first column of every expression (`dedupInputs`) -/
def dedupCols : List (Ex × List Cell) → List (Ex × List Cell)
  | [] => []
  | c :: cs => c :: (dedupCols cs).filter (fun c' => c'.1 != c.1)

/-- the states merged into the output column with expression `e` -/
def pickExact (cols : List (Ex × List Cell)) (e : Ex) : List (List Cell) :=
  ((dedupCols cols).filter (fun c => c.1 == e)).map (·.2)

/-- `leaderState` over explicit columns: what a partition row contributes to column `e` when
    the partition-side select list is `fields` -/
def leaderStateCols (fields : List Ex) (e : Ex) (sel : Option String) (ms : List SRow) : List Cell :=
  ((ms.filter (selS sel)).flatMap (fun m => pickExact (fields.map (fun f => (f, m.st f))) e)).foldl
    e.mrg e.empty

/-! ## the textual view -/

/-- the clauses of a SELECT as sqlparser renders them (`(*Select).Format`) -/
structure QSyn where
  sel : List Char                 -- select expressions
  frm : List Char                 -- FROM (a table name)
  timeRange : List Char := []     -- " ASOF '..' UNTIL '..'" or empty
  whr : Option (List Char) := none
  groupBy : Option (List Char) := none
  having : Option (List Char) := none
  orderBy : Option (List Char) := none
  limit : Option (List Char) := none

/-- the keywords as character lists (each followed by its blank) -/
def tSelect : List Char := "select ".toList
def tFrom : List Char := "from ".toList
def tWhere : List Char := "where ".toList
def tGroupBy : List Char := "group by ".toList
def tHaving : List Char := "having ".toList
def tOrderBy : List Char := "order by ".toList
def tLimit : List Char := "limit ".toList
def tComma : List Char := [',', ' ']

/-- " <keyword> <text>" or nothing -/
def clause (kw : List Char) : Option (List Char) → List Char
  | none => []
  | some t => ' ' :: kw ++ t

/-- "select %v from %v%v%v" -/
def renderHead (s : QSyn) : List Char :=
  tSelect ++ s.sel ++ ' ' :: tFrom ++ s.frm ++ s.timeRange ++ clause tWhere s.whr

def renderTail (s : QSyn) : List Char :=
  clause tHaving s.having ++ clause tOrderBy s.orderBy ++ clause tLimit s.limit

/-- `query.SQL = nodeToString(stmt)` -/
def render (s : QSyn) : List Char :=
  renderHead s ++ clause tGroupBy s.groupBy ++ renderTail s

/-- ASCII lower-casing (`strings.ToLower`; length preserving on ASCII) -/
def lowerC (c : Char) : Char := if 'A' ≤ c ∧ c ≤ 'Z' then Char.ofNat (c.toNat + 32) else c
def upperC (c : Char) : Char := if 'a' ≤ c ∧ c ≤ 'z' then Char.ofNat (c.toNat - 32) else c
def lower (t : List Char) : List Char := t.map lowerC
def upper (t : List Char) : List Char := t.map upperC

/-- `strings.Index(text, pat)` -/
def indexOf (pat : List Char) : List Char → Option Nat
  | [] => if pat.isEmpty then some 0 else none
  | c :: t =>
    if pat.isPrefixOf (c :: t) then some 0
    else (indexOf pat t).map (· + 1)

/-- what the rewrite needs to know besides the text (from the parsed query) -/
structure RwInfo where
  hasHaving : Bool
  havingSQL : List Char            -- "<cond> AS _having"
  groupByAll : Bool
  /-- params of the GROUP BY expressions, sorted and without duplicates -/
  params : List (List Char)
  hasGroupBy : Bool                -- len(query.GroupBy) > 0
  /-- `period(<d>)`, `stride(<d>)` renderings, empty = absent -/
  period : List Char := []
  stride : List Char := []

def joinWith (sep : List Char) : List (List Char) → List Char
  | [] => []
  | [a] => a
  | a :: rest => a ++ sep ++ joinWith sep rest

/-- the group by synthesised for the partitions -/
def synthGroupBy (i : RwInfo) (crosstab : List Char) : List (List Char) :=
  (if i.groupByAll && (i.hasGroupBy || !crosstab.isEmpty) then ["*".toList] else [])
    ++ (if i.hasGroupBy then i.params else [])
    ++ (if crosstab.isEmpty then [] else [crosstab])
    ++ (if i.period.isEmpty then [] else [i.period])
    ++ (if i.stride.isEmpty then [] else [i.stride])

def withGroupBy (text : List Char) (parts : List (List Char)) : List Char :=
  if parts.isEmpty then text else text ++ ' ' :: tGroupBy ++ joinWith tComma parts

/-- the parenthesis scan of `concatForCrosstab` as found, started right after
    `CROSSTAB(` / `CROSSTABT(` with level 1; returns the text up to and including the
    closing parenthesis -/
def scanParens : Nat → List Char → List Char
  | _, [] => []
  | level, c :: t =>
    if c = '(' then c :: scanParens (level + 1) t
    else if c = ')' then
      if level = 1 then [c] else c :: scanParens (level - 1) t
    else c :: scanParens level t

/-- `concatForCrosstab(sql)` as found: first "CROSSTABT", else first "CROSSTAB", anywhere in
    the upper-cased text -/
def concatForCrosstabPre (text : List Char) : List Char :=
  let up := upper text
  let go := fun (kw : String) (idx : Nat) =>
    "concat('_', ".toList ++ scanParens 1 (text.drop (idx + kw.length + 1)) ++ " as _crosstab".toList
  match indexOf "CROSSTABT".toList up with
  | some idx => go "CROSSTABT" idx
  | none =>
    match indexOf "CROSSTAB".toList up with
    | some idx => go "CROSSTAB" idx
    | none => []

/-- the text surgery of `planClusterNonPushdown` as found.  `none` = "FROM clause not found!" or a
    slice-bounds panic -/
def rewriteTextPre (text : List Char) (frm : List Char) (i : RwInfo) : Option (List Char) :=
  let crosstab := concatForCrosstabPre text
  let low := lower text
  let cutAt := fun (kw : List Char) => match indexOf kw low with
    | some n => if n > 0 then some n else none
    | none => none
  -- if indexOfGroupBy > 0 {..} else if indexOfHaving > 0 {..} else if .. else if ..
  let cut := match cutAt tGroupBy with
    | some n => text.take n
    | none => match cutAt tHaving with
      | some n => text.take n
      | none => match cutAt tOrderBy with
        | some n => text.take n
        | none => match cutAt tLimit with
          | some n => text.take n
          | none => text
  -- fromRegex = "from\s+" + lower(FromSQL), searched in the lower-cased ORIGINAL text; in
  -- canonical text the separator is one space
  let withHaving : Option (List Char) :=
    if i.hasHaving then
      match indexOf (tFrom ++ lower frm) low with
      | some n =>
        -- sqlString[:indexOfFrom] on the already cut string: out of range = runtime panic
        if n ≤ cut.length then
          some (cut.take n ++ tComma ++ i.havingSQL ++ ' ' :: cut.drop n)
        else none
      | none => none
    else some cut
  withHaving.map (fun t => withGroupBy t (synthGroupBy i crosstab))

/-- `concatForCrosstab(stmt)` after the fix: the arguments of the CROSSTAB call of the parsed
    GROUP BY (`crosstabArgs` = rendering of `fn.Exprs`, `none` = no such call) -/
def concatForCrosstab (crosstabArgs : Option (List Char)) : List Char :=
  match crosstabArgs with
  | some a => "concat('_', ".toList ++ a ++ ") as _crosstab".toList
  | none => []

/-- the statement with GROUP BY / HAVING / ORDER BY / LIMIT cleared and the HAVING condition
    appended to the select expressions -/
def stripSyn (s : QSyn) (i : RwInfo) : QSyn :=
  { s with
    sel := if i.hasHaving then s.sel ++ tComma ++ i.havingSQL else s.sel
    groupBy := none, having := none, orderBy := none, limit := none }

/-- `planClusterNonPushdown` after the fix: clear the clauses on the AST, render, append the
    synthesised group by -/
def rewriteText (s : QSyn) (i : RwInfo) (crosstabArgs : Option (List Char)) : List Char :=
  withGroupBy (render (stripSyn s i)) (synthGroupBy i (concatForCrosstab crosstabArgs))

end Zeno.Plan
