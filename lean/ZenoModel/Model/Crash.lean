/-
M-CRASH — protocol model of crash recovery for one table of one stream:
/repo/insert.go (`InsertRaw`, `processWALInserts`, `processInserts`, `doInsert`, `skip`),
/repo/row_store.go (`openRowStore`, `processInserts`, `doProcessFlush`, `fileStore.flush`,
`writeOffsets`, `removeOldFiles`, `readWALOffsets`), /repo/table.go (`CreateTable`,
`startWALProcessing`), /repo/common/common.go (`OffsetsBySource.Advance`), /repo/zenodb.go
(`Close`) and the WAL library github.com/getlantern/wal (`Write`, `NewReader`, `Reader.Read`).

Abstraction (kept small on purpose; the refinement to real aggregates is M-STORE + C05):
* A WAL entry is `(off, skip, k)`: its offset label, whether this table skips it (WHERE false,
  older than the retention window, panic while inserting) and the number `k` of
  `rowStore.insert` calls `doInsert` makes for it (`Entry.ofPoint`: `k = (pointRows p).length`,
  1 for a scalar point, `1 + Σ (len − 1)` for array values, 0 when no value is usable).
* A table's content is the LIST of applications `(off, i)` it reflects (`i < k`).  Replacing
  every application by the row update it stands for (`memUpdate … (pointRows p)[i]`) and the
  list concatenation `file ++ mem` by `Sq.merge` gives M-STORE's `Store.iterate`; that this is
  a homomorphism is C05 (`merge_homomorphism`, `series_merge_semantics`).
* WAL positions are counts: position `n` = "every entry among the first `n` has been handed
  over".  `wal.Offset`s are in bijection with these counts because the reader resumes strictly
  after an offset (`NewReader` positions the file at `offset.Position()`, which is the end of
  that entry) and offsets grow with every write.  Position 0 = the nil offset (no file, no
  offset file: start from the beginning of the WAL).  `Advance` (the later offset per source)
  is `max`.  Only source 0 exists on a non-clustered server.
* `LimitAge` (CreateTable) is the identity: the WAL segments are younger than the retention
  period and no backfill limit is set (harness: VirtualTime, hours of retention).
* Files in the data directory carry `complete`; `doProcessFlush` renames a temp file only after
  `out.Sync()`, so only complete files ever appear there (theorem `files_complete`).  Temp files
  live in os.TempDir, are never read back and are therefore not part of the durable state
  (a crash leaks them).  Crashes are process kills: what was written is durable.
-/
import ZenoModel.Model.Store

namespace Zeno.Crash

/-- one WAL entry as one table sees it -/
structure Entry where
  off : Nat          -- label (grows with every write); used to match the observed trace
  skip : Bool        -- `table.insert` returned false ⇒ `table.skip(offset)`
  k : Nat            -- number of `rowStore.insert` calls of `doInsert` (0: no usable value)
  deriving Repr, DecidableEq, Inhabited

/-- an application: (entry label, index of the `rowStore.insert` within the entry) -/
abbrev App := Nat × Nat

def Entry.apps (e : Entry) : List App :=
  if e.skip then [] else (List.range e.k).map (fun i => (e.off, i))

/-- link to M-STORE: the entry a raw point becomes (`accepted` = result of the retention /
    WHERE / panic checks of `Store.ingest`) -/
def Entry.ofPoint (off : Nat) (p : RawPoint) (accepted : Bool) : Entry :=
  { off := off, skip := !accepted, k := (pointRows p).length }

/-- all applications of a list of entries, in WAL order -/
def flat (w : List Entry) : List App := w.flatMap Entry.apps

/-- `flat (w.take n)`: what a table that has absorbed exactly the first `n` entries reflects -/
def upTo (w : List Entry) (n : Nat) : List App := flat (w.take n)

/-- a filestore file: rows (as applications), header offset (as position), readable? -/
structure File where
  apps : List App
  pos : Nat
  complete : Bool
  deriving Repr, DecidableEq, Inhabited

def File.empty : File := { apps := [], pos := 0, complete := true }

/-- where the row-store goroutine (`rowStore.processInserts`) is inside `flush()` -/
inductive Phase where
  | idle
  | began                      -- `doProcessFlush` entered (temp file created, `flushCount++`)
  | tmpWritten (f : File)      -- `fs.flush` wrote rows + header into the temp file
  | tmpSynced (f : File)       -- `out.Sync()` returned
  | renamed (f : File)         -- `os.Rename` into the table directory done, store not yet swapped
  | offTmp (p : Nat)           -- `writeOffsets`: temp offset file written and synced
  deriving Repr, DecidableEq, Inhabited

structure State where
  -- durable
  wal : List Entry := []
  acked : List Nat := []        -- labels of the entries whose `InsertRaw` has returned
  files : List File := []       -- table directory, newest first (names carry the creation time)
  offFile : Nat := 0            -- the `offset` file (0 = absent)
  -- configuration (fixed for the life of the directory): offsets are kept in maps keyed by a
  -- source id.  `tagSrc` = the source the WAL reader tags every entry with (insert.go
  -- `processWALInserts`: `&walRead{data, t.wal.Offset(), 0}`), hence the key under which the
  -- memstore, the file header and the offset file store the table's offset; `lookSrc` = the key
  -- `CreateTable` uses to find the offset to resume from (`offsetsBySource[0]`).  Nothing else
  -- of DBOpts (ID, WAL sizes, memory ratio, clock) enters the protocol.
  tagSrc : Nat := 0
  lookSrc : Nat := 0
  -- volatile
  up : Bool := false
  cur : File := File.empty      -- `rs.fileStore`
  mem : List App := []          -- `rs.memStore.tree`
  memPos : Nat := 0             -- `ms.offsetsBySource[0]`
  offChanged : Bool := false    -- `ms.offsetChanged`
  rd : Nat := 0                 -- WAL reader: entries completely handed to the row store
  pend : Nat := 0               -- `rowStore.insert`s already done for entry `wal[rd]`
  phase : Phase := .idle
  flushCount : Nat := 0
  deriving Repr, DecidableEq, Inhabited

def State.init : State := {}

/-- empty directory of a database whose code tags with `tag` and looks up under `look` -/
def State.initCfg (tag look : Nat) : State := { tagSrc := tag, lookSrc := look }

/-- what a query with `includeMemStore = true` sees -/
def State.content (s : State) : List App := s.cur.apps ++ s.mem

inductive Event where
  | walAppend (e : Entry)   -- `wal.Write` reached the file (sync on every write)
  | walAck (off : Nat)      -- `InsertRaw` returned to the client (after `wal.Write`, which syncs)
  | apply (off : Nat)       -- one `rowStore.insert` with a key, received by `processInserts`
  | skip (off : Nat)        -- `rowStore.insert` with a nil key (`table.skip`)
  | pass                    -- an entry with no usable value: nothing is sent to the row store
  | flushBegin
  | tmpWritten
  | tmpSynced
  | renamed
  | swapped
  | offTmpWritten
  | offRenamed
  | oldFileRemoved (i : Nat)  -- `removeOldFiles` deletes the file at index `i` (newest = 0)
  | crash
  | reopen (start : Nat)      -- `openRowStore` + `startWALProcessing(start)`
  | catchUp
  deriving Repr, DecidableEq, Inhabited

/-- process kill: the durable part survives, everything else is gone -/
def crashF (s : State) : State :=
  { wal := s.wal, acked := s.acked, files := s.files, offFile := s.offFile,
    tagSrc := s.tagSrc, lookSrc := s.lookSrc }

/-- `openRowStore`'s loop over the directory listing, newest first: an unreadable file is
    removed and the next one tried.  Returns the chosen file (if any) and the remaining files. -/
def pickFile : List File → Option File × List File
  | [] => (none, [])
  | f :: rest => if f.complete then (some f, f :: rest) else pickFile rest

/-- the position `CreateTable` hands to `startWALProcessing` -/
def startPos (s : State) : Nat :=
  match (pickFile s.files).1 with
  | some f => max f.pos s.offFile       -- `newOffsetsBySource.Advance(offsetsBySource)`
  | none => s.offFile

/-- the position the WAL reader really resumes from: `offsetsBySource[lookSrc]` — the persisted
    offset when it is looked up under the key it was stored under, the nil offset (= the
    beginning of the WAL) otherwise -/
def readPos (s : State) : Nat := if s.lookSrc = s.tagSrc then startPos s else 0

/-- `openRowStore` + `processInserts`' fresh memstore (it starts from the whole persisted
    offsets map) + `NewReader(offsetsBySource[lookSrc])` -/
def reopenF (s : State) : State :=
  let (f, files) := pickFile s.files
  let start := startPos s
  { wal := s.wal, acked := s.acked, files := files, offFile := s.offFile,
    tagSrc := s.tagSrc, lookSrc := s.lookSrc,
    up := true, cur := f.getD File.empty, mem := [], memPos := start, offChanged := false,
    rd := readPos s, pend := 0, phase := .idle, flushCount := 0 }

/-- hand the rest of one entry to the row store (all remaining `rowStore.insert`s / the skip) -/
def ingestEntry (s : State) (e : Entry) : State :=
  if e.skip then
    { s with memPos := s.rd + 1, offChanged := true, rd := s.rd + 1, pend := 0 }
  else if e.k = 0 then
    { s with rd := s.rd + 1, pend := 0 }
  else
    { s with mem := s.mem ++ e.apps.drop s.pend, memPos := s.rd + 1, offChanged := true,
             rd := s.rd + 1, pend := 0 }

/-- ingestion runs until the reader is at the end of the WAL -/
def drain : Nat → State → State
  | 0, s => s
  | n + 1, s =>
    match s.wal[s.rd]? with
    | none => s
    | some e => drain n (ingestEntry s e)

def catchUpF (s : State) : State := drain (s.wal.length - s.rd) s

/-- One step of the protocol; `none` = the code cannot do this in this state. -/
def step (s : State) : Event → Option State
  | .walAppend e =>
    -- the process is running and offsets grow
    if s.up && s.wal.all (fun x => x.off < e.off) then some { s with wal := s.wal ++ [e] } else none
  | .walAck o =>
    -- only a written (hence synced) entry is acknowledged; an entry in flight at a kill may be
    -- in the WAL without ever being acknowledged, so the acknowledged entries are not a prefix
    if s.up && s.wal.any (fun x => x.off == o) then some { s with acked := o :: s.acked } else none
  | .apply o =>
    -- `case insert := <-rs.inserts` with `insert.key != nil`; the row-store goroutine is not flushing
    match s.wal[s.rd]? with
    | some e =>
      if s.up && s.phase = .idle && !e.skip && s.pend < e.k && e.off = o then
        let s' := { s with mem := s.mem ++ [(e.off, s.pend)], memPos := s.rd + 1, offChanged := true }
        if s.pend + 1 = e.k then some { s' with rd := s.rd + 1, pend := 0 }
        else some { s' with pend := s.pend + 1 }
      else none
    | none => none
  | .skip o =>
    match s.wal[s.rd]? with
    | some e =>
      if s.up && s.phase = .idle && e.skip && s.pend = 0 && e.off = o then
        some { s with memPos := s.rd + 1, offChanged := true, rd := s.rd + 1 }
      else none
    | none => none
  | .pass =>
    match s.wal[s.rd]? with
    | some e =>
      if s.up && !e.skip && e.k = 0 && s.pend = 0 then some { s with rd := s.rd + 1 } else none
    | none => none
  | .flushBegin =>
    -- `flush()` with a non-empty tree → `processFlush`
    if s.up && s.phase = .idle && !s.mem.isEmpty then
      some { s with phase := .began, flushCount := s.flushCount + 1 }
    else none
  | .tmpWritten =>
    if s.up && s.phase = .began then
      some { s with phase := .tmpWritten { apps := s.cur.apps ++ s.mem, pos := s.memPos, complete := false } }
    else none
  | .tmpSynced =>
    match s.phase with
    | .tmpWritten f => if s.up then some { s with phase := .tmpSynced { f with complete := true } } else none
    | _ => none
  | .renamed =>
    match s.phase with
    | .tmpSynced f => if s.up then some { s with files := f :: s.files, phase := .renamed f } else none
    | _ => none
  | .swapped =>
    match s.phase with
    | .renamed f =>
      if s.up then some { s with cur := f, mem := [], offChanged := false, phase := .idle } else none
    | _ => none
  | .offTmpWritten =>
    -- `flush()` with an empty tree and `ms.offsetChanged` → `writeOffsets`
    if s.up && s.phase = .idle && s.mem.isEmpty && s.offChanged then
      some { s with phase := .offTmp s.memPos }
    else none
  | .offRenamed =>
    match s.phase with
    | .offTmp p => if s.up then some { s with offFile := p, offChanged := false, phase := .idle } else none
    | _ => none
  | .oldFileRemoved i =>
    -- `removeOldFiles` never touches the two newest filestore files
    if s.up && 2 ≤ i && i < s.files.length then some { s with files := s.files.eraseIdx i } else none
  | .crash => if s.up then some (crashF s) else none
  | .reopen start => if !s.up && readPos s = start then some (reopenF s) else none
  | .catchUp => if s.up && s.phase = .idle then some (catchUpF s) else none

/-- run an event list; also reports how many events were accepted -/
def runFrom : State → List Event → Nat → State × Option Nat
  | s, [], _ => (s, none)
  | s, e :: es, i =>
    match step s e with
    | some s' => runFrom s' es (i + 1)
    | none => (s, some i)

def run (s : State) : List Event → Option State
  | [] => some s
  | e :: es => (step s e).bind (fun s' => run s' es)

/-- a flush that starts between two `rowStore.insert`s of one WAL entry (D12) -/
def midEntryFlush (s : State) (e : Event) : Bool := e == .flushBegin && s.pend != 0

/-- `step` restricted to executions without such a flush -/
def stepA (s : State) (e : Event) : Option State := if midEntryFlush s e then none else step s e

def runA (s : State) : List Event → Option State
  | [] => some s
  | e :: es => (stepA s e).bind (fun s' => runA s' es)

/-- every point of the WAL is scalar-valued (at most one `rowStore.insert` per entry) -/
def Scalar (w : List Entry) : Prop := ∀ e ∈ w, e.k ≤ 1

/-- the events of a clean `DB.Close()` in state `s` (row store: `case <-stop: flush(true)`),
    ending with the process exit -/
def closeEvents (s : State) : List Event :=
  (if !s.mem.isEmpty then [.flushBegin, .tmpWritten, .tmpSynced, .renamed, .swapped]
   else if s.offChanged then [.offTmpWritten, .offRenamed] else []) ++ [.crash]

/-! ### specification -/

/-- states reachable from the empty directory by any event list (any number of crashes) -/
inductive Reachable : State → Prop where
  | init (src : Nat) : Reachable (State.initCfg src src)
  | step {s s' : State} {e : Event} : Reachable s → step s e = some s' → Reachable s'

/-- the same, over executions in which no flush starts between two `rowStore.insert`s of one entry -/
inductive ReachableA : State → Prop where
  | init (src : Nat) : ReachableA (State.initCfg src src)
  | step {s s' : State} {e : Event} : ReachableA s → stepA s e = some s' → ReachableA s'

/-- kill the process now, restart on the same directory, let ingestion catch up -/
def recover (s : State) : State := catchUpF (reopenF (crashF s))

/-- C02 for one table: after kill + restart + catch-up the table reflects exactly the
    applications of the WAL entries (in WAL order), none of them twice — so an insert that was
    in flight at the kill (written or not, never acknowledged) is reflected at most once — and
    every application of every acknowledged insert exactly once. -/
def RecoveredExactlyOnce (s : State) : Prop :=
  (recover s).content = flat s.wal ∧
  (∀ a : App, (recover s).content.count a ≤ 1) ∧
  (∀ o ∈ s.acked, ∃ e ∈ s.wal, e.off = o ∧ ∀ a ∈ e.apps, (recover s).content.count a = 1)

end Zeno.Crash
