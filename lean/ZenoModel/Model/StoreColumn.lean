/-
Projection of a store script onto one column (one key, one field): the `ColOp` script that
`Model/Column.lean` runs.  `projectionMismatches` re-runs every column of a store script
through the column model and lists the columns whose final view differs from what the
store model's scan returns — the executable tie between the two models, evaluated by
the driver on every generated case of the `store` engine.
-/
import ZenoModel.Model.Store
import ZenoModel.Model.Column

namespace Zeno

inductive StoreOp
  | ingest (p : RawPoint)
  | flush (sorted : Bool)
  deriving Repr, Inhabited

/-- the column script of (key, field) for a store script; threads the store state to know
    which points are accepted and which flushes allow raw pass-through -/
def colOpsOf (x : Ext) (cfg : TableCfg) (key : Key) : Store → List StoreOp → List ColOp
  | _, [] => []
  | st, .ingest p :: r =>
      let (st', ok) := st.ingest x cfg p
      let clockMoved := st'.now != st.now || (!(p.ts < st.now - cfg.retention) && p.whereOk)
      let here :=
        if ok then
          if reslice cfg p.dims == key then (pointRows p).map (fun vals => ColOp.ingest p.ts (mkPt p vals))
          else [ColOp.tick p.ts]
        else if clockMoved then [ColOp.tick p.ts] else [ColOp.late p.ts]
      -- a point whose payload panics still advances the clock; one whose rows are empty too
      let here := if ok && here.isEmpty then [ColOp.tick p.ts] else here
      here ++ colOpsOf x cfg key st' r
  | st, .flush sorted :: r =>
      if st.mem.isEmpty then colOpsOf x cfg key st r
      else
        let raw := !(st.flushCount % 10 == 9)
        ColOp.flush raw :: colOpsOf x cfg key (st.flush cfg sorted) r

def runStore (x : Ext) (cfg : TableCfg) (ops : List StoreOp) : Store :=
  ops.foldl (fun st op => match op with
    | .ingest p => (st.ingest x cfg p).1
    | .flush s => st.flush cfg s) (Store.init cfg)

/-- columns (key, field index) on which the column model and the store model disagree -/
def projectionMismatches (x : Ext) (cfg : TableCfg) (ops : List StoreOp) (includeMem : Bool) :
    List (Key × Nat) :=
  let st := runStore x cfg ops
  let scan := st.iterate cfg cfg.fields includeMem
  -- every key the script ever addressed (also those whose rows have expired and were dropped:
  -- their column must read `none`), plus whatever the final store holds
  let scriptKeys := ops.filterMap (fun op => match op with
    | .ingest p => some (reslice cfg p.dims)
    | .flush _ => none)
  let keys := (scriptKeys ++ (st.file.getD []).map (·.key) ++ st.mem.map (·.key)).eraseDups
  keys.flatMap (fun key =>
    (cfg.fields.zipIdx).filterMap (fun (f, i) =>
      let ccfg : ColCfg := { e := f.ex, res := cfg.res, retention := cfg.retention }
      let col := Col.run x ccfg (colOpsOf x cfg key (Store.init cfg) ops)
      let expect : Sq := match scan.rows.find? (fun r => r.key == key) with
        | some r => (r.cols.getD i none)
        | none => none
      if col.view ccfg includeMem == expect then none else some (key, i)))

end Zeno
