/-
M-COALESCE — model of iteration coalescing: /repo/table.go (`table.iterate`,
`coalesceIteration`, `doProcessIterations`, `indexOfOutField`), the per-row guard of
/repo/row_store.go `rowStore.iterate` (`guard.ProceedAfter`, /repo/core/core.go) and the
row loop of `fileStore.iterate` as far as the callback protocol is concerned (file rows,
then memstore rows; `more = false` or an error ends the scan).

A batch is the list of iterations `coalesceIteration` hands to `doProcessIterations`
(arrival order).  An iteration = requested out fields by their PRINTED identity
(`core.Field.String()`, the only thing `hasOutField` / `indexOfOutField` / `outIdxsFor`
compare), `includeMemStore`, its context deadline and its `onValue` callback, modelled as a
state machine `σ → key → values → σ × more × error`.  Column values (`encoding.Sequence`)
are opaque: `none` = nil sequence, `some id` = some content.

Time: `time.Now().After(deadline)` is modelled by an expiry index — `deadline = some d`
means "the guard reports a timeout at every check made after the row with (0-based) index
`d` of the shared scan, or any later row"; `some 0` = already expired, `none` = no deadline.

The functions WITHOUT suffix model the code after the fixes of D3 (the error of the memstore
walk is propagated), D8 (every iteration is held to its own deadline and gets its own
outcome; nothing but the scan's own failure is shared) and D15 (a file row that maps none of
the requested columns is skipped instead of ending the scan).  The `…Buggy` functions model
the code as found and are kept as the record of the findings (witnesses in Props/C17.lean).
-/
namespace Zeno.Coalesce

/-- printed identity of a field: `core.Field.String()` = `"name (expr)"` -/
abbrev FieldId := String

/-- a column value: `none` = nil sequence, `some id` = identity of the content -/
abbrev Val := Option Nat

inductive Err
  | consumer (code : Nat)   -- returned by an iteration's `onValue`
  | deadline                -- `core.ErrDeadlineExceeded`
  | source (code : Nat)     -- the scan itself failed (I/O)
  deriving DecidableEq, Repr, Inhabited

/-- one row as `rowStore.iterate` hands it to its callback: one value per requested field -/
structure Row where
  key : String
  vals : List Val
  /-- produced by the memstore walk (after the file loop); only the pre-fix model looks at it -/
  mem : Bool := false
  deriving DecidableEq, Repr, Inhabited

/-- what `rowStore.iterate(outFields, includeMemStore, onValue)` produces when nobody stops
    it: the rows in order, and the error the source itself ends with (if any) -/
structure Stream where
  rows : List Row
  fail : Option Err := none
  deriving Repr, Inhabited

/-- `iteration` (table.go) -/
structure Iter (σ : Type) where
  fields : List FieldId
  includeMem : Bool := true
  deadline : Option Nat := none
  onValue : σ → String → List Val → σ × Bool × Option Err
  init : σ

/-- a row as an iteration's `onValue` saw it -/
abbrev Recv := String × List Val

/-- bookkeeping for one iteration while the shared scan runs; `done = none` ⇔ the iteration
    is still in `remainingIterations`, `done = some r` ⇔ it was removed with own outcome `r` -/
structure ItState (σ : Type) where
  st : σ
  recv : List Recv := []
  done : Option (Option Err) := none

/-- what `table.iterate` returns to the caller of one iteration (plus what it was fed) -/
structure ItResult (σ : Type) where
  st : σ
  recv : List Recv
  err : Option Err

/-! ## field union and mapping (`hasOutField`, `indexOfOutField`, `fieldMappings`) -/

/-- `for _, field := range it.outFields { if !hasOutField(field) { append } }` -/
def addFields (acc : List FieldId) : List FieldId → List FieldId
  | [] => acc
  | f :: fs => addFields (if acc.contains f then acc else acc ++ [f]) fs

/-- `allOutFields`: union by printed identity in order of first occurrence -/
def unionFields {σ : Type} : List (Iter σ) → List FieldId → List FieldId
  | [], acc => acc
  | it :: its, acc => unionFields its (addFields acc it.fields)

/-- `includeMemStore = includeMemStore || it.includeMemStore` -/
def orMem {σ : Type} (its : List (Iter σ)) : Bool := its.any (·.includeMem)

/-- `indexOfOutField`: index of the FIRST field with the same printed identity, or -1 -/
def indexOfOutField (fields : List FieldId) (f : FieldId) : Option Nat :=
  match fields with
  | [] => none
  | g :: gs => if g == f then some 0 else (indexOfOutField gs f).map (· + 1)

/-- `itI := it.fieldMappings[i]; if itI >= 0 { itVals[itI] = val }` for the union field `u`
    (`fieldMappings[i] = it.indexOfOutField(allOutFields[i])`) -/
def assign (fields : List FieldId) (itVals : List Val) (u : FieldId) (v : Val) : List Val :=
  match indexOfOutField fields u with
  | some j => itVals.set j v
  | none => itVals

/-- `itVals := make([]Sequence, len(it.outFields)); for i, val := range vals { … }` -/
def mapBackInto (fields : List FieldId) : List FieldId → List Val → List Val → List Val
  | u :: us, v :: vs, acc => mapBackInto fields us vs (assign fields acc u v)
  | _, _, acc => acc

def mapBack (union fields : List FieldId) (vals : List Val) : List Val :=
  mapBackInto fields union vals (List.replicate fields.length none)

/-! ## guard (core/core.go) -/

/-- `timeoutGuard.TimedOut()` at the check after row `n` -/
def timedOut (deadline : Option Nat) (n : Nat) : Bool :=
  match deadline with
  | none => false
  | some d => decide (d ≤ n)

/-- `ProceedAfter(origMore, origErr)` -/
def proceedAfter (expired : Bool) (more : Bool) (err : Option Err) : Bool × Option Err :=
  if !more || err.isSome then (more, err)
  else if expired then (false, some .deadline)
  else (true, none)

/-! ## the code after the fixes -/

/-- body of the loop in `combinedOnValue` for one iteration and one row (index `n` of the
    shared scan): fresh `itVals`, the callback, the iteration's own guard, removal from
    `remainingIterations` with its own outcome -/
def Iter.step {σ : Type} (it : Iter σ) (union : List FieldId) (n : Nat) (row : Row)
    (s : ItState σ) : ItState σ :=
  match s.done with
  | some _ => s                       -- not in remainingIterations any more
  | none =>
    let itVals := mapBack union it.fields row.vals
    let (st', more, err) := it.onValue s.st row.key itVals
    let (more, err) := proceedAfter (timedOut it.deadline n) more err
    let recv := s.recv ++ [(row.key, itVals)]
    if !more || err.isSome then { st := st', recv := recv, done := some err }
    else { st := st', recv := recv, done := none }

/-- `combinedOnValue`: every remaining iteration gets the row -/
def combined {σ : Type} (its : List (Iter σ)) (union : List FieldId) (n : Nat) (row : Row)
    (ss : List (ItState σ)) : List (ItState σ) :=
  List.zipWith (fun it s => it.step union n row s) its ss

/-- `more` as returned by `combinedOnValue`: somebody is still listening -/
def anyRemaining {σ : Type} (ss : List (ItState σ)) : Bool := ss.any (·.done.isNone)

/-- the row loop of `fileStore.iterate` driving `combinedOnValue`; `more = false` ends it -/
def scanLoop {σ : Type} (its : List (Iter σ)) (union : List FieldId) :
    Nat → List Row → List (ItState σ) → List (ItState σ)
  | _, [], ss => ss
  | n, r :: rs, ss =>
    let ss' := combined its union n r ss
    if anyRemaining ss' then scanLoop its union (n + 1) rs ss' else ss'

def Iter.start {σ : Type} (it : Iter σ) : ItState σ := { st := it.init }

/-- result fan-out: a finished iteration gets its own outcome, one that was still
    listening when the scan ended gets the scan's error -/
def ItState.result {σ : Type} (s : ItState σ) (scanErr : Option Err) : ItResult σ :=
  { st := s.st, recv := s.recv, err := match s.done with
      | some e => e
      | none => scanErr }

/-- `doProcessIterations(iterations)`; `scan outFields includeMemStore` stands for
    `rowStore.iterate` on the table's current contents.  (`if it.outFields == nil
    { it.outFields = it.t.fields }` is resolved by the caller: an iteration arrives here with
    its effective field list.) -/
def doProcessIterations {σ : Type} (scan : List FieldId → Bool → Stream) (its : List (Iter σ)) :
    List (ItResult σ) :=
  let union := unionFields its []
  let strm := scan union (orMem its)
  let ss := scanLoop its union 0 strm.rows (its.map Iter.start)
  ss.map (·.result strm.fail)

/-! ## the table behind the scan (`fileStore.iterate` as a row source) -/

/-- one row of the table as a scan over all of its columns would see it -/
structure TRow where
  key : String
  /-- the columns this row structurally has (file header fields, for a merged row also the
      memstore fields) with their values -/
  cols : List (FieldId × Val)
  /-- not in the file: produced by the memstore walk -/
  mem : Bool := false
  deriving DecidableEq, Repr, Inhabited

/-- the table's contents at the time of the scan: what a scan without / with the memstore
    sees (file rows merged with their memstore counterpart first, memstore-only rows last),
    and an optional I/O failure of the source when it is about to read row `n` -/
structure Table where
  disk : List TRow
  fresh : List TRow
  failAt : Option (Nat × Err) := none
  deriving Repr, Inhabited

/-- value of a column by printed identity; nil when the row does not have the column
    (`outIdxsFor` leaves the out position untouched) -/
def TRow.get (r : TRow) (f : FieldId) : Val :=
  match r.cols.lookup f with
  | some v => v
  | none => none

/-- `includesAtLeastOneColumn` is false: a file row none of whose columns is requested
    (memstore-walk rows are handed out unconditionally) -/
def TRow.blankFor (r : TRow) (fields : List FieldId) : Bool :=
  !r.mem && fields.all (fun f => (r.cols.lookup f).isNone)

def TRow.project (r : TRow) (fields : List FieldId) : Row :=
  { key := r.key, vals := fields.map r.get, mem := r.mem }

def Table.view (t : Table) (includeMem : Bool) : List TRow := if includeMem then t.fresh else t.disk

/-- rows the source gets to read, and the error it then fails with -/
def Table.readable (t : Table) (includeMem : Bool) : List TRow × Option Err :=
  match t.failAt with
  | none => (t.view includeMem, none)
  | some (n, e) => ((t.view includeMem).take n, some e)

/-- `rowStore.iterate(outFields, includeMemStore, _)` on table `t` (after the D15 fix) -/
def Table.scan (t : Table) (fields : List FieldId) (includeMem : Bool) : Stream :=
  let (rows, e) := t.readable includeMem
  { rows := (rows.filter (fun r => !r.blankFor fields)).map (·.project fields), fail := e }

/-! ## the code as found (D3, D8, D15) -/

/-- `maxDeadline`: the latest of the deadlines OF THOSE THAT HAVE ONE -/
def maxDeadline {σ : Type} : List (Iter σ) → Option Nat
  | [] => none
  | it :: its =>
    match it.deadline, maxDeadline its with
    | some d, some m => some (max d m)
    | some d, none => some d
    | none, m => m

/-- pre-fix `combinedOnValue`: the first error aborts the round and the scan for everybody
    (Go ranges over a map here; the model visits the iterations in batch order) -/
def combinedBuggy {σ : Type} (union : List FieldId) (row : Row) :
    List (Iter σ) → List (ItState σ) → List (ItState σ) × Bool × Option Err
  | it :: its, s :: ss =>
    match s.done with
    | some _ =>
      let (ss', more, err) := combinedBuggy union row its ss
      (s :: ss', more, err)
    | none =>
      let itVals := mapBack union it.fields row.vals
      let (st', itMore, err) := it.onValue s.st row.key itVals
      let recv := s.recv ++ [(row.key, itVals)]
      match err with
      | some e => ({ st := st', recv := recv, done := none } :: ss, false, some e)
      | none =>
        if !itMore then
          let (ss', more, err) := combinedBuggy union row its ss
          ({ st := st', recv := recv, done := some none } :: ss', more, err)
        else
          let (ss', _, err) := combinedBuggy union row its ss
          ({ st := st', recv := recv, done := none } :: ss', true, err)
  | _, _ => ([], false, none)

/-- pre-fix `fileStore.iterate` + `rowStore.iterate` guard with the shared deadline `dl`:
    an error (or deadline) raised during the file loop is returned; one raised during the
    memstore walk ends the walk and is DROPPED (D3); `fail` is the source's own error, seen
    only when the rows run out -/
def scanLoopBuggy {σ : Type} (its : List (Iter σ)) (union : List FieldId) (dl : Option Nat)
    (fail : Option Err) : Nat → List Row → List (ItState σ) → List (ItState σ) × Option Err
  | _, [], ss => (ss, fail)
  | n, r :: rs, ss =>
    let (ss', more, err) := combinedBuggy union r its ss
    let (more, err) := proceedAfter (timedOut dl n) more err
    if !more || err.isSome then (ss', if r.mem then none else err)
    else scanLoopBuggy its union dl fail (n + 1) rs ss'

/-- pre-fix file loop: a blank file row ends the scan with a nil error (D15) -/
def Table.scanBuggy (t : Table) (fields : List FieldId) (includeMem : Bool) : Stream :=
  let (rows, e) := t.readable includeMem
  let kept := rows.takeWhile (fun r => !r.blankFor fields)
  { rows := kept.map (·.project fields), fail := if kept.length = rows.length then e else none }

/-- pre-fix `doProcessIterations`: shared deadline, and ONE error for everybody -/
def doProcessIterationsBuggy {σ : Type} (scan : List FieldId → Bool → Stream) (its : List (Iter σ)) :
    List (ItResult σ) :=
  let union := unionFields its []
  let strm := scan union (orMem its)
  let (ss, err) := scanLoopBuggy its union (maxDeadline its) strm.fail 0 strm.rows (its.map Iter.start)
  ss.map (fun s => { st := s.st, recv := s.recv, err := err })

/-! ## stock consumers (driver, witnesses) -/

/-- count the rows; stop (`more = false`) when the `k`-th row arrives -/
def stopAt (k : Nat) : Nat → String → List Val → Nat × Bool × Option Err :=
  fun n _ _ => (n + 1, decide (n + 1 < k), none)

/-- count the rows; return an error when the `k`-th row arrives -/
def errAt (k code : Nat) : Nat → String → List Val → Nat × Bool × Option Err :=
  fun n _ _ => (n + 1, true, if n + 1 = k then some (.consumer code) else none)

/-- take everything -/
def collect : Nat → String → List Val → Nat × Bool × Option Err :=
  fun n _ _ => (n + 1, true, none)

/-- a consumer that does not react to rows without any value (every consumer in the repo:
    `group` sub-merges nothing, `flatten` emits nothing for such a row) -/
def ignoringBlank (c : Nat → String → List Val → Nat × Bool × Option Err) :
    Nat → String → List Val → Nat × Bool × Option Err :=
  fun n key vals => if vals.all (·.isNone) then (n, true, none) else c n key vals

end Zeno.Coalesce
