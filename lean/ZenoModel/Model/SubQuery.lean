/-
M-SUBQUERY — a query whose source is not a table but the plan of another query:
`SELECT <fields> FROM (SELECT …) [WHERE] [GROUP BY] [HAVING]`.

/repo/planner/local.go: `planLocal` with `query.FromSubQuery != nil` → `sourceForSubQuery`
(`Plan(sub)` wrapped in `core.Unflatten(subSource, query.FieldsNoHaving)`), then the very same
`asOfUntilFor` / `resolutionFor` / `applySubQueryFilters` / `addGroupBy` / `Flatten` / `addHaving`
as over a table — but everything those functions ask of a table (`GetResolution`, `GetAsOf`,
`GetUntil`) is now answered by the SUB-PLAN: its group operator when it has one
(/repo/core/group.go `GetResolution/GetAsOf/GetUntil`), else its table.
/repo/core/unflatten.go: every flat row of the sub-plan becomes one source row whose columns are
`encoding.NewValue(field.Expr, row.TS, params = the row's values by field name, metadata = row.Key)`
— a one-period sequence ending at the row's timestamp, holding the outer field updated once.

Three things are defined:
 * `SrcWin`, `planOver`       — `planLocal`'s window/resolution logic over an arbitrary source;
 * `runOver`                  — the code path (unflatten → row filter → group → flatten → having);
 * `specOver`                 — the SPEC: the materialised rows are POINTS (key, timestamp, named
                                values); WHERE keeps points by key, the window keeps timestamps in
                                (asOf, until], a point goes to the bucket (projected key, out period)
                                and every selected expression is accumulated directly (`Ex.acc`).
`specOver` over a table's window and accepted rows IS `specQuery` (Props/C08Sub.lean).
-/
import ZenoModel.Model.QuerySpec

namespace Zeno

/-- what `planLocal` asks of its source -/
structure SrcWin where
  res : Int     -- GetResolution()
  asOf : Int    -- GetAsOf()
  hi : Int      -- GetUntil()
  deriving Repr, Inhabited, DecidableEq

/-- a table as a source (`getQueryable`) -/
def tableSrc (cfg : TableCfg) (now : Int) : SrcWin :=
  { res := cfg.res, asOf := tableAsOf cfg now, hi := tableUntil cfg now }

/-- `asOfUntilFor` over any source -/
def windowOver (s : SrcWin) (now : Int) (q : Query) : Window :=
  let srcAsOf := s.asOf
  let srcUntil := s.hi
  let qa := roundUp (if q.asOfOffset ≠ 0 then now + q.asOfOffset else q.asOf) s.res
  let qu := roundUp (if q.untilOffset ≠ 0 then now + q.untilOffset else q.hi) s.res
  let asOfChanged := qa ≠ 0 && qa ≠ srcAsOf
  let untilChanged := qu ≠ 0 && qu ≠ srcUntil
  { asOf := if asOfChanged then qa else srcAsOf, hi := if untilChanged then qu else srcUntil,
    asOfChanged := asOfChanged, untilChanged := untilChanged, qAsOf := qa, qUntil := qu }

/-- `resolutionFor` over any source -/
def resolutionOver (s : SrcWin) (q : Query) (w : Window) : Except QErr (Int × Int × Bool × Bool) :=
  let res0 := if q.resolution = 0 then s.res else q.resolution
  if q.stride > 0 ∧ q.stride % s.res ≠ 0 then .error .strideNotMultiple
  else
    let resolution := if q.stride > 0 then q.stride else res0
    let strideSlice : Int := if q.stride > 0 then res0 else 0
    let window := w.hi - w.asOf
    let truncated := decide (resolution > window)
    let resolution := if resolution > window then window else resolution
    let changed := decide (resolution ≠ s.res)
    if changed ∧ resolution < s.res then .error .resolutionTooFine
    else if changed ∧ resolution % s.res ≠ 0 then .error .resolutionNotMultiple
    else .ok (resolution, strideSlice, changed, truncated)

/-- `planLocal` over any source -/
def planOver (s : SrcWin) (now : Int) (q : Query) : Except QErr Plan :=
  let w := windowOver s now q
  if w.asOf < s.asOf then .error .asOfBeforeTable
  else match resolutionOver s q w with
    | .error e => .error e
    | .ok (resolution, strideSlice, changed, truncated) =>
      let needs := w.asOfChanged || w.untilChanged || changed || !q.groupByAll || q.hasSpecificFields ||
        q.hasHaving || decide (strideSlice > 0)
      .ok { asOf := w.asOf, hi := w.hi, asOfChanged := w.asOfChanged, untilChanged := w.untilChanged,
            qAsOf := w.qAsOf, qUntil := w.qUntil, resolution := resolution, strideSlice := strideSlice,
            resolutionChanged := changed, resolutionTruncated := truncated, needsGroupBy := needs }

/-- the group operator's own window (`group.GetResolution/GetUntil/GetAsOf`), given the plan -/
def groupWin (s : SrcWin) (pl : Plan) : SrcWin :=
  let gRes := if pl.resolutionTruncated || pl.resolutionChanged then pl.resolution else s.res
  let gUntil := if pl.qUntil = 0 then s.hi else pl.qUntil
  let gAsOf0 := if pl.qAsOf = 0 then s.asOf else pl.qAsOf
  let gAsOf := if gUntil - gAsOf0 < gRes then gUntil - gRes else gAsOf0
  { res := gRes, asOf := gAsOf, hi := gUntil }

/-- what the PLAN of a query over source `s` answers when it is itself used as a source:
    flatten / having / sort / limit delegate to the group operator if the plan has one, else to `s` -/
def planWin (s : SrcWin) (now : Int) (q : Query) : Except QErr SrcWin := do
  let pl ← planOver s now q
  pure (if pl.needsGroupBy then groupWin s pl else s)

/-- `core.Unflatten` for one flat row (`r.period` = the row's timestamp, `r.pt.vals` = its values by
    field name); `conds` = the IF conditions of the outer fields that hold on the row's key -/
def unflattenRow (x : Ext) (inFields : List Field) (conds : List Nat) (r : AccRow) : Row :=
  let pt : Pt := { r.pt with conds := r.pt.conds ++ conds }
  { key := r.key, cols := inFields.map (fun f => (some ⟨r.period, [f.ex.upd x f.ex.empty pt]⟩ : Sq)) }

/-- `core.Group` over the unflattened rows (as `groupRows`, with the source's resolution and window) -/
def groupRowsOver (s : SrcWin) (q : Query) (pl : Plan) (inFields : List Field)
    (metas : List KeyMeta) (rows : List Row) : List Row × Int :=
  let g := groupWin s pl
  let inExprs := inFields.map (·.ex)
  let sms := q.outFields.map (fun f => dedupInputs inExprs (f.ex.subMergers inExprs))
  let slice := fun (k : Key) => if q.groupBy.isEmpty then k else k.filter (fun kv => q.groupBy.contains kv.1)
  let step := fun (out : List Row) (r : Row) =>
    let km := (metas.find? (fun m => m.key == r.key)).getD { key := r.key }
    let pt : Pt := { vals := [], conds := km.conds }
    let k := slice r.key
    let cur := match out.find? (fun o => o.key == k) with
      | some o => o.cols
      | none => q.outFields.map (fun _ => (none : Sq))
    let cols := ((q.outFields.zip sms).zip cur).map (fun ((f, smsO), c) =>
      ((smsO.zip inFields).zip r.cols).foldl (fun (acc : Sq) ((sm, inF), inCol) =>
        match sm with
        | none => acc
        | some sm => Sq.subMerge f.ex inF.ex sm g.res s.res acc inCol pt g.asOf g.hi pl.strideSlice) c)
    if out.any (fun o => o.key == k) then out.map (fun o => if o.key == k then { o with cols := cols } else o)
    else out ++ [{ key := k, cols := cols }]
  (rows.foldl step [], g.res)

/-- the fields handed to `Unflatten`: `query.FieldsNoHaving` -/
def fieldsNoHaving (q : Query) : List Field := if q.hasHaving then q.outFields.dropLast else q.outFields

/-- the code path of the outer query over the materialised rows of the sub-plan.
    `havingInUnflatten = false`: the code as found — `Unflatten` computes `query.FieldsNoHaving`, so the
    group operator's `_having` field has an input only where its sub-expressions print like selected
    columns (finding C08-fromsub-having-unselected); `true`: `Unflatten` computes the helper as well
    (the proposed repair); the harness asks the real code which of the two it is. -/
def runOver (x : Ext) (s : SrcWin) (now : Int) (rows : List AccRow) (q : Query) (metas : List KeyMeta)
    (havingInUnflatten : Bool := false) : Except QErr (List QRow) := do
  let pl ← planOver s now q
  let inFields := if havingInUnflatten then q.outFields else fieldsNoHaving q
  if inFields.isEmpty then throw .noFields
  let metaOf := fun (k : Key) => (metas.find? (fun m => m.key == k)).getD { key := k }
  let src := rows.map (fun r => unflattenRow x inFields (metaOf r.key).conds r)
  let src := if q.hasWhere then src.filter (fun r => (metaOf r.key).whereOk) else src
  let (grouped, fields, res) :=
    if pl.needsGroupBy then
      let (g, gRes) := groupRowsOver s q pl inFields metas src
      (g, q.outFields, gRes)
    else (src, inFields, s.res)
  let flat := grouped.flatMap (flattenRow x fields res)
  pure (if q.hasHaving then havingFilter flat else flat)

/-- SPEC of a query over materialised rows taken as points -/
def specOver (x : Ext) (s : SrcWin) (now : Int) (rows : List AccRow) (q : Query) (metas : List KeyMeta) :
    Except QErr (List QRow) := do
  let pl ← planOver s now q
  let P := if pl.resolutionTruncated || pl.resolutionChanged then pl.resolution else s.res
  let hi := if pl.qUntil = 0 then s.hi else pl.qUntil
  let lo0 := if pl.qAsOf = 0 then s.asOf else pl.qAsOf
  let lo := if hi - lo0 < P then hi - P else lo0
  let metaOf := fun (k : Key) => (metas.find? (fun m => m.key == k)).getD { key := k }
  let rows := if q.hasWhere then rows.filter (fun r => (metaOf r.key).whereOk) else rows
  let rows := rows.filter (fun r => lo < r.period ∧ r.period ≤ hi)
  let slice := fun (k : Key) => if q.groupBy.isEmpty then k else k.filter (fun kv => q.groupBy.contains kv.1)
  let bucketOf := fun (r : AccRow) => (slice r.key, hi - ((hi - r.period) / P) * P)
  let buckets := (rows.map bucketOf).eraseDups
  let out := buckets.filterMap (fun (k, T) =>
    let mine := rows.filter (fun r => bucketOf r == (k, T))
    let pts := mine.map (fun r => { r.pt with conds := r.pt.conds ++ (metaOf r.key).conds })
    let vs := q.outFields.map (fun f => (f.ex.val x (f.ex.acc x pts), f.ex.isConstant))
    if vs.any (fun (v, c) => v.isSome && !c) then
      some ({ ts := T, key := k, vals := vs.map (fun (v, _) => v.getD 0) } : QRow)
    else none)
  pure (if q.hasHaving then havingFilter out else out)

/-- a flat result row as a point -/
def QRow.asPoint (names : List String) (r : QRow) : AccRow :=
  { key := r.key, period := r.ts, pt := { vals := names.zip r.vals } }

/-! ### `dim IN (…)` over values that may be missing

`planSubQueries` collects `row.Key.Get(dim)` of every sub-query row — `nil` when the row's key
lacks the dimension — and `goexpr.In` compares with `doEq`, for which `nil = nil`.  Dimension
values are modelled as `Option String` (`none` = the key lacks the dimension). -/

/-- `goexpr.In` restricted to values that are missing or non-empty, non-zero texts/numbers -/
def inList (vs : List (Option String)) (v : Option String) : Bool := vs.contains v

/-- the values a sub-query result contributes: one per row, duplicates and `none` included -/
def subQueryValues (dim : String) (rows : List QRow) : List (Option String) :=
  rows.map (fun r => (r.key.find? (fun kv => kv.1 == dim)).map (·.2))

end Zeno
