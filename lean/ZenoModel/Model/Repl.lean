/-
M-REPL — the replication protocol between passthrough leaders and followers, at message level
(Go: cluster_follow.go `Follow` / `processFollowers` / `onFollowerJoined` / `followWAL` /
`followLeaders` / `doFollowLeaders` / `makeFollows`, insert.go `processInserts` (follower
side), row_store.go `processInserts` / `flush` / `writeOffsets` / `openRowStore`, table.go
`startFollowing`, server/server.go `followSource`).

Actors.  Leaders `l : LId` (a WAL = list of entries with strictly increasing offsets, kept
across restarts; per (table, follower) a `followSpec.offset`; the WAL reader position
`cursor`).  Followers `f : FId` of partition `cx.part f` (per table and source the in-memory
dedup offset `prior` of `doFollowLeaders`, the table pipeline `pending` between
`doFollowLeaders` and the row store, the row store abstracted by the list of (source, offset)
APPLICATIONS it reflects: in memory (`memApps`, with `memOff` = `memstore.offsetsBySource`),
on disk — TWO records, as in row_store.go: the newest filestore (`diskApps` with the offsets of
its header `diskOff`, written by a flush that finds data in the memstore) and the `offset` file
(`offFile`, rewritten only by a flush that finds the memstore EMPTY while its offsets advanced,
i.e. after skipped entries only); `openRowStore` recovers the data of the filestore and, per
source, the MAXIMUM of the two offset records (`recOff`; `cx.recoverMax = false` is the variant
"an existing offset file wins", kept for the counterexample) — and in a directory
snapshot; refinement of applications to aggregates is C01/C02).  Links (leader, follower):
FIFO, can be cut, entries in flight are then lost.

Offsets are abstracted to `Nat` (only their order is ever used by the code: `Offset.After`);
`0` is the nil offset.  All nodes have the same tables `cx.tables`; a follow spec is keyed by
(table, follower) — in the code by (partition-key set, table name, follower), and a table has
one key set.  The routing decision of a point for a table is the parameter `cx.pid`
(= `Route.partitionFor h (sortKeys T.keys) dims N`), its WHERE the parameter `cx.whereOk`.

Connections.  `connect l f` = the follower calls `Follow` (first connection, or
`followSource`'s reconnect): the request carries `EarliestOffset` by value (`reqEarliest`),
an older connection of the pair is gone.  `join l f claim` = `processFollowers` handles the
request (`onFollowerJoined` for all tables of the follower, then the WAL reader is restarted at
the minimum spec offset): `spec := max(claim t, EarliestOffset)`.  `claim t` is the table offset
the request shows; the request shares the follower's LIVE per-table offset map
(`PartitionTable.Offsets` is the map `doFollowLeaders` keeps updating), so over gRPC it is the
dedup offset at the time the request was encoded and in-process at the time the leader reads it:
some value the table's dedup offset had since the table started (`startOff ≤ claim t ≤ prior`,
the guard: a follower never asks for less than what it recovered from its directory).  A request may be
handled after its connection (or its follower) has gone: the specs are created all the same,
the link stays down.  The follower's callback runs once per source concurrently
(`followSource` is one goroutine per leader): `inflight` is per (follower, source).  An entry
wanted by k tables of a follower is appended k times to `includedFollowers` and delivered k
times (the copies are dropped by the dedup).

`cx.fixedEarliest` selects `makeFollows` after fix C12-fix-01 (EarliestOffset = minimum over ALL
tables, a table without an offset for the source counting as nil) or as found (minimum over the
tables that HAVE an offset for the source).

`done` is a history variable (highest offset the leader has considered for a spec since the
spec was created); no transition reads it.

Outside the model: `MaxFollowQueue` back-pressure, `MaxFollowAge`, a leader whose WAL was
truncated below a follower's offset, tables created after the follower's start-up timers
(`followLeaders`' cancel path), points without any numeric value (neither inserted nor
skipped by `doInsert`), two Follow requests of one pair overtaking each other.
-/
namespace Zeno.Repl

abbrev LId := Nat
abbrev FId := Nat
abbrev TId := Nat

structure Entry where
  off : Nat
  pt : Nat
deriving DecidableEq, Repr

structure Ctx where
  tables : List TId
  part : FId → Nat
  pid : TId → Nat → Nat
  whereOk : TId → Nat → Bool
  fixedEarliest : Bool
  recoverMax : Bool := true      -- openRowStore: per-source max of offset file and filestore header

/-- partition match ∧ WHERE: the leader's per-table decision (`mapPartitionRequest` +
    `processFollowers`) and the follower's re-check (`table.insert` + `doInsert`) -/
def wants (cx : Ctx) (t : TId) (p : Nat) (pt : Nat) : Bool := cx.pid t pt == p && cx.whereOk t pt

structure State where
  -- leaders
  lup : LId → Bool
  wal : LId → List Entry
  spec : LId → TId → FId → Option Nat
  done : LId → TId → FId → Nat
  cursor : LId → Nat
  joined : LId → List FId
  -- links
  connected : LId → FId → Bool          -- the follower's connection (from its own side)
  reqPending : LId → FId → Bool         -- a Follow request not yet handled by processFollowers
  reqEarliest : LId → FId → Nat         -- its EarliestOffset (copied when Follow was called)
  linkUp : LId → FId → Bool             -- the leader's `follower` object delivers to this connection
  queue : LId → FId → List Nat
  -- followers
  fup : FId → Bool
  inflight : FId → LId → Option (Nat × List TId)   -- per source: followSource runs one goroutine per leader
  earliest : FId → LId → Nat
  prior : FId → TId → LId → Nat
  pending : FId → TId → LId → List Nat
  memOff : FId → TId → LId → Nat
  memApps : FId → TId → LId → List Nat
  dirty : FId → TId → Bool                  -- the memstore tree holds data since the last flush
  startOff : FId → TId → LId → Nat          -- the offset the table recovered when it started
  diskOff : FId → TId → LId → Nat           -- offsets in the header of the newest filestore
  diskApps : FId → TId → LId → List Nat     -- its data
  offFile : FId → TId → LId → Nat           -- the `offset` file
  snapOff : FId → TId → LId → Nat
  snapApps : FId → TId → LId → List Nat
  snapOffFile : FId → TId → LId → Nat

def State.init : State where
  lup := fun _ => true
  wal := fun _ => []
  spec := fun _ _ _ => none
  done := fun _ _ _ => 0
  cursor := fun _ => 0
  joined := fun _ => []
  connected := fun _ _ => false
  reqPending := fun _ _ => false
  reqEarliest := fun _ _ => 0
  linkUp := fun _ _ => false
  queue := fun _ _ => []
  fup := fun _ => false
  inflight := fun _ _ => none
  earliest := fun _ _ => 0
  prior := fun _ _ _ => 0
  pending := fun _ _ _ => []
  memOff := fun _ _ _ => 0
  memApps := fun _ _ _ => []
  dirty := fun _ _ => false
  startOff := fun _ _ _ => 0
  diskOff := fun _ _ _ => 0
  diskApps := fun _ _ _ => []
  offFile := fun _ _ _ => 0
  snapOff := fun _ _ _ => 0
  snapApps := fun _ _ _ => []
  snapOffFile := fun _ _ _ => 0

inductive Event
  | insert (l : LId) (e : Entry)
  | connect (l : LId) (f : FId)
  | join (l : LId) (f : FId) (claim : TId → Nat)
  | route (l : LId) (o : Nat)
  | msg (f : FId) (l : LId) (o : Nat)
  | recv (f : FId) (t : TId) (l : LId) (o : Nat) (fwd : Bool)
  | msgdone (f : FId) (l : LId) (o : Nat)
  | apply (f : FId) (t : TId) (l : LId) (o : Nat) (hasKey : Bool)
  | persist (f : FId) (t : TId) (data : Bool)
  | snapshot (f : FId)
  | stopFollower (f : FId)
  | restoreSnapshot (f : FId)
  | startFollower (f : FId)
  | cutLink (l : LId) (f : FId)
  | stopLeader (l : LId)
  | startLeader (l : LId)

/-- highest offset of a WAL (0 when empty) -/
def top (W : List Entry) : Nat := W.foldr (fun e m => max e.off m) 0

/-- the first entry strictly after `c` (what the WAL reader positioned at `c` reads next) -/
def nextEntry (W : List Entry) (c : Nat) : Option Entry := W.find? (fun e => decide (c < e.off))

def entryAt (W : List Entry) (o : Nat) : Option Entry := W.find? (fun e => e.off == o)

def minList : List Nat → Nat
  | [] => 0
  | [x] => x
  | x :: xs => min x (minList xs)

/-- all follow-spec offsets of a leader (every follower that ever joined since it started) -/
def specList (cx : Ctx) (spec : TId → FId → Option Nat) (joined : List FId) : List Nat :=
  joined.flatMap (fun f => cx.tables.filterMap (fun t => spec t f))

/-- `makeFollows`: EarliestOffset for one source -/
def earliestOf (cx : Ctx) (off : TId → Nat) : Nat :=
  if cx.fixedEarliest then minList (cx.tables.map off)
  else minList ((cx.tables.map off).filter (fun o => decide (o ≠ 0)))

/-- how many times `processFollowers` appends follower `f` to `includedFollowers` for entry `e`
    (once per table that wants it and whose spec is behind it) -/
def copies (cx : Ctx) (spec : TId → FId → Option Nat) (e : Entry) (f : FId) : Nat :=
  (cx.tables.filter (fun t =>
    match spec t f with
    | some sp => wants cx t (cx.part f) e.pt && decide (sp < e.off)
    | none => false)).length

/-- "Update offset for all specs" of the entry's partition -/
def advance (cx : Ctx) (e : Entry) (t : TId) (f : FId) (sp : Option Nat) : Option Nat :=
  match sp with
  | some s => if cx.pid t e.pt = cx.part f then some (max s e.off) else some s
  | none => none

/-- is the follower in the middle of handing an entry of leader `l` to its tables? -/
def inflightFrom (s : State) (f : FId) (l : LId) : Bool := (s.inflight f l).isSome

/-- `openRowStore`: the offset a table resumes from for one source.  On HEAD the per-source
    maximum of the `offset` file and the header of the newest filestore
    (`offsetsBySource = newOffsetsBySource.Advance(offsetsBySource)`); the variant lets an existing
    offset file win and uses the header only as a fallback. -/
def recOff (cx : Ctx) (s : State) (f : FId) (t : TId) (l : LId) : Nat :=
  if cx.recoverMax then max (s.offFile f t l) (s.diskOff f t l)
  else if s.offFile f t l ≠ 0 then s.offFile f t l else s.diskOff f t l

def step (cx : Ctx) (s : State) : Event → Option State
  | .insert l e =>
      -- InsertRaw: wal.Write; offsets strictly increase, real offsets are never nil
      if s.lup l = true ∧ top (s.wal l) < e.off then
        some { s with wal := fun l' => if l' = l then s.wal l ++ [e] else s.wal l' }
      else none
  | .connect l f =>
      -- the follower calls Follow (server.followSource / first connection): the request carries
      -- EarliestOffset by value; an older connection of the pair is gone
      if s.lup l = true ∧ s.fup f = true ∧ inflightFrom s f l = false then
        some { s with
          connected := fun l' f' => if l' = l ∧ f' = f then true else s.connected l' f'
          reqPending := fun l' f' => if l' = l ∧ f' = f then true else s.reqPending l' f'
          reqEarliest := fun l' f' => if l' = l ∧ f' = f then s.earliest f l else s.reqEarliest l' f'
          linkUp := fun l' f' => if l' = l ∧ f' = f then false else s.linkUp l' f'
          queue := fun l' f' => if l' = l ∧ f' = f then [] else s.queue l' f' }
      else none
  | .join l f claim =>
      -- onFollowerJoined (one follower, all its tables) + restart of the WAL reader at the
      -- minimum spec offset.  `claim t` = the table offset the request shows for this leader:
      -- the request shares the follower's live per-table offset map, so it is some value the
      -- table's dedup offset had between start-up and now (never more than it has now, and an
      -- offset of this leader's WAL even when the request outlived its follower)
      if s.lup l = true ∧ s.reqPending l f = true ∧ (∀ t ∈ cx.tables, claim t ≤ top (s.wal l)) ∧
          (s.connected l f = true → inflightFrom s f l = false ∧
            ∀ t ∈ cx.tables, s.startOff f t l ≤ claim t ∧ claim t ≤ s.prior f t l) then
        let start := fun t => max (claim t) (s.reqEarliest l f)
        let spec' := fun t f' => if f' = f ∧ t ∈ cx.tables then some (start t) else s.spec l t f'
        let joined' := if f ∈ s.joined l then s.joined l else f :: s.joined l
        some { s with
          reqPending := fun l' f' => if l' = l ∧ f' = f then false else s.reqPending l' f'
          spec := fun l' t f' => if l' = l ∧ f' = f ∧ t ∈ cx.tables then some (start t) else s.spec l' t f'
          done := fun l' t f' => if l' = l ∧ f' = f ∧ t ∈ cx.tables then start t else s.done l' t f'
          joined := fun l' => if l' = l then joined' else s.joined l'
          cursor := fun l' => if l' = l then minList (specList cx spec' joined') else s.cursor l'
          linkUp := fun l' f' => if l' = l ∧ f' = f then s.connected l f else s.linkUp l' f'
          queue := fun l' f' => if l' = l ∧ f' = f then [] else s.queue l' f' }
      else none
  | .route l o =>
      -- processFollowers, `case result := <-results`: the next WAL entry
      match nextEntry (s.wal l) (s.cursor l) with
      | some e =>
        if s.lup l = true ∧ e.off = o then
          some { s with
            cursor := fun l' => if l' = l then e.off else s.cursor l'
            queue := fun l' f => if l' = l ∧ s.linkUp l f = true
                                 then s.queue l f ++ List.replicate (copies cx (s.spec l) e f) e.off
                                 else s.queue l' f
            spec := fun l' t f => if l' = l then advance cx e t f (s.spec l t f) else s.spec l' t f
            done := fun l' t f => if l' = l then max (s.done l t f) e.off else s.done l' t f }
        else none
      | none => none
  | .msg f l o =>
      -- follower.read -> cb -> the callback of doFollowLeaders starts on the head of the link
      match s.queue l f with
      | o' :: rest =>
        if s.fup f = true ∧ s.linkUp l f = true ∧ s.inflight f l = none ∧ o' = o then
          some { s with
            queue := fun l' f' => if l' = l ∧ f' = f then rest else s.queue l' f'
            inflight := fun f' l' => if f' = f ∧ l' = l then some (o, cx.tables) else s.inflight f' l' }
        else none
      | [] => none
  | .recv f t l o fwd =>
      -- per table: `if newOffset.After(priorOffset) { in <- walRead; offsets[i][source] = newOffset }`
      match s.inflight f l with
      | some (o', t' :: rest) =>
        if o' = o ∧ t' = t ∧ fwd = decide (s.prior f t l < o) then
          some { s with
            inflight := fun f' l' => if f' = f ∧ l' = l then some (o, rest) else s.inflight f' l'
            prior := fun f' t'' l'' => if f' = f ∧ t'' = t ∧ l'' = l ∧ fwd = true then o else s.prior f' t'' l''
            pending := fun f' t'' l'' => if f' = f ∧ t'' = t ∧ l'' = l ∧ fwd = true
                                         then s.pending f t l ++ [o] else s.pending f' t'' l'' }
        else none
      | _ => none
  | .msgdone f l o =>
      -- callback returned nil; followSource: `f.EarliestOffset = newOffset`
      match s.inflight f l with
      | some (o', []) =>
        if o' = o then
          some { s with
            inflight := fun f' l' => if f' = f ∧ l' = l then none else s.inflight f' l'
            earliest := fun f' l'' => if f' = f ∧ l'' = l then o else s.earliest f' l'' }
        else none
      | _ => none
  | .apply f t l o hasKey =>
      -- table.processInserts -> insert/skip -> rowStore.processInserts:
      -- `ms.offsetsBySource[source] = offset; if insert.key != nil { tree.Update }`
      match s.pending f t l, entryAt (s.wal l) o with
      | o' :: rest, some e =>
        if s.fup f = true ∧ o' = o ∧ hasKey = wants cx t (cx.part f) e.pt then
          some { s with
            pending := fun f' t' l' => if f' = f ∧ t' = t ∧ l' = l then rest else s.pending f' t' l'
            memOff := fun f' t' l' => if f' = f ∧ t' = t ∧ l' = l then o else s.memOff f' t' l'
            memApps := fun f' t' l' => if f' = f ∧ t' = t ∧ l' = l ∧ hasKey = true
                                       then s.memApps f t l ++ [o] else s.memApps f' t' l'
            dirty := fun f' t' => if f' = f ∧ t' = t ∧ hasKey = true then true else s.dirty f' t' }
        else none
      | _, _ => none
  | .persist f t true =>
      -- flush with data in the memstore: a new filestore (data + the memstore's offsets in its
      -- header), all sources at once; the `offset` file is left as it is
      if s.fup f = true then
        some { s with
          diskOff := fun f' t' l => if f' = f ∧ t' = t then s.memOff f t l else s.diskOff f' t' l
          diskApps := fun f' t' l => if f' = f ∧ t' = t then s.memApps f t l else s.diskApps f' t' l
          dirty := fun f' t' => if f' = f ∧ t' = t then false else s.dirty f' t' }
      else none
  | .persist f t false =>
      -- flush that finds the memstore EMPTY while its offsets advanced (only skipped entries
      -- arrived since the last flush): `writeOffsets` rewrites the `offset` file
      if s.fup f = true ∧ s.dirty f t = false then
        some { s with
          offFile := fun f' t' l => if f' = f ∧ t' = t then s.memOff f t l else s.offFile f' t' l }
      else none
  | .snapshot f =>
      some { s with
        snapOff := fun f' t l => if f' = f then s.diskOff f t l else s.snapOff f' t l
        snapApps := fun f' t l => if f' = f then s.diskApps f t l else s.snapApps f' t l
        snapOffFile := fun f' t l => if f' = f then s.offFile f t l else s.snapOffFile f' t l }
  | .stopFollower f =>
      if s.fup f = true then
        some { s with
          fup := fun f' => if f' = f then false else s.fup f'
          inflight := fun f' l => if f' = f then none else s.inflight f' l
          connected := fun l f' => if f' = f then false else s.connected l f'
          linkUp := fun l f' => if f' = f then false else s.linkUp l f'
          queue := fun l f' => if f' = f then [] else s.queue l f' }
      else none
  | .restoreSnapshot f =>
      if s.fup f = false then
        some { s with
          diskOff := fun f' t l => if f' = f then s.snapOff f t l else s.diskOff f' t l
          diskApps := fun f' t l => if f' = f then s.snapApps f t l else s.diskApps f' t l
          offFile := fun f' t l => if f' = f then s.snapOffFile f t l else s.offFile f' t l }
      else none
  | .startFollower f =>
      -- openRowStore: the memstore starts from the newest filestore, the offsets are the
      -- per-source maximum of the `offset` file and the filestore's header (`recOff`);
      -- startFollowing/followLeaders/makeFollows: the announced table offsets and EarliestOffset
      -- are those recovered offsets
      if s.fup f = false then
        some { s with
          fup := fun f' => if f' = f then true else s.fup f'
          inflight := fun f' l => if f' = f then none else s.inflight f' l
          prior := fun f' t l => if f' = f then recOff cx s f t l else s.prior f' t l
          startOff := fun f' t l => if f' = f then recOff cx s f t l else s.startOff f' t l
          pending := fun f' t l => if f' = f then [] else s.pending f' t l
          memOff := fun f' t l => if f' = f then recOff cx s f t l else s.memOff f' t l
          memApps := fun f' t l => if f' = f then s.diskApps f t l else s.memApps f' t l
          dirty := fun f' t => if f' = f then false else s.dirty f' t
          earliest := fun f' l => if f' = f then earliestOf cx (fun t => recOff cx s f t l) else s.earliest f' l }
      else none
  | .cutLink l f =>
      some { s with
        connected := fun l' f' => if l' = l ∧ f' = f then false else s.connected l' f'
        linkUp := fun l' f' => if l' = l ∧ f' = f then false else s.linkUp l' f'
        queue := fun l' f' => if l' = l ∧ f' = f then [] else s.queue l' f' }
  | .stopLeader l =>
      -- specs, followers map and WAL readers are process state; the WAL stays
      if s.lup l = true then
        some { s with
          lup := fun l' => if l' = l then false else s.lup l'
          spec := fun l' t f => if l' = l then none else s.spec l' t f
          joined := fun l' => if l' = l then [] else s.joined l'
          cursor := fun l' => if l' = l then 0 else s.cursor l'
          connected := fun l' f => if l' = l then false else s.connected l' f
          reqPending := fun l' f => if l' = l then false else s.reqPending l' f
          linkUp := fun l' f => if l' = l then false else s.linkUp l' f
          queue := fun l' f => if l' = l then [] else s.queue l' f }
      else none
  | .startLeader l =>
      if s.lup l = false then some { s with lup := fun l' => if l' = l then true else s.lup l' }
      else none

/-- run a trace; `none` = some event was not accepted -/
def run (cx : Ctx) : State → List Event → Option State
  | s, [] => some s
  | s, ev :: evs => match step cx s ev with
    | some s' => run cx s' evs
    | none => none

/-- index of the first rejected event, if any -/
def firstRejected (cx : Ctx) : State → List Event → Nat → Option Nat
  | _, [], _ => none
  | s, ev :: evs, i => match step cx s ev with
    | some s' => firstRejected cx s' evs (i + 1)
    | none => some i

/-- offsets of the WAL entries with property `P` -/
def offsOf (W : List Entry) (P : Entry → Bool) : List Nat := (W.filter P).map (·.off)

/-- what table `t` of follower `f` must reflect from leader `l` once caught up: exactly the
    accepted entries routed to its partition that pass the table's WHERE, each once, in order -/
def routedOffs (cx : Ctx) (W : List Entry) (t : TId) (f : FId) : List Nat :=
  offsOf W (fun e => wants cx t (cx.part f) e.pt)

end Zeno.Repl
