/-
M-STORE, one column — what the row store does to the series of ONE field of ONE
key: the memstore series (`mem`), the series in the current file (`file`) and the
database clock (`now`).  The operations are exactly the expressions the Store model
applies to a column (`memUpdate`, `mergeMemCols`, `writeRow`, `Store.iterate`); the
list-of-rows plumbing around them is tied by the `store` correspondence engine.
-/
import ZenoModel.Model.Seq

namespace Zeno

structure ColCfg where
  e : Ex
  res : Int
  retention : Int
  deriving Repr, Inhabited

structure Col where
  file : Sq := none
  mem : Sq := none
  now : Int := 0
  deriving Repr, Inhabited

inductive ColOp
  | ingest (ts : Int) (pt : Pt)  -- a row of an accepted point with this key
  | tick (ts : Int)              -- an accepted point with another key: only the clock moves
  | late (ts : Int)              -- any rejected point (too old, WHERE false): nothing happens
  | flush (raw : Bool)           -- `raw`: pass-through allowed (not a 10th flush, same fields)
  deriving Repr, Inhabited, DecidableEq

/-- is a point with timestamp `ts` accepted at clock `now` (`table.insert`'s age check) -/
def accepted (cfg : ColCfg) (now ts : Int) : Bool := !(ts < now - cfg.retention)

def Col.step (x : Ext) (cfg : ColCfg) (c : Col) : ColOp → Col
  | .ingest ts pt =>
      if accepted cfg c.now ts then
        { c with mem := Sq.updateValue x cfg.e cfg.res c.mem ts pt 0, now := max c.now ts }
      else c
  | .tick ts => if accepted cfg c.now ts then { c with now := max c.now ts } else c
  | .late _ => c
  | .flush raw =>
      let tb := c.now - cfg.retention
      if raw && c.mem.isNone then c
      else { c with file := Sq.truncate (Sq.merge cfg.e cfg.res c.file c.mem tb) cfg.res tb 0, mem := none }

def Col.run (x : Ext) (cfg : ColCfg) (ops : List ColOp) : Col := ops.foldl (Col.step x cfg) {}

/-- what a scan hands out for this column (`Store.iterate`) -/
def Col.view (cfg : ColCfg) (c : Col) (includeMem : Bool) : Sq :=
  if includeMem then Sq.merge cfg.e cfg.res c.file c.mem (c.now - cfg.retention) else c.file

/-- SPEC: clock and per-period state as a fold over the raw operations — no sequences,
    no flushes, no files -/
structure ColSpec where
  now : Int := 0
  cells : Int → List Cell

def ColSpec.init (cfg : ColCfg) : ColSpec := { cells := fun _ => cfg.e.empty }

def ColSpec.step (x : Ext) (cfg : ColCfg) (s : ColSpec) : ColOp → ColSpec
  | .ingest ts pt =>
      if accepted cfg s.now ts then
        let P := roundUp ts cfg.res
        { now := max s.now ts, cells := fun T => if T = P then cfg.e.upd x (s.cells T) pt else s.cells T }
      else s
  | .tick ts => if accepted cfg s.now ts then { s with now := max s.now ts } else s
  | .late _ => s
  | .flush _ => s

def ColSpec.run (x : Ext) (cfg : ColCfg) (ops : List ColOp) : ColSpec :=
  ops.foldl (ColSpec.step x cfg) (ColSpec.init cfg)

end Zeno
