/-
M-EXPR — model of /repo/expr/*.go (accumulator algebra).

The Go code keeps an expression's state in a byte string and every method
consumes a prefix of it and returns the remainder.  The model keeps the same
shape with a `List Cell` instead of bytes: one `Cell` per stateful leaf
(`aggregate`, `avg`, `ptile`), in the left-to-right order of the Go layout.
Leaf arithmetic (`aggUpdate`, `aggMerge`, `binCalc`) comes from
`Generated/Leaves.lean`, which the extractor regenerates from
`expr/aggregates.go`, `expr/calcs.go`, `expr/conds.go` on every run.

float64 is modelled as `Rat`; `math.Log*` and hdrhistogram's quantile as
uninterpreted functions in `Ext`.
-/
import ZenoModel.Generated.Leaves

namespace Zeno

inductive AggKind | sum | min | max | count
  deriving DecidableEq, Repr, Inhabited

inductive BinOp | add | sub | mul | div | lt | le | eq | ne | ge | gt | and | or
  deriving DecidableEq, Repr, Inhabited

/-- external (uninterpreted) functions -/
structure Ext where
  unaryFn : Nat → Rat → Rat          -- LN / LOG2 / LOG10 by id
  quant   : List Nat → Rat → Rat     -- hdrhistogram ValueAtQuantile, descaled
  deriving Inhabited

/-- Expression trees, one constructor per Go type in `expr/`. -/
inductive Ex
  | field (n : String)
  | const (v : Rat)
  | agg (k : AggKind) (w : Ex)
  | avg (v w : Ex)
  | bin (op : BinOp) (l r : Ex)
  | ifE (c : Nat) (w : Ex)               -- condition `c` is evaluated outside (goexpr)
  | bounded (w : Ex) (lo hi : Rat)
  | shift (w : Ex) (off : Int)
  | unary (f : Nat) (w : Ex)
  | ptile (id : Nat) (v p : Ex) (n : Nat) -- `n` = number of histogram counts
  deriving DecidableEq, Repr, Inhabited

/-- One stateful leaf.  `none` = the "was set" marker is clear. -/
inductive Cell
  | agg (v : Option Rat)
  | avg (v : Option (Rat × Rat))         -- (count, total)
  | hist (v : Option (List Nat))
  deriving DecidableEq, Repr, Inhabited

/-- What an update sees: the point's values (`expr.Params`), which IF conditions
    hold for the point's dims (`metadata`; `noMeta` = metadata == nil) and, for
    every PERCENTILE id, the histogram bucket of the value to be recorded. -/
structure Pt where
  vals   : List (String × Rat)
  conds  : List Nat := []
  noMeta : Bool := false
  bucket : List (Nat × Nat) := []
  deriving Repr, Inhabited, DecidableEq

def Pt.get (p : Pt) (n : String) : Option Rat := (p.vals.find? (·.1 == n)).map (·.2)
def Pt.includes (p : Pt) (c : Nat) : Bool := p.noMeta || p.conds.contains c
def Pt.bucketOf (p : Pt) (id : Nat) : Option Nat := (p.bucket.find? (·.1 == id)).map (·.2)

def aggUpdate : AggKind → Bool → Rat → Rat → Rat
  | .sum => Gen.agg_SUM_update
  | .min => Gen.agg_MIN_update
  | .max => Gen.agg_MAX_update
  | .count => Gen.agg_COUNT_update

def aggMerge : AggKind → Bool → Rat → Rat → Rat
  | .sum => Gen.agg_SUM_merge
  | .min => Gen.agg_MIN_merge
  | .max => Gen.agg_MAX_merge
  | .count => Gen.agg_COUNT_merge

def b2r (b : Bool) : Rat := if b then 1 else 0

def binCalc : BinOp → Rat → Rat → Rat
  | .add => Gen.bin_add
  | .sub => Gen.bin_sub
  | .mul => Gen.bin_mul
  | .div => Gen.bin_div
  | .lt => fun l r => b2r (Gen.cond_lt l r)
  | .le => fun l r => b2r (Gen.cond_le l r)
  | .eq => fun l r => b2r (Gen.cond_eq l r)
  | .ne => fun l r => b2r (Gen.cond_ne l r)
  | .ge => fun l r => b2r (Gen.cond_ge l r)
  | .gt => fun l r => b2r (Gen.cond_gt l r)
  | .and => fun l r => b2r (Gen.cond_and l r)
  | .or => fun l r => b2r (Gen.cond_or l r)

/-- number of cells (`EncodedWidth` counted in leaves) -/
def Ex.width : Ex → Nat
  | .field _ => 0
  | .const _ => 0
  | .agg _ w => 1 + w.width
  | .avg v _ => 1 + v.width
  | .bin _ l r => l.width + r.width
  | .ifE _ w => w.width
  | .bounded w _ _ => w.width
  | .shift w _ => w.width
  | .unary _ w => w.width
  | .ptile _ v _ _ => 1 + v.width

/-- `EncodedWidth` in bytes -/
def Ex.bytes : Ex → Nat
  | .field _ => 0
  | .const _ => 0
  | .agg _ w => 9 + w.bytes
  | .avg v _ => 17 + v.bytes
  | .bin _ l r => l.bytes + r.bytes
  | .ifE _ w => w.bytes
  | .bounded w _ _ => w.bytes
  | .shift w _ => w.bytes
  | .unary _ w => w.bytes
  | .ptile _ v _ n => (1 + n) * 8 + v.bytes

/-- `Shift()` -/
def Ex.shiftOf : Ex → Int
  | .field _ => 0
  | .const _ => 0
  | .agg _ w => w.shiftOf
  | .avg v w => min v.shiftOf w.shiftOf
  | .bin _ l r => min l.shiftOf r.shiftOf
  | .ifE _ w => w.shiftOf
  | .bounded w _ _ => w.shiftOf
  | .shift w off => off + w.shiftOf
  | .unary _ w => w.shiftOf
  | .ptile _ v p _ => min v.shiftOf p.shiftOf

def Ex.isConstant : Ex → Bool
  | .field _ => false
  | .const _ => true
  | .agg _ _ => false   -- /repo 5a0faf6: an aggregate always reads its state
  | .avg _ _ => false
  | .bin _ l r => l.isConstant && r.isConstant
  | .ifE _ w => w.isConstant
  | .bounded w _ _ => w.isConstant
  | .shift w _ => w.isConstant
  | .unary _ w => w.isConstant
  | .ptile _ _ _ _ => false

/-- The stateless expressions an aggregate may wrap (`validateWrappedInAggregate`):
    field, constant, or BOUNDED of such. -/
def Ex.isLeafArg : Ex → Bool
  | .field _ => true
  | .const _ => true
  | .bounded w _ _ => w.isLeafArg
  | _ => false

/-- `Validate()` restricted to the shapes reachable from the SQL grammar: aggregates
    wrap stateless arguments; AVG weight / PERCENTILE percentile are stateless. -/
def Ex.valid : Ex → Bool
  | .field _ => true
  | .const _ => true
  | .agg _ w => w.isLeafArg
  | .avg v w => v.isLeafArg && w.width == 0
  | .bin _ l r => l.valid && r.valid
  | .ifE _ w => w.valid
  | .bounded w _ _ => w.valid
  | .shift w _ => w.valid
  | .unary _ w => w.valid
  | .ptile _ v p _ => v.isLeafArg && p.width == 0

def calcAvg (count total : Rat) : Rat := Gen.avg_calc count total

def bumpAt : List Nat → Nat → List Nat
  | [], _ => []
  | c :: cs, 0 => (c + 1) :: cs
  | c :: cs, i + 1 => c :: bumpAt cs i

def addCounts : List Nat → List Nat → List Nat
  | a :: as, b :: bs => (a + b) :: addCounts as bs
  | as, [] => as
  | [], bs => bs

/-- `Expr.Get(b)`: value, wasSet, remaining cells. -/
def Ex.get (x : Ext) : Ex → List Cell → Rat × Bool × List Cell
  | .field _, cs => (0, false, cs)
  | .const v, cs => (v, true, cs)
  | .agg _ w, cs =>
      let rest := cs.drop (1 + w.width)
      match cs.head? with
      | some (.agg (some v)) => (v, true, rest)
      | _ => (0, false, rest)
  | .avg v _, cs =>
      let rest := cs.drop (1 + v.width)
      match cs.head? with
      | some (.avg (some (count, total))) => (calcAvg count total, true, rest)
      | _ => (0, false, rest)
  | .bin op l r, cs =>
      let (lv, ls, rest) := l.get x cs
      let (rv, rs, rest) := r.get x rest
      if !ls && !rs then (0, false, rest) else (binCalc op lv rv, true, rest)
  | .ifE _ w, cs => w.get x cs
  | .bounded w lo hi, cs =>
      let (v, s, rest) := w.get x cs
      if !s || !(Gen.bounded_test lo hi v) then (0, false, rest) else (v, s, rest)
  | .shift w _, cs => w.get x cs
  | .unary f w, cs =>
      let (v, s, rest) := w.get x cs
      (if s then x.unaryFn f v else v, s, rest)
  | .ptile _ v p _, cs =>
      let rest := cs.drop (1 + v.width)
      let (pv, _, rest) := p.get x rest
      match cs.head? with
      | some (.hist (some h)) => (x.quant h pv, true, rest)
      | _ => (0, false, rest)

/-- `Expr.Update(b, params, metadata)`: new cells of this expression, remaining
    cells, value, updated. -/
def Ex.update (x : Ext) : Ex → List Cell → Pt → List Cell × List Cell × Rat × Bool
  | .field n, cs, p =>
      match p.get n with
      | some v => ([], cs, v, true)
      | none => ([], cs, 0, false)
  | .const v, cs, _ => ([], cs, v, false)
  | .agg k w, cs, p =>
      let (cur, wasSet) := match cs.head? with
        | some (.agg (some v)) => (v, true)
        | _ => ((0 : Rat), false)
      let (w', rest, wv, upd) := w.update x (cs.drop 1) p
      if upd then
        let nv := aggUpdate k wasSet cur wv
        (.agg (some nv) :: w', rest, nv, true)
      else
        (cs.take 1 ++ w', rest, cur, false)
  | .avg v w, cs, p =>
      let (count, total) := match cs.head? with
        | some (.avg (some ct)) => ct
        | _ => ((0 : Rat), (0 : Rat))
      let (v', rest, vv, upd) := v.update x (cs.drop 1) p
      let (_, rest, wv, _) := w.update x rest p
      if upd then
        let count := count + wv
        let total := total + vv * wv
        (.avg (some (count, total)) :: v', rest, calcAvg count total, true)
      else
        (cs.take 1 ++ v', rest, calcAvg count total, false)
  | .bin op l r, cs, p =>
      let (l', rest, lv, lu) := l.update x cs p
      let (r', rest, rv, ru) := r.update x rest p
      (l' ++ r', rest, binCalc op lv rv, lu || ru)
  | .ifE c w, cs, p =>
      if p.includes c then w.update x cs p
      else
        let (v, _, rest) := w.get x cs
        (cs.take w.width, rest, v, false)
  | .bounded w lo hi, cs, p =>
      let (w', rest, v, upd) := w.update x cs p
      if !(Gen.bounded_test lo hi v) then (w', rest, 0, false) else (w', rest, v, upd)
  | .shift w _, cs, p => w.update x cs p
  | .unary _ w, cs, p => w.update x cs p
  | .ptile id v pe n, cs, p =>
      let h0 := match cs.head? with
        | some (.hist (some h)) => some h
        | _ => none
      let zero := List.replicate n 0
      let (v', rest, _, upd) := v.update x (cs.drop 1) p
      let (_, rest, pv, _) := pe.update x rest p
      if upd then
        match p.bucketOf id with
        | some b =>
            -- `hdrhistogram.New` starts with `n` zero counts
            let h := bumpAt (h0.getD zero) b
            (.hist (some h) :: v', rest, x.quant h pv, true)
        | none => (cs.take 1 ++ v', rest, x.quant (h0.getD zero) pv, true)
      else
        (cs.take 1 ++ v', rest, x.quant (h0.getD zero) pv, false)

/-- merge of two optional leaf values: unset ⊕ y = y, x ⊕ unset = x -/
def mergeOpt {α : Type} (f : α → α → α) : Option α → Option α → Option α
  | none, y => y
  | some x, none => some x
  | some x, some y => some (f x y)

/-- `Expr.Merge(b, x, y)` on values: merged cells, remaining x, remaining y. -/
def Ex.merge : Ex → List Cell → List Cell → List Cell × List Cell × List Cell
  | .field _, xs, ys => ([], xs, ys)
  | .const _, xs, ys => ([], xs, ys)
  | .agg k _, xs, ys =>
      let xv := match xs.head? with | some (.agg v) => v | _ => none
      let yv := match ys.head? with | some (.agg v) => v | _ => none
      ([.agg (mergeOpt (aggMerge k true) xv yv)], xs.drop 1, ys.drop 1)
  | .avg _ _, xs, ys =>
      let xv := match xs.head? with | some (.avg v) => v | _ => none
      let yv := match ys.head? with | some (.avg v) => v | _ => none
      ([.avg (mergeOpt (fun a b => (a.1 + b.1, a.2 + b.2)) xv yv)], xs.drop 1, ys.drop 1)
  | .bin _ l r, xs, ys =>
      let (lo, xs, ys) := l.merge xs ys
      let (ro, xs, ys) := r.merge xs ys
      (lo ++ ro, xs, ys)
  | .ifE _ w, xs, ys => w.merge xs ys
  | .bounded w _ _, xs, ys => w.merge xs ys
  | .shift w _, xs, ys => w.merge xs ys
  | .unary _ w, xs, ys => w.merge xs ys
  | .ptile _ _ _ _, xs, ys =>
      let xv := match xs.head? with | some (.hist v) => v | _ => none
      let yv := match ys.head? with | some (.hist v) => v | _ => none
      ([.hist (mergeOpt addCounts xv yv)], xs.drop 1, ys.drop 1)

/-- the empty (all-zero bytes) state of an expression -/
def Ex.empty : Ex → List Cell
  | .field _ => []
  | .const _ => []
  | .agg _ w => .agg none :: w.empty
  | .avg v _ => .avg none :: v.empty
  | .bin _ l r => l.empty ++ r.empty
  | .ifE _ w => w.empty
  | .bounded w _ _ => w.empty
  | .shift w _ => w.empty
  | .unary _ w => w.empty
  | .ptile _ v _ _ => .hist none :: v.empty

/-- whole-state wrappers (state length = `width`) -/
def Ex.upd (x : Ext) (e : Ex) (cs : List Cell) (p : Pt) : List Cell := (e.update x cs p).1
def Ex.mrg (e : Ex) (xs ys : List Cell) : List Cell := (e.merge xs ys).1
def Ex.val (x : Ext) (e : Ex) (cs : List Cell) : Option Rat :=
  let (v, s, _) := e.get x cs
  if s then some v else none

/-- accumulate a list of points from the empty state -/
def Ex.acc (x : Ext) (e : Ex) (ps : List Pt) : List Cell := ps.foldl (e.upd x) e.empty

end Zeno
