/-
M-HEAP — effect-level model of /repo/encoding/seq.go (after the D1 fix), of the
sub-merge closures of /repo/expr/*.go, of `rowMerger` (/repo/row_store.go) and of
`bytetree.Tree.Copy` (/repo/bytetree/bytetree.go).

The value-level model (Model/Seq.lean, Model/SubMerge.lean) says WHAT a Sequence
operation returns.  This file says WHERE the Go code reads its result from and which
bytes it writes.  A Go slice is a `View` (buffer id, offset, length, capacity) or `nil`;
the heap only records how many buffers exist (`n`; fresh buffers get the ids `n`,
`n+1`, …) and byte CONTENTS are not interpreted, with one exception: the 8-byte `until`
header of a sequence, which steers every branch, travels with the view (`SV.hi`).
Every effect function takes the operand views, `n`, and the same value-level
parameters as its value-level counterpart and returns an `Eff`:
  * `out`     the returned slice (with its `until`),
  * `allocs`  the sizes of the freshly allocated buffers, in allocation order,
  * `writes`  the byte ranges `(buf, off, len)` the Go code stores into, in program order
              (`make` zeroes its fresh buffer; that is not listed as a write).
The functions follow the Go functions branch for branch and are structurally parallel
to Model/Seq.lean / Model/SubMerge.lean (refinement: Lemmas/SeqHeapRefine.lean).
-/
import ZenoModel.Model.SubMerge

namespace Zeno

/-- a non-nil Go `[]byte`: window `[off, off+len)` of buffer `buf`, `cap` bytes available
    from `off` (Go's `cap(s)`) -/
structure View where
  buf : Nat
  off : Nat
  len : Nat
  cap : Nat
  deriving Repr, DecidableEq, Inhabited

/-- a Go `[]byte` value: `nil` or a view -/
abbrev Sl := Option View

def Sl.len : Sl → Nat
  | none => 0
  | some v => v.len

/-- one store instruction sequence of the Go code: `len` bytes at `off` of buffer `buf` -/
structure Write where
  buf : Nat
  off : Nat
  len : Nat
  deriving Repr, DecidableEq, Inhabited

/-- `make([]byte, size)` as the `n`-th buffer -/
def View.mk' (n size : Nat) : View := ⟨n, 0, size, size⟩

/-- `s[lo:]` -/
def View.from (v : View) (lo : Nat) : View := ⟨v.buf, v.off + lo, v.len - lo, v.cap - lo⟩

/-- `s[:hi]` -/
def View.upto (v : View) (hi : Nat) : View := ⟨v.buf, v.off, hi, v.cap⟩

/-- `copy(dst, src)`: writes `min(len(dst), len(src))` bytes at the start of `dst` -/
def copyW (dst src : View) : Write := ⟨dst.buf, dst.off, min dst.len src.len⟩

/-- `seq.SetUntil(t)`: `Binary.PutUint64(seq, …)` writes the first 8 bytes of the view -/
def setUntilW (v : View) : Write := ⟨v.buf, v.off, 8⟩

/-- a `Sequence` as the Go code sees it: the slice, and what its first 8 bytes decode to -/
structure SV where
  sl : Sl
  hi : Int
  deriving Repr, DecidableEq, Inhabited

def SV.nil : SV := ⟨none, 0⟩
def SV.len (s : SV) : Nat := s.sl.len
/-- `Sequence.Until()` -/
def SV.until (s : SV) : Int := if s.len = 0 then 0 else s.hi
/-- `Sequence.NumPeriods(width)` -/
def SV.numPeriods (s : SV) (w : Nat) : Nat := if s.len = 0 then 0 else (s.len - 8) / w
/-- `Sequence.AsOf(width, resolution)` -/
def SV.asOf (s : SV) (w : Nat) (res : Int) : Int :=
  if s.len = 0 then 0 else s.hi - ((s.numPeriods w : Nat) : Int) * res

structure Eff where
  out : SV
  allocs : List Nat
  writes : List Write
  deriving Repr, DecidableEq, Inhabited

/-- a view under construction: view, its `until`, allocations and writes so far -/
structure VE where
  v : View
  hi : Int
  allocs : List Nat
  writes : List Write
  deriving Repr, DecidableEq, Inhabited

/-! ### `append(dst, src...)` -/

/-- within capacity: extends `dst` in place and writes the new bytes behind it;
    over capacity: a fresh buffer `n` receives the old and the new bytes (the capacity Go
    picks for it is not modelled: `cap = len`). -/
def appendEff (n : Nat) (dst src : View) : VE :=
  if dst.len + src.len ≤ dst.cap then
    ⟨⟨dst.buf, dst.off, dst.len + src.len, dst.cap⟩, 0, [], [⟨dst.buf, dst.off + dst.len, src.len⟩]⟩
  else
    ⟨View.mk' n (dst.len + src.len), 0, [dst.len + src.len], [⟨n, 0, dst.len + src.len⟩]⟩

/-! ### `Sequence.Truncate(width, resolution, asOf, until)` -/

/-- the `until` part of `Truncate` AFTER the fix of D1: when periods have to be cut off the
    front, the kept periods are copied into a fresh buffer and the new `until` is written
    THERE.  `none` = `return nil`. -/
def truncUntilEff (n : Nat) (v : View) (oldUntil : Int) (w : Nat) (res hi : Int) : Option VE :=
  if hi ≠ 0 then
    let periodsToRemove := (oldUntil - hi).tdiv res
    if periodsToRemove > 0 then
      let bytesToRemove := periodsToRemove.toNat * w
      if bytesToRemove + 8 ≥ v.len then none
      else
        let t := View.mk' n (v.len - bytesToRemove)
        some ⟨t, hi, [v.len - bytesToRemove], [copyW (t.from 8) (v.from (8 + bytesToRemove)), setUntilW t]⟩
    else some ⟨v, oldUntil, [], []⟩
  else some ⟨v, oldUntil, [], []⟩

/-- the `asOf` part of `Truncate`: a re-slice `result[:maxLength]`, no write -/
def truncAsOfEff (r : VE) (w : Nat) (res asOf : Int) : Eff :=
  if asOf ≠ 0 then
    let maxPeriods := (r.hi - asOf).tdiv res
    if maxPeriods ≤ 0 then ⟨SV.nil, r.allocs, r.writes⟩
    else
      let maxLength := 8 + maxPeriods.toNat * w
      if maxLength ≥ r.v.len then ⟨⟨some r.v, r.hi⟩, r.allocs, r.writes⟩
      else ⟨⟨some (r.v.upto maxLength), r.hi⟩, r.allocs, r.writes⟩
  else ⟨⟨some r.v, r.hi⟩, r.allocs, r.writes⟩

def truncateEff (n : Nat) (s : SV) (w : Nat) (res asOf hi : Int) : Eff :=
  match s.sl with
  | none => ⟨SV.nil, [], []⟩
  | some v =>
    if v.len = 0 then ⟨SV.nil, [], []⟩
    else
      let oldUntil := s.hi
      let asOf := roundUntilDown asOf res oldUntil
      let hi := roundUntilDown hi res oldUntil
      match truncUntilEff n v oldUntil w res hi with
      | none => ⟨SV.nil, [], []⟩
      | some r => truncAsOfEff r w res asOf

/-- the `until` part BEFORE the fix (defect D1):
    `result = result[bytesToRemove:]; result.SetUntil(until)` — the new header is written
    over 8 bytes of period data of the operand. -/
def truncUntilEffBuggy (v : View) (oldUntil : Int) (w : Nat) (res hi : Int) : Option VE :=
  if hi ≠ 0 then
    let periodsToRemove := (oldUntil - hi).tdiv res
    if periodsToRemove > 0 then
      let bytesToRemove := periodsToRemove.toNat * w
      if bytesToRemove + 8 ≥ v.len then none
      else
        let t := v.from bytesToRemove
        some ⟨t, hi, [], [setUntilW t]⟩
    else some ⟨v, oldUntil, [], []⟩
  else some ⟨v, oldUntil, [], []⟩

def truncateEffBuggy (s : SV) (w : Nat) (res asOf hi : Int) : Eff :=
  match s.sl with
  | none => ⟨SV.nil, [], []⟩
  | some v =>
    if v.len = 0 then ⟨SV.nil, [], []⟩
    else
      let oldUntil := s.hi
      let asOf := roundUntilDown asOf res oldUntil
      let hi := roundUntilDown hi res oldUntil
      match truncUntilEffBuggy v oldUntil w res hi with
      | none => ⟨SV.nil, [], []⟩
      | some r => truncAsOfEff r w res asOf

/-! ### `Sequence.Merge(other, e, resolution, truncateBefore)` -/

/-- `for i := 0; i < overlapPeriods; i++ { sout, sa, sb = e.Merge(sout, sa, sb) }`:
    `expr.Merge(b, x, y)` stores into `b` only, one state (`w` bytes) per round -/
def mergeLoopW (sout : View) (w : Nat) (k : Nat) : List Write :=
  (List.range k).map (fun i => ⟨sout.buf, sout.off + i * w, w⟩)

/-- the body of `Merge` after the swap and the truncateBefore test (`va` has the later
    `until`): one fresh buffer, filled from front to back -/
def mergeMainEff (n : Nat) (va vb : View) (startA startB : Int) (w : Nat) (res : Int) : Eff :=
  let aP : Int := ((va.len - 8) / w : Nat)
  let bP : Int := ((vb.len - 8) / w : Nat)
  let endA := startA - aP * res
  let endB := startB - bP * res
  let end_ := if endA < endB then endA else endB
  let total := ((startA - end_).tdiv res).toNat
  let out := View.mk' n (8 + total * w)
  -- copy(sout, sa[:Width64bits]); sout = sout[8:]; sa = sa[8:]; sb = sb[8:]
  let w0 := copyW out (va.upto 8)
  let sout := out.from 8
  let sa := va.from 8
  let sb := vb.from 8
  let leadEnd := if startB < endA then endA else startB
  let leadN := (startA - leadEnd).tdiv res
  let l := leadN.toNat * w
  let wLead := if leadN > 0 then [copyW sout (sa.upto l)] else []
  let sout := if leadN > 0 then sout.from l else sout
  let sa := if leadN > 0 then sa.from l else sa
  let ov : Nat :=
    if startB > endA then
      let ov0 := if endB > endA then (startA - endB).tdiv res else (startA - endA).tdiv res
      (ov0 - leadN).toNat
    else 0
  let wMid := mergeLoopW sout w ov
  let gap : Nat :=
    if startB > endA then 0
    else if startB < endA then ((endA - startB).tdiv res).toNat * w
    else 0
  let sout := sout.from (ov * w + gap)
  let sa := sa.from (ov * w)
  let sb := sb.from (ov * w)
  let wTail := if endA < endB then [copyW sout sa] else if endB < endA then [copyW sout sb] else []
  ⟨⟨some out, startA⟩, [8 + total * w], w0 :: (wLead ++ wMid ++ wTail)⟩

/-- `seq.Merge(other, …)`: returns an OPERAND (no copy, no write) when the other one is
    empty, and the later operand when the earlier one is wholly expired; otherwise a fresh
    buffer. -/
def mergeEff (n : Nat) (s other : SV) (w : Nat) (res tb : Int) : Eff :=
  match s.sl with
  | none => ⟨other, [], []⟩
  | some vs =>
    if vs.len = 0 then ⟨other, [], []⟩
    else match other.sl with
    | none => ⟨s, [], []⟩
    | some vo =>
      if vo.len = 0 then ⟨s, [], []⟩
      else
        if other.hi > s.hi then
          let tb := roundUntilUp tb res other.hi
          if s.hi < tb then ⟨other, [], []⟩ else mergeMainEff n vo vs other.hi s.hi w res
        else
          let tb := roundUntilUp tb res s.hi
          if other.hi < tb then ⟨s, [], []⟩ else mergeMainEff n vs vo s.hi other.hi w res

/-- `rowMerger` (row_store.go): `out[o] = out[o].Merge(seq, outFields[o].Expr, resolution,
    truncateBefore)`; `out[o]` is the file column of the row (or nil), `seq` the memstore
    column.  The slot `out[o]` belongs to the `columns` slice the scan has just made. -/
def rowMergerEff (n : Nat) (outCol memCol : SV) (w : Nat) (res tb : Int) : Eff :=
  mergeEff n outCol memCol w res tb

/-! ### `Sequence.ValueAtTime(t, e, resolution)` -/

/-- what a read-only operation does: the bytes it looks at, and its (empty) write list -/
structure RdEff where
  read : Option Write
  writes : List Write
  deriving Repr, DecidableEq, Inhabited

def valueAtEff (s : SV) (e : Ex) (res t : Int) : RdEff :=
  if e.isConstant then ⟨none, []⟩
  else match s.sl with
  | none => ⟨none, []⟩
  | some v =>
    if v.len = 0 then ⟨none, []⟩
    else
      let t := roundUntilUp t res s.hi
      if t > s.hi then ⟨none, []⟩
      else
        let period := (s.hi - t).tdiv res
        if period < 0 then ⟨none, []⟩
        else
          let offset := period.toNat * e.bytes + 8
          if offset ≥ v.len then ⟨none, []⟩
          else ⟨some ⟨v.buf, v.off + offset, v.len - offset⟩, []⟩   -- `e.Get(seq[offset:])`

/-! ### `Sequence.UpdateValue(ts, params, metadata, e, resolution, truncateBefore)`
    (the insert path; the only operation here that stores into its receiver) -/

/-- `seq.UpdateValueAt(period, e, …)`: `e.Update(seq[8+period*width:], …)` stores at most one
    state -/
def updateAtW (v : View) (period w : Nat) : Write := ⟨v.buf, v.off + 8 + period * w, w⟩

def updateValueEff (n : Nat) (s : SV) (w : Nat) (res ts tb : Int) : Eff :=
  let ts := roundUp ts res
  let untl : Int := if s.until = 0 then ts else s.until
  let tb := roundUntilUp tb res untl
  if ¬ (ts > tb) then truncateEff n s w res tb 0
  else
    let fresh : Eff :=
      let out := View.mk' n (8 + w)
      ⟨⟨some out, ts⟩, [8 + w], [setUntilW out, updateAtW out 0 w]⟩
    match s.sl with
    | none => fresh
    | some v =>
      if v.len = 0 then fresh
      else
        let start := s.hi
        let gapPeriods := (ts - start).tdiv res
        let maxPeriods := (ts - tb).tdiv res
        if start < tb ∨ gapPeriods > maxPeriods then fresh
        else if ts > start then
          let n0 : Int := ((s.numPeriods w : Nat) : Int) + gapPeriods
          let numPeriods := if n0 > maxPeriods then maxPeriods else n0
          let origEnd : Nat := if n0 > maxPeriods then 8 + w * (maxPeriods - gapPeriods).toNat else v.len
          let out := View.mk' n (8 + numPeriods.toNat * w)
          ⟨⟨some out, ts⟩, [8 + numPeriods.toNat * w],
            [copyW (out.from (8 + gapPeriods.toNat * w)) ((v.upto origEnd).from 8), setUntilW out, updateAtW out 0 w]⟩
        else
          let period := ((start - ts).tdiv res).toNat
          let offset := period * w
          if offset + w ≥ v.len then
            let out := View.mk' n (offset + 8 + w)
            ⟨⟨some out, start⟩, [offset + 8 + w], [copyW out v, updateAtW out period w]⟩
          else ⟨s, [], [updateAtW v period w]⟩

/-! ### the sub-merge closures (`expr.SubMerge`) -/

/-- `EncodedWidth` of every stateful leaf of an expression, in byte order -/
def Ex.cellBytes : Ex → List Nat
  | .field _ => []
  | .const _ => []
  | .agg _ w => 9 :: w.cellBytes
  | .avg v _ => 17 :: v.cellBytes
  | .bin _ l r => l.cellBytes ++ r.cellBytes
  | .ifE _ w => w.cellBytes
  | .bounded w _ _ => w.cellBytes
  | .shift w _ => w.cellBytes
  | .unary _ w => w.cellBytes
  | .ptile _ v _ n => ((1 + n) * 8) :: v.cellBytes

/-- byte offset of the `k`-th leaf inside one state -/
def cellOff (cb : List Nat) (k : Nat) : Nat := (cb.take k).sum

/-- the stores of one sub-merge closure call `submerge(data, other, otherRes, metadata)`.
    `data` is positioned at the output period, `c0` counts the leaves already skipped by
    `combinedSubMerge` (`data[width:]`), `other` is positioned at the source period.
    * direct: `e.Merge(data, data, other)` — `Merge(b, x, y)` stores into `b` = `data` only;
    * shifted: `n := -int(Offset/otherRes)*subWidth; if n >= 0 && n < len(other) { wrapped(data,
      other[n:], …) }` — `other` is only re-sliced and read. -/
def smWrites (cb : List Nat) (ow : Nat) (otherRes : Int) (p : Pt) :
    SM → (data : View) → (c0 : Nat) → (other : View) → List Write
  | .direct e, data, c0, _ => [⟨data.buf, data.off + cellOff cb c0, e.bytes⟩]
  | .right skip r, data, c0, other => smWrites cb ow otherRes p r data (c0 + skip) other
  | .both l skip r, data, c0, other =>
      smWrites cb ow otherRes p l data c0 other ++ smWrites cb ow otherRes p r data (c0 + skip) other
  | .cond c w, data, c0, other =>
      if p.includes c then smWrites cb ow otherRes p w data c0 other else []
  | .shifted off w, data, c0, other =>
      let nb : Int := -(off.tdiv otherRes) * (ow : Int)
      if nb ≥ 0 ∧ nb.toNat < other.len then smWrites cb ow otherRes p w data c0 (other.from nb.toNat) else []

/-! ### `Sequence.SubMerge(other, metadata, resolution, otherResolution, ex, otherEx, submerge,
    asOf, until, strideSlice)` -/

/-- "grow other to give us a chance to pick up the shifted values": a fresh copy -/
def growEff (n : Nat) (ov : View) (ohi : Int) (ow : Nat) (otherRes shiftBack hi : Int) : VE :=
  if shiftBack > 0 then
    let shifted0 := ohi + shiftBack
    let shifted := if shifted0 > hi then hi else shifted0
    let growByPeriods := (shifted - ohi).tdiv otherRes
    if growByPeriods > 0 then
      let growBy := growByPeriods.toNat * ow
      let grown := View.mk' n (ov.len + growBy)
      ⟨grown, shifted, [ov.len + growBy], [setUntilW grown, copyW (grown.from (8 + growBy)) (ov.from 8)]⟩
    else ⟨ov, ohi, [], []⟩
  else ⟨ov, ohi, [], []⟩

/-- new one-period result / prepend periods (`NewSequence` + `append`, which exceeds the
    capacity of the exactly-sized `prepended` and therefore allocates again) / keep -/
def prependEff (n : Nat) (result : SV) (w : Nat) (res newUntil : Int) : VE :=
  match result.sl with
  | none =>
      let r := View.mk' n (8 + w)
      ⟨r, newUntil, [8 + w], [setUntilW r]⟩
  | some rv =>
    if rv.len ≤ 8 then
      let r := View.mk' n (8 + w)
      ⟨r, newUntil, [8 + w], [setUntilW r]⟩
    else
      let periodsToPrepend := (newUntil - result.hi).tdiv res
      if periodsToPrepend > 0 then
        let prepended := View.mk' n (8 + periodsToPrepend.toNat * w)
        let a := appendEff (n + 1) prepended (rv.from 8)
        ⟨a.v, newUntil, (8 + periodsToPrepend.toNat * w) :: a.allocs, setUntilW prepended :: a.writes⟩
      else ⟨rv, result.hi, [], []⟩

/-- append periods at the old end: `appended := NewSequence(…); copy(appended, result)` -/
def appendPeriodsEff (n : Nat) (r1 : VE) (w : Nat) (res otherAsOf : Int) : VE :=
  let np : Nat := (r1.v.len - 8) / w
  let asOf1 := r1.hi - (np : Int) * res
  let oldAsOf := roundUntilUp asOf1 res r1.hi
  let newAsOf := roundUntilDown otherAsOf res r1.hi
  let periodsToAppend := (oldAsOf - newAsOf).tdiv res
  if periodsToAppend > 0 then
    let appended := View.mk' n (8 + (np + periodsToAppend.toNat) * w)
    ⟨appended, r1.hi, [8 + (np + periodsToAppend.toNat) * w], [copyW appended r1.v]⟩
  else ⟨r1.v, r1.hi, [], []⟩

/-- the `for po := 0; po < otherPeriods; po++` loop: every closure call is handed
    `result[8+p*width:]` and `other[8+po*otherWidth:]` -/
def subMergeLoopEff (cb : List Nat) (sm : SM) (w ow : Nat) (otherRes : Int) (p : Pt)
    (scale untilOffset strideSlice strideSlicePeriods : Int) (resultPeriods : Nat) (rv ov : View) :
    (k : Nat) → (po : Nat) → List Write
  | 0, _ => []
  | k + 1, po =>
      let idx := ((po : Int) + untilOffset) / scale
      if idx ≥ (resultPeriods : Int) then []
      else
        (if strideSlice ≤ 0 ∨ goMod ((po : Int) + untilOffset) scale < strideSlicePeriods then
          if idx < 0 then []
          else smWrites cb ow otherRes p sm (rv.from (8 + idx.toNat * w)) 0 (ov.from (8 + po * ow))
        else []) ++
        subMergeLoopEff cb sm w ow otherRes p scale untilOffset strideSlice strideSlicePeriods resultPeriods rv ov k (po + 1)

def subMergeEff (n : Nat) (ex otherEx : Ex) (sm : SM) (res otherRes : Int) (s other : SV) (p : Pt)
    (asOf hi strideSlice : Int) : Eff :=
  let w := ex.bytes
  let ow := otherEx.bytes
  let shiftBack := -ex.shiftOf
  let otherAsOf0 := other.asOf ow otherRes
  let otherAsOf := if otherAsOf0 < asOf then asOf else otherAsOf0
  -- other = other.Truncate(otherWidth, otherResolution, asOf.Add(-1*shiftBack), until)
  let t1 := truncateEff n other ow otherRes (asOf - shiftBack) hi
  match t1.out.sl with
  | none => ⟨s, t1.allocs, t1.writes⟩
  | some ov0 =>
    if t1.out.numPeriods ow = 0 then ⟨s, t1.allocs, t1.writes⟩
    else
      let n1 := n + t1.allocs.length
      -- result = seq.Truncate(width, resolution, asOf, until)
      let t2 := truncateEff n1 s w res asOf hi
      let n2 := n1 + t2.allocs.length
      let g := growEff n2 ov0 t1.out.hi ow otherRes shiftBack hi
      let n3 := n2 + g.allocs.length
      let otherUntil := g.hi
      let newUntil := roundUntilUp otherUntil res hi
      let r1 := prependEff n3 t2.out w res newUntil
      let n4 := n3 + r1.allocs.length
      let resultUntil := r1.hi
      let r2 := appendPeriodsEff n4 r1 w res otherAsOf
      let scale := res.tdiv otherRes
      let untilOffset := (resultUntil - otherUntil).tdiv otherRes
      let resultPeriods : Nat := (r2.v.len - 8) / w
      let otherPeriods : Nat := (g.v.len - 8) / ow
      let strideSlicePeriods := strideSlice.tdiv otherRes
      let wLoop := subMergeLoopEff ex.cellBytes sm w ow otherRes p scale untilOffset strideSlice
        strideSlicePeriods resultPeriods r2.v g.v otherPeriods 0
      ⟨⟨some r2.v, r2.hi⟩, t1.allocs ++ t2.allocs ++ g.allocs ++ r1.allocs ++ r2.allocs,
        t1.writes ++ t2.writes ++ g.writes ++ r1.writes ++ r2.writes ++ wLoop⟩

/-! ### `bytetree.Tree.Copy` and the query path on one stored column -/

/-- a node of a `bytetree.Tree`: the node object, the `[]encoding.Sequence` array holding its
    columns (`node.data`; `none` = a nil data slice, e.g. an inner node), and the columns -/
structure TNode where
  obj : Nat
  dataArr : Nat
  data : Option (List SV)
  deriving Repr, DecidableEq, Inhabited

structure TreeEff where
  nodes : List TNode
  allocs : List Nat
  writes : List Write
  deriving Repr, DecidableEq, Inhabited

/-- the loop of `copyData` (bytetree.go, since /repo 63b81da): `n := copy(buf, seq); cp[i] =
    buf[:n:n]; buf = buf[n:]` — every non-nil sequence is copied to the next free offset of the
    node's buffer `b` and becomes a view with `cap = len`; a nil sequence stays nil -/
def copyColsEff (b : Nat) : Nat → List SV → List SV × List Write
  | _, [] => ([], [])
  | off, s :: ss =>
    match s.sl with
    | none => (⟨none, s.hi⟩ :: (copyColsEff b off ss).1, (copyColsEff b off ss).2)
    | some v =>
      (⟨some ⟨b, off, v.len, v.len⟩, s.hi⟩ :: (copyColsEff b (off + v.len) ss).1,
        ⟨b, off, v.len⟩ :: (copyColsEff b (off + v.len) ss).2)

/-- `total` of `copyData`: the size of the node's buffer -/
def colsTotal (cols : List SV) : Nat := (cols.map (·.len)).sum

/-- `Tree.Copy()` since /repo 63b81da: `cpt := &node{key: e.target.key, data:
    copyData(e.target.data)}` — a new node object per node (`nObj`, `nObj+1`, …); a nil data
    slice stays nil; otherwise ONE fresh byte buffer per node (`make([]byte, total)`, ids `n`,
    `n+1`, … in walk order) holding copies of all its sequences back to back, and a fresh
    `[]Sequence` array (`nArr`, `nArr+1`, …). -/
def treeCopyEff (nObj nArr n : Nat) : List TNode → TreeEff
  | [] => ⟨[], [], []⟩
  | t :: ts =>
    match t.data with
    | none =>
        ⟨⟨nObj, t.dataArr, none⟩ :: (treeCopyEff (nObj + 1) nArr n ts).nodes,
          (treeCopyEff (nObj + 1) nArr n ts).allocs, (treeCopyEff (nObj + 1) nArr n ts).writes⟩
    | some cols =>
        ⟨⟨nObj, nArr, some (copyColsEff n 0 cols).1⟩ :: (treeCopyEff (nObj + 1) (nArr + 1) (n + 1) ts).nodes,
          colsTotal cols :: (treeCopyEff (nObj + 1) (nArr + 1) (n + 1) ts).allocs,
          (copyColsEff n 0 cols).2 ++ (treeCopyEff (nObj + 1) (nArr + 1) (n + 1) ts).writes⟩

/-- `Tree.Copy()` BEFORE /repo 63b81da (defect D9): `cpt := &node{key: e.target.key, data:
    e.target.data}` — new node objects, but the SAME `data` array and therefore the same
    sequences as the live tree; nothing allocated, nothing written. -/
def treeCopyEffShared (nObj : Nat) : List TNode → List TNode
  | [] => []
  | t :: ts => ⟨nObj, t.dataArr, t.data⟩ :: treeCopyEffShared (nObj + 1) ts

/-- one source row of a scan for one output column: the memstore column (a column of the
    scan's memstore snapshot: since /repo 63b81da a private copy made by `Tree.Copy`, before
    that the live memstore's stored sequence itself) and, if the key is also in the file,
    the file column: the scan reads the row into a buffer of its own (`make([]byte,
    rowLength)` + `io.ReadFull`) and `encoding.ReadSequence` re-slices the column out of it -/
structure SrcRow where
  mem : SV
  file : Option (Nat × Nat × Nat × Int)   -- (rowLength, column offset, column length, column until)
  pt : Pt
  deriving Repr, Inhabited

/-- what reading one file row does: the column view, the buffer count afterwards, the writes -/
structure FileRead where
  col : SV
  n : Nat
  writes : List Write
  deriving Repr, Inhabited

def fileRowEff (n : Nat) : Option (Nat × Nat × Nat × Int) → FileRead
  | none => ⟨SV.nil, n, []⟩
  | some (rowLen, off, len, fhi) => ⟨⟨some ⟨n, off, len, rowLen - off⟩, fhi⟩, n + 1, [⟨n, 0, rowLen⟩]⟩

structure QState where
  n : Nat
  out : SV
  writes : List Write
  deriving Repr, Inhabited

/-- scan → `rowMerger` → `group` (`bytetree.node.doUpdate`, vals branch) for one row -/
def queryRowEff (fe ex : Ex) (sm : SM) (tres tb qres : Int) (asOf hi stride : Int) (st : QState) (r : SrcRow) : QState :=
  -- the file row
  let f := fileRowEff st.n r.file
  -- memToOut(columns, i, msColumn)
  let m := rowMergerEff f.n f.col r.mem fe.bytes tres tb
  let n2 := f.n + m.allocs.length
  -- out = out.SubMerge(in, metadata, …) into the out tree's own sequence
  let sub := subMergeEff n2 ex fe sm qres tres st.out m.out r.pt asOf hi stride
  ⟨n2 + sub.allocs.length, sub.out, st.writes ++ f.writes ++ m.writes ++ sub.writes⟩

/-- the query path on one stored column and one group: all source rows are sub-merged into
    the out tree's sequence, which starts out nil; `flatten` then only reads
    (`valueAtEff`). -/
def queryColEff (n0 : Nat) (fe ex : Ex) (sm : SM) (tres tb qres : Int) (asOf hi stride : Int)
    (rows : List SrcRow) (ts : List Int) : QState :=
  let st := rows.foldl (queryRowEff fe ex sm tres tb qres asOf hi stride) ⟨n0, SV.nil, []⟩
  ⟨st.n, st.out, st.writes ++ (ts.map (fun t => (valueAtEff st.out ex qres t).writes)).flatten⟩

end Zeno
