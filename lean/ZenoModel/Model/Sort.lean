/-
M-QUERY (sort / offset / limit part) — model of /repo/core/sort.go,
/repo/core/compare.go, /repo/core/limit.go, /repo/core/offset.go and of
`addOrderLimitOffset` in /repo/planner/planner.go.

* `DimVal` are the dynamic values `FlatRow.Get` can return, split exactly as the
  type switch of `compare` splits them (every Go integer type is its own case,
  so is each float width); `[]byte`/`[]int`/`[]float64` dimension values have no
  case in the switch (`other`).
* A failed Go type assertion (`b.(T)` with `b` of another dynamic type) is a
  runtime panic; the model returns `none` there (`cmpVal`, `lessP`).
* `lessP`/`less` are `orderedRows.Less` AFTER the fix of defect D2 (`_time`
  branch returns false on `ta > tb`); `lessBuggyP`/`lessBuggy` are the code as
  found (falls through to the next key on `ta > tb`), kept as the record of the
  finding (`Props/C09.lean` proves a concrete witness against it).
* Row sources are lists; `Iterate` with the `more` flag of the row callback is
  `flatIterate`; `limit`/`offset` are callback transformers carrying their
  `idx` counter.
Not modelled: float NaN/±Inf (floats are `Rat`), int64 wrap of the counters,
context deadlines (`guard.Proceed()` is always `(true, nil)`), errors returned by
callbacks, Go's `sort.Sort` (a parameter `sortFn`; `isort` is the model's own
stable insertion sort).
-/
namespace Zeno

/-- the Go integer types `compare` switches on (one case each) -/
inductive IntKind
  | byte | u16 | u32 | u64 | uint | i8 | i16 | i32 | i64 | int
  deriving DecidableEq, Repr, Inhabited

/-- dynamic value of a dimension or field as seen by `compare` -/
inductive DimVal
  | nil
  | bool (b : Bool)
  | int (k : IntKind) (v : Int)
  /-- `single = true`: float32, else float64 -/
  | float (single : Bool) (v : Rat)
  | str (s : String)
  /-- `time.Time` as an instant in ns (Before/After compare instants) -/
  | time (ns : Int)
  /-- a value of a type that has no case in `compare`'s switch ([]byte, []int, []float64) -/
  | other (tag : Nat)
  deriving DecidableEq, Repr, Inhabited

/-- `if ta > tvb { return 1 }; if ta < tvb { return -1 }` … `return 0` -/
def cmp3 {α : Type} [LT α] [DecidableLT α] (a b : α) : Int :=
  if b < a then 1 else if a < b then -1 else 0

/-- `reflect.TypeOf(v).String()` of the Go integer types -/
def IntKind.goName : IntKind → String
  | .byte => "uint8" | .u16 => "uint16" | .u32 => "uint32" | .u64 => "uint64" | .uint => "uint"
  | .i8 => "int8" | .i16 => "int16" | .i32 => "int32" | .i64 => "int64" | .int => "int"

/-- `reflect.TypeOf(v).String()`; every `other` value the harness produces is a `[]byte` -/
def DimVal.typeName : DimVal → String
  | .nil => "<nil>"
  | .bool _ => "bool"
  | .int k _ => k.goName
  | .float true _ => "float32"
  | .float false _ => "float64"
  | .str _ => "string"
  | .time _ => "time.Time"
  | .other _ => "[]uint8"

/-- core/compare.go `compare(a, b interface{}) int` (after /repo 8a9a760: values of different
    dynamic types are ordered by the name of their type; before, the unchecked assertion
    `b.(T)` panicked there, and the `uint` case asserted `uint64`).  the result is never `none`
    (= a type assertion panics) any more; the `Option` is kept so that `lessP` keeps its shape. -/
def cmpVal (a b : DimVal) : Option Int :=
  match a, b with
  -- if a == nil { if b != nil { return -1 }; return 0 }
  | .nil, .nil => some 0
  | .nil, _ => some (-1)
  -- if b == nil { if a != nil { return 1 }; return 0 }
  | _, .nil => some 1
  | a, b =>
    -- if typeOfA != typeOfB { return strings.Compare(typeOfA.String(), typeOfB.String()) }
    if a.typeName ≠ b.typeName then some (cmp3 a.typeName b.typeName)
    else match a, b with
      | .bool ta, .bool tvb =>
          if ta && !tvb then some 1 else if !ta && tvb then some (-1) else some 0
      | .int _ ta, .int _ tvb => some (cmp3 ta tvb)
      | .float _ ta, .float _ tvb => some (cmp3 ta tvb)
      | .str ta, .str tvb => some (cmp3 ta tvb)
      | .time ta, .time tvb => some (cmp3 ta tvb)
      -- no case matches (`other`): falls out of the switch, `return 0`.  (The remaining
      -- constructor combinations cannot have equal type names; `b.(T)` cannot fail here.)
      | _, _ => some 0

/-- core.OrderBy -/
structure OrderBy where
  field : String
  desc : Bool
  deriving DecidableEq, Repr, Inhabited

/-- core.FlatRow: `TS`, `Key` (a bytemap, here name ↦ value), and `Values` zipped with the
    names of `fields` -/
structure FlatRow where
  ts : Int
  key : List (String × DimVal)
  fields : List (String × Rat)
  deriving DecidableEq, Repr, Inhabited

/-- sort.go `(*FlatRow).Get`: first the fields (a float64), then the key (nil when absent) -/
def FlatRow.get (row : FlatRow) (param : String) : DimVal :=
  match row.fields.lookup param with
  | some v => .float false v
  | none =>
    match row.key.lookup param with
    | some v => v
    | none => .nil

/-- sort.go `orderedRows.Less(i, j)` with `a = rows[i]`, `b = rows[j]`, after the D2 fix.
    `none` = `compare` panicked. -/
def lessP : List OrderBy → FlatRow → FlatRow → Option Bool
  | [], _, _ => some false                       -- loop ends: return false
  | order :: rest, a, b =>
    if order.field == "_time" then
      let ta := if order.desc then b.ts else a.ts   -- if order.Descending { ta, tb = tb, ta }
      let tb := if order.desc then a.ts else b.ts
      if ta < tb then some true
      else if tb < ta then some false               -- the D2 fix
      else lessP rest a b                           -- continue
    else
      let va := a.get order.field
      let vb := b.get order.field
      let va' := if order.desc then vb else va      -- if order.Descending { va, vb = vb, va }
      let vb' := if order.desc then va else vb
      match cmpVal va' vb' with
      | none => none
      | some result =>
        if result < 0 then some true
        else if result > 0 then some false
        else lessP rest a b

/-- `Less` as a boolean (a panic is "not true") -/
def less (by_ : List OrderBy) (a b : FlatRow) : Bool := lessP by_ a b == some true

/-- `orderedRows.Less` as found in the repository (defect D2): in the `_time` branch
    `if ta < tb { return true }; continue` -/
def lessBuggyP : List OrderBy → FlatRow → FlatRow → Option Bool
  | [], _, _ => some false
  | order :: rest, a, b =>
    if order.field == "_time" then
      let ta := if order.desc then b.ts else a.ts
      let tb := if order.desc then a.ts else b.ts
      if ta < tb then some true
      else lessBuggyP rest a b                      -- continue, also when ta > tb
    else
      let va := a.get order.field
      let vb := b.get order.field
      let va' := if order.desc then vb else va
      let vb' := if order.desc then va else vb
      match cmpVal va' vb' with
      | none => none
      | some result =>
        if result < 0 then some true
        else if result > 0 then some false
        else lessBuggyP rest a b

def lessBuggy (by_ : List OrderBy) (a b : FlatRow) : Bool := lessBuggyP by_ a b == some true

/-! ### a comparison sort defined in the model (stable insertion sort driven by a `Less`) -/

/-- insert `x` before the first `y` with `¬ lt y x` -/
def insertBy (lt : FlatRow → FlatRow → Bool) (x : FlatRow) : List FlatRow → List FlatRow
  | [] => [x]
  | y :: ys => if lt y x then y :: insertBy lt x ys else x :: y :: ys

def isortBy (lt : FlatRow → FlatRow → Bool) : List FlatRow → List FlatRow
  | [] => []
  | x :: xs => insertBy lt x (isortBy lt xs)

/-- the model's sort: stable insertion sort with `less` -/
def isort (by_ : List OrderBy) (rows : List FlatRow) : List FlatRow := isortBy (less by_) rows

/-! ### the row-callback protocol -/

/-- `OnFlatRow` with the callback's captured state made explicit:
    state → row → (state', more) -/
abbrev OnRow (σ : Type) := σ → FlatRow → σ × Bool

/-- a well-behaved `FlatRowSource.Iterate` over the rows of a list: calls `onRow` for each row
    and stops after the first call that returns `more = false` (as `sorter.Iterate` does) -/
def flatIterate {σ : Type} (onRow : OnRow σ) : σ → List FlatRow → σ
  | s, [] => s
  | s, r :: rs =>
    match onRow s r with
    | (s', true) => flatIterate onRow s' rs
    | (s', false) => s'

/-- limit.go: `newIdx := atomic.AddInt64(&idx, 1); oldIdx := newIdx-1;
    if oldIdx < l.limit { return onRow(row) }; return stop()` -/
def limitCb {σ : Type} (lim : Nat) (onRow : OnRow σ) : OnRow (Nat × σ) :=
  fun (idx, s) row =>
    let oldIdx := idx
    if oldIdx < lim then
      let (s', more) := onRow s row
      ((idx + 1, s'), more)
    else ((idx + 1, s), false)

/-- offset.go: `if oldIdx >= o.offset { return onRow(row) }; return guard.Proceed()` -/
def offsetCb {σ : Type} (off : Nat) (onRow : OnRow σ) : OnRow (Nat × σ) :=
  fun (idx, s) row =>
    let oldIdx := idx
    if oldIdx ≥ off then
      let (s', more) := onRow s row
      ((idx + 1, s'), more)
    else ((idx + 1, s), true)

/-- the caller's callback: append the row, ask for more -/
def collectCb : OnRow (List FlatRow) := fun out row => (out ++ [row], true)

/-- sql.Query, the three members `addOrderLimitOffset` looks at -/
structure OLO where
  orderBy : List OrderBy
  limit : Nat
  offset : Nat
  deriving Repr, Inhabited

/-- `core.Offset` then `core.Limit` wrapped (each only when `> 0`) around a source that yields
    `rows`, iterated with a collecting callback.  Rows flow source → offset callback → limit
    callback → caller, because `limit.Iterate` hands its callback to `offset.Iterate`, which
    hands its own to the source. -/
def limitOffset (limit offset : Nat) (rows : List FlatRow) : List FlatRow :=
  if offset > 0 then
    if limit > 0 then (flatIterate (offsetCb offset (limitCb limit collectCb)) (0, (0, [])) rows).2.2
    else (flatIterate (offsetCb offset collectCb) (0, []) rows).2
  else
    if limit > 0 then (flatIterate (limitCb limit collectCb) (0, []) rows).2
    else flatIterate collectCb [] rows

/-- planner.go `addOrderLimitOffset` applied to a source yielding `rows`, then iterated.
    `sorter.Iterate` first drains its source, runs `sort.Sort` (here `sortFn by rows`) and then
    feeds the sorted rows to its callback. -/
def addOrderLimitOffset (sortFn : List OrderBy → List FlatRow → List FlatRow) (q : OLO)
    (rows : List FlatRow) : List FlatRow :=
  let flat := if q.orderBy.length > 0 then sortFn q.orderBy rows else rows
  limitOffset q.limit q.offset flat

end Zeno
