/-
M-SNAPSHOT — reference-level model of a memstore-inclusive scan running next to inserts
and flushes: /repo/row_store.go (`rowStore.iterate`: `ms = rs.memStore.copy()` under RLock;
`memstore.copy`; `processInserts`: `ms.tree.Update` under Lock; `doProcessFlush`: new
memstore, new file; `fileStore.iterate`: file rows merged with `ms.tree.Remove(ctx, key)`,
then `ms.tree.Walk`) and /repo/bytetree/bytetree.go (`Tree.Copy`, `node.doUpdate`).

What is a REFERENCE here.  A Go `encoding.Sequence` is a byte buffer: `Heap.buf` maps a
buffer id to its content (`C`, a sequence value; `none` = not allocated).  A node's
`data []encoding.Sequence` is a heap object too: `Heap.arr` maps an array id to its elements
(`some b` = the sequence stored in buffer `b`, `none` = the nil sequence), so that two trees
sharing the ARRAY is expressible.  Ids are handed out by counters (`nb`, `na`).  A tree is
the list of its data-bearing nodes (`key`, array id); radix-tree structure (edges, splits)
is private to each tree object in the code (`Copy` builds fresh `node`/`edge` objects, `split`
only touches edge objects of the live tree) and is not part of the model.

`Sequence.Update` either writes into the receiver's bytes (period exists: `inPlace`) or
returns a freshly allocated sequence which `node.doUpdate` stores into the node's `data`
array (`n.data[o] = updated`).  A new key gets a new node with a fresh array.

`Tree.Copy` in three variants (`CopyMode`):
* `shared` — the code as found (D9): `cpt := &node{key: e.target.key, data: e.target.data}`:
  the copy's node refers to the SAME array (and thereby the same buffers) as the live node;
* `arrays` — a half repair (fresh `data` slice per node, same sequence bytes);
* `deep`   — the repair (`fix: Tree.Copy copies each node's data slice and sequences`):
  fresh array, fresh buffers holding the contents at the time of the copy.

A scan = (copied tree, the file store of that instant) + row deliveries; a delivery reads
through the copy's references AT DELIVERY TIME.  The file is a value (a flush writes a new
file and renames; the old file is never written again).

Not modelled: the database clock / truncation bound (`truncateBefore` is read once per scan,
not atomically with the copy; the harness stays far inside the retention window, `wr` and
`merge` are opaque parameters), the order of deliveries (file rows first, then the walk of the
copy), the per-context removal marks (each key is delivered at most once), field subsets.
-/

namespace Zeno.Snap

abbrev Key := Nat
/-- one row: one optional sequence per field -/
abbrev Row (C : Type) := List (Option C)

/-- What the model needs to know about sequences and the table; everything is a parameter
    (the driver instantiates it with `Model/Seq.lean`, the theorems hold for every choice). -/
structure Cfg (C P : Type) where
  /-- number of table fields (`len(bt.outExprs)`) -/
  nf : Nat
  /-- group key of a point -/
  keyOf : P → Key
  /-- `current.Update(params, metadata, ex, resolution, asOf)` for field `f` (value) -/
  upd : Nat → Option C → P → C
  /-- does that `Update` write into the receiver's bytes (existing period) rather than
      return a new allocation -/
  inPlace : Nat → Option C → P → Bool
  /-- `out[o].Merge(seq, …)` of `rowMerger` for field `f`: file column, memstore column -/
  merge : Nat → Option C → Option C → Option C
  /-- `doWrite`: truncate the columns to the retention window; `none` = row dropped -/
  wr : Row C → Option (Row C)

structure Heap (C : Type) where
  nb : Nat := 0
  buf : Nat → Option C := fun _ => none
  na : Nat := 0
  arr : Nat → List (Option Nat) := fun _ => []

variable {C P : Type}

/-- `make(Sequence, …)` + fill -/
def Heap.allocBuf (h : Heap C) (c : Option C) : Heap C × Nat :=
  ({ h with nb := h.nb + 1, buf := fun i => if i = h.nb then c else h.buf i }, h.nb)

/-- `make([]encoding.Sequence, n)` + fill -/
def Heap.allocArr (h : Heap C) (l : List (Option Nat)) : Heap C × Nat :=
  ({ h with na := h.na + 1, arr := fun a => if a = h.na then l else h.arr a }, h.na)

/-- a write into the bytes of buffer `b` (`e.Update(seq[offset:], …)`) -/
def Heap.writeBuf (h : Heap C) (b : Nat) (c : C) : Heap C :=
  { h with buf := fun i => if i = b then some c else h.buf i }

/-- `n.data[f] = e` -/
def Heap.setElem (h : Heap C) (a f : Nat) (e : Option Nat) : Heap C :=
  { h with arr := fun x => if x = a then (h.arr a).set f e else h.arr x }

/-- the sequence value behind an array element -/
def Heap.deref (h : Heap C) (e : Option Nat) : Option C := e.bind h.buf

/-- the row stored in array `a`, read now -/
def Heap.readArr (h : Heap C) (a : Nat) : Row C := (h.arr a).map h.deref

structure Node where
  key : Key
  arr : Nat
  deriving Repr, DecidableEq, Inhabited

/-- the row of key `k` in a tree, read through the tree's references now -/
def memViewOf (h : Heap C) (nodes : List Node) (k : Key) : Option (Row C) :=
  (nodes.find? (fun n => n.key == k)).map (fun n => h.readArr n.arr)

structure Scan (C : Type) where
  /-- the copy of the memstore tree taken at `scan.start` -/
  nodes : List Node
  /-- `fs := rs.fileStore` of that instant -/
  file : Key → Option (Row C)

structure State (C : Type) where
  heap : Heap C := {}
  /-- `rs.memStore.tree` -/
  live : List Node := []
  /-- `rs.fileStore` (content of the current file) -/
  file : Key → Option (Row C) := fun _ => none
  scans : List (Scan C) := []

inductive CopyMode | shared | arrays | deep
  deriving Repr, DecidableEq, Inhabited

inductive Ev (P : Type)
  /-- one insert applied by `processInserts` (`ms.tree.Update` under `rs.mx.Lock`): all fields -/
  | ingest (p : P)
  /-- one iteration of the field loop of `node.doUpdate` on its own — finer than the lock; only
      a scan that shares storage with the live tree can tell the difference -/
  | ingestField (p : P) (f : Nat)
  /-- `doProcessFlush`; `raw` = raw pass-through allowed (not a 10th flush, same fields) -/
  | flush (raw : Bool)
  /-- `rowStore.iterate` up to the `scan.start` hook: copy + file store of that instant -/
  | scanStart
  /-- scan `sid` hands the row of key `k` to its consumer -/
  | deliver (sid : Nat) (k : Key)
  deriving Repr, Inhabited, DecidableEq

/-- `rowMapper` + `rowMerger` over one row: per field, file column merged with memstore column -/
def mergeRow (cfg : Cfg C P) (fc mc : Option (Row C)) : Row C :=
  (List.range cfg.nf).map (fun i =>
    cfg.merge i ((fc.getD []).getD i none) ((mc.getD []).getD i none))

/-- the row a scan yields for a key present in the file, in the memstore or in both -/
def rowOf (cfg : Cfg C P) (fc mc : Option (Row C)) : Option (Row C) :=
  match fc, mc with
  | none, none => none
  | fc, mc => some (mergeRow cfg fc mc)

/-- one iteration of the loop in `node.doUpdate` (+ `Tree.doUpdate`'s node lookup / creation) -/
def ingestField (cfg : Cfg C P) (st : State C) (p : P) (f : Nat) : State C :=
  let k := cfg.keyOf p
  match st.live.find? (fun n => n.key == k) with
  | some n =>
    -- `current := n.data[o]; updated := current.Update(…); n.data[o] = updated`
    let e := (st.heap.arr n.arr).getD f none
    let cur := st.heap.deref e
    let c' := cfg.upd f cur p
    match e, cfg.inPlace f cur p with
    | some b, true => { st with heap := st.heap.writeBuf b c' }
    | _, _ =>
      let h1 := (st.heap.allocBuf (some c')).1
      { st with heap := h1.setElem n.arr f (some st.heap.nb) }
  | none =>
    -- `target := &node{key: fullKey}` … `n.data = make([]encoding.Sequence, len(bt.outExprs))`
    let h1 := (st.heap.allocBuf (some (cfg.upd f none p))).1
    let h2 := (h1.allocArr ((List.replicate cfg.nf none).set f (some st.heap.nb))).1
    { st with heap := h2, live := st.live ++ [{ key := k, arr := st.heap.na }] }

/-- `node.doUpdate`: `for o, ex := range bt.outExprs` -/
def ingest (cfg : Cfg C P) (st : State C) (p : P) : State C :=
  (List.range cfg.nf).foldl (fun s f => ingestField cfg s p f) st

/-- what `fileStore.flush` writes for one key -/
def flushRow (cfg : Cfg C P) (raw : Bool) (fc mc : Option (Row C)) : Option (Row C) :=
  match fc, mc with
  | none, none => none
  | some r, none => if raw then some r else cfg.wr (mergeRow cfg (some r) none)
  | fc, mc => cfg.wr (mergeRow cfg fc mc)

/-- `doProcessFlush`: the new file holds file ∪ memstore, the memstore is replaced by an empty
    one (`rs.newMemStore`); nothing happens when the memstore is empty -/
def flush (cfg : Cfg C P) (st : State C) (raw : Bool) : State C :=
  if st.live.isEmpty then st
  else
    { st with
      file := fun k => flushRow cfg raw (st.file k) (memViewOf st.heap st.live k),
      live := [] }

/-- copy the elements of one `data` slice, giving every non-nil sequence a buffer of its own
    (`append(encoding.Sequence(nil), seq...)`) -/
def copyElems : Heap C → List (Option Nat) → Heap C × List (Option Nat)
  | h, [] => (h, [])
  | h, none :: r =>
      let (h', r') := copyElems h r
      (h', none :: r')
  | h, some b :: r =>
      let h1 := (h.allocBuf (h.buf b)).1
      let (h', r') := copyElems h1 r
      (h', some h.nb :: r')

/-- `Tree.Copy` -/
def copyNodes (mode : CopyMode) : Heap C → List Node → Heap C × List Node
  | h, [] => (h, [])
  | h, n :: r =>
    match mode with
    | .shared =>
        -- `cpt := &node{key: e.target.key, data: e.target.data}`
        let (h', r') := copyNodes mode h r
        (h', n :: r')
    | .arrays =>
        let h1 := (h.allocArr (h.arr n.arr)).1
        let (h', r') := copyNodes mode h1 r
        (h', { n with arr := h.na } :: r')
    | .deep =>
        let (h1, es) := copyElems h (h.arr n.arr)
        let h2 := (h1.allocArr es).1
        let (h', r') := copyNodes mode h2 r
        (h', { n with arr := h1.na } :: r')

/-- `rowStore.iterate` up to the hook `scan.start` -/
def scanStart (mode : CopyMode) (st : State C) : State C :=
  let (h', ns) := copyNodes mode st.heap st.live
  { st with heap := h', scans := st.scans ++ [{ nodes := ns, file := st.file }] }

/-- the row scan `sc` hands out for key `k` when it reads it in state `st` -/
def deliverRow (cfg : Cfg C P) (st : State C) (sc : Scan C) (k : Key) : Option (Row C) :=
  rowOf cfg (sc.file k) (memViewOf st.heap sc.nodes k)

/-- one delivery: scan id, key, row (`none`: that scan has no such row — the code cannot
    deliver it) -/
abbrev Delivery (C : Type) := Nat × Key × Option (Row C)

def step (cfg : Cfg C P) (mode : CopyMode) (st : State C) : Ev P → State C × Option (Delivery C)
  | .ingest p => (ingest cfg st p, none)
  | .ingestField p f => (ingestField cfg st p f, none)
  | .flush raw => (flush cfg st raw, none)
  | .scanStart => (scanStart mode st, none)
  | .deliver sid k =>
      match st.scans[sid]? with
      | some sc => (st, some (sid, k, deliverRow cfg st sc k))
      | none => (st, some (sid, k, none))

/-- run a history; the deliveries in order -/
def run (cfg : Cfg C P) (mode : CopyMode) : State C → List (Ev P) → State C × List (Delivery C)
  | st, [] => (st, [])
  | st, e :: es =>
      let (st1, d) := step cfg mode st e
      let (st2, ds) := run cfg mode st1 es
      (st2, d.toList ++ ds)

/-- the table as of state `st`: what a scan sees that starts and finishes with nothing in
    between -/
def view (cfg : Cfg C P) (st : State C) (k : Key) : Option (Row C) :=
  rowOf cfg (st.file k) (memViewOf st.heap st.live k)

/-! ## The scan's ENVIRONMENT

A scan reads more shared mutable state than the memstore bytes: the database clock (through
`truncateBefore = now − retention`, which `Sequence.Merge` uses to drop the older operand),
the table's field lists (`rowMapper` / `rowMerger` index tables), the file store pointer, the
flush counter …  Everything of that kind is gathered in an environment `E`; `cfgOf e` is the
configuration of the sequence/row operations under environment `e` (only `merge` and `wr` may
depend on it — see `SameShape`).  `setEnv` is ANY change of the shared environment (a processed
point or `VerifAdvanceClock` moving the clock past a retention boundary, an ALTER TABLE, …).
`scanStart` captures the current environment in the scan's record (`EState.envs`, parallel to
`State.scans`); a delivery computes its row under `rr captured current`:
* `rr = keepCaptured` — the code as it is: `fileStore.iterate` computes `truncateBefore`,
  `outFields`, `memToOut`, `fileToOut` once, before the first row;
* any `rr` that looks at `current` models a per-row re-read (e.g. passing the method value
  `fs.t.truncateBefore` into `rowMerger`). -/

structure EState (C E : Type) where
  base : State C := {}
  /-- the shared environment right now -/
  cur : E
  /-- per scan: the environment captured at its `scanStart` -/
  envs : List E := []

inductive EEv (P E : Type)
  | base (e : Ev P)
  | setEnv (e : E)
  deriving Repr, Inhabited

/-- the code as it is: a delivery uses the captured environment only -/
def keepCaptured {E : Type} (captured _current : E) : E := captured

def estep {E : Type} (cfgOf : E → Cfg C P) (mode : CopyMode) (rr : E → E → E) (st : EState C E) :
    EEv P E → EState C E × Option (Delivery C)
  | .setEnv e => ({ st with cur := e }, none)
  | .base .scanStart =>
      ({ st with base := scanStart mode st.base, envs := st.envs ++ [st.cur] }, none)
  | .base (.deliver sid k) =>
      match st.base.scans[sid]?, st.envs[sid]? with
      | some sc, some en => (st, some (sid, k, deliverRow (cfgOf (rr en st.cur)) st.base sc k))
      | _, _ => (st, some (sid, k, none))
  | .base e => ({ st with base := (step (cfgOf st.cur) mode st.base e).1 }, none)

def erun {E : Type} (cfgOf : E → Cfg C P) (mode : CopyMode) (rr : E → E → E) :
    EState C E → List (EEv P E) → EState C E × List (Delivery C)
  | st, [] => (st, [])
  | st, e :: es =>
      let (st1, d) := estep cfgOf mode rr st e
      let (st2, ds) := erun cfgOf mode rr st1 es
      (st2, d.toList ++ ds)

/-- the table as of `st`, environment included -/
def eview {E : Type} (cfgOf : E → Cfg C P) (st : EState C E) (k : Key) : Option (Row C) :=
  view (cfgOf st.cur) st.base k

/-- a variant that re-reads the FILE STORE pointer at delivery time (`rs.fileStore` instead of
    the `fs` taken under the lock together with the copy) -/
def deliverRowLiveFile (cfg : Cfg C P) (st : State C) (sc : Scan C) (k : Key) : Option (Row C) :=
  rowOf cfg (st.file k) (memViewOf st.heap sc.nodes k)

/-! ## A fourth `Tree.Copy`: `cached`

The tree remembers the copy it handed out last and gives the SAME copy to every later scan;
an update forgets it only when it changed the tree's structure (`bytesAdded != 0 || newNode`:
a buffer or an array was allocated, a node added).  An update that hits an existing period of an
existing key writes in place, adds no byte — and leaves the remembered copy in place: the next
scan starts from a copy that lacks that point.  (A flush installs a new tree: nothing
remembered.)  Fresh copies are `deep` ones. -/

structure CState (C : Type) where
  base : State C := {}
  /-- the copy the live tree remembers (`bt.snapshot`) -/
  cache : Option (List Node) := none

/-- did an update allocate anything / add a node (`bytesAdded != 0 || newNode`) -/
def structural (a b : State C) : Bool :=
  b.heap.nb != a.heap.nb || b.heap.na != a.heap.na || b.live.length != a.live.length

def cstep (cfg : Cfg C P) (st : CState C) : Ev P → CState C × Option (Delivery C)
  | .scanStart =>
      match st.cache with
      | some ns =>
          ({ st with base := { st.base with scans := st.base.scans ++ [{ nodes := ns, file := st.base.file }] } }, none)
      | none =>
          let b := scanStart .deep st.base
          ({ base := b, cache := b.scans.getLast?.map (fun sc => sc.nodes) }, none)
  | .flush raw => ({ base := flush cfg st.base raw, cache := none }, none)
  | e =>
      let r := step cfg .deep st.base e
      ({ base := r.1, cache := if structural st.base r.1 then none else st.cache }, r.2)

def crun (cfg : Cfg C P) : CState C → List (Ev P) → CState C × List (Delivery C)
  | st, [] => (st, [])
  | st, e :: es =>
      let (st1, d) := cstep cfg st e
      let (st2, ds) := crun cfg st1 es
      (st2, d.toList ++ ds)

end Zeno.Snap
