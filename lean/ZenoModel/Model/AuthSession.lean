/-
M-AUTH-SESSION — the web session as a state machine over request SEQUENCES (C19).

`Model/Auth.lean` answers one request with one abstract cookie.  What it cannot see is a
credential that the server itself hands out in one response and accepts in a later one.
Here the (ghost) state is the list of session cookies the server has sealed so far, each
with its principal (the GitHub access token), its expiry and whether the identity
provider had just answered "member of the organisation" for that principal when it was
sealed.  `step : State → SReq → State × SResp` follows

  * `web/auth.go` `(*handler).authenticate` for the data routes (same branches as
    `webAuthenticateB`; `session_step_agrees_with_request_model` in Props/C19Session.lean
    states the agreement), including the re-check of a timed-out session with
    `userInOrg`;
  * `web/auth.go` `(*handler).oauthCode` for `/oauth/code`: xsrf state, token exchange,
    `userInOrg`, sealing of the cookie (`http.SetCookie`), redirect to "/".

Where the code may seal a cookie is a parameter (`Policy`: one `Guard` per place, saying
for which answers of the identity provider the sealing call is reached).  `Policy.code`
is the code after fix D17 (the OAuth callback used to seal a session when `userInOrg`
returned an ERROR): no cookie is written by `authenticate`, the callback writes one only
after "in org".  The regenerated `Facts.cookieWriteSites` are required to derive exactly
this policy (`all_cookie_writes_guarded`); the theorems hold for every SAFE policy, so a
refactoring that refreshes the cookie after a successful re-verification stays proven,
while one that is reached on "not in org", on an error, or without a check does not.

The server keeps no session table (the cookie is the session), so time enters only as
the `now` of each request.  Core Lean only.
-/
import ZenoModel.Model.Auth

namespace Zeno

/-- What `GET https://api.github.com/user/orgs` did for this request. -/
inductive OrgAnswer where
  | inOrg         -- 200, list contains the configured organisation
  | notInOrg      -- 200, list does not contain it
  | httpError     -- status > 299
  | garbage       -- 200, body is not a JSON list of objects
  | unreachable   -- transport error / timeout
deriving DecidableEq, Repr

/-- `userInOrg`'s `(bool, error)`: `some b` = `(b, nil)`, `none` = an error. -/
def OrgAnswer.result : OrgAnswer → Option Bool
  | .inOrg => some true
  | .notInOrg => some false
  | _ => none

/-- What `POST https://github.com/login/oauth/access_token` did. -/
inductive TokenAnswer where
  | token (principal : Nat)  -- JSON object of strings with `access_token`
  | noToken                  -- JSON object of strings without it (GitHub's error reply, HTTP 200): token ""
  | garbage                  -- body does not unmarshal into map[string]string
  | unreachable
deriving DecidableEq, Repr

/-- `some p` = the flow goes on with access token `p` (0 = the empty string). -/
def TokenAnswer.principal : TokenAnswer → Option Nat
  | .token p => some p
  | .noToken => some 0
  | _ => none

/-- A session cookie sealed by the server. -/
structure Session where
  principal : Nat
  expiry : Int
  /-- sealed right after the identity provider answered "in org" for `principal` -/
  verified : Bool
deriving DecidableEq, Repr

/-- Ghost state: every cookie sealed so far (cookie id = position). -/
abbrev SessState := List Session

/-- `sessionTimeout` of web/auth.go, in seconds. -/
def sessionTimeout : Int := 3600

inductive CookieCred where
  | none
  | forged             -- present, but not sealed by this server
  | issued (id : Nat)  -- the cookie with that id (sealed earlier, possibly in another response)
deriving DecidableEq, Repr

inductive Target where
  | data (path : String)   -- a registered route, by path template
  | callback               -- /oauth/code
deriving DecidableEq, Repr

structure SReq where
  target : Target
  header : String          -- X-Zeno-Auth-Token
  cookie : CookieCred
  now : Int
  /-- callback: the `state` parameter decodes as an xsrf token and has not expired -/
  stateOk : Bool
  tokenAns : TokenAnswer
  orgAns : OrgAnswer
deriving Repr

inductive Outcome where
  | served      -- the handler body ran
  | deny        -- wrong static token (403 / empty 200)
  | redirect    -- 307 to the OAuth provider
  | loggedIn    -- callback: 307 to "/"
  | nothing     -- callback: "User not in needed org", empty 200
deriving DecidableEq, Repr

def Outcome.str : Outcome → String
  | .served => "served" | .deny => "deny" | .redirect => "redirect"
  | .loggedIn => "loggedIn" | .nothing => "nothing"

/-- A response that grants something. -/
def Outcome.authorised : Outcome → Bool
  | .served => true | .loggedIn => true | _ => false

structure SResp where
  outcome : Outcome
  /-- `Set-Cookie: authcookie=…` on this response -/
  setCookie : Option Session
  /-- the token endpoint was asked -/
  askedToken : Bool
  /-- the orgs endpoint was asked, and for which principal -/
  askedOrgs : Option Nat
  branch : String
deriving Repr

/-- For which answers of the identity provider a cookie-sealing call site is reached
    (the four flags `tools/extract/authsession.go` computes per site). -/
structure Guard where
  noCheck : Bool      -- reachable on a path without a preceding `userInOrg` call
  onInOrg : Bool      -- reachable after `userInOrg` returned (true, nil)
  onNotInOrg : Bool   -- … (false, nil)
  onError : Bool      -- … (_, err)
deriving DecidableEq, Repr

def Guard.never : Guard := ⟨false, false, false, false⟩
def Guard.whenInOrg : Guard := ⟨false, true, false, false⟩

def Guard.fires (g : Guard) (a : OrgAnswer) : Bool :=
  g.noCheck || (match a.result with
    | some true => g.onInOrg
    | some false => g.onNotInOrg
    | none => g.onError)

/-- never reached unless membership was just confirmed -/
def Guard.safe (g : Guard) : Bool := !g.noCheck && !g.onNotInOrg && !g.onError

def Guard.or (a b : Guard) : Guard :=
  ⟨a.noCheck || b.noCheck, a.onInOrg || b.onInOrg, a.onNotInOrg || b.onNotInOrg, a.onError || b.onError⟩

structure Policy where
  /-- cookie writes in `authenticate`, at the re-check of a timed-out session -/
  recheck : Guard
  /-- cookie writes in `oauthCode`, after its `userInOrg` call -/
  callback : Guard
deriving DecidableEq, Repr

def Policy.safe (p : Policy) : Bool := p.recheck.safe && p.callback.safe

/-- web/auth.go after fix D17. -/
def Policy.code : Policy := ⟨Guard.never, Guard.whenInOrg⟩
/-- before fix D17: `if err != nil { log } else if !inOrg { return }` fell through on error. -/
def Policy.beforeD17 : Policy := ⟨Guard.never, ⟨false, true, false, true⟩⟩
/-- the seeded refactoring: `if err == nil { startSession }` at the re-check. -/
def Policy.refreshOnErrNil : Policy := ⟨⟨false, true, true, false⟩, Guard.whenInOrg⟩
/-- a refresh that is reached when GitHub fails. -/
def Policy.refreshOnError : Policy := ⟨⟨false, true, false, true⟩, Guard.whenInOrg⟩
/-- the callback seals the cookie before it asks GitHub. -/
def Policy.callbackBeforeCheck : Policy := ⟨Guard.never, ⟨true, true, true, true⟩⟩

def oauthSet (o : WebOpts) : Bool := !(o.oauthClientID == "" || o.oauthClientSecret == "")

def mkResp (out : Outcome) (branch : String) : SResp :=
  { outcome := out, setCookie := none, askedToken := false, askedOrgs := none, branch := branch }

/-- `authenticate` + the guard of the route's handler, over the session state. -/
def stepData (pol : Policy) (o : WebOpts) (s : SessState) (path : String) (r : SReq) :
    SessState × SResp :=
  -- a path that matches no other route is served by the "/" prefix route (index, guarded)
  if !(webRouteGuarded path).getD true then (s, mkResp .served "route-not-guarded")
  else if !oauthSet o then (s, mkResp .served "oauth-not-configured")
  else if o.password != "" && r.header != "" then
    if r.header == o.password then (s, mkResp .served "static-token-ok")
    else (s, mkResp .deny "static-token-wrong")
  else
    match r.cookie with
    | .none => (s, mkResp .redirect "no-cookie")
    | .forged => (s, mkResp .redirect "cookie-does-not-decode")
    | .issued i =>
      match s[i]? with
      | none => (s, mkResp .redirect "cookie-does-not-decode")
      | some c =>
        if r.now < c.expiry then (s, mkResp .served "session-fresh")
        else
          -- timed out: ask the identity provider again
          let out := if r.orgAns == .inOrg then Outcome.served else Outcome.redirect
          let br := if r.orgAns == .inOrg then "org-reverified" else "org-not-verified"
          if pol.recheck.fires r.orgAns then
            let n : Session := ⟨c.principal, r.now + sessionTimeout, r.orgAns == .inOrg⟩
            (s ++ [n], { outcome := out, setCookie := some n, askedToken := false,
                         askedOrgs := some c.principal, branch := br })
          else
            (s, { outcome := out, setCookie := none, askedToken := false,
                  askedOrgs := some c.principal, branch := br })

/-- `oauthCode`. -/
def stepCallback (pol : Policy) (s : SessState) (r : SReq) : SessState × SResp :=
  if !r.stateOk then (s, mkResp .redirect "xsrf-state-invalid")
  else
    match r.tokenAns.principal with
    | none => (s, { mkResp .redirect "token-exchange-failed" with askedToken := true })
    | some p =>
      if pol.callback.fires r.orgAns then
        let n : Session := ⟨p, r.now + sessionTimeout, r.orgAns == .inOrg⟩
        (s ++ [n], { outcome := .loggedIn, setCookie := some n, askedToken := true,
                     askedOrgs := some p, branch := "session-started" })
      else
        match r.orgAns.result with
        | none => (s, { mkResp .redirect "org-check-failed" with askedToken := true, askedOrgs := some p })
        | some _ => (s, { mkResp .nothing "not-in-org" with askedToken := true, askedOrgs := some p })

def sessionStep (pol : Policy) (o : WebOpts) (s : SessState) (r : SReq) : SessState × SResp :=
  match r.target with
  | .data path => stepData pol o s path r
  | .callback => stepCallback pol s r

/-- One entry per request: the state it met, the request, the response. -/
def sessionTrace (pol : Policy) (o : WebOpts) : SessState → List SReq → List (SessState × SReq × SResp)
  | _, [] => []
  | s, r :: rs =>
    let sr := sessionStep pol o s r
    (s, r, sr.2) :: sessionTrace pol o sr.1 rs

def sessionRun (pol : Policy) (o : WebOpts) : SessState → List SReq → SessState
  | s, [] => s
  | s, r :: rs => sessionRun pol o (sessionStep pol o s r).1 rs

end Zeno
