/-
M-ROUTE — partition routing (Go: cluster_follow.go `partitionFor` / `inPartition` /
`sortedPartitionKeys`, insert.go `table.insert` (follower-side re-check), the leader's
`mapPartitionRequest`).

`partitionFor` hashes, with murmur3-32, the VALUE BYTES of the partition keys that are present
(`b := dims.GetBytes(key); if len(b) > 0 { h.Write(b) }`, in the order of the key list) or, when
the table has no partition keys, the whole encoded dims; the result is `int(h.Sum32()) %
NumPartitions` (a non-negative 64-bit int).  The hash is an uninterpreted parameter `h`; the
harness supplies its value for each point and checks the real pids (events `leader.route`)
against an independent re-statement.

Both sides use SORTED keys: the leader sorts the key list of the follower's request
(`sortedPartitionKeys(partition.Keys)` in `onFollowerJoined`), the follower sorts the table's
own `PartitionBy` slice IN PLACE when `followLeaders` builds that request
(`sortedPartitionKeys(table.PartitionBy)`), before the first entry can reach `table.insert`.
-/
namespace Zeno

/-- dims of a point: name ↦ value bytes (rendered as text), in bytemap order -/
abbrev Dims := List (String × String)

/-- `dims.GetBytes(key)`: the value bytes, empty when the key is absent -/
def dimBytes (dims : Dims) (k : String) : String := (dims.lookup k).getD ""

/-- what is fed to the hash: the present partition-key values in key-list order, or all dims -/
def hashInput (keys : List String) (dims : Dims) : List (String × String) :=
  if keys.isEmpty then dims
  else keys.filterMap (fun k => let b := dimBytes dims k; if b.length > 0 then some (k, b) else none)

/-- `db.partitionFor`: `int(h.Sum32()) % NumPartitions` -/
def partitionFor (h : List (String × String) → Nat) (keys : List String) (dims : Dims) (N : Nat) : Nat :=
  h (hashInput keys dims) % N

/-- `db.inPartition` -/
def inPartition (h : List (String × String) → Nat) (keys : List String) (dims : Dims) (N p : Nat) : Bool :=
  partitionFor h keys dims N == p

/-- insertion into a list sorted by `<` on strings (`sort.Strings`) -/
def insertKey (k : String) : List String → List String
  | [] => [k]
  | x :: xs => if k < x then k :: x :: xs else x :: insertKey k xs

def sortKeys : List String → List String
  | [] => []
  | k :: ks => insertKey k (sortKeys ks)

/-- routing-relevant part of a table definition -/
structure TableRoute where
  keys : List String          -- TableOpts.PartitionBy as configured
  whereOk : Dims → Bool       -- the table's WHERE on the point's dims (goexpr, external)

/-- leader side, per (partition-key set, table): `pid := partitionFor(h, dims, partition.keys)`
    with the sorted keys of the follow request, `wherePassed := where == nil || where.Eval(dims)` -/
def leaderWants (h : List (String × String) → Nat) (T : TableRoute) (N : Nat) (dims : Dims) (p : Nat) : Bool :=
  inPartition h (sortKeys T.keys) dims N p && T.whereOk dims

/-- follower side re-check in `table.insert` / `doInsert`: `inPartition(h, dims, t.PartitionBy,
    db.opts.Partition)` (the slice sorted in place) and the table's WHERE -/
def followerKeeps (h : List (String × String) → Nat) (T : TableRoute) (N : Nat) (dims : Dims) (p : Nat) : Bool :=
  inPartition h (sortKeys T.keys) dims N p && T.whereOk dims

/-- the leader forwards an entry to a follower of partition `p` when ANY of its tables wants it -/
def forwarded (h : List (String × String) → Nat) (Ts : List TableRoute) (N : Nat) (dims : Dims) (p : Nat) : Bool :=
  Ts.any (fun T => leaderWants h T N dims p)

/-- the standalone database applies a point to a table iff its WHERE passes -/
def standaloneKeeps (T : TableRoute) (dims : Dims) : Bool := T.whereOk dims

/-- what a 32-bit platform (or a cast through int32) would compute: remainder of a SIGNED value
    (Go's `%` truncates toward zero) -/
def partitionForSigned (h32 : Int) (N : Nat) : Int := Int.tmod h32 (N : Int)

end Zeno
