/-
M-QUERY — the local query pipeline over one table: /repo/query.go (`getQueryable`),
/repo/planner/local.go (`planLocal`, `sourceForTable`, `asOfUntilFor`, `resolutionFor`,
`applySubQueryFilters`), /repo/core/group.go, /repo/core/flatten.go,
/repo/planner/having.go.  ORDER BY / LIMIT / OFFSET are M-SORT (Model/Sort.lean).

Dimension predicates (WHERE, incl. IN-subqueries) and IF conditions are evaluated
outside (goexpr) per source row key and arrive as `KeyMeta`.  CROSSTAB and
FROM-subqueries are not modelled here.
-/
import ZenoModel.Model.Store

namespace Zeno

structure KeyMeta where
  key : Key
  whereOk : Bool := true
  conds : List Nat := []
  deriving Repr, Inhabited

structure Query where
  /-- `query.Fields.Get(tableFields)`; with HAVING the synthetic `_having` field is last -/
  outFields : List Field
  selectAll : Bool := false
  groupByAll : Bool := true
  groupBy : List String := []     -- sorted dimension names (plain dims only)
  resolution : Int := 0
  stride : Int := 0
  asOf : Int := 0
  hi : Int := 0                   -- UNTIL
  asOfOffset : Int := 0
  untilOffset : Int := 0
  hasSpecificFields : Bool := false
  hasHaving : Bool := false
  hasWhere : Bool := false
  deriving Repr, Inhabited

structure QRow where
  ts : Int
  key : Key
  vals : List Rat
  deriving Repr, Inhabited, DecidableEq

inductive QErr | asOfBeforeTable | strideNotMultiple | resolutionTooFine | resolutionNotMultiple | noFields
  deriving Repr, DecidableEq, Inhabited

/-- the table's queryable window (`getQueryable`) -/
def tableUntil (cfg : TableCfg) (now : Int) : Int := roundUp now cfg.res
def tableAsOf (cfg : TableCfg) (now : Int) : Int := roundUp (tableUntil cfg now - cfg.retention) cfg.res

/-- `sourceForTable`: the table fields a query needs (those some selected expression can be
    sub-merged from) -/
def includedFields (cfg : TableCfg) (q : Query) : List Field :=
  if q.selectAll then cfg.fields
  else
    let tableExprs := cfg.fields.map (·.ex)
    let marks := q.outFields.map (fun f => (f.ex.subMergers tableExprs).map Option.isSome)
    (cfg.fields.zipIdx).filterMap (fun (f, i) => if marks.any (fun m => m.getD i false) then some f else none)

structure Plan where
  asOf : Int
  hi : Int
  asOfChanged : Bool
  untilChanged : Bool
  qAsOf : Int            -- the query's own (rounded) asOf handed to Group, 0 = none
  qUntil : Int
  resolution : Int
  strideSlice : Int
  resolutionChanged : Bool
  resolutionTruncated : Bool
  needsGroupBy : Bool
  deriving Repr, Inhabited

structure Window where
  asOf : Int
  hi : Int
  asOfChanged : Bool
  untilChanged : Bool
  qAsOf : Int
  qUntil : Int
  deriving Repr, Inhabited

/-- `asOfUntilFor`: the query's bounds (absolute, or relative to the clock) are rounded UP to
    the table's resolution; a bound that is absent or equal to the table's leaves the table's -/
def windowFor (cfg : TableCfg) (now : Int) (q : Query) : Window :=
  let srcAsOf := tableAsOf cfg now
  let srcUntil := tableUntil cfg now
  let qa := roundUp (if q.asOfOffset ≠ 0 then now + q.asOfOffset else q.asOf) cfg.res
  let qu := roundUp (if q.untilOffset ≠ 0 then now + q.untilOffset else q.hi) cfg.res
  let asOfChanged := qa ≠ 0 && qa ≠ srcAsOf
  let untilChanged := qu ≠ 0 && qu ≠ srcUntil
  { asOf := if asOfChanged then qa else srcAsOf, hi := if untilChanged then qu else srcUntil,
    asOfChanged := asOfChanged, untilChanged := untilChanged, qAsOf := qa, qUntil := qu }

/-- `resolutionFor` on a given window: (resolution, strideSlice, changed, truncated) or an error -/
def resolutionFor (cfg : TableCfg) (q : Query) (w : Window) : Except QErr (Int × Int × Bool × Bool) :=
  let res0 := if q.resolution = 0 then cfg.res else q.resolution
  if q.stride > 0 ∧ q.stride % cfg.res ≠ 0 then .error .strideNotMultiple
  else
    let resolution := if q.stride > 0 then q.stride else res0
    let strideSlice : Int := if q.stride > 0 then res0 else 0
    let window := w.hi - w.asOf
    let truncated := decide (resolution > window)
    let resolution := if resolution > window then window else resolution
    let changed := decide (resolution ≠ cfg.res)
    if changed ∧ resolution < cfg.res then .error .resolutionTooFine
    else if changed ∧ resolution % cfg.res ≠ 0 then .error .resolutionNotMultiple
    else .ok (resolution, strideSlice, changed, truncated)

/-- `planLocal`: window, the asOf check, resolution and the `needsGroupBy` decision -/
def planLocal (cfg : TableCfg) (now : Int) (q : Query) : Except QErr Plan :=
  let w := windowFor cfg now q
  if w.asOf < tableAsOf cfg now then .error .asOfBeforeTable
  else match resolutionFor cfg q w with
    | .error e => .error e
    | .ok (resolution, strideSlice, changed, truncated) =>
      let needs := w.asOfChanged || w.untilChanged || changed || !q.groupByAll || q.hasSpecificFields ||
        q.hasHaving || decide (strideSlice > 0)
      .ok { asOf := w.asOf, hi := w.hi, asOfChanged := w.asOfChanged, untilChanged := w.untilChanged,
            qAsOf := w.qAsOf, qUntil := w.qUntil, resolution := resolution, strideSlice := strideSlice,
            resolutionChanged := changed, resolutionTruncated := truncated, needsGroupBy := needs }

/-- `core.Group` on the rows of a table scan -/
def groupRows (cfg : TableCfg) (now : Int) (q : Query) (pl : Plan) (inFields : List Field)
    (metas : List KeyMeta) (rows : List Row) : List Row × Int :=
  let gRes := if pl.resolutionTruncated || pl.resolutionChanged then pl.resolution else cfg.res
  let gUntil := if pl.qUntil = 0 then tableUntil cfg now else pl.qUntil
  let gAsOf0 := if pl.qAsOf = 0 then tableAsOf cfg now else pl.qAsOf
  let gAsOf := if gUntil - gAsOf0 < gRes then gUntil - gRes else gAsOf0
  let inExprs := inFields.map (·.ex)
  let sms := q.outFields.map (fun f => dedupInputs inExprs (f.ex.subMergers inExprs))
  let slice := fun (k : Key) => if q.groupBy.isEmpty then k else k.filter (fun kv => q.groupBy.contains kv.1)
  let step := fun (out : List Row) (r : Row) =>
    let km := (metas.find? (fun m => m.key == r.key)).getD { key := r.key }
    let pt : Pt := { vals := [], conds := km.conds }
    let k := slice r.key
    let cur := match out.find? (fun o => o.key == k) with
      | some o => o.cols
      | none => q.outFields.map (fun _ => (none : Sq))
    let cols := ((q.outFields.zip sms).zip cur).map (fun ((f, smsO), c) =>
      ((smsO.zip inFields).zip r.cols).foldl (fun (acc : Sq) ((sm, inF), inCol) =>
        match sm with
        | none => acc
        | some sm => Sq.subMerge f.ex inF.ex sm gRes cfg.res acc inCol pt gAsOf gUntil pl.strideSlice) c)
    if out.any (fun o => o.key == k) then out.map (fun o => if o.key == k then { o with cols := cols } else o)
    else out ++ [{ key := k, cols := cols }]
  (rows.foldl step [], gRes)

/-- `core.Flatten` for one row -/
def flattenRow (x : Ext) (fields : List Field) (res : Int) (r : Row) : List QRow :=
  let nonEmpty := (r.cols.filterMap id).filter (fun s => s.cells.length > 0)
  match nonEmpty with
  | [] => []
  | s0 :: rest =>
    let hi := rest.foldl (fun m s => if s.hi > m then s.hi else m) s0.hi
    let lo := rest.foldl (fun m s => let a := s.hi - (s.cells.length : Int) * res; if a < m then a else m)
      (s0.hi - (s0.cells.length : Int) * res)
    let n := if res ≤ 0 then 0 else ((hi - lo) / res).toNat + 1
    (List.range n).filterMap (fun (i : Nat) =>
      let ts := lo + (Int.ofNat i) * res
      let vs := (fields.zip r.cols).map (fun (f, c) => (Sq.valueAtTime x c f.ex res ts, f.ex.isConstant))
      if vs.any (fun (v, isConst) => v.isSome && !isConst) then
        some { ts := ts, key := r.key, vals := vs.map (fun (v, _) => v.getD 0) }
      else none)

/-- the HAVING filter: the synthetic last column must be 1; it is removed -/
def havingFilter (rows : List QRow) : List QRow :=
  rows.filterMap (fun r =>
    if r.vals.getLast? = some 1 then some { r with vals := r.vals.dropLast } else none)

/-- the whole local pipeline up to (not including) ORDER BY / LIMIT / OFFSET -/
def runQuery (x : Ext) (cfg : TableCfg) (st : Store) (q : Query) (metas : List KeyMeta) (includeMem : Bool) :
    Except QErr (List QRow) := do
  let pl ← planLocal cfg st.now q
  let inFields := includedFields cfg q
  if inFields.isEmpty then throw .noFields
  let scan := (st.iterate cfg inFields includeMem).rows
  let scan := if q.hasWhere then
      scan.filter (fun r => ((metas.find? (fun m => m.key == r.key)).map (·.whereOk)).getD false)
    else scan
  let (rows, fields, res) :=
    if pl.needsGroupBy then
      let (g, gRes) := groupRows cfg st.now q pl inFields metas scan
      (g, q.outFields, gRes)
    else (scan, inFields, cfg.res)
  let flat := rows.flatMap (flattenRow x fields res)
  pure (if q.hasHaving then havingFilter flat else flat)

end Zeno
