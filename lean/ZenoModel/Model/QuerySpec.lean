/-
SPEC of a grouped query (C06, C07, C08): evaluated from the RAW points, with no
sequences, files, sub-merging or truncation involved.

  1. the accepted rows of the table (as in `specTable`): (group key, native period end, row);
  2. WHERE keeps the rows whose key satisfies the predicate;
  3. the window keeps the rows whose native period end lies in (asOf, until];
  4. a row goes to the bucket (projected key, out period end T) with
     T = until − ⌊(until − t)/P⌋·P, i.e. t ∈ (T − P, T];
  5. every selected expression is accumulated directly over the bucket's rows
     (`Ex.acc`) and read with `Ex.val`; a bucket yields a row iff some non-constant
     expression has a value; HAVING keeps the rows whose last column is 1.
-/
import ZenoModel.Model.Query
import ZenoModel.Model.Spec

namespace Zeno

structure AccRow where
  key : Key
  period : Int
  pt : Pt
  deriving Repr, Inhabited

/-- the accepted rows of a table, in arrival order (`dup` as in `specTableD`) -/
def acceptedRows (cfg : TableCfg) (dup : Bool) (ps : List RawPoint) : List AccRow × Int :=
  ps.foldl (fun (acc : List AccRow × Int) p =>
    let (rows, now) := acc
    if p.ts < now - cfg.retention then acc
    else if !p.whereOk then acc
    else
      let now := max now p.ts
      if p.panics then (rows, now)
      else
        let key := reslice cfg p.dims
        let period := roundUp p.ts cfg.res
        (rows ++ (pointRowsD dup p).map (fun vals => { key := key, period := period, pt := mkPt p vals }), now)) ([], 0)

def specQuery (x : Ext) (cfg : TableCfg) (dup : Bool) (ps : List RawPoint) (q : Query) (metas : List KeyMeta) :
    Except QErr (List QRow) := do
  let (rows, now) := acceptedRows cfg dup ps
  let pl ← planLocal cfg now q
  let P := if pl.resolutionTruncated || pl.resolutionChanged then pl.resolution else cfg.res
  let hi := if pl.qUntil = 0 then tableUntil cfg now else pl.qUntil
  let lo0 := if pl.qAsOf = 0 then tableAsOf cfg now else pl.qAsOf
  let lo := if hi - lo0 < P then hi - P else lo0
  let metaOf := fun (k : Key) => (metas.find? (fun m => m.key == k)).getD { key := k }
  let rows := if q.hasWhere then rows.filter (fun r => (metaOf r.key).whereOk) else rows
  let rows := rows.filter (fun r => lo < r.period ∧ r.period ≤ hi)
  let slice := fun (k : Key) => if q.groupBy.isEmpty then k else k.filter (fun kv => q.groupBy.contains kv.1)
  let bucketOf := fun (r : AccRow) => (slice r.key, hi - ((hi - r.period) / P) * P)
  let buckets := (rows.map bucketOf).eraseDups
  let out := buckets.filterMap (fun (k, T) =>
    let mine := rows.filter (fun r => bucketOf r == (k, T))
    -- table-level IF conditions were evaluated on the point's dims (ids < 100, carried by the
    -- row); IF conditions of the selected expressions are evaluated on the SOURCE row's key
    -- (ids ≥ 100, carried by the key meta)
    let pts := mine.map (fun r => { r.pt with conds := r.pt.conds ++ (metaOf r.key).conds })
    let vs := q.outFields.map (fun f => (f.ex.val x (f.ex.acc x pts), f.ex.isConstant))
    if vs.any (fun (v, c) => v.isSome && !c) then
      some ({ ts := T, key := k, vals := vs.map (fun (v, _) => v.getD 0) } : QRow)
    else none)
  pure (if q.hasHaving then havingFilter out else out)

/-- the values the selected expressions read from an EMPTY bucket, if the code's flatten would
    emit such a row at all (some non-constant expression "has a value" without any data, e.g.
    `SUM(a) * 2` or `_points <= 0`: a constant operand makes `Get` report a value) -/
def emptyBucketVals (x : Ext) (q : Query) : Option (List Rat) :=
  let vs := q.outFields.map (fun f => (f.ex.val x f.ex.empty, f.ex.isConstant))
  if vs.any (fun (v, c) => v.isSome && !c) then
    let vals := vs.map (fun (v, _) => v.getD 0)
    if q.hasHaving then (if vals.getLast? = some 1 then some vals.dropLast else none) else some vals
  else none

end Zeno
