/-
M-SEQ — value-level model of /repo/encoding/seq.go.

A Go `Sequence` (8 byte `until` header + one `width`-byte state per period,
newest first) is `Option Seq`: `none` is the empty/nil sequence
(`len(seq) == 0`), `some ⟨hi, cells⟩` has `hi` = `Until()` and one
`List Cell` (the expression's state) per period.  Go's truncating integer
division of durations is `Int.tdiv`.  Every function follows the Go function
of the same name branch for branch.
-/
import ZenoModel.Model.Time
import ZenoModel.Model.Expr

namespace Zeno

structure Seq where
  hi : Int
  cells : List (List Cell)
  deriving Repr, DecidableEq, Inhabited

abbrev Sq := Option Seq

def Sq.until (s : Sq) : Int := match s with | none => 0 | some s => s.hi
def Sq.numPeriods (s : Sq) : Nat := match s with | none => 0 | some s => s.cells.length
/-- `Sequence.AsOf` -/
def Sq.asOf (s : Sq) (res : Int) : Int :=
  match s with | none => 0 | some s => s.hi - (s.cells.length : Int) * res

/-- pad with empty states / cut to exactly `n` periods (a zeroed `make` of `n`
    periods into which at most `n` periods are copied) -/
def fit (e : Ex) (n : Nat) (cs : List (List Cell)) : List (List Cell) :=
  cs.take n ++ List.replicate (n - cs.length) e.empty

/-- modify the `i`-th period, if present -/
def modifyAt (cs : List (List Cell)) (i : Nat) (f : List Cell → List Cell) : List (List Cell) :=
  cs.modify i f

/-- `Sequence.Truncate(width, resolution, asOf, until)` (result value). -/
def Sq.truncate (s : Sq) (res : Int) (asOf hi : Int) : Sq :=
  match s with
  | none => none
  | some s =>
    let oldUntil := s.hi
    let asOf := roundUntilDown asOf res oldUntil
    let hi := roundUntilDown hi res oldUntil
    -- until part
    let r1 : Option Seq :=
      if hi ≠ 0 then
        let periodsToRemove := (oldUntil - hi).tdiv res
        if periodsToRemove > 0 then
          if periodsToRemove.toNat ≥ s.cells.length then none
          else some ⟨hi, s.cells.drop periodsToRemove.toNat⟩
        else some s
      else some s
    match r1 with
    | none => none
    | some r =>
      if asOf ≠ 0 then
        let maxPeriods := (r.hi - asOf).tdiv res
        if maxPeriods ≤ 0 then none
        else if maxPeriods.toNat ≥ r.cells.length then some r
        else some ⟨r.hi, r.cells.take maxPeriods.toNat⟩
      else some r

/-- `Sequence.UpdateValue(ts, params, metadata, e, resolution, truncateBefore)`. -/
def Sq.updateValue (x : Ext) (e : Ex) (res : Int) (s : Sq) (ts : Int) (p : Pt)
    (truncateBefore : Int) : Sq :=
  let ts := roundUp ts res
  -- `until := seq.Until(); if until.IsZero() { until = ts }`
  let untl : Int := match s with
    | none => ts
    | some q => if q.hi = 0 then ts else q.hi
  let tb := roundUntilUp truncateBefore res untl
  if ¬ (ts > tb) then s.truncate res tb 0
  else
    let fresh : Sq := some ⟨ts, [e.upd x e.empty p]⟩
    match s with
    | none => fresh
    | some q =>
      let start := q.hi
      let gapPeriods := (ts - start).tdiv res
      let maxPeriods := (ts - tb).tdiv res
      if start < tb ∨ gapPeriods > maxPeriods then fresh
      else if ts > start then
        -- prepend
        let n0 := (q.cells.length : Int) + gapPeriods
        let (numPeriods, keep) :=
          if n0 > maxPeriods then (maxPeriods, (maxPeriods - gapPeriods).toNat)
          else (n0, q.cells.length)
        let body := fit e numPeriods.toNat
          (List.replicate gapPeriods.toNat e.empty ++ q.cells.take keep)
        some ⟨ts, modifyAt body 0 (fun c => e.upd x c p)⟩
      else
        let period := ((start - ts).tdiv res).toNat
        let body := if period + 1 > q.cells.length then fit e (period + 1) q.cells else q.cells
        some ⟨start, modifyAt body period (fun c => e.upd x c p)⟩

/-- merge `n` aligned periods pairwise (`e.Merge(sout, sa, sb)` in a loop) -/
def mergeCells (e : Ex) : Nat → List (List Cell) → List (List Cell) → List (List Cell)
  | 0, _, _ => []
  | n + 1, a :: as, b :: bs => e.mrg a b :: mergeCells e n as bs
  | n + 1, a :: as, [] => e.mrg a e.empty :: mergeCells e n as []
  | n + 1, [], b :: bs => e.mrg e.empty b :: mergeCells e n [] bs
  | _ + 1, [], [] => []

/-- the body of `Sequence.Merge` after the swap and the truncateBefore test:
    `a` is the sequence with the later (or equal) `until` -/
def mergeMain (e : Ex) (res : Int) (a b : Seq) : Seq :=
  let startA := a.hi
  let startB := b.hi
  let aP : Int := a.cells.length
  let bP : Int := b.cells.length
  let endA := startA - aP * res
  let endB := startB - bP * res
  let end_ := if endA < endB then endA else endB
  let total := ((startA - end_).tdiv res).toNat
  let leadEnd := if startB < endA then endA else startB
  let leadN := (startA - leadEnd).tdiv res
  let lead := if leadN > 0 then a.cells.take leadN.toNat else []
  let sa := if leadN > 0 then a.cells.drop leadN.toNat else a.cells
  let mid :=
    if startB > endA then
      let ov0 := if endB > endA then (startA - endB).tdiv res else (startA - endA).tdiv res
      mergeCells e (ov0 - leadN).toNat sa b.cells
    else if startB < endA then
      List.replicate ((endA - startB).tdiv res).toNat e.empty
    else []
  let ov : Nat :=
    if startB > endA then
      let ov0 := if endB > endA then (startA - endB).tdiv res else (startA - endA).tdiv res
      (ov0 - leadN).toNat
    else 0
  let sa' := sa.drop ov
  let sb' := b.cells.drop ov
  let tail := if endA < endB then sa' else if endB < endA then sb' else []
  ⟨startA, fit e total (lead ++ mid ++ tail)⟩

/-- `Sequence.Merge(other, e, resolution, truncateBefore)`. -/
def Sq.merge (e : Ex) (res : Int) (s other : Sq) (truncateBefore : Int) : Sq :=
  match s, other with
  | none, o => o
  | some a, none => some a
  | some a0, some b0 =>
    let (a, b) := if b0.hi > a0.hi then (b0, a0) else (a0, b0)
    let tb := roundUntilUp truncateBefore res a.hi
    if b.hi < tb then some a
    else some (mergeMain e res a b)

/-- `Sequence.ValueAt(period, e)` on states: the state at a period index -/
def Sq.cellAt (s : Sq) (e : Ex) (period : Int) : List Cell :=
  match s with
  | none => e.empty
  | some q => if period < 0 then e.empty else q.cells.getD period.toNat e.empty

/-- semantic view: the state stored for the period ending at `t` (empty when
    `t` is outside the sequence or off its grid) -/
def Sq.at (s : Sq) (e : Ex) (res : Int) (t : Int) : List Cell :=
  match s with
  | none => e.empty
  | some q =>
    if (q.hi - t) % res = 0 ∧ t ≤ q.hi then q.cells.getD ((q.hi - t) / res).toNat e.empty
    else e.empty

/-- `Sequence.ValueAtTime(t, e, resolution)` -/
def Sq.valueAtTime (x : Ext) (s : Sq) (e : Ex) (res : Int) (t : Int) : Option Rat :=
  if e.isConstant then e.val x []
  else match s with
  | none => none
  | some q =>
    let t := roundUntilUp t res q.hi
    if t > q.hi then none
    else
      let period := (q.hi - t).tdiv res
      if period < 0 then none
      else match q.cells[period.toNat]? with
        | none => none
        | some c => e.val x c

end Zeno
