/-
M-STORE (cont.) — altering a table: /repo/table.go (`Alter`, `applyWhere`, `applyFields`),
/repo/schema.go (`ApplySchema`: an existing table is altered), /repo/row_store.go
(`processInserts`, case `fields := <-rs.fieldUpdates`; `fileStore.info`; the file loop of
`fileStore.iterate` with `includesAtLeastOneColumn`), restart = `DB.Close` (forced flush) +
`CreateTable` on the same directory (`openRowStore`).

Three field layouts are kept apart:
* `header`        — the fields printed into the header of the newest file (`createOutWriter`);
* `st.fileFields` — that header re-resolved (`fileStore.info`) against the fields the
                    `fileStore` object was created with (`fs.fields`): a header string no
                    field of `fs.fields` prints becomes `none` (`core.Field{}`);
* `st.memFields`  — the layout of the current memstore (`ms.fields`);
and `cfg.fields` is the table's current definition (`t.fields` = `rs.fields`).

Identity of a field everywhere in this code path is its printed form `name (expr)`
(`Field.same`); `AVG(b)` and `WAVG(b, a)` print alike (`Ex.norm`).

The definitions follow the code WITH the repairs of this check applied
(handoff/C15-fix-1-zero-clock-truncation.diff, handoff/C15-fix-2-D14a.diff):
* D14a — a field update rewrites the file with the new layout even when the memstore is
         empty (`AStore.alter`; the code as found is `AStore.alterPre`);
* a virtual clock that has not started (right after a restart) expires nothing
         (`table.truncateBefore`); the model's integer arithmetic never had the overflow.
The scan (`Store.iterateC`) and the rewrite (`Store.flushBody`) are written per row
(`scanFileRow` / `scanMemRow`), which is what the row-level theorems are about; a file row that
maps no requested column is skipped (fix dd8e0db, found by C17 and by this check: D15/D17).
`Store.iterateC` is proved equal to `Store.iterate` of Model/Store.lean (Lemmas/AlterRow.lean,
`iterateC_eq_iterate`); `Store.flushBody` is compared with `Store.flush` by the driver on every
flush of every generated history.
-/
import ZenoModel.Model.Store
import ZenoModel.Model.Column
import ZenoModel.Model.Spec

namespace Zeno

/-- `core.Fields.Equals`: same length, pairwise equal printed form -/
def fieldsSame (a b : List Field) : Bool :=
  a.length == b.length && (a.zip b).all (fun (x, y) => x.same y)

/-- `fileStore.info`: every header string is replaced by the first field of `fs.fields` that
    prints like it, or by the zero `core.Field{}` (`none`) -/
def resolveHeader (fsFields header : List Field) : List (Option Field) :=
  header.map (fun h => fsFields.find? (fun f => h.same f))

/-- position of a field (by printed identity) in a resolved file layout -/
def filePos (ff : List (Option Field)) (f : Field) : Option Nat :=
  ff.findIdx? (fun g => match g with | some g => g.same f | none => false)

/-- position of a field (by printed identity) in a field list -/
def fieldPos (fs : List Field) (f : Field) : Option Nat := fs.findIdx? (fun g => g.same f)

/-- `fileFields.Equals(outFields)` on a resolved layout (`rawOkay`) -/
def fileSameAs (ff : List (Option Field)) (out : List Field) : Bool :=
  ff.length == out.length &&
    (ff.zip out).all (fun (f, o) => match f with | some f => f.same o | none => false)

/-! ### one row of a scan -/

/-- the body of the file loop of `fileStore.iterate` for a row that is not passed through raw:
    `rowMapper` on the file columns, then `rowMerger` on the memstore row of the same key;
    the flag is `includesAtLeastOneColumn` -/
def scanFileRow (cfg : TableCfg) (tb : Int) (out : List Field) (ff : List (Option Field))
    (mf : List Field) (fileCols : List Sq) (ms : Option (List Sq)) : List Sq × Bool :=
  let (cols, inc1) := mapFileCols out ff fileCols
  match ms with
  | some m =>
      let (cols, inc2) := mergeMemCols out mf cfg.res tb cols m
      (cols, inc1 || inc2)
  | none => (cols, inc1)

/-- a memstore row that has no file row (`ms.tree.Walk` at the end of `fileStore.iterate`) -/
def scanMemRow (cfg : TableCfg) (tb : Int) (out : List Field) (mf : List Field) (msCols : List Sq) :
    List Sq :=
  (mergeMemCols out mf cfg.res tb (out.map (fun _ => none)) msCols).1

/-- `fileStore.iterate(outFields, ms, _, rawOkay = false, onRow)`: file rows first (merged with
    the memstore row of the same key; a row that maps no column is skipped), then the memstore
    rows that were not in the file. -/
def Store.iterateC (cfg : TableCfg) (st : Store) (outFields : List Field) (includeMem : Bool) :
    List Row :=
  let tb := st.now - cfg.retention
  let mem := if includeMem then st.mem else []
  let fileRows := st.file.getD []
  let fileOut := fileRows.filterMap (fun r =>
    let res := scanFileRow cfg tb outFields st.fileFields st.memFields r.cols
      ((mem.find? (fun m => m.key == r.key)).map (·.cols))
    if res.2 then some ({ key := r.key, cols := res.1 } : Row) else none)
  let rest := mem.filter (fun m => !(fileRows.any (fun r => r.key == m.key)))
  fileOut ++ rest.map (fun m =>
    ({ key := m.key, cols := scanMemRow cfg tb outFields st.memFields m.cols } : Row))

/-- `doProcessFlush` + `fileStore.flush`, without the "nothing to flush"
    test of the `flush` closure in `processInserts`: the file is rewritten with `cfg.fields`
    as layout whatever the memstore holds. -/
def Store.flushBody (cfg : TableCfg) (st : Store) : Store :=
  let tb := st.now - cfg.retention
  let disallowRaw := st.flushCount % 10 == 9
  let out := cfg.fields
  let rawOkay := !disallowRaw && fileSameAs st.fileFields out
  let fileRows := st.file.getD []
  let fromFile := fileRows.filterMap (fun r =>
    let ms := st.mem.find? (fun m => m.key == r.key)
    if ms.isNone && rawOkay then some r
    else
      let res := scanFileRow cfg tb out st.fileFields st.memFields r.cols (ms.map (·.cols))
      if res.2 then writeRow cfg tb { key := r.key, cols := res.1 } else none)
  let rest := st.mem.filter (fun m => !(fileRows.any (fun r => r.key == m.key)))
  let fromMem := rest.filterMap (fun m =>
    writeRow cfg tb { key := m.key, cols := scanMemRow cfg tb out st.memFields m.cols })
  { st with
    mem := [], memFields := cfg.fields,
    file := some (fromFile ++ fromMem), fileFields := cfg.fields.map some,
    flushCount := st.flushCount + 1 }

/-- the `flush` closure of `processInserts`: nothing happens with an empty memstore -/
def Store.flushC (cfg : TableCfg) (st : Store) : Store :=
  if st.mem.isEmpty then st else st.flushBody cfg

/-! ### the altered table -/

structure AStore where
  cfg : TableCfg                 -- current definition; only `fields` ever changes (`Alter`)
  whereC : Option Nat := none    -- the table's WHERE (index into the condition table), `t.Where`
  st : Store
  header : List Field := []      -- fields printed in the header of the newest file
  deriving Repr, Inhabited

def AStore.init (cfg : TableCfg) (w : Option Nat) : AStore :=
  { cfg := cfg, whereC := w, st := Store.init cfg }

/-- does the point satisfy the table's WHERE *now* (`doInsert`: `t.getWhere()` at processing
    time)?  `p.conds` lists the conditions that hold for the point's dims (evaluated outside) -/
def AStore.whereOk (a : AStore) (p : RawPoint) : Bool :=
  match a.whereC with
  | none => true
  | some c => p.conds.contains c

def AStore.ingest (x : Ext) (a : AStore) (p : RawPoint) : AStore × Bool :=
  let r := a.st.ingest x a.cfg { p with whereOk := a.whereOk p }
  ({ a with st := r.1 }, r.2)

/-- timer / forced flush -/
def AStore.flush (a : AStore) : AStore :=
  if a.st.mem.isEmpty then a
  else { a with st := a.st.flushBody a.cfg, header := a.cfg.fields }

/-- `table.Alter`: `applyWhere` (always), `applyFields` (nothing when the printed field lists are
    equal), then the `fieldUpdates` case of `processInserts`: `rs.fields = fields` and the file is
    rewritten at once with the new layout — memstore rows re-mapped through `rowMerger`, file rows
    through `rowMapper` — and a fresh memstore with the new layout is installed. -/
def AStore.alter (a : AStore) (fields : List Field) (w : Option Nat) : AStore :=
  if fieldsSame fields a.cfg.fields then { a with whereC := w }
  else
    let cfg' := { a.cfg with fields := fields }
    { cfg := cfg', whereC := w, st := a.st.flushBody cfg', header := fields }

/-- the code as found (before repair D14a): with an empty memstore only a fresh memstore is
    installed; the old file, its header and the `fileStore` object (with its `fs.fields`) stay -/
def AStore.alterPre (a : AStore) (fields : List Field) (w : Option Nat) : AStore :=
  if fieldsSame fields a.cfg.fields then { a with whereC := w }
  else
    let cfg' := { a.cfg with fields := fields }
    if a.st.mem.isEmpty then
      { a with cfg := cfg', whereC := w, st := { a.st with memFields := fields } }
    else
      { cfg := cfg', whereC := w, st := a.st.flushBody cfg', header := fields }

/-- clean restart: `Close` flushes (stop case of `processInserts`), `CreateTable` with the
    definition `fields`/`w` opens the newest file; its header is re-resolved against the new
    `fs.fields`; empty memstore with the table's fields; the virtual clock and the flush counter
    start again from zero. -/
def AStore.reopen (a : AStore) (fields : List Field) (w : Option Nat) : AStore :=
  let a := a.flush
  let cfg' := { a.cfg with fields := fields }
  { cfg := cfg', whereC := w, header := a.header,
    st := { a.st with mem := [], memFields := fields,
                      fileFields := if a.st.file.isSome then resolveHeader fields a.header else [],
                      now := 0, flushCount := 0 } }

/-- a raw scan of the given fields (`VerifIterate` → `table.iterate` → `fileStore.iterate`) -/
def AStore.scan (a : AStore) (outFields : List Field) (includeMem : Bool) : List Row :=
  a.st.iterateC a.cfg outFields includeMem

inductive AOp
  | ingest (p : RawPoint)
  | flush
  | alter (fields : List Field) (w : Option Nat)
  | reopen (fields : List Field) (w : Option Nat)
  deriving Repr, Inhabited

def AStore.step (x : Ext) (a : AStore) : AOp → AStore
  | .ingest p => (a.ingest x p).1
  | .flush => a.flush
  | .alter fs w => a.alter fs w
  | .reopen fs w => a.reopen fs w

/-- the same with the code as found for alter (repair D14a not applied) -/
def AStore.stepPre (x : Ext) (a : AStore) : AOp → AStore
  | .ingest p => (a.ingest x p).1
  | .flush => a.flush
  | .alter fs w => a.alterPre fs w
  | .reopen fs w => a.reopen fs w

def AStore.run (x : Ext) (cfg : TableCfg) (w : Option Nat) (ops : List AOp) : AStore :=
  ops.foldl (AStore.step x) (AStore.init cfg w)

def AStore.runPre (x : Ext) (cfg : TableCfg) (w : Option Nat) (ops : List AOp) : AStore :=
  ops.foldl (AStore.stepPre x) (AStore.init cfg w)

/-! ### one column under alters and restarts -/

/-- what a history does to the series of ONE field of ONE key that every alter of the history
    retains (Model/Column.lean plus restart and alter) -/
inductive AColOp
  | base (op : ColOp)            -- ingest / tick / late / flush raw
  | reopen (raw : Bool)          -- `Close` (a flush, raw pass-through allowed or not), clock back to zero
  | alterKeep (flushes raw : Bool) -- an alter retaining the field: the rewrite is a flush of the column
                                 -- (`raw`: the new layout prints like the file's, rows without memstore
                                 -- part pass through); `flushes = false`: the code as found with an
                                 -- empty memstore (nothing is rewritten)
  deriving Repr, Inhabited, DecidableEq

def Col.astep (x : Ext) (cfg : ColCfg) (c : Col) : AColOp → Col
  | .base op => c.step x cfg op
  | .reopen raw => { c.step x cfg (.flush raw) with now := 0 }
  | .alterKeep true raw => c.step x cfg (.flush raw)
  | .alterKeep false _ => c

def Col.arun (x : Ext) (cfg : ColCfg) (c : Col) (ops : List AColOp) : Col :=
  ops.foldl (Col.astep x cfg) c

/-- SPEC of a retained column: raw-point fold; flushes and alters are invisible, a restart only
    resets the clock.  `hwm` is the highest clock reached so far: periods that ended at or before
    `hwm − retention` have been expired at some moment and are outside every claim. -/
structure AColSpec where
  s : ColSpec
  hwm : Int

def AColSpec.step (x : Ext) (cfg : ColCfg) (a : AColSpec) : AColOp → AColSpec
  | .base op => { s := a.s.step x cfg op, hwm := max a.hwm (a.s.step x cfg op).now }
  | .reopen _ => { a with s := { a.s with now := 0 } }
  | .alterKeep _ _ => a

def AColSpec.run (x : Ext) (cfg : ColCfg) (a : AColSpec) (ops : List AColOp) : AColSpec :=
  ops.foldl (AColSpec.step x cfg) a

/-- a history without its alters (the never-altered run) -/
def eraseAlters : List AColOp → List AColOp
  | [] => []
  | .alterKeep _ _ :: r => eraseAlters r
  | op :: r => op :: eraseAlters r

/-- the rows the spec accumulates into period `T` from clock `now` on -/
def rowsForA (cfg : ColCfg) (T : Int) : Int → List AColOp → List Pt
  | _, [] => []
  | now, .base (.ingest ts pt) :: r =>
      if accepted cfg now ts then
        (if roundUp ts cfg.res = T then [pt] else []) ++ rowsForA cfg T (max now ts) r
      else rowsForA cfg T now r
  | now, .base (.tick ts) :: r => rowsForA cfg T (if accepted cfg now ts then max now ts else now) r
  | now, .base (.late _) :: r => rowsForA cfg T now r
  | now, .base (.flush _) :: r => rowsForA cfg T now r
  | _, .reopen _ :: r => rowsForA cfg T 0 r
  | now, .alterKeep _ _ :: r => rowsForA cfg T now r

/-! ### projection of a store history onto one column (executable tie, run by the driver) -/

/-- the series of field `f` (by printed identity) of row `key` in the store -/
def AStore.col (a : AStore) (key : Key) (f : Field) : Col :=
  let fileCol : Sq := match (a.st.file.getD []).find? (fun r => r.key == key) with
    | some r => (match filePos a.st.fileFields f with
        | some i => r.cols.getD i none
        | none => none)
    | none => none
  let memCol : Sq := match a.st.mem.find? (fun r => r.key == key) with
    | some r => (match fieldPos a.st.memFields f with
        | some i => r.cols.getD i none
        | none => none)
    | none => none
  { file := fileCol, mem := memCol, now := a.st.now }

/-- is the next flush allowed to pass rows through raw -/
def AStore.rawOkay (a : AStore) : Bool :=
  !(a.st.flushCount % 10 == 9) && fileSameAs a.st.fileFields a.cfg.fields

/-- the column operations one store operation stands for, for row `key` -/
def acolOpsOf (x : Ext) (a : AStore) (key : Key) : AOp → List AColOp
  | .ingest p =>
      let p' := { p with whereOk := a.whereOk p }
      let (st', ok) := a.st.ingest x a.cfg p'
      let clockMoved := st'.now != a.st.now || (!(p.ts < a.st.now - a.cfg.retention) && p'.whereOk)
      let here :=
        if ok then
          if reslice a.cfg p.dims == key then (pointRows p).map (fun vals => ColOp.ingest p.ts (mkPt p vals))
          else [ColOp.tick p.ts]
        else if clockMoved then [ColOp.tick p.ts] else [ColOp.late p.ts]
      let here := if ok && here.isEmpty then [ColOp.tick p.ts] else here
      here.map AColOp.base
  | .flush => if a.st.mem.isEmpty then [] else [.base (.flush a.rawOkay)]
  | .alter fs _ =>
      if fieldsSame fs a.cfg.fields then []
      else [.alterKeep true (!(a.st.flushCount % 10 == 9) && fileSameAs a.st.fileFields fs)]
  | .reopen _ _ => [.reopen (a.st.mem.isEmpty || a.rawOkay)]

/-- one simulation step: for every row key and every field that the operation retains (printed
    identity present before and after), the column extracted after the store operation must be
    the column model's result on the column extracted before.  Returns the offenders. -/
def stepMismatches (x : Ext) (a : AStore) (op : AOp) : List (Key × String) :=
  let a' := a.step x op
  let keys := ((a.st.file.getD []).map (·.key) ++ a.st.mem.map (·.key) ++
    (a'.st.file.getD []).map (·.key) ++ a'.st.mem.map (·.key)).eraseDups
  keys.flatMap (fun key =>
    a'.cfg.fields.filterMap (fun f' =>
      match a.cfg.fields.find? (fun f => f.same f') with
      | none => none
      | some f =>
        let ccfg : ColCfg := { e := f'.ex, res := a.cfg.res, retention := a.cfg.retention }
        let want := Col.arun x ccfg (a.col key f) (acolOpsOf x a key op)
        let got := a'.col key f'
        if want.file == got.file && want.mem == got.mem && want.now == got.now then none
        else some (key, f'.name)))

/-! ### the property's reference semantics of an altered table -/

/-- Raw-point spec with alters (independent of sequences, files, layouts and printed forms):
    a field is the SAME field across an alter iff name and expression are equal (`==` on
    `Field`, weight of WAVG included); a retained field keeps its states, an added field starts
    from the empty state, a new WHERE applies to the points processed after it; a restart resets
    the clock. -/
structure ASpec where
  fields : List Field
  whereC : Option Nat := none
  now : Int := 0
  hwm : Int := 0
  rows : List SpecRow := []
  deriving Repr, Inhabited

def ASpec.step (x : Ext) (cfg : TableCfg) (s : ASpec) : AOp → ASpec
  | .ingest p =>
      let ok := match s.whereC with | none => true | some c => p.conds.contains c
      let r := specStep x { cfg with fields := s.fields } false { now := s.now, rows := s.rows }
        { p with whereOk := ok }
      { s with now := r.now, hwm := max s.hwm r.now, rows := r.rows }
  | .flush => s
  | .alter fs w =>
      { s with fields := fs, whereC := w,
               rows := s.rows.map (fun r => { r with cells := fs.map (fun f =>
                 match s.fields.findIdx? (fun g => g == f) with
                 | some i => r.cells.getD i f.ex.empty
                 | none => f.ex.empty) }) }
  | .reopen fs w =>
      -- the table is re-created with its current definition: same rule as an alter
      { s with fields := fs, whereC := w, now := 0,
               rows := s.rows.map (fun r => { r with cells := fs.map (fun f =>
                 match s.fields.findIdx? (fun g => g == f) with
                 | some i => r.cells.getD i f.ex.empty
                 | none => f.ex.empty) }) }

def ASpec.run (x : Ext) (cfg : TableCfg) (w : Option Nat) (ops : List AOp) : ASpec :=
  ops.foldl (ASpec.step x cfg) { fields := cfg.fields, whereC := w }

end Zeno
