/-
M-CODEC — model of the msgpack codec of /repo/expr (what `rpc.Codec` does to an
`expr.Expr` that crosses the RPC boundary inside `core.Fields`).

Go side (files named per definition below):
  * expr/expr.go `init`: `msgpack.RegisterExt(50 … 60, &T{})`, one id per expression type;
  * msgpack encodes a registered type as `ext(id, body)`; `body` is, for a type without a
    custom encoder, the map {exported field name ↦ value} built by reflection (anonymous
    fields are kept even if their type name is unexported: `ptileOptimized.ptile`), and for
    `bounded` the three values its `EncodeMsgpack` writes back to back;
  * decoding an interface value reads the ext id, allocates the registered type and either
    fills the exported fields by name (no custom decoder) or calls the type's
    `DecodeMsgpack`, which decodes the generic map and restores the unexported closure
    fields from the package registries BY NAME (`aggregateFor`, `binaryExprFor`,
    `unaryMathFNs`) or re-links the embedded struct (`ptileOptimized`).

The model works on `GEx`, the Go object graph as far as the codec can tell objects apart:
besides the exported data it has, per unexported function field, a *slot* saying which
registry closure is attached (`some name`) or that the field is nil (`none`), the redundant
`Width` fields, `binaryExpr.DeAggregated`, and the embedded copy inside `ptileOptimized`.
A decoder clause that forgets to restore a slot therefore produces a *different* `GEx`,
and `toEx` (the link to the behavioural model `Ex` of Model/Expr.lean) has no value for it.

float64 as `Rat`, Go ints as `Int`/`Nat`; goexpr conditions are opaque ids (their codec is
goexpr's own, ext ids 70–104, sampled by the harness).  Core Lean only.
-/
import ZenoModel.Model.Expr

namespace Zeno

/-- Which closure an unexported func field holds: `some n` = the one registered under `n`,
    `none` = nil (calling it panics). -/
abbrev Slot := Option String

/-- Go-level expression objects, one constructor per registered type (expr/expr.go). -/
inductive GEx
  | field (name : String)                                         -- field{Name}
  | const (v : Rat)                                               -- constant{Value}
  | bounded (w : GEx) (lo hi : Rat)                               -- bounded{wrapped,min,max}
  | agg (name : String) (w : GEx) (update merge : Slot)           -- aggregate{Name,Wrapped,update,merge}
  | ifE (cond : Nat) (w : GEx) (width : Nat)                      -- ifExpr{Cond,Wrapped,Width}
  | avg (v w : GEx)                                               -- avg{Value,Weight}
  | bin (op : String) (l r : GEx) (deAgg : Bool) (cf : Slot)    -- binaryExpr{Op,Left,Right,DeAggregated,calc}
  | shift (w : GEx) (off : Int) (width : Nat)                     -- shift{Wrapped,Offset,Width}
  | unary (name : String) (fn : Slot) (w : GEx) (width : Nat)     -- unaryMathExpr{Name,fn,Wrapped,Width}
  | ptile (v p : GEx) (min max prec hdr : Int) (width : Nat)      -- ptile{Value,Percentile,Min,Max,Precision,HDRPrecision,Width}
  | ptileOpt (emb wrapped p : GEx)                                -- ptileOptimized{ptile (embedded copy),Wrapped,Percentile}
  deriving DecidableEq, Repr, Inhabited

/-- ext id passed to `msgpack.RegisterExt` (expr/expr.go init) -/
def GEx.extId : GEx → Nat
  | .field _ => 50 | .const _ => 51 | .bounded _ _ _ => 52 | .agg _ _ _ _ => 53
  | .ifE _ _ _ => 54 | .avg _ _ => 55 | .bin _ _ _ _ _ => 56 | .shift _ _ _ => 57
  | .unary _ _ _ _ => 58 | .ptile _ _ _ _ _ _ _ => 59 | .ptileOpt _ _ _ => 60

/-- Go type name -/
def GEx.tyName : GEx → String
  | .field _ => "field" | .const _ => "constant" | .bounded _ _ _ => "bounded"
  | .agg _ _ _ _ => "aggregate" | .ifE _ _ _ => "ifExpr" | .avg _ _ => "avg"
  | .bin _ _ _ _ _ => "binaryExpr" | .shift _ _ _ => "shift" | .unary _ _ _ _ => "unaryMathExpr"
  | .ptile _ _ _ _ _ _ _ => "ptile" | .ptileOpt _ _ _ => "ptileOptimized"

def GEx.isPtile : GEx → Bool
  | .ptile _ _ _ _ _ _ _ => true
  | _ => false

/-! ### Registries (expr/aggregate.go `aggregates`, expr/binary.go `binaryExprs`,
    expr/math.go `unaryMathFNs`); the key lists are tied to the source by
    `C20.registries_match`. -/

def aggNames : List String := ["SUM", "MIN", "MAX", "COUNT"]
def binOps : List String := ["+", "-", "*", "/", "<", "<=", "=", "<>", ">=", ">", "AND", "OR"]
def unaryFns : List String := ["LN", "LOG10", "LOG2"]

/-- `aggregateFor(name, …)`: nil for an unknown name, else a fresh aggregate carrying the
    update and merge closures registered under `name`. -/
def aggregateFor (name : String) : Option (Slot × Slot) :=
  if aggNames.contains name then some (some name, some name) else none

/-- `binaryExprFor(op, …)`: nil for an unknown op, else carrying `calc` registered under `op`. -/
def binaryExprFor (op : String) : Option Slot :=
  if binOps.contains op then some (some op) else none

/-- `unaryMathFNs[name]`: a map lookup, nil for an unknown name (no error). -/
def unaryMathFn (name : String) : Slot :=
  if unaryFns.contains name then some name else none

/-! ### Wire format -/

/-- msgpack values as far as zenodb's codec logic is concerned.  Maps and the value
    sequences written by custom encoders are cons-cells of the same type (no nested lists). -/
inductive Wire
  | nil
  | str (s : String)
  | num (r : Rat)                                 -- float64
  | int (i : Int)                                 -- any Go integer
  | bool (b : Bool)
  | cond (c : Nat)                                -- a goexpr.Expr subtree (external codec)
  | ext (id : Nat) (body : Wire)                  -- registered type
  | mnil | mcons (k : String) (v : Wire) (rest : Wire)   -- map: struct encoded by reflection
  | tnil | tcons (v : Wire) (rest : Wire)                -- values written back to back
  deriving DecidableEq, Repr, Inhabited

def Wire.keys : Wire → List String
  | .mcons k _ r => k :: r.keys
  | _ => []

def Wire.arity : Wire → Nat
  | .tcons _ r => 1 + r.arity
  | _ => 0

/-- the struct body without the ext header (how an embedded, non-pointer struct is written) -/
def Wire.plain : Wire → Wire
  | .ext _ b => b
  | w => w

/-- `msgpack.Marshal` of an `expr.Expr` held in an interface. -/
def enc : GEx → Wire
  | .field n => .ext 50 (.mcons "Name" (.str n) .mnil)
  | .const v => .ext 51 (.mcons "Value" (.num v) .mnil)
  -- bounded.EncodeMsgpack: enc.Encode(e.wrapped, e.min, e.max)
  | .bounded w lo hi => .ext 52 (.tcons (enc w) (.tcons (.num lo) (.tcons (.num hi) .tnil)))
  -- reflection: exported fields only; `update`, `merge` are not written
  | .agg name w _ _ => .ext 53 (.mcons "Name" (.str name) (.mcons "Wrapped" (enc w) .mnil))
  | .ifE c w width => .ext 54 (.mcons "Cond" (.cond c) (.mcons "Wrapped" (enc w) (.mcons "Width" (.int width) .mnil)))
  | .avg v w => .ext 55 (.mcons "Value" (enc v) (.mcons "Weight" (enc w) .mnil))
  -- `calc` is not written; `DeAggregated` is
  | .bin op l r da _ => .ext 56 (.mcons "Op" (.str op) (.mcons "Left" (enc l) (.mcons "Right" (enc r)
      (.mcons "DeAggregated" (.bool da) .mnil))))
  | .shift w off width => .ext 57 (.mcons "Wrapped" (enc w) (.mcons "Offset" (.int off) (.mcons "Width" (.int width) .mnil)))
  -- `fn` is not written
  | .unary name _ w width => .ext 58 (.mcons "Name" (.str name) (.mcons "Wrapped" (enc w) (.mcons "Width" (.int width) .mnil)))
  | .ptile v p mn mx pr hdr width => .ext 59 (.mcons "Value" (enc v) (.mcons "Percentile" (enc p)
      (.mcons "Min" (.int mn) (.mcons "Max" (.int mx) (.mcons "Precision" (.int pr)
      (.mcons "HDRPrecision" (.int hdr) (.mcons "Width" (.int width) .mnil)))))))
  -- reflection keeps the anonymous `ptile` field (a plain struct, no ext header), then
  -- Wrapped (an interface holding *ptile: ext 59) and Percentile
  | .ptileOpt emb w p => .ext 60 (.mcons "ptile" (enc emb).plain (.mcons "Wrapped" (enc w) (.mcons "Percentile" (enc p) .mnil)))

/-- What decoding into `interface{}` yields (`Decoder.DecodeInterface`). -/
inductive WVal
  | nil | str (s : String) | num (r : Rat) | int (i : Int) | bool (b : Bool) | cond (c : Nat)
  | ex (g : GEx)                                  -- a registered type, already decoded
  | other                                         -- a generic map (never looked into)
  deriving DecidableEq, Repr, Inhabited

abbrev WMap := List (String × WVal)

def WMap.str (m : WMap) (k : String) : Option String :=
  match m.lookup k with | some (.str s) => some s | _ => none
def WMap.num (m : WMap) (k : String) : Option Rat :=
  match m.lookup k with | some (.num r) => some r | _ => none
def WMap.int (m : WMap) (k : String) : Option Int :=
  match m.lookup k with | some (.int i) => some i | _ => none
/-- `m[k].(uint64)`: msgpack hands non-negative integers back as uint64 -/
def WMap.nat (m : WMap) (k : String) : Option Nat :=
  match m.lookup k with | some (.int (.ofNat n)) => some n | _ => none
def WMap.bool (m : WMap) (k : String) : Option Bool :=
  match m.lookup k with | some (.bool b) => some b | _ => none
def WMap.cond (m : WMap) (k : String) : Option Nat :=
  match m.lookup k with | some (.cond c) => some c | _ => none
/-- `m[k].(Expr)` -/
def WMap.ex (m : WMap) (k : String) : Option GEx :=
  match m.lookup k with | some (.ex g) => some g | _ => none

/-- The per-type decoding step, given the already decoded generic map (`dec.Decode(&m)`) or
    value sequence of the ext body.  `none` = the Go decoder returns an error or panics. -/
def decBuild (id : Nat) (m : Option WMap) (t : Option (List WVal)) : Option GEx :=
  match id with
  -- no custom decoder: exported fields filled by name
  | 50 => do let m ← m; pure (.field (← m.str "Name"))
  | 51 => do let m ← m; pure (.const (← m.num "Value"))
  -- bounded.DecodeMsgpack: dec.Decode(&e.wrapped, &e.min, &e.max)
  | 52 => match t with
      | some [.ex w, .num lo, .num hi] => some (.bounded w lo hi)
      | _ => none
  -- aggregate.DecodeMsgpack: e2 := aggregateFor(m["Name"], m["Wrapped"]); copy Name, Wrapped,
  -- update, merge from e2
  | 53 => do
      let m ← m
      let name ← m.str "Name"
      let w ← m.ex "Wrapped"
      let (u, mg) ← aggregateFor name
      pure (.agg name w u mg)
  | 54 => do let m ← m; pure (.ifE (← m.cond "Cond") (← m.ex "Wrapped") (← m.nat "Width"))
  | 55 => do let m ← m; pure (.avg (← m.ex "Value") (← m.ex "Weight"))
  -- binaryExpr.DecodeMsgpack: e2 := binaryExprFor(m["Op"], m["Left"], m["Right"]); copy Op,
  -- Left, Right, calc.  m["DeAggregated"] is not read: the field keeps its zero value.
  | 56 => do
      let m ← m
      let op ← m.str "Op"
      let l ← m.ex "Left"
      let r ← m.ex "Right"
      let cf ← binaryExprFor op
      pure (.bin op l r false cf)
  | 57 => do let m ← m; pure (.shift (← m.ex "Wrapped") (← m.int "Offset") (← m.nat "Width"))
  -- unaryMathExpr.DecodeMsgpack: Name, fn = unaryMathFNs[Name], Wrapped, Width
  | 58 => do
      let m ← m
      let name ← m.str "Name"
      pure (.unary name (unaryMathFn name) (← m.ex "Wrapped") (← m.nat "Width"))
  | 59 => do
      let m ← m
      pure (.ptile (← m.ex "Value") (← m.ex "Percentile") (← m.int "Min") (← m.int "Max")
        (← m.int "Precision") (← m.int "HDRPrecision") (← m.nat "Width"))
  -- ptileOptimized.DecodeMsgpack: wrapped := m["Wrapped"].(*ptile); e.Wrapped = wrapped;
  -- e.ptile = *wrapped; e.Percentile = m["Percentile"].  m["ptile"] is not read.
  | 60 => do
      let m ← m
      let w ← m.ex "Wrapped"
      let p ← m.ex "Percentile"
      if w.isPtile then pure (.ptileOpt w w p) else none
  | _ => none                                     -- "msgpack: unregistered ext id"

mutual
/-- `Decoder.DecodeInterface` -/
def decVal : Wire → Option WVal
  | .nil => some .nil
  | .str s => some (.str s)
  | .num r => some (.num r)
  | .int i => some (.int i)
  | .bool b => some (.bool b)
  | .cond c => some (.cond c)
  | .ext id body => (decBuild id (decMap body) (decTup body)).map .ex
  | .mnil => some .other
  | .mcons _ v rest =>
      match decVal v, decMap rest with
      | some _, some _ => some .other
      | _, _ => none
  | .tnil => none
  | .tcons _ _ => none
/-- a map body decoded into `map[string]interface{}` -/
def decMap : Wire → Option WMap
  | .mnil => some []
  | .mcons k v rest =>
      match decVal v, decMap rest with
      | some v', some r => some ((k, v') :: r)
      | _, _ => none
  | _ => none
/-- values read one after the other by a custom decoder -/
def decTup : Wire → Option (List WVal)
  | .tnil => some []
  | .tcons v rest =>
      match decVal v, decTup rest with
      | some v', some r => some (v' :: r)
      | _, _ => none
  | _ => none
end

/-- `msgpack.Unmarshal` into an `expr.Expr` interface. -/
def dec (w : Wire) : Option GEx :=
  match decVal w with
  | some (.ex g) => some g
  | _ => none

/-! ### Objects the constructors can build, and what a round trip may change -/

/-- Every closure slot holds what the registry has under the node's own name, and a
    `ptileOptimized` embeds a copy of the `*ptile` it wraps.  True of every object built by
    SUM/MIN/…, ADD/…, UnaryMath, PERCENTILE, PERCENTILEOPT and of everything `dec` returns. -/
def GEx.linked : GEx → Bool
  | .field _ => true
  | .const _ => true
  | .bounded w _ _ => w.linked
  | .agg name w u m => decide (aggregateFor name = some (u, m)) && w.linked
  | .ifE _ w _ => w.linked
  | .avg v w => v.linked && w.linked
  | .bin op l r _ cf => decide (binaryExprFor op = some cf) && l.linked && r.linked
  | .shift w _ _ => w.linked
  | .unary name fn w _ => decide (fn = unaryMathFn name) && w.linked
  | .ptile v p _ _ _ _ _ => v.linked && p.linked
  | .ptileOpt emb w p => decide (emb = w) && w.isPtile && emb.linked && w.linked && p.linked

/-- The only thing a round trip changes: `binaryExpr.DeAggregated` comes back false. -/
def GEx.clearDeAgg : GEx → GEx
  | .field n => .field n
  | .const v => .const v
  | .bounded w lo hi => .bounded w.clearDeAgg lo hi
  | .agg name w u m => .agg name w.clearDeAgg u m
  | .ifE c w width => .ifE c w.clearDeAgg width
  | .avg v w => .avg v.clearDeAgg w.clearDeAgg
  | .bin op l r _ cf => .bin op l.clearDeAgg r.clearDeAgg false cf
  | .shift w off width => .shift w.clearDeAgg off width
  | .unary name fn w width => .unary name fn w.clearDeAgg width
  | .ptile v p mn mx pr hdr width => .ptile v.clearDeAgg p.clearDeAgg mn mx pr hdr width
  | .ptileOpt emb w p => .ptileOpt emb.clearDeAgg w.clearDeAgg p.clearDeAgg

/-! ### Observers -/

/-- How Go prints the scalars inside `String()` (uninterpreted). -/
structure Fmt where
  f : Rat → String        -- %f of a float64 (constant)
  v : Rat → String        -- %v of a float64 (BOUNDED min/max)
  dur : Int → String      -- %v of a time.Duration
  int : Int → String      -- %v of an integer
  cond : Nat → String     -- %v of the goexpr condition

/-- `String()` of each type (expr/*.go) as the list of its pieces (the printed form is
    their concatenation, `GEx.str`).  `avg` does not print its weight. -/
def GEx.toks (x : Fmt) : GEx → List String
  | .field n => [n]
  | .const v => [x.f v]
  | .bounded w lo hi => ["BOUNDED("] ++ w.toks x ++ [", ", x.v lo, ", ", x.v hi, ")"]
  | .agg name w _ _ => [name, "("] ++ w.toks x ++ [")"]
  | .ifE c w _ => ["IF(", x.cond c, ", "] ++ w.toks x ++ [")"]
  | .avg v _ => ["AVG("] ++ v.toks x ++ [")"]
  | .bin op l r _ _ => ["("] ++ l.toks x ++ [" ", op, " "] ++ r.toks x ++ [")"]
  | .shift w off _ => ["SHIFT("] ++ w.toks x ++ [", ", x.dur off, ")"]
  | .unary name _ w _ => [name, "("] ++ w.toks x ++ [")"]
  | .ptile v p mn mx pr _ _ => ["PERCENTILE("] ++ v.toks x ++ [", "] ++ p.toks x ++
      [", ", x.int mn, ", ", x.int mx, ", ", x.int pr, ")"]
  | .ptileOpt _ w p => ["PERCENTILE("] ++ w.toks x ++ [", "] ++ p.toks x ++ [")"]

def GEx.str (x : Fmt) (g : GEx) : String := String.join (g.toks x)

/-- `EncodedWidth()` in bytes: `ifExpr`, `shift`, `unaryMathExpr`, `ptile` return the stored
    `Width`; `ptileOptimized` inherits the embedded ptile's. -/
def GEx.encodedWidth : GEx → Nat
  | .field _ => 0
  | .const _ => 0
  | .bounded w _ _ => w.encodedWidth
  | .agg _ w _ _ => 9 + w.encodedWidth
  | .ifE _ _ width => width
  | .avg v _ => 17 + v.encodedWidth
  | .bin _ l r _ _ => l.encodedWidth + r.encodedWidth
  | .shift _ _ width => width
  | .unary _ _ _ width => width
  | .ptile _ _ _ _ _ _ width => width
  | .ptileOpt emb _ _ => emb.encodedWidth

def aggKindOf : String → Option AggKind
  | "SUM" => some .sum | "MIN" => some .min | "MAX" => some .max | "COUNT" => some .count
  | _ => none

def binOpOf : String → Option BinOp
  | "+" => some .add | "-" => some .sub | "*" => some .mul | "/" => some .div
  | "<" => some .lt | "<=" => some .le | "=" => some .eq | "<>" => some .ne
  | ">=" => some .ge | ">" => some .gt | "AND" => some .and | "OR" => some .or
  | _ => none

def unaryIdOf : String → Option Nat
  | "LN" => some 0 | "LOG2" => some 1 | "LOG10" => some 2
  | _ => none

/-- The behavioural model (`Ex`, Model/Expr.lean) of a Go object: which `Ex.update`,
    `Ex.merge`, `Ex.get`, `Ex.shiftOf`, `Ex.isConstant` the object's methods compute.  The
    behaviour follows the *closure slots*, not the printed names; an object with a nil or
    mismatched closure has no behaviour (`none`: the Go method panics or is outside the
    model).  `cfg` names the histogram configuration of a PERCENTILE (bucket layout is
    supplied from outside the model).  `forGet` selects the view used by `Get`, which for
    `ptileOptimized` reads the outer `Percentile` while every other method is the embedded
    ptile's. -/
def GEx.toEx (cfg : Int → Int → Int → Int → Nat) (forGet : Bool) : GEx → Option Ex
  | .field n => some (.field n)
  | .const v => some (.const v)
  | .bounded w lo hi => (w.toEx cfg forGet).map (.bounded · lo hi)
  | .agg _ w u m =>
      match u, m with
      | some un, some mn =>
          match aggKindOf un, aggKindOf mn with
          | some k, some k' => if k = k' then (w.toEx cfg forGet).map (.agg k ·) else none
          | _, _ => none
      | _, _ => none
  | .ifE c w _ => (w.toEx cfg forGet).map (.ifE c ·)
  | .avg v w =>
      match v.toEx cfg forGet, w.toEx cfg forGet with
      | some v', some w' => some (.avg v' w')
      | _, _ => none
  | .bin _ l r _ cf =>
      match cf.bind binOpOf, l.toEx cfg forGet, r.toEx cfg forGet with
      | some op, some l', some r' => some (.bin op l' r')
      | _, _, _ => none
  | .shift w off _ => (w.toEx cfg forGet).map (.shift · off)
  | .unary _ fn w _ =>
      match fn.bind unaryIdOf, w.toEx cfg forGet with
      | some f, some w' => some (.unary f w')
      | _, _ => none
  | .ptile v p mn mx pr hdr width =>
      match v.toEx cfg forGet, p.toEx cfg forGet with
      | some v', some p' => some (.ptile (cfg mn mx pr hdr) v' p' ((width - v'.bytes) / 8 - 1))
      | _, _ => none
  | .ptileOpt emb _ p =>
      if forGet then
        match emb.toEx cfg forGet, p.toEx cfg forGet with
        | some (.ptile id v _ n), some p' => some (.ptile id v p' n)
        | _, _ => none
      else emb.toEx cfg forGet

/-- Observational equality: same printed form under every formatting of the scalars, same
    encoded width, same behavioural model under both views (hence the same `update`,
    `merge`, `get`, `shiftOf`, `isConstant`, `width` on all states and points). -/
def ObsEq (a b : GEx) : Prop :=
  (∀ x : Fmt, a.str x = b.str x) ∧ a.encodedWidth = b.encodedWidth ∧
  (∀ cfg forGet, a.toEx cfg forGet = b.toEx cfg forGet)

/-! ### `Validate()` — not preserved (see C20: `validate_not_preserved`) -/

/-- `validateWrappedInAggregate`'s type test: field, constant or bounded -/
def GEx.isAggArgType : GEx → Bool
  | .field _ => true
  | .const _ => true
  | .bounded _ _ _ => true
  | _ => false

/-- `Validate()` (expr/*.go), including `binaryExpr.validateWrappedInBinary`, which accepts
    any operand when `DeAggregated` is set. -/
def GEx.validate : GEx → Bool
  | .field _ => true
  | .const _ => true
  | .bounded w _ _ => w.validate
  | .agg _ w _ _ => w.isAggArgType && w.validate
  | .ifE _ w _ => w.validate
  | .avg v w => v.isAggArgType && v.validate && w.encodedWidth == 0
  | .bin _ l r da _ =>
      (match l with
        | .agg _ _ _ _ | .ifE _ _ _ | .avg _ _ | .const _ | .shift _ _ _ | .unary _ _ _ _
        | .ptile _ _ _ _ _ _ _ | .ptileOpt _ _ _ => true
        | .bin _ _ _ _ _ => l.validate
        | _ => da) &&
      (match r with
        | .agg _ _ _ _ | .ifE _ _ _ | .avg _ _ | .const _ | .shift _ _ _ | .unary _ _ _ _
        | .ptile _ _ _ _ _ _ _ | .ptileOpt _ _ _ => true
        | .bin _ _ _ _ _ => r.validate
        | _ => da)
  | .shift w _ _ => w.validate
  | .unary _ _ w _ => w.validate
  | .ptile v p _ _ _ _ _ => v.isAggArgType && v.validate && p.encodedWidth == 0
  | .ptileOpt emb _ _ => emb.validate

/-! ### Sender side: who owns the bytes `Marshal` returned

gRPC's HTTP/2 transport (google.golang.org/grpc, `http2Client.Write`/`http2Server.Write`)
copies the first 16 KB of a marshalled message into its frame header buffer and keeps the
rest of the slice by reference in the control buffer; a writer goroutine puts it on the wire
later, when flow control allows.  The sending goroutine meanwhile marshals the next message
of the stream.  The model: a heap of buffers; `Marshal` writes a message into a buffer and
hands its id to the transport; the transport reads the buffers only after all messages of
the stream have been marshalled (the latest it may).  rpc/msgpack_codec.go `Marshal`
returns what `msgpack.Marshal` allocated: policy `fresh`.  A codec that encodes into a
recycled buffer (sync.Pool, package-level scratch) is policy `reused`. -/

inductive BufPolicy
  | fresh      -- every call allocates its output
  | reused     -- every call writes into the same recycled buffer (id 0)
  deriving DecidableEq, Repr, Inhabited

/-- one `Marshal`: new heap and the id of the buffer handed to the transport -/
def marshalInto (p : BufPolicy) (heap : List Wire) (g : GEx) : List Wire × Nat :=
  match p with
  | .fresh => (heap ++ [enc g], heap.length)
  | .reused =>
      match heap with
      | [] => ([enc g], 0)
      | _ :: rest => (enc g :: rest, 0)

/-- marshal the messages of a stream one after the other -/
def sendAll (p : BufPolicy) : List Wire → List GEx → List Wire × List Nat
  | heap, [] => (heap, [])
  | heap, g :: gs =>
      let (heap', id) := marshalInto p heap g
      let (heap'', ids) := sendAll p heap' gs
      (heap'', id :: ids)

/-- what the transport puts on the wire when it reads the buffers after the last `Marshal` -/
def delivered (p : BufPolicy) (gs : List GEx) : List (Option Wire) :=
  let (heap, ids) := sendAll p [] gs
  ids.map (fun i => heap[i]?)

/-! ### Messages: "empty" versus "absent", and the message kind a receiver infers

rpc/rpc.go `RemoteQueryResult` is one struct for four kinds of message (field list, unflat
row, flat row, end of results); the sender (rpc/rpc_client.go `ProcessRemoteQuery`) fills the
fields of one kind, the receiver (rpc/server/rpc_server.go `HandleRemoteQueries`, then
cluster_query.go `queryCluster`) finds out which kind it got by position (`first`),
`EndOfResults`, and `fields != nil` / `key != nil` / `flatRow != nil`; a message with none of
these is taken for the partition's final result.  A Go slice / ByteMap / pointer is modelled
as `Option`: `none` = nil, `some []` = empty but non-nil — msgpack keeps the two apart (nil ↦
Nil, empty ↦ bin 0 / array 0) unless a struct tag says `omitempty` (then every zero-LENGTH
value is left off the wire and decodes as the zero value, nil) or `-` (never written). -/

/-- what a `msgpack:"…"` struct tag does to a field -/
structure FieldTag where
  omitEmpty : Bool := false
  skip : Bool := false
  deriving DecidableEq, Repr, Inhabited

/-- tags of the fields of `RemoteQueryResult` (regenerated: `C20.tagsOfFacts`) -/
structure RQRTags where
  fields : FieldTag := {}
  key : FieldTag := {}
  vals : FieldTag := {}
  row : FieldTag := {}
  stats : FieldTag := {}
  error : FieldTag := {}
  endOfResults : FieldTag := {}
  deriving DecidableEq, Repr, Inhabited

structure MRow where           -- core.FlatRow (exported fields)
  ts : Int
  key : Option (List Nat)
  values : Option (List Rat)
  deriving DecidableEq, Repr, Inhabited

/-- rpc.RemoteQueryResult; byte strings as `List Nat`, field list by printed form -/
structure RQR where
  fields : Option (List String) := none
  key : Option (List Nat) := none
  vals : Option (List (Option (List Nat))) := none
  row : Option MRow := none
  stats : Option (List Int) := none
  error : String := ""
  endOfResults : Bool := false
  deriving DecidableEq, Repr, Inhabited

/-- msgpack's `isEmptyValue` for slices, maps, strings, pointers: zero length / nil -/
def emptyOpt {α : Type} : Option (List α) → Bool
  | none => true
  | some l => l.isEmpty

/-- one field through the wire: dropped (then it decodes as `zero`) or kept as it is -/
def throughWire {α : Type} (t : FieldTag) (isEmpty : α → Bool) (zero : α) (v : α) : α :=
  if t.skip || (t.omitEmpty && isEmpty v) then zero else v

/-- `Unmarshal (Marshal m)` for a RemoteQueryResult under the given struct tags -/
def RQR.roundTrip (t : RQRTags) (m : RQR) : RQR :=
  { fields := throughWire t.fields emptyOpt none m.fields
    key := throughWire t.key emptyOpt none m.key
    vals := throughWire t.vals emptyOpt none m.vals
    row := throughWire t.row Option.isNone none m.row
    stats := throughWire t.stats Option.isNone none m.stats
    error := throughWire t.error String.isEmpty "" m.error
    endOfResults := throughWire t.endOfResults (fun b => !b) false m.endOfResults }

inductive MsgKind
  | fieldList | unflatRow | flatRow | endOfResults
  | failed            -- a message that reports the follower's error (`Error != ""`)
  | partitionDone     -- queryCluster's "final results for partition": no fields, no key, no flat row
  deriving DecidableEq, Repr, Inhabited

/-- The kind the LEADER infers from a received message: `HandleRemoteQueries` hands the first
    message to `onFields`; of a later one it reads `Error` (non-empty: the partition has
    failed, whatever else the message carries) and `EndOfResults` — in the order the source
    has them (`errBeforeEnd`, regenerated: with `EndOfResults` tested first and leaving the
    loop, the error text of a FINAL message is never looked at) — and otherwise passes it to
    `onRow(m.Key, m.Vals)` or `onFlatRow(m.Row)` depending on the query; `queryCluster` then
    looks at `fields != nil`, `key != nil`, `flatRow != nil` in that order and otherwise
    counts the partition as finished. -/
def leaderKind (errBeforeEnd first unflat : Bool) (m : RQR) : MsgKind :=
  if first then (if m.fields.isSome then .fieldList else .partitionDone)
  else if errBeforeEnd && m.error != "" then .failed
  else if m.endOfResults then .endOfResults
  else if m.error != "" then .failed
  else if unflat then (if m.key.isSome then .unflatRow else .partitionDone)
  else (if m.row.isSome then .flatRow else .partitionDone)

/-- The messages `ProcessRemoteQuery` sends, with the kind the follower means. -/
inductive Sent
  | fieldList (fs : List String)                         -- RemoteQueryResult{Fields: fields}
  | unflatRow (key : List Nat) (vals : Option (List (Option (List Nat))))  -- {Key: key, Vals: vals}
  | flatRow (row : MRow)                                 -- {Row: row}
  | endOfResults (stats : Option (List Int)) (error : String)   -- {Stats, EndOfResults: true, Error}
  deriving DecidableEq, Repr, Inhabited

def Sent.msg : Sent → RQR
  | .fieldList fs => { fields := some fs }
  | .unflatRow k v => { key := some k, vals := v }
  | .flatRow r => { row := some r }
  | .endOfResults st e => { stats := st, error := e, endOfResults := true }

/-- `ProcessRemoteQuery` reports a failed query ON the final message: `Error` together with
    `EndOfResults = true`. -/
def Sent.kind : Sent → MsgKind
  | .fieldList _ => .fieldList
  | .unflatRow _ _ => .unflatRow
  | .flatRow _ => .flatRow
  | .endOfResults _ e => if e != "" then .failed else .endOfResults

/-- position and query flavour under which the follower sends the message -/
def Sent.first : Sent → Bool
  | .fieldList _ => true
  | _ => false

/-- the fields of RemoteQueryResult the receiving code tests, with the way they are tested:
    `EndOfResults`, `Error`, `Fields`, `Key`, `Row` decide `leaderKind`.  Tied to the source by `C20.kind_tests_match_model`. -/
def rqrKindFields : List (String × String) :=
  [("EndOfResults", "bool"), ("Error", "zero"), ("Fields", "nil"), ("Key", "nil"), ("Row", "nil")]

/-! ### Field tables consumed by the `decide` theorems of C20 -/

/-- Unexported (or exported but not restored) fields that a decoder may leave alone, with
    the reason.  Everything else must be assigned by the type's custom decoder. -/
def codecIgnorable : List (String × String × String) := [
  ("binaryExpr", "DeAggregated",
    "exported, written, not read back by DecodeMsgpack: only Validate() reads it (validateWrappedInBinary); "
    ++ "no caller validates a decoded expression; String/EncodedWidth/Shift/Update/Merge/Get/SubMergers do not read it; "
    ++ "DeAggregate() sets it on a fresh object")
]

/-- Unexported fields of message structs (encoded by reflection, so dropped) and why that is
    harmless. -/
def codecMsgIgnorable : List (String × String × String) := [
  ("FlatRow", "fields",
    "re-attached on the receiving side by SetFields (cluster_query.go) before core/sort.go reads it; "
    ++ "the rpc client hands rows to the caller, which gets field names from QueryMetaData")
]

end Zeno
