/-
M-SQLLEX — two lexers that must agree.

`sql.Parse` first runs `checkLiteralIdentifiers` (sql/sql.go, "the pre-scan") and only then
sqlparser's tokenizer.  The tokenizer never returns from a backtick-quoted identifier that is
still open at the end of the input (`scanLiteralIdentifier` has no end-of-input check), so the
pre-scan has to reject exactly those inputs — which requires that the two agree, token by
token, on what every byte belongs to (string? comment? exponent sign? bind variable?).

Both are modelled as functions on `List Char` (one `Char` per input byte):
* `tokScan` — one call of `Tokenizer.Scan` (vendored github.com/getlantern/sqlparser, token.go:
  Scan, scanIdentifier, scanNumber with its gotos, scanBindVar, scanString, scanCommentType1/2,
  scanLiteralIdentifier), returning what is left of the input, or `eof`, `lexError` (the parser
  stops there: the grammar has no error productions) or `loops`;
* `preScan` — one round of the token loop of `checkLiteralIdentifiers` as rewritten by
  C16-fix-18 (helpers `number`, `lineComment`, the string loop, the backtick search), whose
  control skeleton is regenerated from the source as `Facts.prescanShape`.
`tokAll` / `preAll` iterate them with fuel (one unit per token; `none` = fuel exhausted, which
`fuel_suffices` excludes for fuel > length).  Core Lean only.
-/
namespace Zeno.Sql.Lex

abbrev Str := List Char

def isLetter (c : Char) : Bool :=
  ('a' ≤ c && c ≤ 'z') || ('A' ≤ c && c ≤ 'Z') || c == '_' || c == '@'

def isDigit (c : Char) : Bool := '0' ≤ c && c ≤ '9'

/-- `digitVal`: 16 for anything that is not a hexadecimal digit -/
def digitVal (c : Char) : Nat :=
  if '0' ≤ c && c ≤ '9' then c.toNat - '0'.toNat
  else if 'a' ≤ c && c ≤ 'f' then c.toNat - 'a'.toNat + 10
  else if 'A' ≤ c && c ≤ 'F' then c.toNat - 'A'.toNat + 10
  else 16

def isBlank (c : Char) : Bool := c == ' ' || c == '\n' || c == '\r' || c == '\t'

/-- the single-character tokens of `Scan`'s default branch (and `?`) -/
def isSingle (c : Char) : Bool :=
  c == '=' || c == ',' || c == ';' || c == '(' || c == ')' || c == '+' || c == '*' || c == '%' ||
  c == '&' || c == '|' || c == '^' || c == '~' || c == '?'

/-- `scanMantissa(base)` / `mantissa(i, base)`: the same loop in both programs -/
def mantissa (base : Nat) (s : Str) : Str := s.dropWhile (fun c => digitVal c < base)

def identRest (s : Str) : Str := s.dropWhile (fun c => isLetter c || isDigit c)
def bindRest (s : Str) : Str := s.dropWhile (fun c => isLetter c || isDigit c || c == '.')

/-- the outcome of scanning one token -/
inductive Step
  | eof                    -- end of input
  | lexError               -- LEX_ERROR: the parser stops / the pre-scan returns nil
  | loops                  -- an open backtick identifier: the tokenizer never returns / the pre-scan rejects
  | next (rest : Str)      -- a token was consumed
deriving Repr, DecidableEq

/-! ## The tokenizer (token.go) -/

/-- label `exponent:` of scanNumber -/
def tokExponent (s : Str) : Str :=
  match s with
  | c :: r =>
      if c == 'e' || c == 'E' then
        match r with
        | d :: r2 => if d == '+' || d == '-' then mantissa 10 r2 else mantissa 10 r
        | [] => mantissa 10 r
      else s
  | [] => s

/-- label `fraction:` -/
def tokFraction (s : Str) : Str :=
  match s with
  | c :: r => if c == '.' then tokExponent (mantissa 10 r) else tokExponent s
  | [] => tokExponent s

/-- `scanNumber(seenDecimalPoint)`; `none` = LEX_ERROR.  `s` starts at `lastChar`. -/
def tokNumber (seenDecimalPoint : Bool) (s : Str) : Option Str :=
  if seenDecimalPoint then some (tokExponent (mantissa 10 s))
  else
    match s with
    | c :: r =>
        if c == '0' then
          -- tkn.lastChar == '0'
          let hex : Bool := match r with | x :: _ => x == 'x' || x == 'X' | [] => false
          if hex then some (mantissa 16 (r.drop 1))
          else
            let r1 := mantissa 8 r
            let seenDecimalDigit : Bool := match r1 with | d :: _ => d == '8' || d == '9' | [] => false
            let r2 := if seenDecimalDigit then mantissa 10 r1 else r1
            let toFraction : Bool := match r2 with | d :: _ => d == '.' || d == 'e' || d == 'E' | [] => false
            if toFraction then some (tokFraction r2)
            else if seenDecimalDigit then none
            else some r2
        else some (tokFraction (mantissa 10 s))
    | [] => some (tokFraction (mantissa 10 s))

/-- `scanString(delim)`, `s` is what follows the opening quote; `none` = LEX_ERROR -/
def tokString (delim : Char) : Str → Option Str
  | [] => none
  | c :: r =>
      if c == delim then
        match r with
        | c2 :: r2 => if c2 == delim then tokString delim r2 else some r
        | [] => some r
      else if c == '\\' then
        match r with
        | [] => none
        | _ :: r2 => tokString delim r2
      else tokString delim r

/-- `scanCommentType1`: up to and including the next newline -/
def tokLine : Str → Str
  | [] => []
  | c :: r => if c == '\n' then r else tokLine r

/-- `scanCommentType2` after "/*"; `none` = LEX_ERROR (end of input inside the comment) -/
def tokBlock : Str → Option Str
  | [] => none
  | c :: r =>
      if c == '*' then
        match r with
        | d :: r2 => if d == '/' then some r2 else tokBlock r
        | [] => tokBlock r
      else tokBlock r

/-- the loop of `scanLiteralIdentifier`: up to and including the next backtick; `none` = never -/
def untilBacktick : Str → Option Str
  | [] => none
  | c :: r => if c == '`' then some r else untilBacktick r

/-- `scanLiteralIdentifier`, `s` is what follows the opening backtick: the first byte is taken
    unconditionally, then the loop runs; `none` = it never returns -/
def tokLiteral (s : Str) : Option Str :=
  match s with
  | [] => none
  | _ :: r => untilBacktick r

def ofOpt (o : Option Str) (onNone : Step) : Step :=
  match o with
  | some r => .next r
  | none => onNone

/-- `if tkn.lastChar == 0 { tkn.next() }; tkn.skipBlank()` — at the very first call `lastChar == 0`
    is the tokenizer's initial state and `next()` only loads the first byte -/
def skipStart (first : Bool) (s : Str) : Str :=
  let s1 := match s with
    | c :: r => if !first && c == Char.ofNat 0 then r else s
    | [] => s
  s1.dropWhile isBlank

/-- one call of `Tokenizer.Scan` -/
def tokScan (first : Bool) (s0 : Str) : Step :=
  match skipStart first s0 with
  | [] => .eof
  | c :: r =>
      if isLetter c then .next (identRest r)
      else if isDigit c then ofOpt (tokNumber false (c :: r)) .lexError
      else if c == ':' then
        let r1 := match r with | d :: r' => if d == ':' then r' else r | [] => r
        match r1 with
        | l :: _ => if isLetter l then .next (bindRest r1) else .lexError
        | [] => .lexError
      else if isSingle c then .next r
      else if c == '.' then
        match r with
        | d :: _ => if isDigit d then ofOpt (tokNumber true r) .lexError else .next r
        | [] => .next r
      else if c == '/' then
        match r with
        | d :: r' => if d == '/' then .next (tokLine r') else if d == '*' then ofOpt (tokBlock r') .lexError else .next r
        | [] => .next r
      else if c == '-' then
        match r with
        | d :: r' => if d == '-' then .next (tokLine r') else .next r
        | [] => .next r
      else if c == '<' then
        match r with
        | d :: r' =>
            if d == '>' then .next r'
            else if d == '=' then
              match r' with
              | e :: r'' => if e == '>' then .next r'' else .next r'
              | [] => .next r'
            else .next r
        | [] => .next r
      else if c == '>' then
        match r with
        | d :: r' => if d == '=' then .next r' else .next r
        | [] => .next r
      else if c == '!' then
        match r with
        | d :: r' => if d == '=' then .next r' else .lexError
        | [] => .lexError
      else if c == '\'' || c == '"' then ofOpt (tokString c r) .lexError
      else if c == '`' then ofOpt (tokLiteral r) .loops
      else .lexError

/-- tokenizing the whole input: `some true` = ends (end of input or lexical error),
    `some false` = never returns, `none` = out of fuel -/
def tokAll : Nat → Bool → Str → Option Bool
  | 0, _, _ => none
  | n + 1, first, s =>
      match tokScan first s with
      | .eof => some true
      | .lexError => some true
      | .loops => some false
      | .next r => tokAll n false r

/-! ## The pre-scan (sql/sql.go checkLiteralIdentifiers, C16-fix-18) -/

/-- the common tail of the closure `number`: `if !seenDecimalPoint && at(i) == '.' { … }`, then the exponent -/
def preNumTail (seenDot : Bool) (s : Str) : Str :=
  let s1 := match s with
    | c :: r => if !seenDot && c == '.' then mantissa 10 r else s
    | [] => s
  match s1 with
  | c :: r =>
      if c == 'e' || c == 'E' then
        match r with
        | d :: r2 => if d == '+' || d == '-' then mantissa 10 r2 else mantissa 10 r
        | [] => mantissa 10 r
      else s1
  | [] => s1

/-- the closure `number(i, seenDecimalPoint)`: position after the number, and whether it is valid -/
def preNumber (seenDecimalPoint : Bool) (s : Str) : Option Str :=
  if seenDecimalPoint then some (preNumTail true (mantissa 10 s))
  else
    match s with
    | c :: r =>
        if c == '0' then
          let hex : Bool := match r with | x :: _ => x == 'x' || x == 'X' | [] => false
          if hex then some (mantissa 16 (r.drop 1))
          else
            let r1 := mantissa 8 r
            let seenDecimalDigit : Bool := match r1 with | d :: _ => d == '8' || d == '9' | [] => false
            let r2 := if seenDecimalDigit then mantissa 10 r1 else r1
            let goesOn : Bool := match r2 with | d :: _ => d == '.' || d == 'e' || d == 'E' | [] => false
            -- `if at(i) != '.' && at(i) != 'e' && at(i) != 'E' { return i, !seenDecimalDigit }`
            if !goesOn then (if seenDecimalDigit then none else some r2)
            else some (preNumTail false r2)
        else some (preNumTail false (mantissa 10 s))
    | [] => some (preNumTail false (mantissa 10 s))

/-- the string loop (`for closed := false; !closed; { ch := at(i); i++; switch … }`), parametrised by
    what a backslash does so that the seeded regression can be stated: `escapeAny = true` is the code -/
def preStringWith (escapeAny : Bool) (delim : Char) : Str → Option Str
  | [] => none                                   -- case ch < 0: return nil
  | c :: r =>
      if c == delim then                          -- case ch == c
        match r with
        | c2 :: r2 => if c2 == delim then preStringWith escapeAny delim r2 else some r
        | [] => some r
      else if c == '\\' && (escapeAny || r.head? == some delim) then   -- case ch == '\\'
        match r with
        | [] => none
        | _ :: r2 => preStringWith escapeAny delim r2
      else preStringWith escapeAny delim r

def preString := preStringWith true

/-- the closure `lineComment(i)` -/
def preLine : Str → Str
  | [] => []
  | c :: r => if c == '\n' then r else preLine r

/-- `strings.Index(sql[i+1:], "*/")` and the jump behind it -/
def preBlock : Str → Option Str
  | [] => none
  | c :: r =>
      match r with
      | d :: r2 => if c == '*' && d == '/' then some r2 else preBlock r
      | [] => none

/-- `strings.IndexByte(sql[i+1:], '`')` after the byte that follows the opening backtick -/
def preLiteral (s : Str) : Option Str :=
  match s with
  | [] => none
  | _ :: r => untilBacktick r

/-- one round of the token loop, with the string scanner as a parameter -/
def preScanWith (str : Char → Str → Option Str) (first : Bool) (s0 : Str) : Step :=
  match skipStart first s0 with
  | [] => .eof                                    -- case c < 0: return nil
  | c :: r =>
      if isLetter c then .next (identRest r)
      else if isDigit c then ofOpt (preNumber false (c :: r)) .lexError
      else if c == ':' then
        let r1 := match r with | d :: r' => if d == ':' then r' else r | [] => r
        match r1 with
        | l :: _ => if isLetter l then .next (bindRest r1) else .lexError
        | [] => .lexError
      else if isSingle c then .next r
      else if c == '.' then
        match r with
        | d :: _ => if isDigit d then ofOpt (preNumber true r) .lexError else .next r
        | [] => .next r
      else if c == '/' then
        match r with
        | d :: r' => if d == '/' then .next (preLine r') else if d == '*' then ofOpt (preBlock r') .lexError else .next r
        | [] => .next r
      else if c == '-' then
        match r with
        | d :: r' => if d == '-' then .next (preLine r') else .next r
        | [] => .next r
      else if c == '<' then
        match r with
        | d :: r' =>
            if d == '>' then .next r'
            else if d == '=' then
              match r' with
              | e :: r'' => if e == '>' then .next r'' else .next r'
              | [] => .next r'
            else .next r
        | [] => .next r
      else if c == '>' then
        match r with
        | d :: r' => if d == '=' then .next r' else .next r
        | [] => .next r
      else if c == '!' then
        match r with
        | d :: r' => if d == '=' then .next r' else .lexError
        | [] => .lexError
      else if c == '\'' || c == '"' then ofOpt (str c r) .lexError
      else if c == '`' then ofOpt (preLiteral r) .loops     -- return ErrUnterminatedIdentifier
      else .lexError

def preScan := preScanWith preString

/-- the whole pre-scan: `some true` = returns nil (accepts), `some false` = rejects, `none` = out of fuel -/
def preAllWith (str : Char → Str → Option Str) : Nat → Bool → Str → Option Bool
  | 0, _, _ => none
  | n + 1, first, s =>
      match preScanWith str first s with
      | .eof => some true
      | .lexError => some true
      | .loops => some false
      | .next r => preAllWith str n false r

def preAll := preAllWith preString

/-- the pre-scan as it was before C16-fix-18: strings, comments and backticks only, no tokens
    (kept as the witness of the finding `… x = 1e--`c`) -/
def preOld : Nat → Str → Option Bool
  | 0, _ => none
  | _ + 1, [] => some true
  | n + 1, c :: r =>
      if c == '\'' || c == '"' then
        match preString c r with
        | some r' => preOld n r'
        | none => some true
      else if c == '`' then
        match preLiteral r with
        | some r' => preOld n r'
        | none => some false
      else if c == '/' && r.head? == some '*' then
        match preBlock (r.drop 1) with
        | some r' => preOld n r'
        | none => some true
      else if (c == '-' && r.head? == some '-') || (c == '/' && r.head? == some '/') then
        if (c :: r).contains '\n' then preOld n (preLine (c :: r)) else some true
      else preOld n r

/-! ## The control skeleton of `checkLiteralIdentifiers` that this model was written against

Section by section, with the definition of the model it corresponds to.  `Facts.prescanShape` is
regenerated from sql/sql.go on every run and compared with `expectedShape` by `decide`
(`prescan_shape_matches` in Props/C16.lean): any edit of a branch condition, loop header, return
or position update of the pre-scan re-opens the model. -/

/-- `at(i)`: the byte at `i`, or -1 behind the end (the model's `[]`) -/
def shapeAt : List String := [
  "n := len(sql)",
  "at := func(i int) int",
  "if i < n",
  "return int(sql[i])",
  "return -1"
]

/-- `isLetter`, `isDigit`, `digitVal` (same definitions in the model) -/
def shapeClasses : List String := [
  "isLetter := func(c int) bool",
  "return 'a' <= c && c <= 'z' || 'A' <= c && c <= 'Z' || c == '_' || c == '@'",
  "isDigit := func(c int) bool",
  "return '0' <= c && c <= '9'",
  "digitVal := func(c int) int",
  "switch ",
  "case '0' <= c && c <= '9'",
  "return c - '0'",
  "case 'a' <= c && c <= 'f'",
  "return c - 'a' + 10",
  "case 'A' <= c && c <= 'F'",
  "return c - 'A' + 10",
  "return 16"
]

/-- `mantissa` -/
def shapeMantissa : List String := [
  "mantissa := func(i int, base int) int",
  "for ; digitVal(at(i)) < base; ",
  "i++",
  "return i"
]

/-- `preNumber` and `preNumTail` -/
def shapeNumber : List String := [
  "number := func(i int, seenDecimalPoint bool) (int, bool)",
  "if seenDecimalPoint",
  "i = mantissa(i, 10)",
  "if at(i) == '0'",
  "i++",
  "if at(i) == 'x' || at(i) == 'X'",
  "return mantissa(i+1, 16), true",
  "seenDecimalDigit := false",
  "i = mantissa(i, 8)",
  "if at(i) == '8' || at(i) == '9'",
  "seenDecimalDigit = true",
  "i = mantissa(i, 10)",
  "if at(i) != '.' && at(i) != 'e' && at(i) != 'E'",
  "return i, !seenDecimalDigit",
  "i = mantissa(i, 10)",
  "if !seenDecimalPoint && at(i) == '.'",
  "i = mantissa(i+1, 10)",
  "if at(i) == 'e' || at(i) == 'E'",
  "i++",
  "if at(i) == '+' || at(i) == '-'",
  "i++",
  "i = mantissa(i, 10)",
  "return i, true"
]

/-- `preLine` -/
def shapeLine : List String := [
  "lineComment := func(i int) int",
  "for ; at(i) >= 0; ",
  "i++",
  "if sql[i-1] == '\\n'",
  "break",
  "return i"
]

/-- `skipStart` and the end of the input (`.eof`) -/
def shapeHead : List String := [
  "for i, first := 0, true; ; first = false",
  "i, first := 0, true",
  "first = false",
  "if !first && at(i) == 0",
  "i++",
  "for ; at(i) == ' ' || at(i) == '\\n' || at(i) == '\\r' || at(i) == '\\t'; ",
  "i++",
  "c := at(i)",
  "switch ",
  "case c < 0",
  "return nil"
]

/-- identifiers: `identRest` -/
def shapeIdent : List String := [
  "case isLetter(c)",
  "for i++; isLetter(at(i)) || isDigit(at(i)); i++",
  "i++",
  "i++"
]

/-- numbers: `preNumber false` -/
def shapeDigit : List String := [
  "case isDigit(c)",
  "if !ok",
  "i, ok = number(i, false)",
  "return nil"
]

/-- bind variables: `bindRest` -/
def shapeBind : List String := [
  "case c == ':'",
  "i++",
  "if at(i) == ':'",
  "i++",
  "if !isLetter(at(i))",
  "return nil",
  "for ; isLetter(at(i)) || isDigit(at(i)) || at(i) == '.'; ",
  "i++"
]

/-- the default branch and the single-character tokens `isSingle` -/
def shapeSingles : List String := [
  "default",
  "i++",
  "switch c",
  "case '=', ',', ';', '(', ')', '+', '*', '%', '&', '|', '^', '~', '?'"
]

/-- `.`: `preNumber true` -/
def shapeDot : List String := [
  "case '.'",
  "if isDigit(at(i))",
  "i, _ = number(i, true)"
]

/-- `/`, `//` (`preLine`), `/*` (`preBlock`) -/
def shapeSlash : List String := [
  "case '/'",
  "switch at(i)",
  "case '/'",
  "i = lineComment(i + 1)",
  "case '*'",
  "end := strings.Index(sql[i+1:], \"*/\")",
  "if end < 0",
  "return nil",
  "i += 1 + end + 2"
]

/-- `-` and `--` (`preLine`) -/
def shapeMinus : List String := [
  "case '-'",
  "if at(i) == '-'",
  "i = lineComment(i + 1)"
]

/-- `<`, `<>`, `<=`, `<=>` -/
def shapeLess : List String := [
  "case '<'",
  "switch at(i)",
  "case '>'",
  "i++",
  "case '='",
  "i++",
  "if at(i) == '>'",
  "i++"
]

/-- `>` and `>=` -/
def shapeGreater : List String := [
  "case '>'",
  "if at(i) == '='",
  "i++"
]

/-- `!=`; a lone `!` is a lexical error -/
def shapeBang : List String := [
  "case '!'",
  "if at(i) != '='",
  "return nil",
  "i++"
]

/-- strings: `preString` (`preStringWith true`: a backslash escapes ANY next byte) -/
def shapeString : List String := [
  "case '\\'', '\"'",
  "for closed := false; !closed; ",
  "closed := false",
  "ch := at(i)",
  "i++",
  "switch ",
  "case ch < 0",
  "return nil",
  "case ch == c",
  "if at(i) == c",
  "i++",
  "closed = true",
  "case ch == '\\\\'",
  "if at(i) < 0",
  "return nil",
  "i++"
]

/-- backtick identifiers: `preLiteral`; the only `return ErrUnterminatedIdentifier` -/
def shapeBacktick : List String := [
  "case '`'",
  "end := -1",
  "if i < n",
  "end = strings.IndexByte(sql[i+1:], '`')",
  "if end < 0",
  "return ErrUnterminatedIdentifier",
  "i += 1 + end + 1"
]

/-- anything else is a lexical error -/
def shapeElse : List String := [
  "default",
  "return nil"
]

def expectedShape : List String :=
  shapeAt ++ shapeClasses ++ shapeMantissa ++ shapeNumber ++ shapeLine ++ shapeHead ++ shapeIdent ++
  shapeDigit ++ shapeBind ++ shapeSingles ++ shapeDot ++ shapeSlash ++ shapeMinus ++ shapeLess ++
  shapeGreater ++ shapeBang ++ shapeString ++ shapeBacktick ++ shapeElse

end Zeno.Sql.Lex
