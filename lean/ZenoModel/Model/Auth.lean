/-
M-AUTH — access decisions of the RPC server and of the web API (property C19).

Go sources followed branch for branch:
  * `rpc/server/rpc_server.go`  `(*server).authorize`, and which stream handlers
    (`Query`, `Follow`, `HandleRemoteQueries`, `Insert`) run it before anything else;
  * `web/auth.go`               `(*handler).authenticate`;
  * `web/handler.go`            `Configure` (route table), and the guard at the top of
    `index`, `sqlQuery` (behind `runQuery`/`asyncQuery`/`immediateQuery`),
    `cachedQuery`, `metrics`.

The model is of the code AFTER the two `fix:` patches of C19 (D10: `HandleRemoteQueries`
did not call `authorize`; D11: `authenticate` accepted the session when
`Expiration.Before(now)`, i.e. when it IS expired).  The pre-fix decision functions are
kept as `Rpc.guardedBuggy` / `webAuthenticateBuggy`; `Props/C19.lean` proves a concrete
witness for each as the record of the finding.

Core Lean only; everything is total and computable (the driver links it).
-/

namespace Zeno

/-! ## RPC side (`rpc/server/rpc_server.go`) -/

/-- gRPC metadata as seen by `metadata.FromIncomingContext`: key ↦ list of values. -/
abbrev Metadata := List (String × List String)

/-- `md[key]` of a Go `map[string][]string`: the values, or the empty (nil) slice. -/
def Metadata.get (md : Metadata) (k : String) : List String :=
  match md.find? (fun kv => kv.1 == k) with
  | some kv => kv.2
  | none => []

/-- `rpc.PasswordKey` -/
def rpcPasswordKey : String := "pwd"

/-- What `authorize` can see of a call. -/
structure RpcReq where
  /-- `metadata.FromIncomingContext(stream.Context())` returned `ok` -/
  hasMd : Bool
  md : Metadata
deriving Repr, DecidableEq

/-- `(*server).authorize`; `true` = returns `nil` (authorized).
    `password` is `server.password`; Go represents "no password configured" as `""`. -/
def rpcAuthorize (password : String) (r : RpcReq) : Bool :=
  if password == "" then
    true                                   -- "No password specified, allowing access to world"
  else if !r.hasMd then
    false                                  -- "No metadata provided, unable to authenticate"
  else
    -- for _, password := range md[rpc.PasswordKey] { if password == s.password { return nil } }
    (r.md.get rpcPasswordKey).any (fun p => p == password)

/-- Which branch of `authorize` fired (reported by the driver for the evidence histogram). -/
def rpcAuthorizeBranch (password : String) (r : RpcReq) : String :=
  if password == "" then "no-password-configured"
  else if !r.hasMd then "no-metadata"
  else if (r.md.get rpcPasswordKey).any (fun p => p == password) then "password-matched"
  else "no-password-matched"

/-- The stream handlers registered in `rpc.ServiceDesc` / implemented by `*server`. -/
inductive Rpc where
  | query | follow | remoteQuery | insert
deriving DecidableEq, Repr

def Rpc.all : List Rpc := [.query, .follow, .remoteQuery, .insert]

/-- Go method name on `*server`. -/
def Rpc.goName : Rpc → String
  | .query => "Query"
  | .follow => "Follow"
  | .remoteQuery => "HandleRemoteQueries"
  | .insert => "Insert"

def Rpc.ofGoName (s : String) : Option Rpc :=
  Rpc.all.find? (fun k => k.goName == s)

/-- Does the handler run `authorize` (and return its error) before its first use of
    `s.db` / the stream?  `Insert`: "No need to authorize, anyone can insert". -/
def Rpc.guarded : Rpc → Bool
  | .query => true
  | .follow => true
  | .remoteQuery => true       -- after fix D10
  | .insert => false

/-- The same table on the tree before fix D10. -/
def Rpc.guardedBuggy : Rpc → Bool
  | .remoteQuery => false
  | k => k.guarded

/-- `true` = the handler body goes on to touch the database / the stream;
    `false` = the call ends with the authorization error before any of that. -/
def rpcServeWith (guarded : Rpc → Bool) (k : Rpc) (password : String) (r : RpcReq) : Bool :=
  if guarded k then rpcAuthorize password r else true

def rpcServe : Rpc → String → RpcReq → Bool := rpcServeWith Rpc.guarded
def rpcServeBuggy : Rpc → String → RpcReq → Bool := rpcServeWith Rpc.guardedBuggy

/-! ## Web side (`web/auth.go`, `web/handler.go`) -/

/-- The fields of `web.Opts` that `authenticate` reads. -/
structure WebOpts where
  oauthClientID : String
  oauthClientSecret : String
  /-- static auth token (`Opts.Password`), `""` = none -/
  password : String
deriving Repr, DecidableEq

/-- The session cookie, abstractly: what `authenticate` learns from it. -/
structure Cookie where
  /-- `h.sc.Decode(authcookie, cookie.Value, ad) == nil` (signature, encryption, name, age ok) -/
  decodes : Bool
  /-- `ad.Expiration` -/
  expiration : Int
  /-- `h.userInOrg(ad.AccessToken)` returned `(true, nil)` when asked now -/
  orgVerified : Bool
deriving Repr, DecidableEq

structure WebReq where
  /-- `req.Header.Get("X-Zeno-Auth-Token")`, `""` when absent -/
  authHeader : String
  /-- `req.Cookie("authcookie")`, `none` when it returns an error -/
  cookie : Option Cookie
deriving Repr, DecidableEq

/-- Outcome of `authenticate`: `allow` = returns true; `deny` = returns false without
    writing a response (wrong static token); `redirect` = `requestAuthorization` wrote a
    307 to the OAuth provider and false is returned. -/
inductive WebDecision where
  | allow | deny | redirect
deriving DecidableEq, Repr

def WebDecision.str : WebDecision → String
  | .allow => "allow" | .deny => "deny" | .redirect => "redirect"

/-- the two ways the expiry test of `authenticate` has been written -/
def sessionFresh (buggy : Bool) (expiration now : Int) : Bool :=
  if buggy then
    decide (expiration < now)        -- `ad.Expiration.Before(time.Now())`  (D11: inverted)
  else
    decide (now < expiration)        -- `ad.Expiration.After(time.Now())`

/-- `(*handler).authenticate`, with the branch that fired. -/
def webAuthenticateB (buggy : Bool) (o : WebOpts) (r : WebReq) (now : Int) : WebDecision × String :=
  if o.oauthClientID == "" || o.oauthClientSecret == "" then
    (.allow, "oauth-not-configured")          -- "OAuth not configured, not authenticating!"
  else if o.password != "" && r.authHeader != "" then
    -- static auth token present: it alone decides
    if r.authHeader == o.password then (.allow, "static-token-ok") else (.deny, "static-token-wrong")
  else
    match r.cookie with
    | none => (.redirect, "no-cookie")
    | some c =>
      if !c.decodes then (.redirect, "cookie-does-not-decode")
      else if sessionFresh buggy c.expiration now then (.allow, "session-fresh")
      else if c.orgVerified then (.allow, "org-reverified")
      else (.redirect, "org-not-verified")

def webAuthenticate (o : WebOpts) (r : WebReq) (now : Int) : WebDecision :=
  (webAuthenticateB false o r now).1

/-- `authenticate` as it was before fix D11. -/
def webAuthenticateBuggy (o : WebOpts) (r : WebReq) (now : Int) : WebDecision :=
  (webAuthenticateB true o r now).1

/-- The routes registered by `web.Configure`, by path template, in registration order
    (gorilla/mux serves the first match), with the handler method each one reaches and
    whether that handler's first statement is the `authenticate` guard.
    `runQuery`/`asyncQuery`/`immediateQuery` consist of the single call `h.sqlQuery(...)`,
    whose first statement is the guard. -/
structure WebRouteInfo where
  path : String
  prefixMatch : Bool
  handler : String
  guarded : Bool
deriving Repr, DecidableEq

def webRouteTable : List WebRouteInfo := [
  ⟨"/insert/{stream}", false, "insert", false⟩,
  ⟨"/oauth/code", false, "oauthCode", false⟩,
  ⟨"/async", true, "asyncQuery", true⟩,
  ⟨"/immediate", true, "immediateQuery", true⟩,
  ⟨"/run", true, "runQuery", true⟩,
  ⟨"/cached/{permalink}", true, "cachedQuery", true⟩,
  ⟨"/favicon", true, "", false⟩,                     -- http.NotFoundHandler()
  ⟨"/report/{permalink}", true, "index", true⟩,
  ⟨"/metrics", true, "metrics", true⟩,
  ⟨"/", true, "index", true⟩
]

def webRouteGuarded (path : String) : Option Bool :=
  (webRouteTable.find? (fun r => r.path == path)).map (·.guarded)

/-- What a request to the route with path template `path` gets: the handler body runs
    (`allow`) or the guard ends the request. `none` = no such route in the model. -/
def webServeB (buggy : Bool) (path : String) (o : WebOpts) (r : WebReq) (now : Int) :
    Option (WebDecision × String) :=
  match webRouteGuarded path with
  | none => none
  | some false => some (.allow, "route-not-guarded")
  | some true => some (webAuthenticateB buggy o r now)

def webServe (path : String) (o : WebOpts) (r : WebReq) (now : Int) : Option WebDecision :=
  (webServeB false path o r now).map (·.1)

end Zeno
