/-
SPEC — the reference semantics of a table (C01): a fold over the raw points.

`specTable` is deliberately independent of sequences, flushes and files: every
accepted point is split into its rows (`pointRows`), each row is accumulated with
`Ex.upd` into the state of (group key, period end) for every field, in arrival
order, starting from the empty state.  "Accepted" follows `table.insert`: not older
than `now − retention` when processed, WHERE satisfied, payload well-formed; the
virtual clock is the maximum timestamp of the points that passed WHERE.
-/
import ZenoModel.Model.Store

namespace Zeno

structure SpecRow where
  key : Key
  period : Int
  cells : List (List Cell)   -- one state per table field
  deriving Repr, Inhabited

structure SpecState where
  now : Int := 0
  rows : List SpecRow := []
  deriving Repr, Inhabited

def specAddRow (x : Ext) (cfg : TableCfg) (rows : List SpecRow) (key : Key) (period : Int) (pt : Pt) :
    List SpecRow :=
  if rows.any (fun r => r.key == key && r.period == period) then
    rows.map (fun r => if r.key == key && r.period == period then
      { r with cells := (cfg.fields.zip r.cells).map (fun (f, c) => f.ex.upd x c pt) } else r)
  else
    rows ++ [{ key := key, period := period, cells := cfg.fields.map (fun f => f.ex.upd x f.ex.empty pt) }]

def specStep (x : Ext) (cfg : TableCfg) (dup : Bool) (s : SpecState) (p : RawPoint) : SpecState :=
  if p.ts < s.now - cfg.retention then s
  else if !p.whereOk then s
  else
    let s := { s with now := max s.now p.ts }
    if p.panics then s
    else
      let key := reslice cfg p.dims
      let period := roundUp p.ts cfg.res
      { s with rows := (pointRowsD dup p).foldl (fun rows vals => specAddRow x cfg rows key period (mkPt p vals)) s.rows }

/-- `dup = false`: the property's semantics (every array element is one point, counted once);
    `dup = true`: the same with the known finding C01-array-double applied, used only to tell
    that finding apart from any other deviation -/
def specTableD (x : Ext) (cfg : TableCfg) (dup : Bool) (ps : List RawPoint) : SpecState :=
  ps.foldl (specStep x cfg dup) {}

def specTable (x : Ext) (cfg : TableCfg) (ps : List RawPoint) : SpecState := specTableD x cfg false ps

end Zeno
