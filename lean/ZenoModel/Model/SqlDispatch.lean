/-
M-SQLDISPATCH — the dispatch of client SQL in zenodb (Go: sql/sql.go, the parts of
planner/*.go and query.go that consume its result) as a function from the sqlparser AST
to a *set of possible outcomes* `ok | error | panic`, and the insert path
(Go: insert.go `DB.Insert`/`InsertRaw`/`table.insert`/`doInsert`/`processInserts`) as a
state machine over payload classes.

Every place where the Go code can panic — a single-value type assertion, an index into a
slice, a callee that panics on some argument — is an explicit `panic` outcome here, guarded
by exactly the conditions the Go code checks before it.  The model is of the code AFTER the
C16 fixes; the behaviour before them is kept behind `Cfg` (all flags `false` = the code as
found) so that the findings stay documented as concrete witnesses in `Props/C16.lean`.

What is a parameter (evaluated by the harness by calling the library directly and sent
along with the case, cf. DESIGN §2.2): whether a literal parses as a Go duration / float /
int (`Lit`, `Ex.num`), whether the time range strings parse, whether the SELECT list
printed by sqlparser parses again (`Sel.fieldsOk`), what the text of a FROM-subquery parses
to (`From.subq`), whether LIMIT/OFFSET are integers.  `Validate()` of a built expression is
not modelled: the outcome after a successful build is `ok or error` (`Res.either`).
Core Lean only.
-/
namespace Zeno.Sql

/-! ## Outcome sets -/

/-- The set of possible outcomes of a Go function: `val = some v` — it may return normally
    with a value of kind `v`; `err` — it may return an error; `pan` — it may panic. -/
structure Res (α : Type) where
  val : Option α
  err : Bool
  pan : Bool
deriving Repr, DecidableEq

namespace Res
def ok (v : α) : Res α := ⟨some v, false, false⟩
def error : Res α := ⟨none, true, false⟩
def panic : Res α := ⟨none, false, true⟩
/-- returns normally or with an error (an unmodelled check decides) -/
def either (v : α) : Res α := ⟨some v, true, false⟩

/-- Go's `x, err := f(); if err != nil { return err }; g(x)` -/
def bind (a : Res α) (f : α → Res β) : Res β :=
  match a.val with
  | none => ⟨none, a.err, a.pan⟩
  | some v => let b := f v; ⟨b.val, a.err || b.err, a.pan || b.pan⟩

/-- sequencing when the continuation does not look at the value -/
def seq (a : Res α) (b : Res β) : Res β := a.bind (fun _ => b)

/-- forget the value -/
def void (a : Res α) : Res Unit := ⟨a.val.map (fun _ => ()), a.err, a.pan⟩

/-- `if cond { return error }` -/
def guard (errIf : Bool) : Res Unit := if errIf then error else ok ()

/-- outcome class names used on the wire -/
def classes (a : Res α) : List String :=
  (if a.val.isSome then ["ok"] else []) ++ (if a.err then ["error"] else []) ++
  (if a.pan then ["panic"] else [])
end Res

/-! ## The AST, as fine as sql.go distinguishes it -/

/-- Facts about the text of one function argument / select expression, computed by the
    harness with the same library calls the Go code makes (`ParseDuration`,
    `strconv.ParseFloat`, `strconv.ParseInt`). -/
structure Lit where
  durOk : Bool := false   -- nodeToDuration(arg) succeeds
  durNs : Int := 0        -- its value
  fOk : Bool := false     -- strconv.ParseFloat(nodeToString(arg.Expr)) succeeds      (BOUNDED)
  fWhole : Bool := false  -- nodeToFloat(arg) succeeds (text of the whole argument)    (PERCENTILE)
  iWhole : Bool := false  -- nodeToInt(arg) succeeds                                   (PERCENTILE)
  under : Bool := false   -- nodeToString(arg) == "_"
deriving Repr, DecidableEq, Inhabited

mutual
  /-- sqlparser.Expr -/
  inductive Ex : Type
    | col (name : String)                    -- *ColName (lower-cased name)
    | num (atoiOk floatOk : Bool)            -- NumVal, with strconv.Atoi / ParseFloat verdicts
    | str                                    -- StrVal
    | func (name : String) (args : Args)     -- *FuncExpr (upper-cased name)
    | cmp (op : String) (l r : Ex)           -- *ComparisonExpr (operator upper-cased: "=", "IN", "NOT LIKE", …)
    | bin (op : String) (l r : Ex)           -- *BinaryExpr
    | tuple (xs : Exs)                       -- ValTuple
    | and (l r : Ex)                         -- *AndExpr
    | or (l r : Ex)                          -- *OrExpr
    | not (e : Ex)                           -- *NotExpr
    | paren (e : Ex)                         -- *ParenBoolExpr
    | nullCheck (e : Ex)                     -- *NullCheck
    | subq (s : Stmt)                        -- *Subquery
    | other                                  -- RangeCond ExistsExpr ValArg NullVal ListArg UnaryExpr CaseExpr StarExpr
  inductive Exs : Type
    | nil
    | cons (e : Ex) (rest : Exs)
  /-- sqlparser.SelectExpr -/
  inductive Arg : Type
    | star                                   -- *StarExpr
    | ns (e : Ex) (as : String) (lit : Lit)  -- *NonStarExpr
  /-- sqlparser.SelectExprs: SELECT list, GROUP BY list, function arguments -/
  inductive Args : Type
    | nil
    | cons (a : Arg) (rest : Args)
  /-- sqlparser.Statement -/
  inductive Stmt : Type
    | select (s : Sel)
    | union | insert | update | delete | set | ddl | other
  /-- *sqlparser.Select.  `fields` is the SELECT list of the synthetic statement
      `SELECT <exprs>[, <having> AS _having] FROM whatever` that `parse` builds and parses
      again (`fieldsOk = false`: it does not parse). -/
  inductive Sel : Type
    | mk (exprs : Args) (fieldsOk : Bool) (fields : Args) (frm : From)
         (hasWhere : Bool) (wher : Ex) (timeOk : Bool) (groupBy : Args) (limitOk : Bool)
  /-- `stmt.From[0]` -/
  inductive From : Type
    | none                                   -- empty FROM list (the grammar never produces it)
    | table                                  -- AliasedTableExpr{TableName}
    | subqBad                                -- AliasedTableExpr{Subquery} whose stripped text does not parse
    | subq (inner : Stmt)                    -- … parses to `inner`
    | other                                  -- ParenTableExpr, JoinTableExpr
end

def Args.length : Args → Nat
  | .nil => 0
  | .cons _ r => r.length + 1

def Args.get? : Args → Nat → Option Arg
  | .nil, _ => none
  | .cons a _, 0 => some a
  | .cons _ r, n + 1 => r.get? n

def Args.ofList : List Arg → Args
  | [] => .nil
  | a :: r => .cons a (Args.ofList r)

def Exs.ofList : List Ex → Exs
  | [] => .nil
  | a :: r => .cons a (Exs.ofList r)

/-! ## Dispatch tables of sql.go (checked against the regenerated `Facts.sqlFuncTables`) -/

def aggregateFuncs : List String := ["SUM", "MIN", "MAX", "COUNT", "AVG"]
def binaryAggregateFuncs : List String := ["WAVG"]
def operators : List String := ["+", "-", "*", "/"]
def conditions : List String := ["<", "<=", "=", "<>", "!=", ">=", ">"]
def nullaryGoExpr : List String := ["RAND"]
def unaryGoExpr : List String :=
  ["CITY", "REGION", "REGION_CITY", "COUNTRY_CODE", "ISP", "ORG", "ASN", "ASNAME", "LEN"]
def binaryGoExpr : List String := ["HGET", "SISMEMBER"]
def ternaryGoExpr : List String := ["SPLIT", "SUBSTR", "REPLACEALL", "LUA"]
def varGoExpr : List String := ["CONCAT", "CROSSTAB", "CROSSTABT", "ANY", "ARRAY", "DECODE"]
/-- `varGoExprMinParams` -/
def varGoExprMin (name : String) : Nat := if name == "CONCAT" then 1 else 0
/-- expr/math.go `unaryMathFNs` -/
def unaryMathFNs : List String := ["LN", "LOG2", "LOG10"]
/-- operators goexpr.Binary knows, after zenodb upper-cases the AST operator -/
def goBinaryOps : List String := ["=", "<>", "!=", "<", "<=", ">", ">=", "LIKE", "NOT LIKE", "==", "+", "-", "*", "/", "AND", "OR"]

/-! ## Which of the C16 repairs are in place -/

structure Cfg where
  checkedSelect : Bool   -- Parse/TableFor check `parsed.(*sqlparser.Select)`
  checkedLua : Bool      -- LUA checks that keys and args are ARRAY(...)
  checkedConcat : Bool   -- CONCAT() without parameters is rejected before goexpr.Concat indexes its arguments
  crosshiftCap : Bool    -- CROSSHIFT refuses to expand to more than 1000 fields
deriving Repr, DecidableEq

/-- the code with the C16 fixes -/
def Cfg.fixed : Cfg := ⟨true, true, true, true⟩
/-- the code as found -/
def Cfg.orig : Cfg := ⟨false, false, false, false⟩

/-! ## Values flowing through the dispatch -/

/-- what `(*fielded).exprFor` returns in its `interface{}`: an `expr.Expr` (and whether it is a
    percentile) or, from its default branch, the printed node as a `string` -/
inductive VKind
  | expr (ptile : Bool)
  | str
deriving Repr, DecidableEq

/-- what `goExprFor` returns: an expression whose `Eval` yields a `bool`, a `*goexpr.ArrayExpr`,
    or anything else -/
inductive GoTy
  | bool | array | other
deriving Repr, DecidableEq

/-- `fieldsMap` of `fielded`: field name ↦ is it a percentile; plus the names selected so far -/
structure Ctx where
  map : List (String × Bool)
  names : List String
deriving Repr

def Ctx.lookup (c : Ctx) (n : String) : Option Bool := (c.map.find? (·.1 == n)).map (·.2)

/-- `addField`: appended (and entered into `fieldsMap`) unless a field of that name is already selected -/
def Ctx.addField (c : Ctx) (n : String) (ptile : Bool) : Ctx :=
  if c.names.contains n then c else ⟨(n, ptile) :: c.map, c.names ++ [n]⟩

/-- `expr.X(v)` for `v` coming out of `exprFor`: the callee's `exprFor(interface{})` accepts an Expr
    or a string and panics on anything else — both kinds are accepted -/
def exprCtor : VKind → Res Unit
  | .expr _ => .ok ()
  | .str => .ok ()

/-- `expr.PERCENTILEOPT(wrapped, …)`: `wrapped.(*ptile)` unless it is a `*ptileOptimized` -/
def ptileOptCtor : VKind → Res Unit
  | .expr true => .ok ()
  | _ => .panic

def Arg.fWhole : Arg → Bool
  | .ns _ _ l => l.fWhole
  | .star => false

def Arg.iWhole : Arg → Bool
  | .ns _ _ l => l.iWhole
  | .star => false

def Arg.durOk : Arg → Bool
  | .ns _ _ l => l.durOk
  | .star => false

def Arg.lit : Arg → Lit
  | .ns _ _ l => l
  | .star => {}

/-- `expr.IsPercentile(f.fieldsMap[name].Expr)` for a plain column, `false` for anything else -/
def Ex.knownPtile (e : Ex) (map : List (String × Bool)) : Bool :=
  match e with
  | .col cn => ((map.find? (·.1 == cn)).map (·.2)).getD false
  | _ => false

/-- `asOrColName` -/
def asOrColName (as : String) (e : Ex) : Res String :=
  if as ≠ "" then .ok as else
  match e with
  | .col n => .ok n
  | _ => .error

/-- `addExpr`: `_fe.(expr.Expr)` in its checked form, then `Validate()` (not modelled).
    Names arrive lower-cased from the summariser (`strings.ToLower(as)`). -/
def addExpr (c : Ctx) (v : VKind) (as : String) : Res Ctx :=
  match v with
  | .str => .error
  | .expr p => .either (c.addField as p)

def maxCrosshiftFields : Int := 1000

/-- the part of `addCrosshiftExpr` after the value expression: durations, bounds, the loop
    (at least one iteration: `0 < limit`) -/
def crosshiftTail (cfg : Cfg) (c : Ctx) (v : VKind) (as : String) (cutoff interval : Lit) : Res Ctx :=
  if !cutoff.durOk then .error else
  if cutoff.durNs == 0 then .error else
  if !interval.durOk then .error else
  if interval.durNs == 0 then .error else
  let iv := interval.durNs.natAbs
  let limit := cutoff.durNs.natAbs
  if cfg.crosshiftCap && decide (maxCrosshiftFields < ((limit / iv : Nat) : Int)) then .error else
  -- fields.addExpr(expr.SHIFT(valueEx, shift), newAs) for i = 0, interval, … < limit
  (exprCtor v).bind fun _ => .either (c.addField as false)

/-- all parameters of a variadic function, left to right, stopping at the first error -/
def goParams : List (Res GoTy) → Res Unit
  | [] => .ok ()
  | p :: rest => p.bind fun _ => goParams rest

/-- `goFnExprFor` given the outcomes `prs` of `paramGoExpr(e, i)` for each argument
    (aliases are not modelled: none are registered) -/
def goFnExprFor (cfg : Cfg) (name : String) (prs : List (Res GoTy)) : Res GoTy :=
  let n := prs.length
  if nullaryGoExpr.contains name then .ok .other
  else if unaryGoExpr.contains name then
    if n ≠ 1 then .error else
    match prs with
    | p0 :: _ => p0.bind fun _ => .ok .other
    | [] => .panic                                          -- e.Exprs[0]
  else if binaryGoExpr.contains name then
    if n ≠ 2 then .error else
    match prs with
    | p0 :: p1 :: _ => p0.bind fun _ => p1.bind fun _ => .ok .other
    | _ => .panic                                           -- e.Exprs[0], e.Exprs[1]
  else if ternaryGoExpr.contains name then
    if n ≠ 3 then .error else
    match prs with
    | p0 :: p1 :: p2 :: _ =>
        p0.bind fun _ => p1.bind fun t1 => p2.bind fun t2 =>
        if name == "LUA" then
          -- keys.(*goexpr.ArrayExpr), args.(*goexpr.ArrayExpr)
          if t1 == .array && t2 == .array then .ok .other
          else if cfg.checkedLua then .error else .panic
        else .ok .other
    | _ => .panic                                           -- e.Exprs[0..2]
  else if varGoExpr.contains name then
    if cfg.checkedConcat && decide (n < varGoExprMin name) then .error else
    (goParams prs).bind fun _ =>
    -- goexpr.Concat(exprs...) reads exprs[0]
    if name == "CONCAT" && n == 0 then .panic
    else if name == "ARRAY" then .ok .array else .ok .other
  else .error

mutual
  /-- `(*fielded).exprFor` with its helpers `columnExprFor`, `ifExprFor`, `boundedExprFor`,
      `percentileExprFor`, `shiftExprFor`, `unaryFuncExprFor`, `binaryFuncExprFor`,
      `comparisonExprFor`, `binaryExprFor`, `andExprFor`, `orExprFor` -/
  def exprFor (cfg : Cfg) (c : Ctx) (e : Ex) (defaultToSum : Bool) : Res VKind :=
    match e with
    | .col name =>
        if name == "_" then .ok (.expr false)
        else if !defaultToSum then .ok (.expr false)
        else match c.lookup name with
          | some p => .ok (.expr p)
          | none => .ok (.expr false)
    | .func name args =>
        if name == "IF" then
          if args.length ≠ 2 then .error else
          match args with
          | .cons (.ns cond _ _) (.cons (.ns value _ _) _) =>
              (exprFor cfg c value true).bind fun v =>
              (goExprFor cfg cond).bind fun _ =>
              (exprCtor v).bind fun _ => .ok (.expr false)
          | _ => .error                                   -- ErrWildcardNotAllowed
        else if name == "BOUNDED" then
          if args.length ≠ 3 then .error else
          match args with
          | .cons (.ns p0 _ _) (.cons (.ns _ _ l1) (.cons (.ns _ _ l2) _)) =>
              (exprFor cfg c p0 defaultToSum).bind fun v =>
              if !l1.fOk then .error else if !l2.fOk then .error else
              (exprCtor v).bind fun _ => .ok (.expr false)
          | _ => .error
        else if name == "PERCENTILE" then
          -- `len(e.Exprs) != 2 && len(e.Exprs) != 5` ⇒ ErrPercentileArity; the two accepted shapes:
          match args with
          | .cons a0 (.cons a1 .nil) =>
              -- PERCENTILE(existing_percentile, p): "optimized", may only wrap an existing percentile
              match a0 with
              | .star => .error
              | .ns value _ _ =>
                  if !value.knownPtile c.map then .error            -- ErrPercentileOptWrap
                  else match a1 with
                    | .star => .error
                    | .ns pct _ _ =>
                        (exprFor cfg c pct false).bind fun pv =>
                        (ptileOptCtor (.expr true)).bind fun _ => (exprCtor pv).bind fun _ => .ok (.expr true)
          | .cons a0 (.cons a1 (.cons a2 (.cons a3 (.cons a4 .nil)))) =>
              match a0 with
              | .star => .error
              | .ns value _ _ =>
                  -- existing field is a percentile: wrap it; otherwise build the value expression
                  let valueEx : Res VKind :=
                    if value.knownPtile c.map then .ok (.expr true) else exprFor cfg c value false
                  valueEx.bind fun v =>
                  match a1 with
                  | .star => .error
                  | .ns pct _ _ =>
                      (exprFor cfg c pct false).bind fun pv =>
                      -- nodeToFloat(e.Exprs[2]), nodeToFloat(e.Exprs[3]), nodeToInt(e.Exprs[4])
                      if !a2.fWhole then .error else if !a3.fWhole then .error else if !a4.iWhole then .error else
                      (exprCtor v).bind fun _ => (exprCtor pv).bind fun _ => .ok (.expr true)
          | _ => .error
        else if name == "SHIFT" then
          if args.length ≠ 2 then .error else
          match args with
          | .cons (.ns value _ _) (.cons a1 _) =>
              (exprFor cfg c value true).bind fun v =>
              if !a1.durOk then .error else
              (exprCtor v).bind fun _ => .ok (.expr false)
          | _ => .error
        else
          match args with
          | .cons a0 .nil =>                                -- len(e.Exprs) == 1: unaryFuncExprFor
              let isAgg := aggregateFuncs.contains name
              match a0 with
              | .ns p _ _ =>
                  (exprFor cfg c p (if isAgg then false else defaultToSum)).bind fun v =>
                  if isAgg then (exprCtor v).bind fun _ => .ok (.expr false)
                  else if unaryMathFNs.contains name then (exprCtor v).bind fun _ => .ok (.expr false)
                  else .error                               -- expr.UnaryMath: unknown function
              | .star => .error
          | .cons a0 (.cons a1 .nil) =>                     -- len(e.Exprs) == 2: binaryFuncExprFor
              if !binaryAggregateFuncs.contains name then .error else
              match a0, a1 with
              | .ns p1 _ _, .ns p2 _ _ =>
                  (exprFor cfg c p1 false).bind fun v1 =>
                  (exprFor cfg c p2 false).bind fun v2 =>
                  (exprCtor v1).bind fun _ => (exprCtor v2).bind fun _ => .ok (.expr false)
              | _, _ => .error
          | _ => .error                                     -- ErrAggregateArity
    | .cmp op l r =>
        if !conditions.contains op then .error else
        (exprFor cfg c l true).bind fun v1 =>
        (exprFor cfg c r true).bind fun v2 =>
        (exprCtor v1).bind fun _ => (exprCtor v2).bind fun _ => .ok (.expr false)
    | .bin op l r =>
        if !operators.contains op then .error else
        (exprFor cfg c l true).bind fun v1 =>
        (exprFor cfg c r true).bind fun v2 =>
        (exprCtor v1).bind fun _ => (exprCtor v2).bind fun _ => .ok (.expr false)
    | .tuple xs =>
        match xs with
        | .nil => .panic                                    -- e[0]
        | .cons x _ => exprFor cfg c x defaultToSum
    | .and l r =>
        (exprFor cfg c l true).bind fun v1 =>
        (exprFor cfg c r true).bind fun v2 =>
        (exprCtor v1).bind fun _ => (exprCtor v2).bind fun _ => .ok (.expr false)
    | .or l r =>
        (exprFor cfg c l true).bind fun v1 =>
        (exprFor cfg c r true).bind fun v2 =>
        (exprCtor v1).bind fun _ => (exprCtor v2).bind fun _ => .ok (.expr false)
    | .paren e => exprFor cfg c e defaultToSum
    | .num _ _ => .ok (.expr false)                         -- CONST, parse error ignored
    | .str => .ok .str
    | .not _ => .ok .str
    | .nullCheck _ => .ok .str
    | .subq _ => .ok .str
    | .other => .ok .str

  /-- `goExprFor` -/
  def goExprFor (cfg : Cfg) (e : Ex) : Res GoTy :=
    match e with
    | .and l r => (goExprFor cfg l).bind fun _ => (goExprFor cfg r).bind fun _ => .ok .bool
    | .or l r => (goExprFor cfg l).bind fun _ => (goExprFor cfg r).bind fun _ => .ok .bool
    | .paren e => goExprFor cfg e
    | .not e => (goExprFor cfg e).bind fun _ => .ok .bool
    | .cmp op l r =>
        -- `op := strings.ToUpper(e.Operator)`: the summariser sends the operator upper-cased
        (goExprFor cfg l).bind fun _ =>
        if op == "IN" then
          match r with
          | .tuple xs => (goExs cfg xs).bind fun _ => .ok .bool
          | .subq s =>
              match s with
              | .select sel =>
                  (parseSel cfg sel).bind fun _ =>
                  match sel with
                  | .mk _ _ fields _ _ _ _ _ _ =>
                      (fieldsGet cfg ⟨[], []⟩ fields).bind fun c =>
                      if (c.names.filter (· ≠ "_having")).length ≠ 1 then .error else .ok .bool
              | _ => .error                                 -- "Subquery requires a SELECT statement"
          | _ => .error
        else
          (goExprFor cfg r).bind fun _ =>
          if goBinaryOps.contains op then .ok .bool else .error
    | .col _ => .ok .other
    | .str => .ok .other
    | .num a f => if a || f then .ok .other else .error
    | .func name args =>
        let prs := argResults cfg args
        let r1 := goFnExprFor cfg name prs
        -- `if err != nil && fname[0] == 'P'`: retry without the leading P
        if !r1.err then r1
        else if name == "" then ⟨r1.val, r1.err, true⟩          -- fname[0] on an empty name
        else if name.front == 'P' then
          let r2 := goFnExprFor cfg (String.ofList (name.toList.drop 1)) prs
          ⟨match r1.val with | some v => some v | none => r2.val.map (fun _ => GoTy.other),
           r2.err, r1.pan || r2.pan⟩
        else r1
    | .nullCheck e => (goExprFor cfg e).bind fun _ => .ok .bool
    | .bin _ _ _ => .error
    | .tuple _ => .error
    | .subq _ => .error
    | .other => .error

  /-- the loop over a ValTuple in `goExprFor` -/
  def goExs (cfg : Cfg) (xs : Exs) : Res Unit :=
    match xs with
    | .nil => .ok ()
    | .cons x rest => (goExprFor cfg x).bind fun _ => goExs cfg rest

  /-- `paramGoExpr(e, idx)` on the argument `e.Exprs[idx]` (an index out of range is the
      explicit `.panic` at the call sites) -/
  def paramGoExpr (cfg : Cfg) (a : Arg) : Res GoTy :=
    match a with
    | .star => .error
    | .ns e _ _ => goExprFor cfg e

  /-- `paramGoExpr(e, i)` for every argument, in order (results only; which of them the
      caller looks at, and in which order, is decided by `goFnExprFor`) -/
  def argResults (cfg : Cfg) (args : Args) : List (Res GoTy) :=
    match args with
    | .nil => []
    | .cons a rest => paramGoExpr cfg a :: argResults cfg rest

  /-- `(*selectClause).Get`: the loop over the SELECT list, threading `fieldsMap` and the selected names -/
  def fieldsGet (cfg : Cfg) (c : Ctx) (exprs : Args) : Res Ctx :=
    match exprs with
    | .nil => .ok c
    | .cons .star rest =>
        -- every known field is added (those of the table; none for an IN-subquery)
        fieldsGet cfg (c.map.reverse.foldl (fun acc kv => acc.addField kv.1 kv.2) c) rest
    | .cons (.ns e as lit) rest =>
        if lit.under then fieldsGet cfg c rest else
        let generic : Res Ctx :=
          (asOrColName as e).bind fun name =>
          (exprFor cfg c e true).bind fun v =>
          addExpr c v name
        let step : Res Ctx :=
          match e with
          | .func fname cargs =>
              if fname == "CROSSHIFT" then
                -- addCrosshiftExpr
                if cargs.length ≠ 3 then .error else
                match cargs with
                | .cons (.ns value _ _) (.cons a1 (.cons a2 _)) =>
                    (exprFor cfg c value true).bind fun v =>
                    (asOrColName as value).bind fun name =>
                    crosshiftTail cfg c v name a1.lit a2.lit
                | _ => .error
              else generic
          | _ => generic
        step.bind fun c' => fieldsGet cfg c' rest

  /-- `applyGroupBy`: the loop over the GROUP BY list; the state is "a CROSSTAB has been seen" -/
  def applyGroupBy (cfg : Cfg) (crosstab : Bool) (gb : Args) : Res Unit :=
    match gb with
    | .nil => .ok ()
    | .cons a rest =>
        match a with
        | .star => applyGroupBy cfg crosstab rest
        | .ns e as _ =>
            match e with
            | .func name fargs =>
                if name == "PERIOD" || name == "STRIDE" then
                  if fargs.length ≠ 1 then .error else
                  match fargs with
                  | .cons (.ns _ _ l) _ => if l.durOk then applyGroupBy cfg crosstab rest else .error
                  | .cons .star _ => .error                 -- nodeToDuration("*")
                  | .nil => .panic                          -- fn.Exprs[0]
                else if name.startsWith "CROSSTAB" then
                  if fargs.length < 1 then .error else
                  if crosstab then .error else
                  (goExprFor cfg e).bind fun _ => applyGroupBy cfg true rest
                else
                  (goExprFor cfg e).bind fun _ =>
                  if as == "" then .error else applyGroupBy cfg crosstab rest
            | .col n =>
                (goExprFor cfg e).bind fun _ =>
                if as == "" && n == "" then .error else applyGroupBy cfg crosstab rest
            | _ =>
                (goExprFor cfg e).bind fun _ =>
                if as == "" then .error else applyGroupBy cfg crosstab rest

  /-- `parse(stmt *sqlparser.Select)` -/
  def parseSel (cfg : Cfg) (s : Sel) : Res Unit :=
    match s with
    | .mk _ fieldsOk _ frm hasWhere wher timeOk groupBy limitOk =>
        (applyFrom cfg frm).bind fun _ =>
        (Res.guard (!fieldsOk)).bind fun _ =>
        (if hasWhere then (goExprFor cfg wher).void else .ok ()).bind fun _ =>
        (Res.guard (!timeOk)).bind fun _ =>
        (applyGroupBy cfg false groupBy).bind fun _ =>
        Res.guard (!limitOk)

  /-- `applyFrom` -/
  def applyFrom (cfg : Cfg) (f : From) : Res Unit :=
    match f with
    | .none => .panic                                       -- stmt.From[0]
    | .table => .ok ()
    | .subqBad => .error
    | .subq inner => parseStmt cfg inner                    -- Parse(subSQL)
    | .other => .error

  /-- `Parse` after `sqlparser.Parse` succeeded: `parsed.(*sqlparser.Select)` -/
  def parseStmt (cfg : Cfg) (s : Stmt) : Res Unit :=
    match s with
    | .select sel => parseSel cfg sel
    | _ => if cfg.checkedSelect then .error else .panic
end

/-- `TableFor` after `sqlparser.Parse` succeeded -/
def tableFor (cfg : Cfg) (s : Stmt) : Res Unit :=
  match s with
  | .select (.mk _ _ _ frm _ _ _ _ _) =>
      match frm with
      | .none => .panic                                     -- stmt.From[0]
      | _ => .ok ()
  | _ => if cfg.checkedSelect then .error else .panic

/-- `query.Fields.Get(known)` as `planLocal`/`sourceForTable` call it on a parsed query -/
def fieldsOf (cfg : Cfg) (known : List (String × Bool)) (s : Stmt) : Res Unit :=
  match s with
  | .select (.mk _ _ fields _ _ _ _ _ _) => (fieldsGet cfg ⟨known, []⟩ fields).void
  | _ => .error

/-! ## Grammar invariants (checked by the harness on every AST sqlparser returns) -/

mutual
  def Ex.wf : Ex → Bool
    | .func name args => name ≠ "" && args.wf
    | .cmp _ l r => l.wf && r.wf
    | .bin _ l r => l.wf && r.wf
    | .tuple xs => (match xs with | .nil => false | .cons _ _ => true) && xs.wf
    | .and l r => l.wf && r.wf
    | .or l r => l.wf && r.wf
    | .not e => e.wf
    | .paren e => e.wf
    | .nullCheck e => e.wf
    | .subq s => s.wf
    | _ => true
  def Exs.wf : Exs → Bool
    | .nil => true
    | .cons e r => e.wf && r.wf
  def Arg.wf : Arg → Bool
    | .star => true
    | .ns e _ _ => e.wf
  def Args.wf : Args → Bool
    | .nil => true
    | .cons a r => a.wf && r.wf
  def Stmt.wf : Stmt → Bool
    | .select s => s.wf
    | _ => true
  def Sel.wf : Sel → Bool
    | .mk exprs _ fields frm _ wher _ groupBy _ =>
        exprs.wf && fields.wf && frm.wf && wher.wf && groupBy.wf
  def From.wf : From → Bool
    | .none => false
    | .subq inner => inner.wf
    | _ => true
end

/-- the expression kinds the grammar allows where a `boolean_expression` is required (WHERE, HAVING) -/
def Ex.isBoolKind : Ex → Bool
  | .and _ _ => true
  | .or _ _ => true
  | .not _ => true
  | .paren e => e.isBoolKind
  | .cmp _ _ _ => true
  | .nullCheck _ => true
  | .other => true          -- RangeCond, ExistsExpr (rejected by goExprFor)
  | _ => false

/-! ## Insert path -/

/-! ## CROSSHIFT: the statements that decide how often the loop of `addCrosshiftExpr` runs

The dispatch model above only needs "error or some fields".  How MANY fields one
`CROSSHIFT(value, cutoff, interval)` expands to — the work a client controls with two durations —
depends on the ORDER of five small statements (zero checks, `interval = |interval|`,
`limit = |cutoff|`, the cap check, the loop).  They are modelled as a little program whose
statement order is regenerated from the source (`Facts.crosshiftOps`), so that moving the sign
normalisation below the cap check, or dropping the cap or the loop's overflow guard, changes
the program the theorem is about.  Durations are Go `int64` nanoseconds; `maxDur = 2^63 - 1`.
`ParseDuration` never returns `-2^63`, so negation is exact (the explicit precondition of
`crosshift_fields_bounded`); the only place where `int64` arithmetic can wrap is `i += interval`. -/

namespace Cross

def maxDur : Int := 9223372036854775807

inductive Op
  | parseCutoff | zeroCutoff | parseInterval | zeroInterval | absInterval | limitIsCutoff | absLimit
  | cap | loop | loopGuarded
deriving Repr, DecidableEq

def Op.ofString : String → Option Op
  | "parseCutoff" => some .parseCutoff
  | "zeroCutoff" => some .zeroCutoff
  | "parseInterval" => some .parseInterval
  | "zeroInterval" => some .zeroInterval
  | "absInterval" => some .absInterval
  | "limitIsCutoff" => some .limitIsCutoff
  | "absLimit" => some .absLimit
  | "cap" => some .cap
  | "loop" => some .loop
  | "loopGuarded" => some .loopGuarded
  | _ => none

/-- the statement order of the code with the C16 fixes -/
def canonical : List Op :=
  [.parseCutoff, .zeroCutoff, .parseInterval, .zeroInterval, .absInterval, .limitIsCutoff, .absLimit, .cap, .loopGuarded]

def canonicalNames : List String :=
  ["parseCutoff", "zeroCutoff", "parseInterval", "zeroInterval", "absInterval", "limitIsCutoff", "absLimit", "cap", "loopGuarded"]

/-- what one CROSSHIFT does with its two durations -/
inductive Out
  | error                 -- an error is returned
  | fields (n : Nat)      -- the loop adds n fields (before de-duplication by name)
  | diverges              -- the loop counter never reaches the limit
  | wraps                 -- `i += interval` overflows int64: the loop goes on with a negative counter
  | divZero               -- `limit/interval` with interval = 0: run-time panic
deriving Repr, DecidableEq

structure St where
  cutoff : Int
  interval : Int
  limit : Int := 0
deriving Repr

/-- `for i := 0; i < limit; i += interval { …; [if interval >= limit-i { break }] }` -/
def loopOut (guarded : Bool) (s : St) : Out :=
  if s.limit ≤ 0 then .fields 0
  else if s.interval ≤ 0 then .diverges
  else
    let l := s.limit.toNat
    let v := s.interval.toNat
    let n := (l + v - 1) / v                    -- iterations: i = 0, v, 2v, … < l
    -- after the last iteration the unguarded loop still computes i = n·v
    if !guarded && decide (maxDur < ((n * v : Nat) : Int)) then .wraps else .fields n

/-- run the statements in the given order -/
def run (cap : Int) : List Op → St → Out
  | [], _ => .fields 0
  | .parseCutoff :: rest, s => run cap rest s
  | .parseInterval :: rest, s => run cap rest s
  | .zeroCutoff :: rest, s => if s.cutoff = 0 then .error else run cap rest s
  | .zeroInterval :: rest, s => if s.interval = 0 then .error else run cap rest s
  | .absInterval :: rest, s => run cap rest (if s.interval < 0 then { s with interval := -s.interval } else s)
  | .limitIsCutoff :: rest, s => run cap rest { s with limit := s.cutoff }
  | .absLimit :: rest, s => run cap rest (if s.cutoff < 0 then { s with limit := -s.cutoff } else s)
  | .cap :: rest, s =>
      if s.interval = 0 then .divZero
      else if cap < s.limit.tdiv s.interval then .error else run cap rest s
  | .loop :: _, s => loopOut false s
  | .loopGuarded :: _, s => loopOut true s

/-- one CROSSHIFT with the given cutoff and interval (nanoseconds) -/
def crosshift (cap : Int) (ops : List Op) (cutoff interval : Int) : Out :=
  run cap ops { cutoff := cutoff, interval := interval }

end Cross

namespace Ins

/-- how `doInsert` sees one value after the bytemap round trip -/
inductive ValKind
  | num                 -- float64 or int
  | arrF (n : Nat)      -- []float64 of length n
  | arrI (n : Nat)      -- []int of length n
  | other               -- anything else: logged and ignored
deriving Repr, DecidableEq

/-- one insert request as the code distinguishes it -/
structure Payload where
  streamKnown : Bool            -- db.streams[stream] != nil
  follower : Bool               -- db.opts.Follow != nil
  dimsValid : Bool              -- reading dims as a bytemap does not panic
  valsValid : Bool              -- reading vals as a bytemap does not panic
  fresh : Bool                  -- !ts.Before(t.truncateBefore())
  vals : List ValKind           -- the decoded values (meaningful when valsValid)
deriving Repr, DecidableEq

/-- which repairs / protections are in place -/
structure ICfg where
  validateRaw : Bool            -- InsertRaw rejects byte maps that cannot be read (C16 fix)
  recover : Bool                -- table.insert has its deferred recover()
  whitelist : Bool              -- DBOpts.WhitelistedDimensions is set (InsertRaw slices the dims)
deriving Repr, DecidableEq

def ICfg.fixed (whitelist : Bool) : ICfg := ⟨true, true, whitelist⟩

/-- what the caller of `DB.Insert`/`InsertRaw` sees -/
inductive Ack
  | accepted            -- written to the WAL, nil returned
  | rejected            -- error returned, nothing written
  | callerPanic         -- the call itself panicked in the caller's goroutine
deriving Repr, DecidableEq

/-- `InsertRaw` -/
def insertRaw (cfg : ICfg) (p : Payload) : Ack :=
  if cfg.validateRaw && !(p.dimsValid && p.valsValid) then .rejected
  else if p.follower then .rejected
  else if !p.streamKnown then .rejected
  else if cfg.whitelist && !p.dimsValid then .callerPanic   -- dims.Slice(whitelist) on garbage
  else .accepted

/-- the closure passed to `vals.IterateValues` in `doInsert`: number of row-store inserts the
    values lead to, or `none` when it panics (`v[0]` on an empty array, unreadable vals).
    `bytemap.Build(…, iteratesSorted = true)` runs the closure twice (once to size the map, once
    to fill it), so every element after the first of an array is appended to `additionalVals`
    twice: an array of length n+1 leads to 2·n additional inserts (the model is of the code). -/
def fanout : List ValKind → Option (Bool × Nat)   -- (hasMainValue, additional inserts)
  | [] => some (false, 0)
  | v :: rest =>
      match fanout rest with
      | none => none
      | some (m, k) =>
          match v with
          | .num => some (true, k)
          | .arrF 0 => none
          | .arrI 0 => none
          | .arrF (n + 1) => some (true, k + 2 * n)
          | .arrI (n + 1) => some (true, k + 2 * n)
          | .other => some (m, k)

/-- `doInsert` (table without WHERE): `none` = panics, `some n` = returns true after `n` row-store inserts -/
def doInsert (p : Payload) : Option Nat :=
  if !p.valsValid then none else
  match fanout p.vals with
  | none => none
  | some (m, k) => some (k + (if m then 1 else 0))

/-- state of one table's ingest pipeline (`processInserts`) -/
structure St where
  rows : List Nat      -- number of points each applied WAL entry contributed, oldest first
  offset : Nat         -- WAL entries consumed (applied or skipped)
  dead : Bool          -- the goroutine died (process crash): nothing is consumed any more
deriving Repr, DecidableEq

def St.init : St := ⟨[], 0, false⟩

/-- what happens to one WAL entry in `processInserts` → `table.insert` -/
inductive Fate
  | ingested (n : Nat)   -- applied, n points
  | skipped              -- offset advanced, table unchanged
  | crash                -- unrecovered panic in the table's goroutine
deriving Repr, DecidableEq

def tableInsert (cfg : ICfg) (p : Payload) : Fate :=
  if !p.fresh then .skipped                                 -- "Ignore old data"
  else match doInsert p with
    | some n => .ingested n
    | none => if cfg.recover then .skipped else .crash      -- deferred recover() ⇒ false ⇒ t.skip(offset)

def apply (cfg : ICfg) (s : St) (p : Payload) : St :=
  if s.dead then s else
  match tableInsert cfg p with
  | .ingested n => { s with rows := s.rows ++ [n], offset := s.offset + 1 }
  | .skipped => { s with offset := s.offset + 1 }
  | .crash => { s with dead := true }

/-- one client request end to end: the caller's acknowledgement and the pipeline afterwards -/
def step (cfg : ICfg) (s : St) (p : Payload) : St :=
  match insertRaw cfg p with
  | .accepted => apply cfg s p
  | _ => s

def run (cfg : ICfg) (s : St) (ps : List Payload) : St := ps.foldl (step cfg) s

/-- a payload that must not be ingested: it is not a well-formed request, or carries an empty array -/
def Payload.bad (p : Payload) : Bool :=
  !(p.dimsValid && p.valsValid) || !p.streamKnown || p.follower || (doInsert p).isNone

end Ins
end Zeno.Sql
