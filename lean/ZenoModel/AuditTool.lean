/-
Audit tool: lists every theorem declared in a namespace together with the axioms
it depends on, as JSON lines `{"thm": ..., "axioms": [...]}`; used by
/verif/tools/check.py to count proof obligations and to reject any axiom other
than propext, Classical.choice, Quot.sound (in particular sorryAx and the
native_decide / bv_decide axioms).
-/
import Lean

open Lean Elab Command

namespace Zeno

def auditNamespace (ns : Name) : CommandElabM Unit := do
  let env ← getEnv
  let mut names : Array Name := #[]
  for (n, ci) in env.constants.toList do
    if ns.isPrefixOf n && !n.isInternal then
      match ci with
      | .thmInfo _ => names := names.push n
      | _ => pure ()
  let sorted := names.qsort (fun a b => a.toString < b.toString)
  for n in sorted do
    let axs ← Lean.collectAxioms n
    let axs := axs.qsort (fun a b => a.toString < b.toString)
    let j := Json.mkObj [("thm", Json.str n.toString), ("axioms", Json.arr (axs.map (fun a => Json.str a.toString)))]
    logInfo m!"AUDIT {j.compress}"

elab "#audit_namespace " id:ident : command => do
  auditNamespace id.getId

end Zeno
