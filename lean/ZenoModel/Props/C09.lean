/-
C09 — ORDER BY sorts by the full key list; LIMIT/OFFSET slice that order.

Specification (this file): `vlt` (nil first, then the natural order inside one type), `keyLt`
(one ORDER BY element, ASC/DESC, `_time` or column), `lexLt` (lexicographic strict order over
the whole key list), `slice n m xs = (xs.drop m).take n`.
Model (Model/Sort.lean): `cmpVal` = core/compare.go, `lessP`/`less` = `orderedRows.Less` after
the D2 fix, `lessBuggy` = the code as found, `limitCb`/`offsetCb`/`flatIterate` = limit.go /
offset.go over the row-callback protocol, `addOrderLimitOffset` = planner.go.

Comparability used to be a real restriction (`Compat ks a b`: in every ordered column the two
values are nil or of one dynamic Go type other than `uint` — anything else made `compare` panic);
since /repo 8a9a760 values of different types are ordered by the name of their type, `vcompat` is
constantly true and `compat_always`/`comparable_always` discharge the hypotheses: the `…_all`
theorems hold for every dataset.  Go's `sort.Sort` is trusted to return a permutation that is non-decreasing for a
`Less` that is a strict weak order (`lexLt_strictWeak` + `less_eq_lexLt` give that premise);
`sort_perm`/`sort_sorted` show the same for the model's own insertion sort, and
`query_spec` holds for every `sortFn`.
-/
import ZenoModel.Lemmas.Sort
import ZenoModel.Lemmas.SortType

set_option linter.unusedSimpArgs false

/-! ## Specification
(in its own namespace so that the auto-generated equation lemmas of these definitions are not
counted as proof obligations of `Zeno.C09`) -/
namespace Zeno.SortSpec
open Zeno

/-- strict order on the values of one column: nil sorts first; values of different dynamic types
    are ordered by the name of their type (what `compare` does since /repo 8a9a760); values of one
    type by their natural order; `other` values ([]byte …) are unordered among themselves -/
def vlt : DimVal → DimVal → Bool
  | .nil, .nil => false
  | .nil, _ => true
  | _, .nil => false
  | a, b =>
    if a.typeName ≠ b.typeName then decide (a.typeName < b.typeName)
    else match a, b with
      | .bool a, .bool b => !a && b
      | .int _ a, .int _ b => decide (a < b)
      | .float _ a, .float _ b => decide (a < b)
      | .str a, .str b => decide (a < b)
      | .time a, .time b => decide (a < b)
      | _, _ => false

/-- dynamic type of a non-nil value -/
inductive Ty
  | bool | int (k : IntKind) | float (single : Bool) | str | time | other
  deriving DecidableEq, Repr

def ty : DimVal → Option Ty
  | .nil => none
  | .bool _ => some .bool
  | .int k _ => some (.int k)
  | .float s _ => some (.float s)
  | .str _ => some .str
  | .time _ => some .time
  | .other _ => some .other

/-- comparability of two values.  Before /repo 8a9a760 this was "nil, or same dynamic type other
    than Go `uint`" (anything else made `compare` panic); now every two values are comparable.  The
    predicate and the `Compat`/`Comparable` hypotheses of the theorems below are kept so that the
    statements read as before; `compat_always` / `comparable_always` discharge them for ALL rows. -/
def vcompat (_a _b : DimVal) : Bool := true

/-- strict order induced by one ORDER BY element -/
def keyLt (o : OrderBy) (a b : FlatRow) : Bool :=
  if o.field == "_time" then
    if o.desc then decide (b.ts < a.ts) else decide (a.ts < b.ts)
  else
    if o.desc then vlt (b.get o.field) (a.get o.field) else vlt (a.get o.field) (b.get o.field)

/-- lexicographic strict order over the key list: less on the first key, or tied on the first
    key and less on the rest -/
def lexLt : List OrderBy → FlatRow → FlatRow → Bool
  | [], _, _ => false
  | o :: ks, a, b => keyLt o a b || (!keyLt o b a && lexLt ks a b)

def keyCompat (o : OrderBy) (a b : FlatRow) : Bool :=
  o.field == "_time" || vcompat (a.get o.field) (b.get o.field)

/-- the two rows can be compared on every ordered column -/
def Compat (ks : List OrderBy) (a b : FlatRow) : Bool := ks.all (fun o => keyCompat o a b)

/-- all pairs of rows can -/
def Comparable (ks : List OrderBy) (rows : List FlatRow) : Bool :=
  rows.all (fun a => rows.all (fun b => Compat ks a b))

/-- non-decreasing under `lexLt` -/
def Sorted (ks : List OrderBy) (l : List FlatRow) : Prop :=
  l.Pairwise (fun a b => lexLt ks b a = false)

/-- LIMIT n OFFSET m -/
def slice (n m : Nat) (xs : List FlatRow) : List FlatRow := (xs.drop m).take n

end Zeno.SortSpec

namespace Zeno.C09
open Zeno Zeno.SortLemmas Zeno.SortSpec

/-! ## `compare` and `Less` against the specification -/

theorem vcompat_symm (a b : DimVal) : vcompat a b = vcompat b a := rfl

/-- the order inside one dynamic type -/
def inner : DimVal → DimVal → Bool
  | .bool a, .bool b => !a && b
  | .int _ a, .int _ b => decide (a < b)
  | .float _ a, .float _ b => decide (a < b)
  | .str a, .str b => decide (a < b)
  | .time a, .time b => decide (a < b)
  | _, _ => false

theorem vlt_nonnil {a b : DimVal} (ha : a ≠ .nil) (hb : b ≠ .nil) :
    vlt a b = if a.typeName ≠ b.typeName then decide (a.typeName < b.typeName) else inner a b := by
  cases a <;> cases b <;> first | exact absurd rfl ha | exact absurd rfl hb | rfl

/-- `vlt` is the lexicographic order of (position of the type name, value inside the type) -/
theorem vlt_iff (a b : DimVal) : vlt a b = true ↔ ord a < ord b ∨ (ord a = ord b ∧ inner a b = true) := by
  by_cases ha : a = .nil
  · subst ha
    by_cases hb : b = .nil
    · subst hb; simp [vlt, ord, inner]
    · have := ord_pos hb
      cases b <;> simp_all [vlt, ord, inner]
  · by_cases hb : b = .nil
    · subst hb; have := ord_pos ha
      cases a <;> simp_all [vlt, ord, inner]
    · rw [vlt_nonnil ha hb]
      by_cases h : ord a = ord b
      · have : a.typeName = b.typeName := (typeName_eq_iff a b).mpr h
        simp [this, h]
      · have hne : a.typeName ≠ b.typeName := fun e => h ((typeName_eq_iff a b).mp e)
        simp [hne, h, typeName_lt_iff ha hb]

theorem cmpVal_nonnil {a b : DimVal} (ha : a ≠ .nil) (hb : b ≠ .nil) :
    cmpVal a b = if a.typeName ≠ b.typeName then some (cmp3 a.typeName b.typeName)
      else some (if inner a b then -1 else if inner b a then 1 else 0) := by
  cases a <;> cases b <;>
    first
    | exact absurd rfl ha
    | exact absurd rfl hb
    | (simp only [cmpVal, inner, cmp3]; split <;> simp <;> grind)

/-- `compare` is the three-way form of `vlt`, for EVERY two values (no panic, no comparability
    condition any more). -/
theorem cmpVal_spec {a b : DimVal} (_h : vcompat a b = true) :
    cmpVal a b = some (if vlt a b then -1 else if vlt b a then 1 else 0) := by
  by_cases ha : a = .nil
  · subst ha; cases b <;> simp [cmpVal, vlt]
  · by_cases hb : b = .nil
    · subst hb; cases a <;> simp_all [cmpVal, vlt]
    · rw [cmpVal_nonnil ha hb, vlt_nonnil ha hb, vlt_nonnil hb ha]
      by_cases h : a.typeName = b.typeName
      · simp [h]
      · have h' : b.typeName ≠ a.typeName := fun e => h e.symm
        have hab := typeName_lt_iff ha hb
        have hba := typeName_lt_iff hb ha
        simp only [ne_eq, h, h', not_false_eq_true, if_true, cmp3]
        by_cases h1 : a.typeName < b.typeName
        · have : ¬ b.typeName < a.typeName := by rw [hba]; rw [hab] at h1; omega
          simp [h1, this]
        · by_cases h2 : b.typeName < a.typeName
          · simp [h1, h2]
          · simp [h1, h2]

theorem vlt_irrefl (a : DimVal) : vlt a a = false := by
  cases a <;> simp [vlt]

theorem vlt_asymm {a b : DimVal} (h : vlt a b = true) : vlt b a = false := by
  rw [Bool.eq_false_iff]; intro h2
  rw [vlt_iff] at h h2
  rcases h with h | ⟨he, hi⟩ <;> rcases h2 with h2 | ⟨he2, hi2⟩ <;> try omega
  cases a <;> cases b <;> simp_all [inner] <;> grind

theorem vlt_trans {a b c : DimVal} (h₁ : vlt a b = true) (h₂ : vlt b c = true) :
    vlt a c = true := by
  rw [vlt_iff] at *
  rcases h₁ with h | ⟨he, hi⟩ <;> rcases h₂ with h2 | ⟨he2, hi2⟩
  · left; omega
  · left; omega
  · left; omega
  · right; refine ⟨by omega, ?_⟩
    cases a <;> cases b <;> simp_all [inner] <;> cases c <;> simp_all [inner] <;> grind

theorem inner_negTrans {a b c : DimVal} (hab : ord a = ord b) (hbc : ord b = ord c)
    (h1 : inner a b = false) (h2 : inner b c = false) : inner a c = false := by
  have hk := kidx_range
  cases a <;> cases b <;> cases c <;> simp only [inner, ord] at * <;>
    first
    | rfl
    | grind
    | (rename_i k _ _ _ ; have := hk k; (try split at hab) <;> (try split at hbc) <;> omega)
    | skip

/-- incomparability is transitive (for all values: mixed types are ordered by type name) -/
theorem vlt_negTrans {a b c : DimVal} (_hab : vcompat a b = true) (_hbc : vcompat b c = true)
    (_hac : vcompat a c = true) (h₁ : vlt a b = false) (h₂ : vlt b c = false) :
    vlt a c = false := by
  rw [Bool.eq_false_iff] at *
  intro h
  have h₁ := mt (vlt_iff a b).mpr h₁
  have h₂ := mt (vlt_iff b c).mpr h₂
  rw [vlt_iff] at h
  have hab : ord b ≤ ord a ∧ (ord a = ord b → inner a b = false) := by
    constructor
    · exact Nat.le_of_not_lt (fun hl => h₁ (Or.inl hl))
    · intro he; cases hi : inner a b with
      | false => rfl
      | true => exact absurd (Or.inr ⟨he, hi⟩) h₁
  have hbc : ord c ≤ ord b ∧ (ord b = ord c → inner b c = false) := by
    constructor
    · exact Nat.le_of_not_lt (fun hl => h₂ (Or.inl hl))
    · intro he; cases hi : inner b c with
      | false => rfl
      | true => exact absurd (Or.inr ⟨he, hi⟩) h₂
  rcases h with h | ⟨he, hi⟩
  · omega
  · have e1 : ord a = ord b := by omega
    have e2 : ord b = ord c := by omega
    have := inner_negTrans e1 e2 (hab.2 e1) (hbc.2 e2)
    simp [this] at hi

theorem keyLt_asymm (o : OrderBy) {a b : FlatRow} (h : keyLt o a b = true) :
    keyLt o b a = false := by
  unfold keyLt at *
  split at h <;> split at h <;> simp_all <;> first | omega | exact vlt_asymm h

theorem keyLt_negTrans (o : OrderBy) {a b c : FlatRow} (hab : keyCompat o a b = true)
    (hbc : keyCompat o b c = true) (hac : keyCompat o a c = true)
    (h₁ : keyLt o a b = false) (h₂ : keyLt o b c = false) : keyLt o a c = false := by
  unfold keyLt keyCompat at *
  by_cases ht : (o.field == "_time") = true
  · cases hd : o.desc <;> simp_all <;> omega
  · cases hd : o.desc <;> simp_all
    · exact vlt_negTrans hab hbc hac h₁ h₂
    · exact vlt_negTrans (vcompat_symm _ _ ▸ hbc) (vcompat_symm _ _ ▸ hab)
        (vcompat_symm _ _ ▸ hac) h₂ h₁

theorem keyCompat_symm (o : OrderBy) (a b : FlatRow) : keyCompat o a b = keyCompat o b a := by
  simp [keyCompat, vcompat_symm (a.get o.field)]

theorem compat_symm (ks : List OrderBy) (a b : FlatRow) : Compat ks a b = Compat ks b a := by
  simp [Compat, keyCompat_symm _ a b]

/-- The model of `orderedRows.Less` (after the D2 fix) never panics on comparable rows and is
    exactly the lexicographic order over the FULL key list. -/
theorem lessP_eq_lexLt {ks : List OrderBy} {a b : FlatRow} (h : Compat ks a b = true) :
    lessP ks a b = some (lexLt ks a b) := by
  induction ks with
  | nil => simp [lessP, lexLt]
  | cons o ks ih =>
    have hk : keyCompat o a b = true := by simp_all [Compat]
    have ih := ih (by simp_all [Compat])
    unfold lessP lexLt keyLt
    by_cases ht : (o.field == "_time") = true
    · cases hd : o.desc <;> simp [ht, ih] <;> grind
    · have hc : vcompat (a.get o.field) (b.get o.field) = true := by simp_all [keyCompat]
      cases hd : o.desc
      · simp only [ht, Bool.false_eq_true, if_false, cmpVal_spec hc]
        cases h1 : vlt (a.get o.field) (b.get o.field)
        · cases h2 : vlt (b.get o.field) (a.get o.field) <;> simp [ih]
        · simp [vlt_asymm h1]
      · simp only [ht, Bool.false_eq_true, if_false, if_true, cmpVal_spec (vcompat_symm _ _ ▸ hc)]
        cases h1 : vlt (b.get o.field) (a.get o.field)
        · cases h2 : vlt (a.get o.field) (b.get o.field) <;> simp [ih]
        · simp [vlt_asymm h1]

theorem less_eq_lexLt {ks : List OrderBy} {a b : FlatRow} (h : Compat ks a b = true) :
    less ks a b = true ↔ lexLt ks a b = true := by
  simp [less, lessP_eq_lexLt h]

theorem less_no_panic {ks : List OrderBy} {a b : FlatRow} (h : Compat ks a b = true) :
    lessP ks a b ≠ none := by
  simp [lessP_eq_lexLt h]

/-- Since /repo 8a9a760 `compare` has a result for EVERY pair of dynamic values (different types
    are ordered by type name; Go `uint` is compared as `uint`): no type assertion can fail. -/
theorem cmpVal_total (a b : DimVal) : (cmpVal a b).isSome = true := by
  unfold cmpVal
  repeat' split
  all_goals rfl

/-- … hence `orderedRows.Less` never panics, whatever the rows hold (no `Compat` hypothesis). -/
theorem less_never_panics (ks : List OrderBy) (a b : FlatRow) : (lessP ks a b).isSome = true := by
  induction ks with
  | nil => rfl
  | cons o ks ih =>
    unfold lessP
    split
    · simp only []; repeat' split
      all_goals first | rfl | exact ih
    · simp only []
      split
      · rename_i h
        have := cmpVal_total (if o.desc then b.get o.field else a.get o.field)
          (if o.desc then a.get o.field else b.get o.field)
        simp [h] at this
      · repeat' split
        all_goals first | rfl | exact ih

/-! ## `lexLt` is a strict weak order -/

theorem lexLt_irrefl (ks : List OrderBy) (a : FlatRow) : lexLt ks a a = false := by
  induction ks with
  | nil => rfl
  | cons o ks ih =>
    have : keyLt o a a = false := by
      cases h : keyLt o a a
      · rfl
      · have := keyLt_asymm o h; simp_all
    simp [lexLt, this, ih]

theorem lexLt_asymm {ks : List OrderBy} {a b : FlatRow} (h : lexLt ks a b = true) :
    lexLt ks b a = false := by
  induction ks with
  | nil => simp [lexLt] at h
  | cons o ks ih =>
    have k1 := @keyLt_asymm o a b
    have k2 := @keyLt_asymm o b a
    simp only [lexLt] at *
    cases hab : keyLt o a b <;> cases hba : keyLt o b a <;> simp_all

theorem lexLt_negTrans {ks : List OrderBy} {a b c : FlatRow} (hab : Compat ks a b = true)
    (hbc : Compat ks b c = true) (hac : Compat ks a c = true)
    (h₁ : lexLt ks a b = false) (h₂ : lexLt ks b c = false) : lexLt ks a c = false := by
  induction ks with
  | nil => rfl
  | cons o ks ih =>
    have kab : keyCompat o a b = true := by simp_all [Compat]
    have kbc : keyCompat o b c = true := by simp_all [Compat]
    have kac : keyCompat o a c = true := by simp_all [Compat]
    have kba := keyCompat_symm o a b ▸ kab
    have kcb := keyCompat_symm o b c ▸ kbc
    have kca := keyCompat_symm o a c ▸ kac
    have ih := ih (by simp_all [Compat]) (by simp_all [Compat]) (by simp_all [Compat])
    have n1 := @keyLt_negTrans o a b c kab kbc kac
    have n2 := @keyLt_negTrans o b c a kbc kca kba
    have n3 := @keyLt_negTrans o c a b kca kab kcb
    simp only [lexLt] at *
    cases x1 : keyLt o a b <;> cases x2 : keyLt o b a <;> cases x3 : keyLt o b c <;>
      cases x4 : keyLt o c b <;> cases x5 : keyLt o a c <;> cases x6 : keyLt o c a <;> simp_all

theorem lexLt_trans {ks : List OrderBy} {a b c : FlatRow} (hab : Compat ks a b = true)
    (hbc : Compat ks b c = true) (hac : Compat ks a c = true)
    (h₁ : lexLt ks a b = true) (h₂ : lexLt ks b c = true) : lexLt ks a c = true := by
  -- a strict weak order: ¬(a<c) with ¬(c<b) [asymmetry] gives ¬(a<b)
  cases h : lexLt ks a c
  · have hcb := lexLt_asymm h₂
    have := lexLt_negTrans hac (compat_symm ks b c ▸ hbc) hab h hcb
    simp_all
  · rfl

/-- "tied under the whole key list" is transitive -/
theorem lexLt_incomp_trans {ks : List OrderBy} {a b c : FlatRow} (hab : Compat ks a b = true)
    (hbc : Compat ks b c = true) (hac : Compat ks a c = true)
    (h₁ : lexLt ks a b = false ∧ lexLt ks b a = false)
    (h₂ : lexLt ks b c = false ∧ lexLt ks c b = false) :
    lexLt ks a c = false ∧ lexLt ks c a = false :=
  ⟨lexLt_negTrans hab hbc hac h₁.1 h₂.1,
   lexLt_negTrans (compat_symm ks b c ▸ hbc) (compat_symm ks a b ▸ hab)
     (compat_symm ks a c ▸ hac) h₂.2 h₁.2⟩

/-- On a comparable set of rows `lexLt` is a strict weak order. -/
theorem lexLt_strictWeak {ks : List OrderBy} {rows : List FlatRow}
    (hc : Comparable ks rows = true) :
    (∀ a ∈ rows, lexLt ks a a = false) ∧
    (∀ a ∈ rows, ∀ b ∈ rows, lexLt ks a b = true → lexLt ks b a = false) ∧
    (∀ a ∈ rows, ∀ b ∈ rows, ∀ c ∈ rows,
      lexLt ks a b = true → lexLt ks b c = true → lexLt ks a c = true) ∧
    (∀ a ∈ rows, ∀ b ∈ rows, ∀ c ∈ rows,
      (lexLt ks a b = false ∧ lexLt ks b a = false) →
      (lexLt ks b c = false ∧ lexLt ks c b = false) →
      (lexLt ks a c = false ∧ lexLt ks c a = false)) := by
  have cp : ∀ a ∈ rows, ∀ b ∈ rows, Compat ks a b = true := by
    intro a ha b hb
    simp only [Comparable, List.all_eq_true] at hc
    exact hc a ha b hb
  refine ⟨fun a _ => lexLt_irrefl ks a, fun a _ b _ => lexLt_asymm, ?_, ?_⟩
  · intro a ha b hb c hc'
    exact lexLt_trans (cp a ha b hb) (cp b hb c hc') (cp a ha c hc')
  · intro a ha b hb c hc'
    exact lexLt_incomp_trans (cp a ha b hb) (cp b hb c hc') (cp a ha c hc')

/-- On a comparable set of rows the model's `Less` is a strict weak order (irreflexive,
    asymmetric, transitive, incomparability transitive) — the contract under which Go's
    `sort.Sort` (trusted) returns a non-decreasing permutation. -/
theorem less_strictWeak {ks : List OrderBy} {rows : List FlatRow}
    (hc : Comparable ks rows = true) :
    (∀ a ∈ rows, less ks a a = false) ∧
    (∀ a ∈ rows, ∀ b ∈ rows, less ks a b = true → less ks b a = false) ∧
    (∀ a ∈ rows, ∀ b ∈ rows, ∀ c ∈ rows,
      less ks a b = true → less ks b c = true → less ks a c = true) ∧
    (∀ a ∈ rows, ∀ b ∈ rows, ∀ c ∈ rows,
      less ks a b = false → less ks b c = false → less ks a c = false) := by
  have cp : ∀ a ∈ rows, ∀ b ∈ rows, Compat ks a b = true := by
    intro a ha b hb
    simp only [Comparable, List.all_eq_true] at hc
    exact hc a ha b hb
  have e : ∀ a ∈ rows, ∀ b ∈ rows, less ks a b = lexLt ks a b := by
    intro a ha b hb
    simp [less, lessP_eq_lexLt (cp a ha b hb)]
  refine ⟨?_, ?_, ?_, ?_⟩
  · intro a ha; rw [e a ha a ha]; exact lexLt_irrefl ks a
  · intro a ha b hb; rw [e a ha b hb, e b hb a ha]; exact lexLt_asymm
  · intro a ha b hb c hc'; rw [e a ha b hb, e b hb c hc', e a ha c hc']
    exact lexLt_trans (cp a ha b hb) (cp b hb c hc') (cp a ha c hc')
  · intro a ha b hb c hc'; rw [e a ha b hb, e b hb c hc', e a ha c hc']
    exact lexLt_negTrans (cp a ha b hb) (cp b hb c hc') (cp a ha c hc')

/-! ## A comparison sort driven by `less` yields a sorted permutation -/

/-- ORDER BY keeps the multiset of rows (no hypothesis needed). -/
theorem sort_perm (ks : List OrderBy) (rows : List FlatRow) : (isort ks rows).Perm rows :=
  isortBy_perm _ rows

/-- … and arranges it non-decreasingly under the full lexicographic order. -/
theorem sort_sorted {ks : List OrderBy} {rows : List FlatRow}
    (hc : Comparable ks rows = true) : Sorted ks (isort ks rows) := by
  have cp : ∀ a ∈ rows, ∀ b ∈ rows, Compat ks a b = true := by
    intro a ha b hb
    simp only [Comparable, List.all_eq_true] at hc
    exact hc a ha b hb
  have sw := less_strictWeak hc
  have w : WeakOn (less ks) (· ∈ rows) :=
    ⟨fun a b ha hb => sw.2.1 a ha b hb, fun a b c ha hb hc' => sw.2.2.2 a ha b hb c hc'⟩
  have hs := isortBy_sorted w rows (fun x hx => hx)
  have hm : ∀ x ∈ isort ks rows, x ∈ rows := fun x hx => (sort_perm ks rows).mem_iff.mp hx
  unfold Sorted
  unfold SortedBy at hs
  refine List.Pairwise.imp_of_mem ?_ hs
  intro a b ha hb hlt
  have := less_eq_lexLt (cp b (hm b hb) a (hm a ha))
  cases h : lexLt ks b a
  · rfl
  · rw [this.mpr h] at hlt; cases hlt

/-! ## LIMIT / OFFSET -/

/-- The offset and limit callbacks, composed as the planner composes them, deliver exactly the
    slice — for all `n`, `m`, including values beyond the row count.  `0` means "clause
    absent" (`if query.Limit > 0`), so `LIMIT 0` does not mean "no rows". -/
theorem limit_offset_slice (n m : Nat) (xs : List FlatRow) :
    limitOffset n m xs = if n = 0 then xs.drop m else slice n m xs := by
  by_cases hm : m > 0 <;> by_cases hn : n > 0
  · have hn' : n ≠ 0 := by omega
    simp [limitOffset, slice, hm, hn, hn', flatIterate_offsetCb, flatIterate_limitCb,
      flatIterate_collect]
  · obtain rfl : n = 0 := by omega
    simp [limitOffset, hm, flatIterate_offsetCb, flatIterate_collect]
  · have hn' : n ≠ 0 := by omega
    obtain rfl : m = 0 := by omega
    simp [limitOffset, slice, hn, hn', flatIterate_limitCb, flatIterate_collect]
  · obtain rfl : n = 0 := by omega
    obtain rfl : m = 0 := by omega
    simp [limitOffset, flatIterate_collect]

/-- never more than `n` rows when a limit is given -/
theorem limit_at_most (n m : Nat) (xs : List FlatRow) (hn : n > 0) :
    (limitOffset n m xs).length ≤ n := by
  have : n ≠ 0 := by omega
  rw [limit_offset_slice]
  simp [this, slice, List.length_take]
  omega

/-- every output row is an input row, in the input's order (no row invented or reordered) -/
theorem limit_offset_sublist (n m : Nat) (xs : List FlatRow) :
    (limitOffset n m xs).Sublist xs := by
  rw [limit_offset_slice]
  split
  · exact List.drop_sublist m xs
  · exact (List.take_sublist n _).trans (List.drop_sublist m xs)

/-- The whole of `addOrderLimitOffset`: for ANY sort routine that returns a sorted permutation
    (Go's `sort.Sort` by trust, `isort` by `sort_perm`/`sort_sorted`), the query returns rows
    `m .. m+n-1` of a `lexLt`-sorted permutation of the unordered result. -/
theorem query_spec (sortFn : List OrderBy → List FlatRow → List FlatRow) (q : OLO)
    (rows : List FlatRow) (hk : q.orderBy ≠ [])
    (hperm : (sortFn q.orderBy rows).Perm rows) (hsorted : Sorted q.orderBy (sortFn q.orderBy rows)) :
    ∃ sorted : List FlatRow, sorted.Perm rows ∧ Sorted q.orderBy sorted ∧
      addOrderLimitOffset sortFn q rows =
        if q.limit = 0 then sorted.drop q.offset else slice q.limit q.offset sorted := by
  refine ⟨sortFn q.orderBy rows, hperm, hsorted, ?_⟩
  have : q.orderBy.length > 0 := List.length_pos_iff.mpr hk
  simp [addOrderLimitOffset, this, limit_offset_slice]

/-- without ORDER BY the source order is sliced -/
theorem query_unordered (sortFn : List OrderBy → List FlatRow → List FlatRow) (n m : Nat)
    (rows : List FlatRow) :
    addOrderLimitOffset sortFn ⟨[], n, m⟩ rows = if n = 0 then rows.drop m else slice n m rows := by
  simp [addOrderLimitOffset, limit_offset_slice]

/-! ## For ALL datasets (since /repo 8a9a760 every two values are comparable)

The `Compat` / `Comparable` hypotheses above hold for every list of rows, so the theorems hold
unconditionally — also for a column that holds values of different dynamic types in different
rows (ordered by the name of the type) and for Go `uint` values. -/

theorem compat_always (ks : List OrderBy) (a b : FlatRow) : Compat ks a b = true := by
  simp [Compat, keyCompat, vcompat]

theorem comparable_always (ks : List OrderBy) (rows : List FlatRow) : Comparable ks rows = true := by
  simp [Comparable, compat_always]

/-- `orderedRows.Less` IS the lexicographic order over the full key list, for all rows. -/
theorem less_is_lexLt (ks : List OrderBy) (a b : FlatRow) : lessP ks a b = some (lexLt ks a b) :=
  lessP_eq_lexLt (compat_always ks a b)

/-- `Less` is a strict weak order on ANY set of rows. -/
theorem less_strictWeak_all (ks : List OrderBy) (rows : List FlatRow) :
    (∀ a ∈ rows, less ks a a = false) ∧
    (∀ a ∈ rows, ∀ b ∈ rows, less ks a b = true → less ks b a = false) ∧
    (∀ a ∈ rows, ∀ b ∈ rows, ∀ c ∈ rows,
      less ks a b = true → less ks b c = true → less ks a c = true) ∧
    (∀ a ∈ rows, ∀ b ∈ rows, ∀ c ∈ rows,
      less ks a b = false → less ks b c = false → less ks a c = false) :=
  less_strictWeak (comparable_always ks rows)

/-- ORDER BY arranges ANY result non-decreasingly under the full lexicographic key order. -/
theorem sort_sorted_all (ks : List OrderBy) (rows : List FlatRow) : Sorted ks (isort ks rows) :=
  sort_sorted (comparable_always ks rows)

/-- The whole of `addOrderLimitOffset` with the model's sort, for all rows, key lists, n, m. -/
theorem query_spec_all (q : OLO) (rows : List FlatRow) (hk : q.orderBy ≠ []) :
    ∃ sorted : List FlatRow, sorted.Perm rows ∧ Sorted q.orderBy sorted ∧
      addOrderLimitOffset isort q rows =
        if q.limit = 0 then sorted.drop q.offset else slice q.limit q.offset sorted :=
  query_spec isort q rows hk (sort_perm q.orderBy rows) (sort_sorted_all q.orderBy rows)

/-! ## Record of defect D2: the code as found does not implement the specification -/

def d2Keys : List OrderBy := [⟨"_time", false⟩, ⟨"x", false⟩]
def d2A : FlatRow := { ts := 2, key := [("x", .int .int 1)], fields := [] }
def d2B : FlatRow := { ts := 1, key := [("x", .int .int 2)], fields := [] }

/-- `ORDER BY _time, x`: row A (time 2, x 1) is reported less than row B (time 1, x 2) although
    it is later in time — the pre-fix `Less` is not the lexicographic order, and is not even
    asymmetric (A<B and B<A), so `sort.Sort`'s contract is void. -/
theorem lessBuggy_violates_spec :
    Compat d2Keys d2A d2B = true ∧ lessBuggy d2Keys d2A d2B = true ∧
    lexLt d2Keys d2A d2B = false ∧ lessBuggy d2Keys d2B d2A = true := by decide

/-- the fixed `Less` on the same witness -/
theorem less_fixed_on_witness :
    less d2Keys d2A d2B = false ∧ less d2Keys d2B d2A = true := by decide

/-! ## Non-vacuity -/

def exKeys : List OrderBy := [⟨"_time", false⟩, ⟨"d", true⟩, ⟨"v", false⟩]
def exR1 : FlatRow := { ts := 10, key := [("d", .str "a")], fields := [("v", 3)] }
def exR2 : FlatRow := { ts := 10, key := [("d", .str "b")], fields := [("v", 1)] }
def exR3 : FlatRow := { ts := 10, key := [], fields := [("v", 2)] }            -- d missing: nil
def exR4 : FlatRow := { ts := 5, key := [("d", .str "a")], fields := [("v", 9)] }
def exR5 : FlatRow := { ts := 10, key := [("d", .str "b")], fields := [("v", 1)] }  -- tie with R2
def exRows : List FlatRow := [exR1, exR2, exR3, exR4, exR5]

example : Comparable exKeys exRows = true := by decide
-- `_time` first with ties on it, DESC on a column with a missing (nil) value, ties on all keys
example : isort exKeys exRows = [exR4, exR2, exR5, exR1, exR3] := by decide
example : lexLt exKeys exR2 exR1 = true ∧ lexLt exKeys exR1 exR3 = true ∧
    lexLt exKeys exR2 exR5 = false ∧ lexLt exKeys exR5 exR2 = false := by decide
example : limitOffset 2 1 (isort exKeys exRows) = [exR2, exR5] := by decide
example : limitOffset 0 3 (isort exKeys exRows) = [exR1, exR3] := by decide
example : limitOffset 7 4 (isort exKeys exRows) = [exR3] := by decide
example : limitOffset 3 9 (isort exKeys exRows) = [] := by decide
-- a column holding values of two types: since /repo 8a9a760 `Less` orders such values by the
-- name of their type ("int" < "string") instead of panicking
example : Compat [⟨"d", false⟩] exR1 { ts := 0, key := [("d", .int .int 1)], fields := [] } = true ∧
    lessP [⟨"d", false⟩] exR1 { ts := 0, key := [("d", .int .int 1)], fields := [] } = some false ∧
    lessP [⟨"d", false⟩] { ts := 0, key := [("d", .int .int 1)], fields := [] } exR1 = some true := by
  decide
-- Go `uint` dimensions: `compare` used to assert uint64 and panic; now compared by value
example : cmpVal (.int .uint 1) (.int .uint 2) = some (-1) := by decide
-- fields shadow dimensions of the same name (`FlatRow.Get` looks at fields first)
example : ({ ts := 0, key := [("v", .str "z")], fields := [("v", 4)] } : FlatRow).get "v" =
    .float false 4 := by decide

end Zeno.C09
