/-
SubMergeSem — `Sequence.SubMerge` (encoding/seq.go) AS A WHOLE, and its use by `core.Group`
(`groupRows`), for the queries C06/C07 are about: the selected field is a table field (direct
sub-merger `e.Merge(data, data, other)`), no SHIFT, no stride; the query's period is a multiple
`k ≥ 1` of the table resolution and its window `(asOf, hi]` lies on the table's period grid.

Reading guide.  `Sq.at e res s T` is the state a sequence holds for the period ending at `T`
(`e.empty` when it holds none).  `bucketTimes otherRes k asOf hi T` lists the native period ends
`T, T − otherRes, …` of the out period `(T − k·otherRes, T]` that lie inside `(asOf, hi]`;
`mergeOnto e otherRes other ts acc` merges `other`'s states for the periods `ts` onto `acc` with
`e.Merge`, in that order (the order of the loop; by `mrg_comm`/`mrg_assoc` any other order gives
the same state).  `RecvGrid`: the receiver is empty or on the out grid anchored at `hi`;
`InWindow`: it holds nothing outside the window — both hold for `none` and are re-established by
every `SubMerge` (`subMerge_result_invariant`), so they hold for every accumulator column of
`core.Group`.
-/
import ZenoModel.Lemmas.SubMergeSemSpec2

namespace Zeno.SubMergeSem
open Zeno

/-! ## Stage 1: one `SubMerge` -/

/-- SEMANTICS OF `Sequence.SubMerge`.  At every out period end `T` on the grid anchored at `hi`:
    inside the window the result holds the receiver's state merged with EXACTLY the source periods
    of the bucket `(T − res, T]` that lie inside `(asOf, hi]` (each once: `bucket_periods_exact`,
    `bucket_periods_once`), newest first; outside the window it holds nothing.  A bucket cut by
    `asOf` (window not a multiple of `res`) is kept with only its periods after `asOf`. -/
theorem sem_subMerge {e : Ex} (hv : e.valid = true) (hp : e.noPtile = true) (hshift : e.shiftOf = 0)
    {res otherRes : Int} {k : Nat} {asOf hi : Int}
    (hor : 0 < otherRes) (hk : 0 < k) (hres : res = (k : Int) * otherRes)
    (ha0 : 0 < asOf) (hlt : asOf < hi) (haa : asOf % otherRes = 0) (hha : hi % otherRes = 0)
    (s other : Sq) (p : Pt) (ho : SqOk otherRes other) (hwo : SqWF e other)
    (hg : RecvGrid e res hi s) (hin : InWindow e res asOf hi s)
    (T : Int) (hT : (hi - T) % res = 0) :
    (Sq.subMerge e e (.direct e) res otherRes s other p asOf hi 0).at e res T =
      if asOf < T ∧ T ≤ hi
      then mergeOnto e otherRes other (bucketTimes otherRes k asOf hi T) (s.at e res T)
      else e.empty :=
  sem_subMerge_lem hv hp hshift ⟨hor, hk, hres, ha0, hlt, haa, hha⟩ s other p ho hwo hg hin T hT

/-- the merged periods are exactly those of the bucket `(T − k·otherRes, T]` on the source grid
    that lie inside the window — none from outside -/
theorem bucket_periods_exact {otherRes : Int} (h : 0 < otherRes) (k : Nat) (asOf hi T t : Int) :
    t ∈ bucketTimes otherRes k asOf hi T ↔
      (T - (k : Int) * otherRes < t ∧ t ≤ T ∧ (T - t) % otherRes = 0) ∧ asOf < t ∧ t ≤ hi :=
  mem_bucketTimes h k asOf hi T t

/-- … each once -/
theorem bucket_periods_once {otherRes : Int} (h : 0 < otherRes) (k : Nat) (asOf hi T : Int) :
    (bucketTimes otherRes k asOf hi T).Nodup :=
  nodup_bucketTimes h k asOf hi T

/-- the result of `SubMerge` is again a receiver on the out grid that holds nothing outside the
    window (the invariant of `core.Group`'s accumulator columns) -/
theorem subMerge_result_invariant {e : Ex} (hv : e.valid = true) (hp : e.noPtile = true) (hshift : e.shiftOf = 0)
    {res otherRes : Int} {k : Nat} {asOf hi : Int}
    (hor : 0 < otherRes) (hk : 0 < k) (hres : res = (k : Int) * otherRes)
    (ha0 : 0 < asOf) (hlt : asOf < hi) (haa : asOf % otherRes = 0) (hha : hi % otherRes = 0)
    (s other : Sq) (p : Pt) (ho : SqOk otherRes other) (hwo : SqWF e other)
    (hg : RecvGrid e res hi s) (hin : InWindow e res asOf hi s) :
    RecvGrid e res hi (Sq.subMerge e e (.direct e) res otherRes s other p asOf hi 0) ∧
      InWindow e res asOf hi (Sq.subMerge e e (.direct e) res otherRes s other p asOf hi 0) :=
  subMerge_inv_lem hv hp hshift ⟨hor, hk, hres, ha0, hlt, haa, hha⟩ s other p ho hwo hg hin

/-- fresh receiver: the result at `T` is the n-way merge of exactly the bucket's source periods
    inside the window -/
theorem sem_subMerge_fresh {e : Ex} (hv : e.valid = true) (hp : e.noPtile = true) (hshift : e.shiftOf = 0)
    {res otherRes : Int} {k : Nat} {asOf hi : Int}
    (hor : 0 < otherRes) (hk : 0 < k) (hres : res = (k : Int) * otherRes)
    (ha0 : 0 < asOf) (hlt : asOf < hi) (haa : asOf % otherRes = 0) (hha : hi % otherRes = 0)
    (other : Sq) (p : Pt) (ho : SqOk otherRes other) (hwo : SqWF e other)
    (T : Int) (hT : (hi - T) % res = 0) :
    (Sq.subMerge e e (.direct e) res otherRes none other p asOf hi 0).at e res T =
      if asOf < T ∧ T ≤ hi
      then mergeOnto e otherRes other (bucketTimes otherRes k asOf hi T) e.empty
      else e.empty :=
  sem_subMerge_lem hv hp hshift ⟨hor, hk, hres, ha0, hlt, haa, hha⟩ none other p ho hwo trivial
    (fun _ _ => rfl) T hT

/-- … and when every stored state is the accumulation of its period's raw points, the result is
    the accumulation of all raw points of the bucket (no loss, no double counting) -/
theorem sem_subMerge_fresh_points (x : Ext) {e : Ex} (hv : e.valid = true) (hp : e.noPtile = true)
    (hshift : e.shiftOf = 0) {res otherRes : Int} {k : Nat} {asOf hi : Int}
    (hor : 0 < otherRes) (hk : 0 < k) (hres : res = (k : Int) * otherRes)
    (ha0 : 0 < asOf) (hlt : asOf < hi) (haa : asOf % otherRes = 0) (hha : hi % otherRes = 0)
    (other : Sq) (p : Pt) (ho : SqOk otherRes other) (hwo : SqWF e other)
    (T : Int) (hT : (hi - T) % res = 0) (hW : asOf < T ∧ T ≤ hi) (pts : Int → List Pt)
    (hstore : ∀ t ∈ bucketTimes otherRes k asOf hi T, other.at e otherRes t = e.acc x (pts t)) :
    (Sq.subMerge e e (.direct e) res otherRes none other p asOf hi 0).at e res T =
      e.acc x ((bucketTimes otherRes k asOf hi T).map pts).flatten := by
  rw [sem_subMerge_fresh hv hp hshift hor hk hres ha0 hlt haa hha other p ho hwo T hT, if_pos hW]
  have := mergeOnto_acc x hv hp otherRes other pts _ [] hstore
  simpa [Ex.acc] using this

/-- FINDING (receiver handling is not uniform).  When the source has NO period inside the window,
    `SubMerge` returns the receiver as it is — in particular NOT truncated to the window … -/
theorem subMerge_miss_returns_receiver (e : Ex) (hshift : e.shiftOf = 0) (res otherRes : Int) (s other : Sq)
    (p : Pt) (asOf hi : Int) (h : (other.truncate otherRes asOf hi).numPeriods = 0) :
    Sq.subMerge e e (.direct e) res otherRes s other p asOf hi 0 = s :=
  subMerge_miss e hshift res otherRes s other p asOf hi h

/-- … whereas when the source has a period inside the window the receiver IS truncated to the
    window: whatever it held outside is dropped.  (`res ≤ asOf`: the window starts at least one
    out period after the zero time, so that the rounded bound is not read as "no bound".) -/
theorem sem_subMerge_truncates_receiver {e : Ex} (hv : e.valid = true) (hp : e.noPtile = true)
    (hshift : e.shiftOf = 0) {res otherRes : Int} {k : Nat} {asOf hi : Int}
    (hor : 0 < otherRes) (hk : 0 < k) (hres : res = (k : Int) * otherRes)
    (ha0 : 0 < asOf) (hlt : asOf < hi) (haa : asOf % otherRes = 0) (hha : hi % otherRes = 0)
    (s other : Sq) (p : Pt) (ho : SqOk otherRes other) (hwo : SqWF e other)
    (hg : RecvGrid e res hi s) (hra : res ≤ asOf)
    (hhit : (other.truncate otherRes asOf hi).numPeriods ≠ 0) (T : Int) (hT : (hi - T) % res = 0) :
    (Sq.subMerge e e (.direct e) res otherRes s other p asOf hi 0).at e res T =
      if asOf < T ∧ T ≤ hi
      then mergeOnto e otherRes other (bucketTimes otherRes k asOf hi T) (s.at e res T)
      else e.empty :=
  sem_subMerge_truncates_lem hv hp hshift ⟨hor, hk, hres, ha0, hlt, haa, hha⟩ s other p ho hwo hg hra hhit T hT

/-- many sources into one receiver (one output column of one group): source after source, each
    contributes exactly its bucket periods -/
theorem sem_subMergeAll {e : Ex} (hv : e.valid = true) (hp : e.noPtile = true) (hshift : e.shiftOf = 0)
    {res otherRes : Int} {k : Nat} {asOf hi : Int}
    (hor : 0 < otherRes) (hk : 0 < k) (hres : res = (k : Int) * otherRes)
    (ha0 : 0 < asOf) (hlt : asOf < hi) (haa : asOf % otherRes = 0) (hha : hi % otherRes = 0)
    (srcs : List Src) (hall : ∀ op ∈ srcs, SqOk otherRes op.1 ∧ SqWF e op.1)
    (T : Int) (hT : (hi - T) % res = 0) :
    (subMergeAll e res otherRes asOf hi srcs none).at e res T =
      if asOf < T ∧ T ≤ hi
      then mergeAllOnto e otherRes srcs (bucketTimes otherRes k asOf hi T) e.empty
      else e.empty := by
  have := (sem_subMergeAll_lem hv hp hshift ⟨hor, hk, hres, ha0, hlt, haa, hha⟩ srcs none hall trivial
    (fun _ _ => rfl)).2 T hT
  rw [this, at_none]

/-! ## Stage 2: `core.Group` (`groupRows`)

`gResOf/gAsOfOf/gUntilOf` are the resolution/asOf/until `groupRows` hands to `SubMerge`;
`gSlice q` projects a scan row's key onto the query's GROUP BY dims; `groupCell … k i` is column
`i` of the output row with key `k` (`colsOf` reads the row: `groupRows_row_cols`);
`groupMembers q rows k` are the scan rows whose key slices to `k`, in scan order, and
`groupSrcs q metas rows k j` their columns `j` (with the rows' metadata).  `GroupCell … kk i f j`
bundles the side conditions (Lemmas/SubMergeSemGroup3.lean): no stride; `SMWindow` (from
`planLocal`); `f` = `i`-th selected field, valid, no PERCENTILE, no SHIFT; the `j`-th scanned field
has the same expression and is the one direct sub-merger; every scan row has a well-formed column
`j` on the table grid. -/

/-- `planLocal` establishes the resolution/window side conditions of `sem_subMerge` for the
    parameters `groupRows` passes (`res = k·tableRes`, bounds on the table grid, `asOf < until`);
    only `0 < asOf` (the window does not reach back to Go's zero time) is extra. -/
theorem planLocal_establishes_window (cfg : TableCfg) (now : Int) (q : Query) (pl : Plan)
    (h : planLocal cfg now q = .ok pl) (hres : 0 < cfg.res) (hpos : 0 < gAsOfOf cfg now pl) :
    SMWindow (gResOf cfg pl) cfg.res (gResOf cfg pl / cfg.res).toNat (gAsOfOf cfg now pl) (gUntilOf cfg now pl) :=
  planLocal_window cfg now q pl h hres hpos

/-- an aggregate that is itself a table field, among table fields with pairwise different printed
    forms, gets exactly one sub-merger: the direct one, from that field (`Expr.SubMergers` +
    `bytetree.New`'s de-duplication) -/
theorem direct_submerger_of_table_aggregate (ins : List Ex) (kd : AggKind) (wd : Ex) (j : Nat)
    (hj : ins[j]? = some (.agg kd wd))
    (hdist : ∀ (i i' : Nat) (a b : Ex), i ≠ i' → ins[i]? = some a → ins[i']? = some b → a.sameStr b = false) :
    OneHot (dedupInputs ins ((Ex.agg kd wd).subMergers ins)) j (.agg kd wd) :=
  oneHot_agg ins kd wd j hj hdist

/-- the output rows of `groupRows`: one per projected key of the scan rows, none twice -/
theorem groupRows_keys_exact (cfg : TableCfg) (now : Int) (q : Query) (pl : Plan) (inFields : List Field)
    (metas : List KeyMeta) (rows : List Row) :
    ((groupRows cfg now q pl inFields metas rows).1.map (·.key)).Nodup ∧
      ∀ k, k ∈ (groupRows cfg now q pl inFields metas rows).1.map (·.key) ↔ ∃ r ∈ rows, gSlice q r.key = k :=
  groupRows_keys cfg now q pl inFields metas rows

/-- … and `colsOf` (hence `groupCell`) reads the columns of that row -/
theorem groupRows_row_cols (init : List Sq) (out : List Row) (hnd : (out.map (·.key)).Nodup) (o : Row)
    (ho : o ∈ out) : colsOf init out o.key = o.cols :=
  colsOf_mem init out hnd o ho

/-- STAGE 2.  The cell (output key `k`, selected field `i` = table field `j`, out period `T`) of
    `groupRows` is the merge, over exactly the scan rows whose key agrees with `k` on the kept
    dims (in scan order), of exactly the source periods of the bucket `(T − res, T]` inside the
    window — "fewer dims merges exactly the keys that agree on the kept dims"; outside the window
    it is empty. -/
theorem sem_groupRows {cfg : TableCfg} {now : Int} {q : Query} {pl : Plan} {inFields : List Field}
    {rows : List Row} {kk i j : Nat} {f : Field} (H : GroupCell cfg now q pl inFields rows kk i f j)
    (metas : List KeyMeta) (k : Key) (T : Int) (hT : (gUntilOf cfg now pl - T) % gResOf cfg pl = 0) :
    (groupCell cfg now q pl inFields metas rows k i).at f.ex (gResOf cfg pl) T =
      if gAsOfOf cfg now pl < T ∧ T ≤ gUntilOf cfg now pl
      then mergeAllOnto f.ex cfg.res (groupSrcs q metas rows k j)
        (bucketTimes cfg.res kk (gAsOfOf cfg now pl) (gUntilOf cfg now pl) T) f.ex.empty
      else f.ex.empty := by
  obtain ⟨inF, hin, hex⟩ := H.inField
  exact sem_groupRows_lem cfg now q pl inFields metas rows H.noStride H.window i f H.outField H.valid H.noPtile
    H.noShift j inF hin hex H.oneHot H.scan k T hT

/-- C07 at the level of the group operator: the cell column holds NOTHING for any period end
    outside `(asOf, until]` (on the out grid or not) -/
theorem groupRows_window_exact {cfg : TableCfg} {now : Int} {q : Query} {pl : Plan} {inFields : List Field}
    {rows : List Row} {kk i j : Nat} {f : Field} (H : GroupCell cfg now q pl inFields rows kk i f j)
    (metas : List KeyMeta) (k : Key) (T : Int) (hout : ¬ (gAsOfOf cfg now pl < T ∧ T ≤ gUntilOf cfg now pl)) :
    (groupCell cfg now q pl inFields metas rows k i).at f.ex (gResOf cfg pl) T = f.ex.empty := by
  obtain ⟨inF, hin, hex⟩ := H.inField
  exact (groupRows_cell_inv cfg now q pl inFields metas rows H.noStride H.window i f H.outField H.valid H.noPtile
    H.noShift j inF hin hex H.oneHot H.scan k).2 T hout

/-- … read on raw points: if every contributing stored state is the accumulation of the raw
    points `pts r t` of its (scan row, period), the cell is the accumulation of all raw points of
    the bucket: those of the scan rows that agree with `k` on the kept dims, in the native periods
    of `(T − res, T]` inside the window — each point once. -/
theorem sem_groupRows_points (x : Ext) {cfg : TableCfg} {now : Int} {q : Query} {pl : Plan}
    {inFields : List Field} {rows : List Row} {kk i j : Nat} {f : Field}
    (H : GroupCell cfg now q pl inFields rows kk i f j) (metas : List KeyMeta)
    (k : Key) (T : Int) (hT : (gUntilOf cfg now pl - T) % gResOf cfg pl = 0)
    (hW : gAsOfOf cfg now pl < T ∧ T ≤ gUntilOf cfg now pl) (pts : Row → Int → List Pt)
    (hstore : ∀ r ∈ groupMembers q rows k,
      ∀ t ∈ bucketTimes cfg.res kk (gAsOfOf cfg now pl) (gUntilOf cfg now pl) T,
        (r.cols.getD j none).at f.ex cfg.res t = f.ex.acc x (pts r t)) :
    (groupCell cfg now q pl inFields metas rows k i).at f.ex (gResOf cfg pl) T =
      f.ex.acc x (memberPoints pts (groupMembers q rows k)
        (bucketTimes cfg.res kk (gAsOfOf cfg now pl) (gUntilOf cfg now pl) T)) := by
  obtain ⟨inF, hin, hex⟩ := H.inField
  exact sem_groupRows_points_lem x cfg now q pl inFields metas rows H.noStride H.window i f H.outField H.valid
    H.noPtile H.noShift j inF hin hex H.oneHot H.scan k T hT hW pts hstore

/-! ## Stage 3: the grouped cell is the raw-point spec's bucket accumulation

`specQuery` (Model/QuerySpec.lean) is, definitionally, `specOut` around `specBucketPts`
(`specQuery_is_specOut`): for the bucket `(k, T)` it accumulates every selected expression over
`specBucketPts q A adj lo hi P k T` — the accepted, WHERE-passing rows `A` inside the window whose
projected key is `k` and whose out period is `T`, in arrival order.  The store-side invariant
("the stored state of (key, native period) is the accumulation of the accepted rows of that key
and period", being proved separately) is the HYPOTHESIS `hstore`. -/

/-- accumulation does not depend on the order of the points -/
theorem acc_order_irrelevant (x : Ext) {e : Ex} (hv : e.valid = true) (hp : e.noPtile = true) {l1 l2 : List Pt}
    (h : l1.Perm l2) : e.acc x l1 = e.acc x l2 :=
  acc_perm x hv hp h

/-- `specQuery` accumulates, for the bucket `(k, T)`, exactly `specBucketPts` (by `rfl`) -/
theorem specQuery_is_specOut (x : Ext) (cfg : TableCfg) (dup : Bool) (ps : List RawPoint) (q : Query)
    (metas : List KeyMeta) :
    specQuery x cfg dup ps q metas =
      match planLocal cfg (acceptedRows cfg dup ps).2 q with
      | .error e => .error e
      | .ok pl => .ok (specOut x cfg q metas (acceptedRows cfg dup ps).1 (acceptedRows cfg dup ps).2 pl) :=
  specQuery_eq x cfg dup ps q metas

/-- STAGE 3.  Given the store invariant `hstore` (state of scan row `r` at native period `t` =
    accumulation of the accepted rows of `(r.key, t)`), one scan row per key (`hkeys`), a scan row
    for every key that has an accepted row inside the window (`hcover`) and accepted rows on the
    table's period grid (`hper`): the grouped cell `(k, field i, T)` IS the accumulation the spec
    performs over the bucket `(k, T)`. -/
theorem sem_groupRows_spec (x : Ext) {cfg : TableCfg} {now : Int} {q : Query} {pl : Plan}
    {inFields : List Field} {rows : List Row} {kk i j : Nat} {f : Field}
    (H : GroupCell cfg now q pl inFields rows kk i f j) (metas : List KeyMeta)
    (k : Key) (T : Int) (hT : (gUntilOf cfg now pl - T) % gResOf cfg pl = 0)
    (hW : gAsOfOf cfg now pl < T ∧ T ≤ gUntilOf cfg now pl)
    (A : List AccRow) (adj : AccRow → Pt)
    (hper : ∀ a ∈ A, a.period % cfg.res = 0) (hkeys : (rows.map (·.key)).Nodup)
    (hcover : ∀ a ∈ A, gAsOfOf cfg now pl < a.period ∧ a.period ≤ gUntilOf cfg now pl → ∃ r ∈ rows, r.key = a.key)
    (hstore : ∀ r ∈ rows, ∀ t, gAsOfOf cfg now pl < t ∧ t ≤ gUntilOf cfg now pl →
      (r.cols.getD j none).at f.ex cfg.res t = f.ex.acc x (keyPeriodPts A adj r.key t)) :
    (groupCell cfg now q pl inFields metas rows k i).at f.ex (gResOf cfg pl) T =
      f.ex.acc x (specBucketPts q A adj (gAsOfOf cfg now pl) (gUntilOf cfg now pl) (gResOf cfg pl) k T) := by
  obtain ⟨inF, hin, hex⟩ := H.inField
  exact sem_groupRows_spec_lem x cfg now q pl inFields metas rows H.noStride H.window i f H.outField H.valid H.noPtile
    H.noShift j inF hin hex H.oneHot H.scan k T hT hW A adj hper hkeys hcover hstore

/-- for a selected expression without IF the spec's adjustment of the points (conditions evaluated
    on the source key) is immaterial: the hypothesis `hstore` may equally be stated on the accepted
    rows' own points -/
theorem spec_bucket_conds_irrelevant (x : Ext) {e : Ex} (h : e.noIf = true) (metas : List KeyMeta)
    (l : List AccRow) : e.acc x (l.map (specAdj metas)) = e.acc x (l.map (·.pt)) :=
  acc_specAdj x h metas l

/-! ## Non-vacuity: the hypotheses hold, and the statements say the right thing, on concrete data -/

def exE : Ex := .agg .sum (.field "a")
def exC : Ex := .agg .count (.field "b")
/-- native periods ending at 100, 90, 80, 70, 60 (resolution 10) holding 1, 2, 3, 4, 5 -/
def exSrc : Seq := ⟨100, [[.agg (some 1)], [.agg (some 2)], [.agg (some 3)], [.agg (some 4)], [.agg (some 5)]]⟩
/-- out periods ending at 100, 80, 60 (resolution 20) holding 10, 20, 30 -/
def exRecv : Seq := ⟨100, [[.agg (some 10)], [.agg (some 20)], [.agg (some 30)]]⟩

example : exE.valid = true ∧ exE.noPtile = true ∧ exE.shiftOf = 0 := by decide
example : SMWindow 20 10 2 70 100 := ⟨by decide, by decide, by decide, by decide, by decide, by decide, by decide⟩
example : SqOk 10 (some exSrc) := ⟨by decide, by decide, by decide⟩
example : SqWF exE (some exSrc) := by
  intro c hc
  simp [exSrc] at hc
  rcases hc with rfl | rfl | rfl | rfl | rfl <;> rfl
example : RecvGrid exE 20 100 (some ⟨100, [[.agg (some 3)], [.agg (some 3)]]⟩) := by
  refine ⟨by decide, by decide, ?_⟩
  intro c hc
  simp at hc
  rcases hc with rfl | rfl <;> rfl

/-- window (70, 100], out period 20 = 2 × 10, window length 30 (NOT a multiple of 20): the out
    period (60, 80] is cut by asOf — it is kept, with period 80 only (70 is outside the window) -/
example : bucketTimes 10 2 70 100 100 = [100, 90] ∧ bucketTimes 10 2 70 100 80 = [80] ∧
    bucketTimes 10 2 70 100 60 = [] := by decide
example : Sq.subMerge exE exE (.direct exE) 20 10 none (some exSrc) default 70 100 0 =
    some ⟨100, [[.agg (some 3)], [.agg (some 3)]]⟩ := by decide +kernel
example : mergeOnto exE 10 (some exSrc) (bucketTimes 10 2 70 100 100) exE.empty = [.agg (some 3)] ∧
    mergeOnto exE 10 (some exSrc) (bucketTimes 10 2 70 100 80) exE.empty = [.agg (some 3)] := by decide +kernel

/-- HIT: the receiver's period 60 (outside the window) is dropped, the others are merged onto -/
example : Sq.subMerge exE exE (.direct exE) 20 10 (some exRecv) (some exSrc) default 70 100 0 =
    some ⟨100, [[.agg (some 13)], [.agg (some 23)]]⟩ := by decide +kernel
/-- MISS: the source lies wholly outside the window — the receiver comes back untouched, still
    holding its period 60 ≤ asOf -/
example : Sq.subMerge exE exE (.direct exE) 20 10 (some exRecv) (some ⟨50, [[.agg (some 7)]]⟩) default 70 100 0 =
    some exRecv := by decide +kernel
example : (Sq.truncate (some ⟨50, [[.agg (some 7)]]⟩ : Sq) 10 70 100).numPeriods = 0 ∧
    (Sq.truncate (some exSrc) 10 70 100).numPeriods ≠ 0 := by decide +kernel

/-! a grouped query: table fields `a = SUM(a)`, `b = COUNT(b)` at resolution 10; the query selects
    `b` then `a`, GROUP BY x (dropping y), period 20, ASOF 1950 (window (1950, 2000], 2.5 periods) -/

def exCfg : TableCfg := { fields := [⟨"a", exE⟩, ⟨"b", exC⟩], res := 10, retention := 1000, groupBy := none }
def exQ : Query :=
  { outFields := [⟨"b", exC⟩, ⟨"a", exE⟩], groupByAll := false, groupBy := ["x"], resolution := 20, asOf := 1950,
    hasSpecificFields := true }
def exPl : Plan := match planLocal exCfg 2000 exQ with | .ok p => p | .error _ => default
def exColA (n : Nat) : Sq := some ⟨2000, [[.agg (some n)], [.agg (some 1)]]⟩
def exColB (n : Nat) : Sq :=
  some ⟨2000, [[.agg (some n)], [.agg (some 2)], [.agg (some 4)], [.agg (some 8)], [.agg (some 16)], [.agg (some 32)]]⟩
def exRows : List Row :=
  [⟨[("x", "1"), ("y", "a")], [exColA 1, exColB 1]⟩, ⟨[("x", "2"), ("y", "a")], [exColA 2, exColB 2]⟩,
   ⟨[("x", "1"), ("y", "b")], [exColA 3, exColB 3]⟩]

example : planLocal exCfg 2000 exQ = .ok exPl := by rfl
example : includedFields exCfg exQ = exCfg.fields := by decide +kernel
example : exPl.strideSlice = 0 ∧ gResOf exCfg exPl = 20 ∧ gAsOfOf exCfg 2000 exPl = 1950 ∧
    gUntilOf exCfg 2000 exPl = 2000 := by decide +kernel
/-- key x=1 merges the two scan rows (x=1,y=a), (x=1,y=b) and not (x=2,y=a); out period 1960 is
    cut by ASOF and holds native period 1960 only: 16 + 16 -/
example : (groupRows exCfg 2000 exQ exPl exCfg.fields [] exRows).1.map (fun r => (r.key, r.cols.getD 0 none)) =
    [([("x", "1")], some ⟨2000, [[.agg (some 8)], [.agg (some 24)], [.agg (some 32)]]⟩),
     ([("x", "2")], some ⟨2000, [[.agg (some 4)], [.agg (some 12)], [.agg (some 16)]]⟩)] := by decide +kernel
example : (groupSrcs exQ [] exRows [("x", "1")] 1).map (·.1) = [exColB 1, exColB 3] := by decide +kernel

/-- the hypotheses of `sem_groupRows` (`GroupCell`) hold together on this query — selected field 0
    (`b`) = table field 1 — so its conclusion is a statement about the cells computed above -/
example (k : Key) (T : Int) (hT : (gUntilOf exCfg 2000 exPl - T) % gResOf exCfg exPl = 0) :
    (groupCell exCfg 2000 exQ exPl exCfg.fields [] exRows k 0).at exC (gResOf exCfg exPl) T =
      if gAsOfOf exCfg 2000 exPl < T ∧ T ≤ gUntilOf exCfg 2000 exPl
      then mergeAllOnto exC exCfg.res (groupSrcs exQ [] exRows k 1)
        (bucketTimes exCfg.res (gResOf exCfg exPl / exCfg.res).toNat (gAsOfOf exCfg 2000 exPl) (gUntilOf exCfg 2000 exPl) T)
        exC.empty
      else exC.empty := by
  have exDistinct : ∀ (i i' : Nat) (a b : Ex), i ≠ i' → (exCfg.fields.map (·.ex))[i]? = some a →
      (exCfg.fields.map (·.ex))[i']? = some b → a.sameStr b = false := by
    intro i i' a b hne h1 h2
    have h1' : ([exE, exC] : List Ex)[i]? = some a := h1
    have h2' : ([exE, exC] : List Ex)[i']? = some b := h2
    rcases i with _ | _ | i <;> rcases i' with _ | _ | i' <;>
      simp at h1' h2' hne <;> (try (obtain ⟨rfl, rfl⟩ := And.intro h1' h2'; decide))
  have H : GroupCell exCfg 2000 exQ exPl exCfg.fields exRows (gResOf exCfg exPl / exCfg.res).toNat 0 ⟨"b", exC⟩ 1 := by
    refine ⟨by decide +kernel,
      planLocal_establishes_window exCfg 2000 exQ exPl (by rfl) (by decide) (by decide +kernel),
      rfl, by decide, by decide, by decide, ⟨⟨"b", exC⟩, rfl, rfl⟩,
      direct_submerger_of_table_aggregate _ .count (.field "b") 1 rfl exDistinct, ?_⟩
    intro r hr
    simp [exRows] at hr
    rcases hr with h | h | h <;> subst h <;>
      refine ⟨by decide, ⟨by decide, by decide, by decide⟩, ?_⟩ <;>
      (intro c hc; simp at hc; rcases hc with rfl | rfl | rfl | rfl | rfl | rfl <;> rfl)
  exact sem_groupRows H [] k T hT

/-! stage 3 on concrete data: six accepted rows (the last one at native period 1950 ≤ ASOF), the
    scan rows that hold their per-(key, period) accumulations, and the bucket (x=1, T=2000) -/

def exPt : Pt := { vals := [("b", 1)] }
def exA : List AccRow :=
  [⟨[("x", "1"), ("y", "a")], 2000, exPt⟩, ⟨[("x", "1"), ("y", "b")], 1990, exPt⟩, ⟨[("x", "1"), ("y", "a")], 1990, exPt⟩,
   ⟨[("x", "2"), ("y", "a")], 2000, exPt⟩, ⟨[("x", "1"), ("y", "a")], 1960, exPt⟩, ⟨[("x", "1"), ("y", "b")], 1950, exPt⟩]
def exOne : List Cell := [.agg (some 1)]
def exNone : List Cell := [.agg none]
def exScan : List Row :=
  [⟨[("x", "1"), ("y", "a")], [none, some ⟨2000, [exOne, exOne, exNone, exNone, exOne]⟩]⟩,
   ⟨[("x", "1"), ("y", "b")], [none, some ⟨1990, [exOne, exNone, exNone, exNone, exOne]⟩]⟩,
   ⟨[("x", "2"), ("y", "a")], [none, some ⟨2000, [exOne]⟩]⟩]

example : (∀ a ∈ exA, a.period % exCfg.res = 0) ∧ (exScan.map (·.key)).Nodup ∧
    (∀ a ∈ exA, 1950 < a.period ∧ a.period ≤ 2000 → ∃ r ∈ exScan, r.key = a.key) := by decide +kernel
/-- the store invariant on the example, for every native period end of the window and beyond -/
example : ∀ r ∈ exScan, ∀ t ∈ [1940, 1950, 1960, 1970, 1980, 1990, 2000, 2010],
    (r.cols.getD 1 none).at exC 10 t = exC.acc default (keyPeriodPts exA (·.pt) r.key t) := by decide +kernel
/-- both sides of `sem_groupRows_spec`: 3 rows in bucket (x=1, 2000), 1 in (x=1, 1960) — the row
    at 1950 is outside the window — and 1 in (x=2, 2000) -/
example : (specBucketPts exQ exA (·.pt) 1950 2000 20 [("x", "1")] 2000).length = 3 ∧
    (specBucketPts exQ exA (·.pt) 1950 2000 20 [("x", "1")] 1960).length = 1 := by decide +kernel
example :
    (groupCell exCfg 2000 exQ exPl exCfg.fields [] exScan [("x", "1")] 0).at exC 20 2000 =
      exC.acc default (specBucketPts exQ exA (·.pt) 1950 2000 20 [("x", "1")] 2000) ∧
    (groupCell exCfg 2000 exQ exPl exCfg.fields [] exScan [("x", "1")] 0).at exC 20 1960 =
      exC.acc default (specBucketPts exQ exA (·.pt) 1950 2000 20 [("x", "1")] 1960) := by decide +kernel

end Zeno.SubMergeSem


/-! ## The same results under the names of the properties they complete

`tools/props.py` audits the namespaces `Zeno.C06` / `Zeno.C07`; with this module in their "lean"
lists the whole-function theorems become proof obligations of those properties. -/

namespace Zeno.C06
open Zeno

/-- C06, `Sequence.SubMerge` as a whole (= `SubMergeSem.sem_subMerge`): a coarser period
    re-aggregates the stored per-period states without loss or overlap -/
theorem subMerge_whole_function {e : Ex} (hv : e.valid = true) (hp : e.noPtile = true) (hshift : e.shiftOf = 0)
    {res otherRes : Int} {k : Nat} {asOf hi : Int}
    (hor : 0 < otherRes) (hk : 0 < k) (hres : res = (k : Int) * otherRes)
    (ha0 : 0 < asOf) (hlt : asOf < hi) (haa : asOf % otherRes = 0) (hha : hi % otherRes = 0)
    (s other : Sq) (p : Pt) (ho : SqOk otherRes other) (hwo : SqWF e other)
    (hg : RecvGrid e res hi s) (hin : InWindow e res asOf hi s)
    (T : Int) (hT : (hi - T) % res = 0) :
    (Sq.subMerge e e (.direct e) res otherRes s other p asOf hi 0).at e res T =
      if asOf < T ∧ T ≤ hi
      then mergeOnto e otherRes other (bucketTimes otherRes k asOf hi T) (s.at e res T)
      else e.empty :=
  Zeno.SubMergeSem.sem_subMerge hv hp hshift hor hk hres ha0 hlt haa hha s other p ho hwo hg hin T hT

/-- C06, `core.Group` (= `SubMergeSem.sem_groupRows`): coarser period and fewer dims — the cell is
    the merge over exactly the keys that agree on the kept dims of exactly the bucket's periods -/
theorem group_cell_is_bucket_merge {cfg : TableCfg} {now : Int} {q : Query} {pl : Plan} {inFields : List Field}
    {rows : List Row} {kk i j : Nat} {f : Field} (H : GroupCell cfg now q pl inFields rows kk i f j)
    (metas : List KeyMeta) (k : Key) (T : Int) (hT : (gUntilOf cfg now pl - T) % gResOf cfg pl = 0) :
    (groupCell cfg now q pl inFields metas rows k i).at f.ex (gResOf cfg pl) T =
      if gAsOfOf cfg now pl < T ∧ T ≤ gUntilOf cfg now pl
      then mergeAllOnto f.ex cfg.res (groupSrcs q metas rows k j)
        (bucketTimes cfg.res kk (gAsOfOf cfg now pl) (gUntilOf cfg now pl) T) f.ex.empty
      else f.ex.empty :=
  Zeno.SubMergeSem.sem_groupRows H metas k T hT

/-- C06, against the raw-point spec (= `SubMergeSem.sem_groupRows_spec`): given the store invariant,
    the grouped cell is the accumulation `specQuery` performs over the bucket -/
theorem group_cell_is_spec_bucket (x : Ext) {cfg : TableCfg} {now : Int} {q : Query} {pl : Plan}
    {inFields : List Field} {rows : List Row} {kk i j : Nat} {f : Field}
    (H : GroupCell cfg now q pl inFields rows kk i f j) (metas : List KeyMeta)
    (k : Key) (T : Int) (hT : (gUntilOf cfg now pl - T) % gResOf cfg pl = 0)
    (hW : gAsOfOf cfg now pl < T ∧ T ≤ gUntilOf cfg now pl)
    (A : List AccRow) (adj : AccRow → Pt)
    (hper : ∀ a ∈ A, a.period % cfg.res = 0) (hkeys : (rows.map (·.key)).Nodup)
    (hcover : ∀ a ∈ A, gAsOfOf cfg now pl < a.period ∧ a.period ≤ gUntilOf cfg now pl → ∃ r ∈ rows, r.key = a.key)
    (hstore : ∀ r ∈ rows, ∀ t, gAsOfOf cfg now pl < t ∧ t ≤ gUntilOf cfg now pl →
      (r.cols.getD j none).at f.ex cfg.res t = f.ex.acc x (keyPeriodPts A adj r.key t)) :
    (groupCell cfg now q pl inFields metas rows k i).at f.ex (gResOf cfg pl) T =
      f.ex.acc x (specBucketPts q A adj (gAsOfOf cfg now pl) (gUntilOf cfg now pl) (gResOf cfg pl) k T) :=
  Zeno.SubMergeSem.sem_groupRows_spec x H metas k T hT hW A adj hper hkeys hcover hstore

end Zeno.C06

namespace Zeno.C07
open Zeno

/-- C07, `core.Group` (= `SubMergeSem.groupRows_window_exact`): nothing outside `(asOf, until]` -/
theorem group_window_exact {cfg : TableCfg} {now : Int} {q : Query} {pl : Plan} {inFields : List Field}
    {rows : List Row} {kk i j : Nat} {f : Field} (H : GroupCell cfg now q pl inFields rows kk i f j)
    (metas : List KeyMeta) (k : Key) (T : Int) (hout : ¬ (gAsOfOf cfg now pl < T ∧ T ≤ gUntilOf cfg now pl)) :
    (groupCell cfg now q pl inFields metas rows k i).at f.ex (gResOf cfg pl) T = f.ex.empty :=
  Zeno.SubMergeSem.groupRows_window_exact H metas k T hout

end Zeno.C07
