/-
C09 — regenerated structural facts (Generated/Facts.lean, tools/extract/orderlimit.go).

The model's `addOrderLimitOffset` (Model/Sort.lean) slices the COMPLETE ordered list, and
`query_spec` is a statement about that composition.  Whether the code has that shape is not
something small generated cases can see: a sorter that is told the LIMIT and keeps only a
prefix behaves like the model until the result outgrows its buffer.  So the shape is a proof
obligation over facts re-extracted from /repo on every run:

* `planner_wraps_full_sort` — planner/planner.go `addOrderLimitOffset` is, statement by
  statement, `if len(query.OrderBy) > 0 { flat = core.Sort(flat, query.OrderBy...) }`,
  `if query.Offset > 0 { flat = core.Offset(flat, query.Offset) }`,
  `if query.Limit > 0 { flat = core.Limit(flat, query.Limit) }`, `return flat`
  (nothing but the key list reaches the sorter; OFFSET and LIMIT are wrapped after it, in the
  order of the model's `limitOffset`);
* `sorter_retains_all_rows` — core/sort.go: `Sort` builds a `sorter` whose only state is the
  source and the key list, and the callback it hands to its source appends every row and
  does nothing else (no compaction, no bound).

A change of either (e.g. `core.SortTop(flat, query.Limit, …)`) breaks `decide` here and is
reported as a broken obligation; the size-dependent behaviour itself is searched by the
`large` cases of the sortlim engine.
-/
import ZenoModel.Generated.Facts

namespace Zeno.C09
open Zeno

theorem planner_wraps_full_sort :
    Facts.oloSteps =
      [ { cond := "len(query.OrderBy) > 0", lhs := "flat", callee := "core.Sort",
          args := ["flat", "query.OrderBy..."] },
        { cond := "query.Offset > 0", lhs := "flat", callee := "core.Offset",
          args := ["flat", "query.Offset"] },
        { cond := "query.Limit > 0", lhs := "flat", callee := "core.Limit",
          args := ["flat", "query.Limit"] } ] ∧
    Facts.oloReturn = "flat" := by decide

theorem sorter_retains_all_rows :
    Facts.sortCtor = ["return &sorter{ flatRowTransform{source}, by, }"] ∧
    Facts.sorterFields = ["flatRowTransform", "by []OrderBy"] ∧
    Facts.sorterCollect = ["rows.rows = append(rows.rows, row)", "return guard.Proceed()"] := by
  decide

end Zeno.C09
