/-
C12 — replication is exactly-once per partition across restarts and reconnects.

Model (Model/Repl.lean): the protocol between passthrough leaders and followers at message
level — WALs with increasing offsets, per (table, follower) follow-spec offsets with
`start = max(table offset, EarliestOffset)` and the WAL reader rewound to the minimum spec
offset on every join, FIFO links that lose what is in flight when cut, per table and source the
follower's dedup offset, the table pipeline, the row store as the list of (source, offset)
applications it reflects in memory / on disk / in a directory snapshot — with the faults
{stopFollower, startFollower (state = directory), restoreSnapshot (crash image), stopLeader /
startLeader (specs lost, WAL kept), cutLink, connect (reconnect with the current offsets)}.
`step : State → Event → Option State` is also what the harness replays observed event traces
through (trace acceptance, engine `cluster`).

Invariant (Lemmas/Repl.lean `Inv`, preserved by every event: Lemmas/ReplSteps*.lean).  For every
follower f, table t, leader l: (`exMem`/`exDisk`/`exSnap`) what the table reflects is exactly
`{e ∈ WAL_l : e.off ≤ offset ∧ routed(e, t, f)}`, each once; (`pendCover`) what lies between
the row store's offset and the dedup offset is in the table's pipeline; (`linkCover` + `gap`)
what the leader has considered for (t, f) and the table has not yet seen is on the link or
being handed over — nothing needed is skipped; (`Exact.nodup`) nothing is applied twice.

Theorems.
* `repl_inv_step`: every event, including every fault, preserves the invariant — for
  `Good cx`: (`makeFollows` after C12-fix-01, or followers with at most one table) and
  `openRowStore` recovering the per-source MAXIMUM of offset file and filestore header.
  `repl_inv_step_fixed` / `repl_inv_step_partial` are the two instances; `repl_inv_run` lifts
  it to traces from the initial state.
* `repl_quiescent_exact`: all nodes up, links up and drained, pipelines empty, leaders at the
  end of their WAL ⇒ every table of every follower reflects exactly the accepted entries
  routed to its partition (and passing the table's WHERE), each once:
  a permutation of `routedOffs`.
* `redundant_followers_equal`: followers of the same partition then reflect the same entries.
* `repl_never_twice`, `repl_nothing_needed_skipped`: the two halves of "exactly once" in every
  reachable state, not only at quiescence.
* `recovered_offset_covers_data`, `recovery_by_max_never_reapplies`: a table persists its offsets
  in two records (filestore header, `offset` file; either may be the staler one); the per-source
  maximum that `openRowStore` recovers is at or above every entry reflected in the recovered data,
  so a restarted table (clean stop or crash image, whatever was flushed when) neither asks for nor
  takes a persisted entry again.  `offset_file_wins_reapplies`: with "an existing offset file
  wins" the witness trace is accepted and table 1 reflects entry 2 twice;
  `max_recovery_keeps_once`: on HEAD the same schedule keeps it once, and a follower that asks
  for less than it recovered is rejected.
* `as_found_loses_entry`: for the code AS FOUND the full-strength statement is false: a
  follower with two tables, one flushed, restarted from a crash image taken before the other's
  first flush, announces the flushed table's offset as EarliestOffset; the leader starts the
  unflushed table there and the entries it had only in memory are never sent again.  The
  witness trace is accepted by the model, ends quiescent, and table 1 reflects nothing while
  one entry is routed to it.  (Replayed on the real cluster: corpus/C12/01-*.json.)
  `fixed_recovers_entry`: the same schedule under the fixed `makeFollows` re-sends the entry.
-/
import ZenoModel.Lemmas.ReplSteps4

set_option linter.unusedVariables false

namespace Zeno.Repl

/-- all nodes up, links up and drained, nothing being handed over, pipelines empty, WAL readers
    at the end -/
structure Quiescent (cx : Ctx) (s : State) (ls : List LId) (fs : List FId) : Prop where
  lup : ∀ l ∈ ls, s.lup l = true
  fup : ∀ f ∈ fs, s.fup f = true
  linkUp : ∀ l ∈ ls, ∀ f ∈ fs, s.linkUp l f = true
  drained : ∀ l ∈ ls, ∀ f ∈ fs, s.queue l f = []
  idle : ∀ l ∈ ls, ∀ f ∈ fs, s.inflight f l = none
  applied : ∀ l ∈ ls, ∀ f ∈ fs, ∀ t ∈ cx.tables, s.pending f t l = []
  caughtUp : ∀ l ∈ ls, s.cursor l = top (s.wal l)

/-- decidable version for the examples -/
def quiescentB (cx : Ctx) (s : State) (ls : List LId) (fs : List FId) : Bool :=
  ls.all (fun l => s.lup l && s.cursor l == top (s.wal l) &&
    fs.all (fun f => s.fup f && s.linkUp l f && (s.queue l f).isEmpty && (s.inflight f l).isNone &&
      cx.tables.all (fun t => (s.pending f t l).isEmpty)))

end Zeno.Repl

namespace Zeno.C12
open Zeno.Repl

/-- every event — including every fault — preserves the invariant -/
theorem repl_inv_step {cx : Ctx} (hg : Good cx) {s s' : State} (hi : Inv cx s) (ev : Event)
    (h : step cx s ev = some s') : Inv cx s' := by
  cases ev with
  | insert l e => exact inv_insert hi l e h
  | connect l f => exact inv_connect hi l f h
  | join l f claim => exact inv_join hi l f claim h
  | route l o => exact inv_route hi l o h
  | msg f l o => exact inv_msg hi f l o h
  | recv f t l o fwd => exact inv_recv hi f t l o fwd h
  | msgdone f l o => exact inv_msgdone hi f l o h
  | apply f t l o k => exact inv_apply hi f t l o k h
  | persist f t data =>
    cases data with
    | true => exact inv_persist_data hi f t h
    | false => exact inv_persist_offsets hi f t h
  | snapshot f => exact inv_snapshot hi f h
  | stopFollower f => exact inv_stopFollower hi f h
  | restoreSnapshot f => exact inv_restoreSnapshot hi f h
  | startFollower f => exact inv_startFollower hg hi f h
  | cutLink l f => exact inv_cutLink hi l f h
  | stopLeader l => exact inv_stopLeader hi l h
  | startLeader l => exact inv_startLeader hi l h

/-- the code after C12-fix-01, any number of tables -/
theorem repl_inv_step_fixed {cx : Ctx} (hf : cx.fixedEarliest = true) (hr : cx.recoverMax = true)
    {s s' : State} (hi : Inv cx s) (ev : Event) (h : step cx s ev = some s') : Inv cx s' :=
  repl_inv_step ⟨Or.inl hf, hr⟩ hi ev h

/-- the code as found, followers with at most one table -/
theorem repl_inv_step_partial {cx : Ctx} (h1 : cx.tables.length ≤ 1) (hr : cx.recoverMax = true)
    {s s' : State} (hi : Inv cx s) (ev : Event) (h : step cx s ev = some s') : Inv cx s' :=
  repl_inv_step ⟨Or.inr h1, hr⟩ hi ev h

/-- every state reached by an accepted trace satisfies the invariant -/
theorem repl_inv_run {cx : Ctx} (hg : Good cx) (evs : List Event) {s s' : State} (hi : Inv cx s)
    (h : run cx s evs = some s') : Inv cx s' := by
  induction evs generalizing s with
  | nil => simp only [run, Option.some.injEq] at h; subst h; exact hi
  | cons ev evs ih =>
    simp only [run] at h
    split at h
    · rename_i s1 hs1
      exact ih (repl_inv_step hg hi ev hs1) h
    · cases h

theorem repl_inv_reachable {cx : Ctx} (hg : Good cx) (evs : List Event) {s : State}
    (h : run cx State.init evs = some s) : Inv cx s :=
  repl_inv_run hg evs (inv_init cx) h

/-- nothing with an offset at or below the table's offset is applied again: the applications a
    table reflects never contain an entry twice (in every reachable state) -/
theorem repl_never_twice {cx : Ctx} {s : State} (hi : Inv cx s) (f : FId) (t : TId) (l : LId) :
    (s.memApps f t l).Nodup ∧ (s.diskApps f t l).Nodup ∧
      ∀ o ∈ s.memApps f t l, o ≤ s.memOff f t l :=
  ⟨(hi.exMem f t l).nodup, (hi.exDisk f t l).nodup, fun o ho => by
    obtain ⟨_, _, _, h, _⟩ := ((hi.exMem f t l).mem o).mp ho
    exact h⟩

/-- the leader never advances past an entry the follower still needs: whatever it has considered
    for (t, f) and the table has not seen yet is on the link or being handed over -/
theorem repl_nothing_needed_skipped {cx : Ctx} {s : State} (hi : Inv cx s) (l : LId) (f : FId) (t : TId)
    (sp : Nat) (hlk : s.linkUp l f = true) (hs : s.spec l t f = some sp) (e : Entry) (he : e ∈ s.wal l)
    (hw : wants cx t (cx.part f) e.pt = true) (hp : s.prior f t l < e.off) (hd : e.off ≤ s.done l t f) :
    e.off ∈ s.queue l f ∨ ∃ rem, s.inflight f l = some (e.off, rem) ∧ t ∈ rem := by
  by_cases hle : e.off ≤ sp
  · exact hi.linkCover l f t sp hlk hs e he hw hp hle
  · exact absurd (wants_pid hw) (hi.gap l t f sp hs e he (by omega) hd)

/-- at quiescence a table reflects exactly the entries routed to it -/
theorem quiescent_mem {cx : Ctx} {s : State} (hi : Inv cx s) {ls : List LId} {fs : List FId}
    (hq : Quiescent cx s ls fs) {l : LId} (hl : l ∈ ls) {f : FId} (hf : f ∈ fs) {t : TId}
    (ht : t ∈ cx.tables) (o : Nat) :
    o ∈ s.memApps f t l ↔ ∃ e ∈ s.wal l, e.off = o ∧ wants cx t (cx.part f) e.pt = true := by
  rw [(hi.exMem f t l).mem o]
  constructor
  · rintro ⟨e, he, h1, _, h3⟩
    exact ⟨e, he, h1, h3⟩
  · rintro ⟨e, he, h1, h3⟩
    refine ⟨e, he, h1, ?_, h3⟩
    subst h1
    have hfup := hq.fup f hf
    have hlk := hq.linkUp l hl f hf
    obtain ⟨sp, hsp⟩ := hi.specLink l f t hlk ht
    -- the leader is at the end of its WAL: it has considered e
    have hdone : e.off ≤ s.done l t f := by
      have h1 := hi.cursorLeDone l t f sp hsp
      have h2 := hq.caughtUp l hl
      have h3 := le_top he
      omega
    -- so e is at or below the table's dedup offset …
    have hprior : e.off ≤ s.prior f t l := by
      apply Nat.le_of_not_lt
      intro hp
      rcases repl_nothing_needed_skipped hi l f t sp hlk hsp e he h3 hp hdone with hq' | ⟨rem, hr, _⟩
      · rw [hq.drained l hl f hf] at hq'
        cases hq'
      · rw [hq.idle l hl f hf] at hr
        cases hr
    -- … and has left the pipeline
    apply Nat.le_of_not_lt
    intro hm
    have := hi.pendCover f t l hfup e he h3 hm hprior
    rw [hq.applied l hl f hf t ht] at this
    cases this

theorem routedOffs_mem (cx : Ctx) (W : List Entry) (t : TId) (f : FId) (o : Nat) :
    o ∈ routedOffs cx W t f ↔ ∃ e ∈ W, e.off = o ∧ wants cx t (cx.part f) e.pt = true := by
  simp only [routedOffs, offsOf, List.mem_map, List.mem_filter]
  constructor
  · rintro ⟨e, ⟨he, hw⟩, rfl⟩
    exact ⟨e, he, rfl, hw⟩
  · rintro ⟨e, he, rfl, hw⟩
    exact ⟨e, ⟨he, hw⟩, rfl⟩

theorem routedOffs_nodup (cx : Ctx) {W : List Entry} (hs : W.Pairwise (fun a b => a.off < b.off))
    (t : TId) (f : FId) : (routedOffs cx W t f).Nodup := by
  unfold routedOffs offsOf
  have h1 : (W.filter (fun e => wants cx t (cx.part f) e.pt)).Pairwise (fun a b => a.off < b.off) :=
    hs.filter _
  have h2 : ((W.filter (fun e => wants cx t (cx.part f) e.pt)).map (·.off)).Pairwise (· < ·) := by
    rw [List.pairwise_map]
    exact h1
  exact h2.imp (fun h => Nat.ne_of_lt h)

/-- **exactly-once at quiescence**: when all nodes are up, links restored and queues drained,
    every table on every follower of partition p reflects exactly the accepted entries routed to
    p (and passing the table's WHERE), each once -/
theorem repl_quiescent_exact {cx : Ctx} {s : State} (hi : Inv cx s) {ls : List LId} {fs : List FId}
    (hq : Quiescent cx s ls fs) {l : LId} (hl : l ∈ ls) {f : FId} (hf : f ∈ fs) {t : TId}
    (ht : t ∈ cx.tables) :
    (s.memApps f t l).Perm (routedOffs cx (s.wal l) t f) := by
  rw [List.perm_ext_iff_of_nodup (hi.exMem f t l).nodup (routedOffs_nodup cx (hi.walSorted l) t f)]
  intro o
  rw [quiescent_mem hi hq hl hf ht o, routedOffs_mem]

/-- the same for every trace from the initial state -/
theorem repl_quiescent_exact_run {cx : Ctx} (hg : Good cx) (evs : List Event) {s : State}
    (h : run cx State.init evs = some s) {ls : List LId} {fs : List FId} (hq : Quiescent cx s ls fs)
    {l : LId} (hl : l ∈ ls) {f : FId} (hf : f ∈ fs) {t : TId} (ht : t ∈ cx.tables) :
    (s.memApps f t l).Perm (routedOffs cx (s.wal l) t f) :=
  repl_quiescent_exact (repl_inv_reachable hg evs h) hq hl hf ht

/-- redundant followers of one partition converge to identical contents -/
theorem redundant_followers_equal {cx : Ctx} {s : State} (hi : Inv cx s) {ls : List LId} {fs : List FId}
    (hq : Quiescent cx s ls fs) {l : LId} (hl : l ∈ ls) {f1 f2 : FId} (h1 : f1 ∈ fs) (h2 : f2 ∈ fs)
    (hp : cx.part f1 = cx.part f2) {t : TId} (ht : t ∈ cx.tables) :
    (s.memApps f1 t l).Perm (s.memApps f2 t l) := by
  have a := repl_quiescent_exact hi hq hl h1 ht
  have b := repl_quiescent_exact hi hq hl h2 ht
  have : routedOffs cx (s.wal l) t f1 = routedOffs cx (s.wal l) t f2 := by
    simp only [routedOffs, hp]
  rw [this] at a
  exact a.trans b.symm

/-! ## the code as found: the full-strength statement is false -/

/-- two tables, one partition, every entry wanted by both tables -/
def cxFound : Ctx :=
  { tables := [0, 1], part := fun _ => 0, pid := fun _ _ => 0, whereOk := fun _ _ => true, fixedEarliest := false }

def cxFixed : Ctx := { cxFound with fixedEarliest := true }

/-- one entry replicated to both tables; table 0 flushed; crash image; restart from it -/
def crashTrace : List Event :=
  [.startFollower 10, .connect 1 10, .join 1 10 (fun _ => 0),
   .insert 1 ⟨1, 0⟩, .route 1 1,
   .msg 10 1 1, .recv 10 0 1 1 true, .recv 10 1 1 1 true, .msgdone 10 1 1,
   .msg 10 1 1, .recv 10 0 1 1 false, .recv 10 1 1 1 false, .msgdone 10 1 1,
   .apply 10 0 1 1 true, .apply 10 1 1 1 true,
   .persist 10 0 true, .snapshot 10,
   .cutLink 1 10, .stopFollower 10, .restoreSnapshot 10, .startFollower 10,
   .connect 1 10, .join 1 10 (fun t => if t = 0 then 1 else 0)]

/-- what table `t` of follower 10 reflects of leader 1 after a trace, and whether the end state
    is quiescent -/
def outcome (cx : Ctx) (evs : List Event) (t : TId) : Option (List Nat × Bool) :=
  (run cx State.init evs).map (fun s => (s.memApps 10 t 1, quiescentB cx s [1] [10]))

/-- AS FOUND: the trace is accepted, the cluster is quiescent, the entry routed to table 1 is
    gone for good (table 0 still has it) -/
theorem as_found_loses_entry :
    outcome cxFound crashTrace 1 = some ([], true) ∧ outcome cxFound crashTrace 0 = some ([1], true) ∧
    (∀ s, run cxFound State.init crashTrace = some s → routedOffs cxFound (s.wal 1) 1 10 = [1]) := by
  refine ⟨by decide, by decide, ?_⟩
  intro s hs
  have : (run cxFound State.init crashTrace).map (fun s => routedOffs cxFound (s.wal 1) 1 10) = some [1] := by
    decide
  rw [hs] at this
  simpa using this

/-- after the fix the leader rewinds to the beginning for the unflushed table and the entry is
    delivered again -/
theorem fixed_recovers_entry :
    outcome cxFixed (crashTrace ++
      [.route 1 1, .msg 10 1 1, .recv 10 0 1 1 false, .recv 10 1 1 1 true, .msgdone 10 1 1,
       .apply 10 1 1 1 true]) 1 = some ([1], true) := by decide

/-! ## persisted offsets across restarts

A table persists its offsets in two records: the header of the newest filestore (written with
the data) and the `offset` file (rewritten only when a flush finds the memstore empty, i.e.
after skipped entries).  Either may be the staler one. -/

/-- the recovered offset (per-source maximum of both records) is at or above every offset whose
    entry is reflected in the recovered data, and the recovered data is exactly what the table
    wants at or below it, each once -/
theorem recovered_offset_covers_data {cx : Ctx} {s : State} (hi : Inv cx s) (f : FId) (t : TId) (l : LId) :
    (∀ o ∈ s.diskApps f t l, o ≤ max (s.offFile f t l) (s.diskOff f t l)) ∧
    (s.diskApps f t l).Nodup ∧
    (∀ e ∈ s.wal l, wants cx t (cx.part f) e.pt = true →
      e.off ≤ max (s.offFile f t l) (s.diskOff f t l) → e.off ∈ s.diskApps f t l) := by
  have hx := hi.recExact f t l
  refine ⟨fun o ho => ?_, hx.nodup, fun e he hw hle => ?_⟩
  · obtain ⟨_, _, _, h, _⟩ := (hx.mem o).mp ho
    exact h
  · exact (hx.mem e.off).mpr ⟨e, he, rfl, hle, hw⟩

/-- recovery by per-source maximum never re-applies a persisted entry: after a (re)start from
    the directory — whatever was flushed when, crash image or clean stop — every entry the
    recovered data reflects is at or below the dedup offset the table starts with (so
    `doFollowLeaders` drops it should it be sent again), and the leader is asked for nothing at or
    below it -/
theorem recovery_by_max_never_reapplies {cx : Ctx} (hg : Good cx) {s s' : State} (hi : Inv cx s)
    (f : FId) (h : step cx s (.startFollower f) = some s') (t : TId) (l : LId) :
    s'.memApps f t l = s.diskApps f t l ∧
    (∀ o ∈ s'.memApps f t l, o ≤ s'.prior f t l) ∧
    s'.startOff f t l = s'.prior f t l ∧
    (s'.memApps f t l).Nodup := by
  have hi' := inv_startFollower hg hi f h
  simp only [step] at h
  split at h
  · simp only [Option.some.injEq] at h
    subst h
    have hrec : recOff cx s f t l = max (s.offFile f t l) (s.diskOff f t l) := by
      simp [recOff, hg.2]
    refine ⟨by simp, ?_, by simp, by simpa using (hi.exDisk f t l).nodup⟩
    intro o ho
    simp only [if_true] at ho ⊢
    rw [hrec]
    exact (recovered_offset_covers_data hi f t l).1 o ho
  · cases h

/-- table 0 keeps every entry, table 1 skips point 0 (a WHERE on a dim) -/
def cxSkip : Ctx :=
  { tables := [0, 1], part := fun _ => 0, pid := fun _ _ => 0,
    whereOk := fun t pt => !(t == 1 && pt == 0), fixedEarliest := true }

/-- the same with "an existing offset file wins, the filestore header is only a fallback" -/
def cxWins : Ctx := { cxSkip with recoverMax := false }

/-- entry 1 is skipped by table 1 while its memstore is empty and an idle flush writes the
    offset file; entry 2 is stored and flushed to a filestore; the follower is stopped cleanly -/
def staleOffsetFile : List Event :=
  [.startFollower 10, .connect 1 10, .join 1 10 (fun _ => 0),
   .insert 1 ⟨1, 0⟩, .route 1 1,
   .msg 10 1 1, .recv 10 0 1 1 true, .recv 10 1 1 1 true, .msgdone 10 1 1,
   .apply 10 0 1 1 true, .apply 10 1 1 1 false,
   .persist 10 1 false,
   .insert 1 ⟨2, 1⟩, .route 1 2,
   .msg 10 1 2, .recv 10 0 1 2 true, .recv 10 1 1 2 true, .msgdone 10 1 2,
   .msg 10 1 2, .recv 10 0 1 2 false, .recv 10 1 1 2 false, .msgdone 10 1 2,
   .apply 10 0 1 2 true, .apply 10 1 1 2 true,
   .persist 10 0 true, .persist 10 1 true,
   .cutLink 1 10, .stopFollower 10, .startFollower 10, .connect 1 10]

/-- "OFFSET FILE WINS": the restarted table 1 resumes from the stale offset 1, asks the leader
    for entry 2 again — which its filestore already holds — and applies it a second time -/
theorem offset_file_wins_reapplies :
    outcome cxWins (staleOffsetFile ++
      [.join 1 10 (fun t => if t = 0 then 2 else 1), .route 1 2,
       .msg 10 1 2, .recv 10 0 1 2 false, .recv 10 1 1 2 true, .msgdone 10 1 2,
       .apply 10 1 1 2 true]) 1 = some ([2, 2], true) := by decide

/-- per-source maximum (HEAD): the table resumes from 2, nothing is sent again, and the model
    refuses a follower that asks for less than it recovered or takes entry 2 once more -/
theorem max_recovery_keeps_once :
    outcome cxSkip (staleOffsetFile ++ [.join 1 10 (fun _ => 2)]) 1 = some ([2], true) ∧
    (run cxSkip State.init (staleOffsetFile ++ [.join 1 10 (fun t => if t = 0 then 2 else 1)])).isNone = true ∧
    (run cxSkip State.init (staleOffsetFile ++ [.join 1 10 (fun _ => 2), .route 1 2])).isNone = true := by
  refine ⟨by decide, by decide, by decide⟩

/-! ## non-vacuity -/

/-- the hypothesis of the general theorems is satisfiable -/
example : Good cxFixed := ⟨Or.inl rfl, rfl⟩
example : ¬ Good cxFound := by
  intro h
  rcases h.1 with h | h
  · cases h
  · simp [cxFound] at h

/-- a cut link loses what is in flight; the reconnect resumes from the follower's offsets -/
example :
    outcome cxFixed
      [.startFollower 10, .connect 1 10, .join 1 10 (fun _ => 0), .insert 1 ⟨1, 0⟩, .insert 1 ⟨2, 1⟩,
       .route 1 1, .route 1 2, .msg 10 1 1, .recv 10 0 1 1 true, .recv 10 1 1 1 true, .msgdone 10 1 1,
       .cutLink 1 10, .apply 10 0 1 1 true, .apply 10 1 1 1 true,
       .connect 1 10, .join 1 10 (fun _ => 1), .route 1 2,
       .msg 10 1 2, .recv 10 0 1 2 true, .recv 10 1 1 2 true, .msgdone 10 1 2,
       .msg 10 1 2, .recv 10 0 1 2 false, .recv 10 1 1 2 false, .msgdone 10 1 2,
       .apply 10 0 1 2 true, .apply 10 1 1 2 true] 0 = some ([1, 2], true) := by decide

/-- the model refuses what the code cannot do: delivering an entry that was never routed -/
example : (run cxFixed State.init [.startFollower 10, .connect 1 10, .join 1 10 (fun _ => 0),
    .insert 1 ⟨1, 0⟩, .msg 10 1 1]).isNone = true := by decide

/-- … or applying an entry with the wrong verdict -/
example : (run cxFixed State.init [.startFollower 10, .connect 1 10, .join 1 10 (fun _ => 0),
    .insert 1 ⟨1, 0⟩, .route 1 1, .msg 10 1 1, .recv 10 0 1 1 true, .apply 10 0 1 1 false]).isNone = true := by
  decide

end Zeno.C12
