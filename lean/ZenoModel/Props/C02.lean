/-
C02 — crash recovery applies every acknowledged insert exactly once.

Property theorems only (model: Model/Crash.lean, helper lemmas: Lemmas/Crash.lean).
The model is the flush/offset/recovery protocol of one table (`Zeno.Crash.step`); a table's
content is the list of applications `(entry, i)` it reflects.  All statements quantify over
every event list (insert histories, flush schedules, crash points, any number of
crash/restart rounds) with no bound.

The property at full strength — for every reachable state, kill + restart + catch-up yields
exactly one application set per WAL entry — is FALSE in the model of the code
(`recovered_exactly_once_false`, defect D12): a flush that starts between two
`rowStore.insert`s of one array-valued point persists the point's offset together with only
part of the point.  It is proved for every execution without such a flush
(`recovered_exactly_once_partial`), hence for all scalar-valued insert histories
(`recovered_exactly_once_scalar`).
-/
import ZenoModel.Lemmas.Crash
import ZenoModel.Generated.Facts

namespace Zeno.C02
open Zeno.Crash

/-- The empty directory satisfies the invariant. -/
theorem inv_init (src : Nat) : Inv (State.initCfg src src) := inv_initCfg src

/-- Every event of the protocol preserves the invariant `Inv`
    ((i) every file in the directory is complete and reflects exactly the applications of the WAL
    entries up to its offset, each once; (ii) file ++ memstore = the applications handed over so
    far, the memstore offset covering them; (iii) offset file ≤ memstore offset, and the entries
    between the newest file's offset and the offset file have no applications; (iv) newer files
    have later offsets) — as long as no flush starts in the middle of an entry (`stepA`). -/
theorem inv_step {s s' : State} {e : Event} (h : Inv s) (hs : stepA s e = some s') : Inv s' :=
  inv_stepA h hs

/-- Induction over unbounded executions, with any number of crashes and restarts. -/
theorem reachable_inv {s : State} (h : ReachableA s) : Inv s := reachableA_inv h

/-- The same, phrased over event lists. -/
theorem reachable_inv_run (src : Nat) (es : List Event) {s : State}
    (h : runA (State.initCfg src src) es = some s) : Inv s :=
  reachableA_inv (reachableA_runA (ReachableA.init src) es h)

/-- Only complete files ever appear in the table directory (rename happens after sync), so the
    "unreadable newest file → fall back to an older file" branch of `openRowStore` is never taken
    after a process kill. -/
theorem files_complete {s : State} (h : ReachableA s) : ∀ f ∈ s.files, f.complete = true :=
  fun f hf => ((reachableA_inv h).files_ok f hf).1

/-- C02 for every execution in which no flush starts between two `rowStore.insert`s of one
    entry: kill the process at ANY reachable state (inside an insert, a memstore update, any step
    of a flush, an offset-file write, an old-file removal, or while it is already down), restart,
    catch up — the table reflects exactly the applications of the WAL entries, none twice, every
    acknowledged one exactly once. -/
theorem recovered_exactly_once_partial {s : State} (h : ReachableA s) : RecoveredExactlyOnce s :=
  recovered_of_inv (reachableA_inv h)

/-- Scalar-valued insert histories never have a mid-entry flush: C02 holds for all of them,
    over the unrestricted step relation. -/
theorem recovered_exactly_once_scalar {s : State} (h : Reachable s) (hsc : Scalar s.wal) :
    RecoveredExactlyOnce s :=
  recovered_exactly_once_partial (reachable_scalar h hsc)

/-- `recover` is what the event sequence `crash; reopen; catchUp` does to a running process. -/
theorem recover_is_crash_reopen_catchUp {s : State} (hup : s.up = true) :
    run s [.crash, .reopen (readPos (crashF s)), .catchUp] = some (recover s) := by
  simp [run, step, hup, crashF, reopenF, recover]

/-- nothing is lost: every application of every acknowledged entry is in the recovered table -/
theorem acked_not_lost {s : State} (h : ReachableA s) :
    ∀ o ∈ s.acked, ∃ e ∈ s.wal, e.off = o ∧ ∀ a ∈ e.apps, a ∈ (recover s).content := by
  intro o ho
  obtain ⟨e, he, heo, hc⟩ := (recovered_exactly_once_partial h).2.2 o ho
  refine ⟨e, he, heo, ?_⟩
  intro a ha
  have := hc a ha
  exact List.count_pos_iff.mp (by omega)

/-- nothing is counted twice, and nothing is invented: whatever the recovered table reflects is
    an application of a WAL entry (acknowledged or in flight), reflected once -/
theorem no_double_count {s : State} (h : ReachableA s) (a : App) (ha : a ∈ (recover s).content) :
    (recover s).content.count a = 1 ∧ ∃ e ∈ s.wal, a ∈ e.apps := by
  obtain ⟨hc, h1, _⟩ := recovered_exactly_once_partial h
  have hpos : 0 < (recover s).content.count a := List.count_pos_iff.mpr ha
  refine ⟨by have := h1 a; omega, ?_⟩
  rw [hc] at ha
  exact mem_flat ha

/-- A clean `Close()` (final flush, then exit) followed by reopen is the special case with
    nothing in flight: the model can always perform it from an idle state, and the property holds
    for the closed directory. -/
theorem clean_close {s : State} (h : ReachableA s) (hup : s.up = true) (hph : s.phase = .idle)
    (hp : s.pend = 0) :
    ∃ s', runA s (closeEvents s) = some s' ∧ s'.up = false ∧ s'.wal = s.wal ∧ s'.acked = s.acked ∧
      RecoveredExactlyOnce s' := by
  obtain ⟨s', hr, h1, h2, h3⟩ := closeEvents_run hup hph hp
  exact ⟨s', hr, h1, h2, h3, recovered_exactly_once_partial (reachableA_runA h _ hr)⟩

/-! ### configuration independence: the source id under which offsets are stored and looked up -/

/-- Recovery does not depend on the database's configuration: the protocol model has exactly one
    configuration input, the pair (source the WAL reader tags entries with = key the offsets are
    stored under, key `CreateTable` looks the resume offset up under); whatever value that source
    has (0, `DBOpts.ID`, anything) C02 holds as long as both are the SAME — for every event list,
    any number of crashes. -/
theorem recovery_independent_of_db_id (src : Nat) (es : List Event) {s : State}
    (h : runA (State.initCfg src src) es = some s) : RecoveredExactlyOnce s :=
  recovered_exactly_once_partial (reachableA_runA (ReachableA.init src) es h)

/-- the configuration never changes, in particular not across crashes and restarts -/
theorem config_fixed {s s' : State} {e : Event} (hs : step s e = some s') :
    s'.tagSrc = s.tagSrc ∧ s'.lookSrc = s.lookSrc := by
  cases e <;> simp only [step] at hs
  case catchUp =>
    split at hs
    · cases hs; exact drain_cfg _ _
    · cases hs
  case reopen p =>
    split at hs
    · cases hs; exact ⟨by simp [reopenF], by simp [reopenF]⟩
    · cases hs
  all_goals
    repeat' split at hs
    all_goals first | (cases hs; exact ⟨rfl, rfl⟩) | cases hs

/-- one scalar point, acknowledged, flushed; clean exit; restart; catch-up -/
def restartTrace : List Event :=
  [.reopen 0, .walAppend ⟨1, false, 1⟩, .walAck 1, .apply 1,
   .flushBegin, .tmpWritten, .tmpSynced, .renamed, .swapped, .crash, .reopen 0, .catchUp]

/-- `lookup source = store source` is exactly what exactly-once needs: for EVERY pair of
    different sources (e.g. entries tagged 0, offset looked up under a non-zero `DBOpts.ID`) the
    plain flush / exit / restart execution is accepted by the protocol — the reader restarts at
    the beginning of the WAL — and the acknowledged, already flushed insert is counted twice. -/
theorem source_mismatch_double_counts (tag look : Nat) (hne : look ≠ tag) :
    ∃ s, run (State.initCfg tag look) restartTrace = some s ∧
      s.content = [(1, 0), (1, 0)] ∧ flat s.wal = [(1, 0)] ∧ s.content.count (1, 0) = 2 := by
  let f : File := { apps := [(1, 0)], pos := 1, complete := true }
  refine ⟨{ wal := [⟨1, false, 1⟩], acked := [1], files := [f], offFile := 0, tagSrc := tag, lookSrc := look,
            up := true, cur := f, mem := [(1, 0)], memPos := 1, offChanged := true, rd := 1, pend := 0,
            phase := .idle, flushCount := 0 }, ?_, rfl, rfl, rfl⟩
  simp [restartTrace, run, step, State.initCfg, readPos, startPos, pickFile, reopenF, crashF, hne,
    catchUpF, drain, ingestEntry, Entry.apps, File.empty, f]

/-- Tie of the model's single configuration input to the code, regenerated from /repo on every
    run (tools/extract/walsource.go): the expression that tags a standalone table's WAL entries
    with their source (insert.go `processWALInserts`) and the key `CreateTable` looks the resume
    offset up under (table.go) are the SAME expression, and in between the tag travels unchanged
    (`read.source` → `insert.source` → `ms.offsetsBySource[insert.source]`).  So whatever the
    configuration evaluates that expression to, the model is instantiated with `tagSrc = lookSrc`
    and `recovery_independent_of_db_id` applies. -/
theorem wal_source_same_expression :
    Facts.walSource.tags = Facts.walSource.lookups ∧ Facts.walSource.tags.length = 1 ∧
    Facts.walSource.stores = ["insert.source"] ∧
    Facts.walSource.carries = ["insert:read.source", "skip:read.source"] := by decide

/-- the concrete instance of the seeded regression: entries tagged 0, lookup under ID 7 -/
theorem source_mismatch_witness :
    ∃ s, run (State.initCfg 0 7) restartTrace = some s ∧ s.rd = 1 ∧ s.memPos = 1 ∧
      s.content = [(1, 0), (1, 0)] ∧ flat s.wal = [(1, 0)] := by
  refine ⟨_, rfl, ?_, ?_, ?_, ?_⟩ <;> decide

/-- with matching sources the same execution resumes after the flushed entry -/
theorem source_match_resumes :
    ∃ s, runA (State.initCfg 7 7) [.reopen 0, .walAppend ⟨1, false, 1⟩, .walAck 1, .apply 1,
        .flushBegin, .tmpWritten, .tmpSynced, .renamed, .swapped, .crash, .reopen 1, .catchUp] = some s ∧
      s.content = [(1, 0)] := by
  refine ⟨_, rfl, ?_⟩; decide

/-! ### D12: the property is false at full strength -/

/-- one array-valued point (two `rowStore.insert`s), acknowledged; a flush lands after the first
    insert and completes; the process is killed -/
def d12Trace : List Event :=
  [.reopen 0, .walAppend ⟨1, false, 2⟩, .walAck 1, .apply 1,
   .flushBegin, .tmpWritten, .tmpSynced, .renamed, .swapped, .crash]

/-- The witness: the trace is accepted by the model of the code, the acknowledged entry has two
    applications, and after restart + catch-up only the first one is in the table. -/
theorem d12_witness :
    ∃ s, run State.init d12Trace = some s ∧ s.acked = [1] ∧ flat s.wal = [(1, 0), (1, 1)] ∧
      (recover s).content = [(1, 0)] ∧ (recover s).rd = 1 := by
  refine ⟨_, rfl, ?_, ?_, ?_, ?_⟩ <;> decide

/-- C02 at full strength (array-valued points included) does not hold for the code's protocol. -/
theorem recovered_exactly_once_false : ¬ ∀ s, Reachable s → RecoveredExactlyOnce s := by
  intro hall
  obtain ⟨s, hrun, _, hflat, hcont, _⟩ := d12_witness
  have hr : Reachable s := reachable_run (Reachable.init 0) _ hrun
  have := (hall s hr).1
  rw [hflat, hcont] at this
  exact absurd this (by decide)

/-- the violating execution is exactly the excluded kind: `runA` rejects it at the flush -/
theorem d12_trace_not_aligned : runA State.init d12Trace = none := by decide

/-! ### non-vacuity -/

/-- an execution with array-valued points, skips, a no-value point, two data flushes, an
    offset-only flush, a crash in the middle of a flush and a restart is accepted and aligned -/
def demoTrace : List Event :=
  [.reopen 0,
   .walAppend ⟨1, false, 3⟩, .walAck 1, .apply 1, .apply 1, .apply 1,
   .walAppend ⟨2, true, 1⟩, .walAck 2, .skip 2,
   .flushBegin, .tmpWritten, .tmpSynced, .renamed, .swapped,
   .walAppend ⟨3, true, 1⟩, .walAck 3, .skip 3, .offTmpWritten, .offRenamed,
   .walAppend ⟨4, false, 0⟩, .pass,
   .walAppend ⟨5, false, 1⟩, .walAck 5, .apply 5,
   .flushBegin, .tmpWritten, .tmpSynced, .crash,
   .reopen 3, .pass, .apply 5, .walAppend ⟨6, false, 2⟩, .apply 6,
   .catchUp, .flushBegin, .tmpWritten, .tmpSynced, .renamed, .swapped]

example : ∃ s, runA State.init demoTrace = some s ∧ ReachableA s ∧ ¬ Scalar s.wal ∧
    s.files.length = 2 ∧ s.offFile = 3 ∧ s.content = flat s.wal ∧
    s.content = [(1, 0), (1, 1), (1, 2), (5, 0), (6, 0), (6, 1)] := by
  have hrun : runA State.init demoTrace = some ((runA State.init demoTrace).getD State.init) := by decide
  refine ⟨_, hrun, reachableA_runA (ReachableA.init 0) demoTrace hrun, ?_, ?_, ?_, ?_, ?_⟩
  · intro h; exact absurd (h ⟨1, false, 3⟩ (by decide)) (by decide)
  all_goals decide

/-- the hypotheses of `clean_close` are satisfiable, with data still in the memstore -/
example : ∃ s, ReachableA s ∧ s.up = true ∧ s.phase = .idle ∧ s.pend = 0 ∧ s.mem ≠ [] :=
by
  have hrun : runA State.init [.reopen 0, .walAppend ⟨1, false, 1⟩, .walAck 1, .apply 1] =
      some ((runA State.init [.reopen 0, .walAppend ⟨1, false, 1⟩, .walAck 1, .apply 1]).getD State.init) := by decide
  exact ⟨_, reachableA_runA (ReachableA.init 0) _ hrun, by decide, by decide, by decide, by decide⟩

/-- Why `files_complete` matters: with an unreadable newest file (not producible by a process
    kill — disk corruption) the fallback of `openRowStore` combines an older file with a newer
    offset file and silently loses the entries in between. -/
example :
    let s : State := { wal := [⟨1, false, 1⟩, ⟨2, false, 1⟩, ⟨3, true, 1⟩],
                       files := [⟨[(1, 0), (2, 0)], 2, false⟩, ⟨[(1, 0)], 1, true⟩], offFile := 3 }
    (recover s).content = [(1, 0)] ∧ flat s.wal = [(1, 0), (2, 0)] := by decide

end Zeno.C02
