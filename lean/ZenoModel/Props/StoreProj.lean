/-
StoreProj — the table-level model of the row store (`Model/Store.lean`), restricted to one
(group key, field index), IS the one-column model (`Model/Column.lean`) run on the projected
script (`colOpsOf`, `Model/StoreColumn.lean`) — for every script, not only the generated ones on
which the driver evaluates `projectionMismatches`.  Composed with the column theorems this
lifts C01 / C03 / C14 to the table level: rows, keys, field fan-out, file and memstore lists
included.

Hypotheses (all decidable):
* `CfgWF cfg`: no two fields print alike (then `outIdxsFor fields (fields.map some)` is the
  identity), `0 < res`, `0 ≤ retention` (a point with several rows is ONE acceptance decision
  in the store but one `ColOp.ingest` per row in the column script, each re-checked against
  the clock the previous row advanced; with a negative retention the second row would be
  rejected by the column model — a real mismatch of `projectionMismatches`);
* `StorePos ops`: every point is stamped after Go's zero time (as `OpsPos` at column level).
  A point whose rounded timestamp is ≤ 0 is accepted but stores nothing (`Sq.updateValue`),
  which leaves a memstore ROW with an EMPTY column; the store's raw pass-through test looks at
  the row, the column model's at the column.
-/
import ZenoModel.Lemmas.StoreProjSpec

namespace Zeno.StoreProj
open Zeno

variable (x : Ext)

/-- MAIN: after ANY script, the scan of the store model at (key, field `i`) — column `i` of the
    scan's row with that key, `none` when there is no such row — is the view of the one-column
    model run on the projected script; with or without the memstore. -/
theorem store_projects_to_column (cfg : TableCfg) (wf : CfgWF cfg) (ops : List StoreOp)
    (hpos : StorePos ops) (key : Key) (i : Nat) (hi : i < cfg.fields.length) (includeMem : Bool) :
    (match ((runStore x cfg ops).iterate cfg cfg.fields includeMem).rows.find? (fun r => r.key == key) with
      | some r => r.cols.getD i none
      | none => none) =
    (Col.run x { e := (cfg.fields[i]).ex, res := cfg.res, retention := cfg.retention }
        (colOpsOf x cfg key (Store.init cfg) ops)).view
      { e := (cfg.fields[i]).ex, res := cfg.res, retention := cfg.retention } includeMem := by
  obtain ⟨sinv, pinv⟩ := run_proj x cfg wf key i hi ops hpos
  rw [← ccfgOf_eq cfg i hi]
  exact view_proj cfg wf.distinct _ includeMem key i hi _ sinv pinv

/-- the same with the reading of the scan named (`scanCol`) -/
theorem scanCol_projects (cfg : TableCfg) (wf : CfgWF cfg) (ops : List StoreOp)
    (hpos : StorePos ops) (key : Key) (i : Nat) (hi : i < cfg.fields.length) (includeMem : Bool) :
    scanCol cfg (runStore x cfg ops) includeMem key i =
      (Col.run x { e := (cfg.fields[i]).ex, res := cfg.res, retention := cfg.retention }
          (colOpsOf x cfg key (Store.init cfg) ops)).view
        { e := (cfg.fields[i]).ex, res := cfg.res, retention := cfg.retention } includeMem :=
  store_projects_to_column x cfg wf ops hpos key i hi includeMem

/-- `scanCol` is that reading of a scan -/
theorem scanCol_eq (cfg : TableCfg) (st : Store) (includeMem : Bool) (key : Key) (i : Nat) :
    scanCol cfg st includeMem key i =
      match (st.iterate cfg cfg.fields includeMem).rows.find? (fun r => r.key == key) with
      | some r => r.cols.getD i none
      | none => none := rfl

/-- the executable check the driver runs on generated cases can never fail -/
theorem projectionMismatches_nil (cfg : TableCfg) (wf : CfgWF cfg) (ops : List StoreOp)
    (hpos : StorePos ops) (includeMem : Bool) : projectionMismatches x cfg ops includeMem = [] := by
  unfold projectionMismatches
  simp only [List.flatMap_eq_nil_iff, List.filterMap_eq_nil_iff]
  intro key _ fi hfi
  obtain ⟨f, i⟩ := fi
  have hget : cfg.fields[i]? = some f := List.mem_zipIdx_iff_getElem?.mp hfi
  obtain ⟨hi, hf⟩ := List.getElem?_eq_some_iff.mp hget
  have := scanCol_projects x cfg wf ops hpos key i hi includeMem
  simp only [hf] at this
  show (if (_ == scanCol cfg (runStore x cfg ops) includeMem key i) = true then none else some (key, i)) = none
  rw [this]
  simp only [beq_self_eq_true, if_true]

/-- every store reachable by a script satisfies the structural invariant: row keys unique in
    memstore and file, every row as wide as the table, memstore rows without empty columns,
    field lists as configured -/
theorem reachable_store_wf (cfg : TableCfg) (wf : CfgWF cfg) (ops : List StoreOp) (hpos : StorePos ops) :
    StoreInv cfg (runStore x cfg ops) := by
  rw [runStore_eq]
  by_cases hn : 0 < cfg.fields.length
  · exact (script_proj x cfg wf [] 0 hn ops _ {} (storeInv_init cfg) (projInv_init cfg [] 0) hpos).1
  · -- no fields at all: the per-op lemmas do not need a column
    have : ∀ (ops : List StoreOp) (st : Store), StoreInv cfg st → StorePos ops →
        StoreInv cfg (ops.foldl (storeStep x cfg) st) := by
      intro ops
      induction ops with
      | nil => intro st h _; exact h
      | cons op r ih =>
        intro st h hp
        cases op with
        | flush s => exact ih _ (flush_storeInv cfg wf.distinct st s h) hp
        | ingest p =>
          refine ih _ ?_ hp.2
          obtain ⟨hmf, hff, hmo, hfo, hms⟩ := h
          show StoreInv cfg (st.ingest x cfg p).1
          unfold Store.ingest
          split
          · exact ⟨hmf, hff, hmo, hfo, hms⟩
          · split
            · exact ⟨hmf, hff, hmo, hfo, hms⟩
            · simp only
              split
              · exact ⟨hmf, hff, hmo, hfo, hms⟩
              · obtain ⟨s1, s2⟩ := rowsFold_struct x cfg wf.res_pos cfg.fields (reslice cfg p.dims) p hp.1
                  (pointRows p) st.mem hmo hms
                exact ⟨hmf, hff, by rw [hmf]; exact s1, hfo, by rw [hmf]; exact s2⟩
    exact this ops _ (storeInv_init cfg) hpos

/-- the store's clock is the column's clock, and both are the maximum timestamp of the points
    that passed the age check and WHERE -/
theorem clock_agrees (cfg : TableCfg) (wf : CfgWF cfg) (ops : List StoreOp) (hpos : StorePos ops)
    (key : Key) (i : Nat) (hi : i < cfg.fields.length) :
    (Col.run x (ccfgOf cfg i) (colOpsOf x cfg key (Store.init cfg) ops)).now = (runStore x cfg ops).now ∧
    (runStore x cfg ops).now = nowAfter cfg 0 ops :=
  ⟨(run_proj x cfg wf key i hi ops hpos).2.now, runStore_now x cfg ops⟩

/-! ### C01 at table level -/

/-- After any store script (points of any keys, array values, rejected points, flushes of either
    kind), a memstore-inclusive scan returns at (key, field `i`), for every period `T` that has
    not expired, exactly the accumulation — from the empty state, each row once, in arrival
    order — of the rows of the stored points of that key whose timestamp rounds up to `T`
    (`tableRowsFor`: defined on the raw points alone). -/
theorem table_ingest_refines_spec (cfg : TableCfg) (wf : CfgWF cfg) (ops : List StoreOp)
    (hpos : StorePos ops) (key : Key) (i : Nat) (hi : i < cfg.fields.length)
    (hv : (cfg.fields[i]).ex.valid = true) (hp : (cfg.fields[i]).ex.noPtile = true) (T : Int)
    (hgrid : T % cfg.res = 0) (hlive : T > (runStore x cfg ops).now - cfg.retention) (hT0 : 0 < T) :
    (scanCol cfg (runStore x cfg ops) true key i).at (cfg.fields[i]).ex cfg.res T =
      (cfg.fields[i]).ex.acc x (tableRowsFor cfg key T 0 ops) := by
  obtain ⟨sinv, pinv⟩ := run_proj x cfg wf key i hi ops hpos
  rw [view_proj cfg wf.distinct _ true key i hi _ sinv pinv]
  have he : (ccfgOf cfg i).e = (cfg.fields[i]).ex := by rw [ccfgOf_eq cfg i hi]
  have hopos := opsPos_colOpsOf x cfg key ops (Store.init cfg) hpos
  have hv' : (ccfgOf cfg i).e.valid = true := by rw [he]; exact hv
  have hp' : (ccfgOf cfg i).e.noPtile = true := by rw [he]; exact hp
  have := view_eq_spec x (ccfgOf cfg i) hv' hp' wf.res_pos
    (colInv_run x (ccfgOf cfg i) hv' hp' wf.res_pos _ hopos) T
    ⟨hgrid, by rw [pinv.now]; exact hlive⟩ hT0
  rw [spec_cells_eq_acc, rowsFor_colOpsOf x cfg wf.ret_nonneg key i T ops, he] at this
  exact this

/-- A point is counted for its own key, in the period its timestamp rounds up to, once per row,
    and nowhere else. -/
theorem table_counted_once (cfg : TableCfg) (key : Key) (T now : Int) (p : RawPoint) :
    tableRowsFor cfg key T now [.ingest p] =
      if ptStored cfg now p = true ∧ reslice cfg p.dims = key ∧ roundUp p.ts cfg.res = T
      then (pointRows p).map (mkPt p) else [] := by
  simp only [tableRowsFor, List.append_nil]
  by_cases h1 : ptStored cfg now p = true <;> by_cases h2 : reslice cfg p.dims = key <;>
    by_cases h3 : roundUp p.ts cfg.res = T <;> simp [h1, h2, h3]

/-! ### C03 at table level -/

/-- Two store scripts that differ only in their flush operations (how many, where, sorted or
    not — hence also which of them are raw pass-through and which truncate) give the same
    memstore-inclusive scan at every (key, field) on every period that has not expired. -/
theorem table_view_schedule_independent (cfg : TableCfg) (wf : CfgWF cfg) (ops₁ ops₂ : List StoreOp)
    (h₁ : StorePos ops₁) (h₂ : StorePos ops₂) (hsame : eraseFlush ops₁ = eraseFlush ops₂)
    (key : Key) (i : Nat) (hi : i < cfg.fields.length)
    (hv : (cfg.fields[i]).ex.valid = true) (hp : (cfg.fields[i]).ex.noPtile = true) (T : Int)
    (hgrid : T % cfg.res = 0) (hlive : T > (runStore x cfg ops₁).now - cfg.retention) (hT0 : 0 < T) :
    (scanCol cfg (runStore x cfg ops₁) true key i).at (cfg.fields[i]).ex cfg.res T =
      (scanCol cfg (runStore x cfg ops₂) true key i).at (cfg.fields[i]).ex cfg.res T := by
  have hnow : (runStore x cfg ops₂).now = (runStore x cfg ops₁).now := by
    rw [runStore_now, runStore_now, ← nowAfter_eraseFlush cfg ops₁, ← nowAfter_eraseFlush cfg ops₂, hsame]
  rw [table_ingest_refines_spec x cfg wf ops₁ h₁ key i hi hv hp T hgrid hlive hT0,
    table_ingest_refines_spec x cfg wf ops₂ h₂ key i hi hv hp T hgrid (by rw [hnow]; exact hlive) hT0,
    ← tableRowsFor_eraseFlush cfg key T ops₁, ← tableRowsFor_eraseFlush cfg key T ops₂, hsame]

/-- … and the projected column scripts of the two store scripts differ only in their
    `ColOp.flush` entries (the hypothesis of `C03.view_schedule_independent`). -/
theorem projection_differs_only_in_flushes (cfg : TableCfg) (ops₁ ops₂ : List StoreOp)
    (hsame : eraseFlush ops₁ = eraseFlush ops₂) (key : Key) :
    noFlush (colOpsOf x cfg key (Store.init cfg) ops₁) = noFlush (colOpsOf x cfg key (Store.init cfg) ops₂) := by
  rw [noFlush_colOpsOf, noFlush_colOpsOf, ← colOpsNF_eraseFlush cfg key ops₁,
    ← colOpsNF_eraseFlush cfg key ops₂, hsame]

/-- The clock does not depend on the flush schedule. -/
theorem table_clock_schedule_independent (cfg : TableCfg) (ops₁ ops₂ : List StoreOp)
    (hsame : eraseFlush ops₁ = eraseFlush ops₂) : (runStore x cfg ops₁).now = (runStore x cfg ops₂).now := by
  rw [runStore_now, runStore_now, ← nowAfter_eraseFlush cfg ops₁, ← nowAfter_eraseFlush cfg ops₂, hsame]

/-- Right after a flush the memstore is empty: a disk-only scan and a memstore-inclusive scan
    are the same scan (all rows, all columns). -/
theorem table_disk_equals_mem_after_flush (cfg : TableCfg) (st : Store) (sorted : Bool)
    (hne : st.mem.isEmpty = false) (outFields : List Field) :
    (st.flush cfg sorted).iterate cfg outFields false = (st.flush cfg sorted).iterate cfg outFields true := by
  have hm : (st.flush cfg sorted).mem = [] := by rw [flush_eq cfg st sorted hne]
  rw [iterate_unfold, iterate_unfold]
  simp only [hm, if_true, Bool.false_eq_true, if_false]

/-! ### C14 at table level -/

/-- A point older than the retention period when it is processed leaves the whole store (every
    row, every column, file, clock) as it was, and is reported as skipped. -/
theorem table_old_point_not_stored (cfg : TableCfg) (st : Store) (p : RawPoint)
    (hold : p.ts < st.now - cfg.retention) : st.ingest x cfg p = (st, false) := by
  simp [Store.ingest, hold]

/-- … and the spec does not count it, for any key and period. -/
theorem table_old_point_not_counted (cfg : TableCfg) (key : Key) (T now : Int) (p : RawPoint)
    (r : List StoreOp) (hold : p.ts < now - cfg.retention) :
    tableRowsFor cfg key T now (.ingest p :: r) = tableRowsFor cfg key T now r := by
  simp [tableRowsFor, ptStored, ptNow, hold]

/-- The store's clock never goes back. -/
theorem table_clock_monotone (cfg : TableCfg) (st : Store) (op : StoreOp) :
    st.now ≤ (storeStep x cfg st op).now := by
  cases op with
  | flush s => simp only [storeStep, flush_now]; exact Int.le_refl _
  | ingest p =>
    simp only [storeStep, ingest_now, ptNow]
    split
    · exact Int.le_refl _
    · split
      · exact Int.le_refl _
      · omega

/-- No resurrection at table level: a period that ended before the retention bound gets no rows
    from a point processed at that clock or any later one. -/
theorem table_no_resurrection (cfg : TableCfg) (hres : 0 < cfg.res) (key : Key) (T now now' : Int)
    (p : RawPoint) (hmono : now ≤ now') (hexp : T < now - cfg.retention) :
    tableRowsFor cfg key T now' [.ingest p] = [] := by
  simp only [tableRowsFor, List.append_nil]
  split
  · rename_i h
    simp only [Bool.and_eq_true, decide_eq_true_eq, ptStored, Bool.not_eq_true', decide_eq_false_iff_not] at h
    have := roundUp_ge (t := p.ts) hres
    omega
  · rfl

/-! ### Non-vacuity: a two-field table, two keys, an array value (two rows), a rejected point,
    a point of another key, a raw and a re-encoding flush -/

def exCfg : TableCfg :=
  { fields := [⟨"_points", .agg .sum (.field "_point")⟩, ⟨"a", .agg .sum (.field "a")⟩],
    res := 10, retention := 100, groupBy := none }
def k1 : Key := [("d", "1")]
def k2 : Key := [("d", "2")]
def exOps : List StoreOp :=
  [.ingest { ts := 1003, dims := k1, vals := [("a", [2])] },
   .flush false,
   .ingest { ts := 1001, dims := k1, vals := [("a", [5, 1])] },
   .ingest { ts := 1040, dims := k2, vals := [("a", [3])] },
   .ingest { ts := 3, dims := k1, vals := [("a", [9])] },
   .flush true,
   .ingest { ts := 1010, dims := k1, vals := [("a", [7])] }]
def exOps' : List StoreOp :=
  [.ingest { ts := 1003, dims := k1, vals := [("a", [2])] },
   .ingest { ts := 1001, dims := k1, vals := [("a", [5, 1])] },
   .flush true, .flush false,
   .ingest { ts := 1040, dims := k2, vals := [("a", [3])] },
   .ingest { ts := 3, dims := k1, vals := [("a", [9])] },
   .ingest { ts := 1010, dims := k1, vals := [("a", [7])] }]

example : CfgWF exCfg := by decide
example : StorePos exOps ∧ StorePos exOps' := by decide
example : eraseFlush exOps = eraseFlush exOps' := rfl
example : (exCfg.fields[1]).ex.valid = true ∧ (exCfg.fields[1]).ex.noPtile = true := by decide
/-- the array point contributes its main row and its extra row twice (known finding
    C01-array-double is part of `pointRows`) -/
example : (tableRowsFor exCfg k1 1010 0 exOps).length = 5 := by decide +kernel
example : (runStore default exCfg exOps).now = 1040 := by decide +kernel
example : (scanCol exCfg (runStore default exCfg exOps) true k1 1).at (exCfg.fields[1]).ex exCfg.res 1010 =
    [.agg (some 16)] := by decide +kernel
example : (scanCol exCfg (runStore default exCfg exOps') true k1 1).at (exCfg.fields[1]).ex exCfg.res 1010 =
    [.agg (some 16)] := by decide +kernel
example : projectionMismatches default exCfg exOps true = [] := by decide +kernel

/-! ### Sharpness: neither side condition can be dropped

(1) A point stamped at or before the zero time is accepted (it is inside the retention window)
but stores nothing, so its key has a memstore row with an empty column.  When the clock has
moved on, the next (raw) flush re-encodes that key's file row — the store tests the ROW — and
truncation drops it, while the column model — testing the COLUMN — passes the old series
through.  Only expired periods differ.  (`projectionMismatches` reports it since it iterates over
the keys of the script, not only over the keys still present in the store.)
(2) With a negative retention the second row of an array point is rejected by the column model
(its clock has already moved to the point's own timestamp) but stored by the store. -/

def oneField : List Field := [⟨"a", .agg .sum (.field "a")⟩]
def cfgZ : TableCfg := { fields := oneField, res := 10, retention := 100, groupBy := none }
def opsZ : List StoreOp :=
  [.ingest { ts := 50, dims := k1, vals := [("a", [1])] }, .flush false,
   .ingest { ts := -5, dims := k1, vals := [("a", [1])] },
   .ingest { ts := 200, dims := k2, vals := [("a", [1])] }, .flush false]

example : CfgWF cfgZ ∧ ¬ StorePos opsZ := by decide
example : scanCol cfgZ (runStore default cfgZ opsZ) true k1 0 = none ∧
    ((Col.run default (ccfgOf cfgZ 0) (colOpsOf default cfgZ k1 (Store.init cfgZ) opsZ)).view
      (ccfgOf cfgZ 0) true).isSome = true ∧
    projectionMismatches default cfgZ opsZ true = [(k1, 0)] := by decide +kernel

def cfgN : TableCfg := { fields := oneField, res := 10, retention := -5, groupBy := none }
def opsN : List StoreOp := [.ingest { ts := 500, dims := k1, vals := [("a", [1, 2])] }]

example : ¬ CfgWF cfgN ∧ StorePos opsN := by decide
example : projectionMismatches default cfgN opsN true = [(k1, 0)] := by decide +kernel

end Zeno.StoreProj
