/-
C08 (sub-queries) — `FROM (sub-query)` and `dim IN (sub-query)`.

`specOver` is the raw-point spec of C06/C07/C08 with the table replaced by an arbitrary
source window and the accepted raw rows replaced by arbitrary points; the materialised flat
rows of a sub-query are such points.  The `query` engine compares the real nested query
with `runOver` (the code path) and with `specOver` (the property) over the rows the real
sub-query returns standalone.
-/
import ZenoModel.Model.SubQuery

namespace Zeno.C08Sub
open Zeno

/-- `planLocal` is `planOver` for a table source: the planner code is one function, only the
    source answering `GetResolution/GetAsOf/GetUntil` differs. -/
theorem planLocal_is_planOver (cfg : TableCfg) (now : Int) (q : Query) :
    planLocal cfg now q = planOver (tableSrc cfg now) now q := rfl

/-- the grouping step over a table is the grouping step over the table taken as a source -/
theorem groupRows_is_groupRowsOver (cfg : TableCfg) (now : Int) (q : Query) (pl : Plan)
    (inFields : List Field) (metas : List KeyMeta) (rows : List Row) :
    groupRows cfg now q pl inFields metas rows = groupRowsOver (tableSrc cfg now) q pl inFields metas rows := rfl

/-- THE TIE OF THE TWO SPECS: the raw-point spec of a table query is `specOver` over the table's
    window and the table's accepted rows — a FROM-subquery is evaluated by the same spec as a
    table, with "point" read as "row of the materialised sub-query". -/
theorem specQuery_is_specOver (x : Ext) (cfg : TableCfg) (dup : Bool) (ps : List RawPoint) (q : Query)
    (metas : List KeyMeta) :
    specQuery x cfg dup ps q metas =
      specOver x (tableSrc cfg (acceptedRows cfg dup ps).2) (acceptedRows cfg dup ps).2
        (acceptedRows cfg dup ps).1 q metas := rfl

/-- the outer WHERE is a pre-filter on the materialised rows: it sees nothing but the row's key -/
theorem from_subquery_where_is_prefilter (x : Ext) (s : SrcWin) (now : Int) (rows : List AccRow) (q : Query)
    (metas : List KeyMeta) :
    specOver x s now rows { q with hasWhere := true } metas =
      specOver x s now
        (rows.filter (fun r => ((metas.find? (fun m => m.key == r.key)).getD { key := r.key }).whereOk))
        { q with hasWhere := false } metas := rfl

/-- with named fields a group operator is planned whether or not there is a HAVING clause -/
theorem plan_ignores_having (s : SrcWin) (now : Int) (q : Query) (hg : q.hasSpecificFields = true) :
    planOver s now { q with hasHaving := true } = planOver s now { q with hasHaving := false } := by
  have hw1 : windowOver s now { q with hasHaving := true } = windowOver s now q := rfl
  have hw2 : windowOver s now { q with hasHaving := false } = windowOver s now q := rfl
  have hr1 : ∀ w, resolutionOver s { q with hasHaving := true } w = resolutionOver s q w := fun _ => rfl
  have hr2 : ∀ w, resolutionOver s { q with hasHaving := false } w = resolutionOver s q w := fun _ => rfl
  unfold planOver
  simp only [hw1, hw2, hr1, hr2]
  split
  · rfl
  · cases resolutionOver s q (windowOver s now q) with
    | error e => rfl
    | ok v => simp [hg]

/-- the outer HAVING is a post-filter on the finished rows of the same query without the filter
    (the helper column is the last selected expression in both) -/
theorem from_subquery_having_is_postfilter (x : Ext) (s : SrcWin) (now : Int) (rows : List AccRow) (q : Query)
    (metas : List KeyMeta) (hg : q.hasSpecificFields = true) :
    specOver x s now rows { q with hasHaving := true } metas =
      (specOver x s now rows { q with hasHaving := false } metas).map havingFilter := by
  unfold specOver
  rw [plan_ignores_having s now q hg]
  cases planOver s now { q with hasHaving := false } with
  | error e => rfl
  | ok pl => rfl

/-- a materialised row that the window keeps lands in exactly one out period, the one whose
    half-open interval (T − P, T] contains its timestamp -/
theorem from_subquery_bucket_contains (hi t P : Int) (hP : 0 < P) :
    let T := hi - ((hi - t) / P) * P
    T - P < t ∧ t ≤ T := by
  intro T
  have h1 := Int.emod_nonneg (hi - t) (Int.ne_of_gt hP)
  have h2 := Int.emod_lt_of_pos (hi - t) hP
  have h3 := Int.mul_ediv_add_emod (hi - t) P
  have h4 : (hi - t) / P * P = P * ((hi - t) / P) := Int.mul_comm _ _
  constructor <;> (show _; simp only [T]; omega)

/-- `dim IN (sub-query)`: membership only depends on the SET of values the sub-query returned
    (missing values included), not on their order or multiplicity … -/
theorem in_subquery_set_semantics (l₁ l₂ : List (Option String)) (hset : ∀ v, v ∈ l₁ ↔ v ∈ l₂) (v : Option String) :
    inList l₁ v = inList l₂ v := by
  unfold inList
  by_cases h : v ∈ l₁
  · have h2 := (hset v).mp h
    simp [h, h2]
  · have h2 : v ∉ l₂ := fun hh => h ((hset v).mpr hh)
    simp [h, h2]

/-- … so the distinct values are enough -/
theorem in_subquery_distinct (l : List (Option String)) (v : Option String) :
    inList l.eraseDups v = inList l v :=
  in_subquery_set_semantics _ _ (fun _ => List.mem_eraseDups) v

/-- RECORDED DEVIATION (finding `C08-insub-null-member`): a sub-query row whose key lacks the
    dimension contributes a missing value to the list, and a missing value IS a member for `IN`:
    an outer row that lacks the dimension is kept … -/
theorem in_subquery_missing_is_member (dim : String) (rows : List QRow) (r : QRow) (hr : r ∈ rows)
    (hmiss : r.key.find? (fun kv => kv.1 == dim) = none) :
    inList (subQueryValues dim rows) none = true := by
  unfold inList subQueryValues
  simp only [List.contains_eq_mem, List.mem_map, decide_eq_true_eq]
  exact ⟨r, hr, by simp [hmiss]⟩

/-- … although no literal list `IN ('v1', …)` can have a missing value as a member: over the list
    of the values that ARE there, a row lacking the dimension is never kept. -/
theorem in_literal_list_excludes_missing (vs : List (Option String)) :
    inList (vs.filter Option.isSome) none = false := by
  unfold inList
  simp [List.contains_eq_mem, List.mem_filter]

/-! Non-vacuity: two materialised rows of a sub-query `SELECT f0, f1 … GROUP BY d, period(2)`,
    outer `SELECT f0, f0 + f1 AS o1 FROM (…) GROUP BY period(4) HAVING f0 > 3`. -/

def exSrc : SrcWin := { res := 2, asOf := 0, hi := 8 }
def exRows : List AccRow :=
  [{ key := [("d", "s:x")], period := 6, pt := { vals := [("f0", 1), ("f1", 5)] } },
   { key := [("d", "s:x")], period := 8, pt := { vals := [("f0", 3), ("f1", 1)] } },
   { key := [("d", "s:y")], period := 8, pt := { vals := [("f0", 2), ("f1", 2)] } }]
def exF0 : Ex := .agg .sum (.field "f0")
def exF1 : Ex := .agg .sum (.field "f1")
def exQ : Query :=
  { outFields := [⟨"f0", exF0⟩, ⟨"o1", .bin .add exF0 exF1⟩, ⟨"_having", .bin .gt exF0 (.const 3)⟩],
    groupByAll := false, resolution := 4, hasSpecificFields := true, hasHaving := true }

example : (match specOver default exSrc 8 exRows exQ [] with
    | .ok r => r == [{ ts := 8, key := [("d", "s:x")], vals := [4, 10] }]
    | .error _ => false) = true := by decide +kernel

example : (match runOver default exSrc 8 exRows exQ [] with
    | .ok r => r == [{ ts := 8, key := [("d", "s:x")], vals := [4, 10] }]
    | .error _ => false) = true := by decide +kernel

/-- HAVING over a column the outer query does not select: the property (specOver) keeps the bucket
    of `x` (SUM(f1) = 6 > 3) … -/
def exQ2 : Query :=
  { outFields := [⟨"f0", exF0⟩, ⟨"_having", .bin .gt exF1 (.const 3)⟩],
    groupByAll := false, resolution := 4, hasSpecificFields := true, hasHaving := true }

example : (match specOver default exSrc 8 exRows exQ2 [] with
    | .ok r => r == [{ ts := 8, key := [("d", "s:x")], vals := [4] }]
    | .error _ => false) = true := by decide +kernel

/-- … the code as found returns nothing (finding C08-fromsub-having-unselected: the helper has no
    input column), the repaired code path agrees with the property. -/
example : (match runOver default exSrc 8 exRows exQ2 [] false with
    | .ok r => r == []
    | .error _ => false) = true := by decide +kernel

example : (match runOver default exSrc 8 exRows exQ2 [] true with
    | .ok r => r == [{ ts := 8, key := [("d", "s:x")], vals := [4] }]
    | .error _ => false) = true := by decide +kernel

end Zeno.C08Sub
