/-
C13 — incomplete results are never presented as complete.

Property theorems only.  The model (`Model/Report.lean`) follows the Go query path branch for
branch in the callback protocol (`onRow(row) (more, err)`, `Iterate(..) (metadata, err)`);
it is tied to the code by the `report` correspondence engine, and the list of discarded
`error` results on the query path is regenerated from the Go source on every run
(`Generated/Facts.lean`, `errorDrops`).

Specification.  `Out p l` (Model/Report.lean): `l` is what plan `p` delivers when nothing goes
wrong — the table's rows, `take n`, `drop n`, `filterMap`, `flatMap`, the group / sort function
applied to the complete input, every partition's rows of a cluster query in any interleaving.
"Told" = non-nil error, or statistics with fewer successful than total partitions.

Main statement (`told_when_incomplete`): for EVERY well-formed plan, dataset, deadline, fault
schedule of the sources (error at row k, sleep at row k, out-of-memory at check c, coalesced
foreign iteration with arbitrary behaviour, per-partition outcome and arrival order) and of
the caller's own callback (error at row k, sleep at row k, size cap): if the caller is not
told, the rows it received are exactly a fault-free output of the plan — unless the caller's
own callback asked to stop, in which case they are a prefix of one.  A LIMIT is part of the
plan (`Out (.limit n p) = take n`), so a LIMIT-induced stop is not a fault.

The theorems hold for the code after the fixes (`Cfg.Fixed`; the coalescing mode is free: they
hold for doProcessIterations as it is — per-iteration outcomes, 49f0895 — and as it was before).
For each fix a concrete pre-fix witness (truncated rows, caller not told) is proved below.
-/
import ZenoModel.Lemmas.ReportUser
import ZenoModel.Generated.Facts

/-! ## Hand-written expectations for the regenerated facts (the specification side) -/
namespace Zeno.ReportSpec
open Zeno

/-- how a discarded error on the query path is classified -/
inductive DropClass where
  /-- cannot hide a truncation (reason) -/
  | harmless (why : String)
  /-- the truncation it could hide is reported by other means (reason) -/
  | reportedOtherwise (why : String)
  /-- hides a truncation: never acceptable -/
  | swallowsTruncation
deriving DecidableEq, Repr

structure Expect where
  file : String
  func : String
  callee : String
  how : String
  cls : DropClass

def bufWrite : DropClass := .harmless "bytes.Buffer.WriteString never returns an error (log / String() text)"
def boltPut : DropClass :=
  .reportedOtherwise "bolt Put/Delete inside db.Update: a failed write leaves the entry pending or absent; the client gets 202/404, never truncated rows as success"
def httpWrite : DropClass := .harmless "writing the HTTP response body: the client sees a broken transfer"

/-- every site the extractor is expected to find on the query path (all `nth`) -/
def expectations : List Expect := [
  ⟨"cluster_query.go", "DB.queryCluster", "msg.WriteString", "stmt", bufWrite⟩,
  ⟨"core/format.go", "doFormatSource", "result.WriteString", "stmt", bufWrite⟩,
  ⟨"core/group.go", "group.String", "result.WriteString", "stmt", bufWrite⟩,
  ⟨"rpc/server/rpc_server.go", "server.HandleRemoteQueries", "onFields", "stmt",
    .harmless "queryCluster's onFields wrapper only enqueues the field list and always returns nil"⟩,
  ⟨"web/cache.go", "cache.getOrBegin", "cb.Put", "stmt", boltPut⟩,
  ⟨"web/cache.go", "cache.getOrBegin", "pb.Put", "stmt", boltPut⟩,
  ⟨"web/cache.go", "cache.begin", "cb.Put", "stmt", boltPut⟩,
  ⟨"web/cache.go", "cache.begin", "pb.Put", "stmt", boltPut⟩,
  ⟨"web/cache.go", "cache.put", "pb.Put", "stmt", boltPut⟩,
  ⟨"web/cache.go", "cache.put", "cb.Delete", "stmt", boltPut⟩,
  ⟨"web/cache.go", "cache.put", "cb.Put", "stmt", boltPut⟩,
  ⟨"web/query.go", "handler.sqlQuery", "url.QueryUnescape", "blank",
    .reportedOtherwise "a malformed escape leaves the raw text, which then fails in sql.Parse"⟩,
  ⟨"web/query.go", "handler.respondWithCacheEntry", "fmt.Fprint", "stmt", httpWrite⟩,
  ⟨"web/query.go", "handler.respondWithCacheEntry", "fmt.Fprintf", "stmt", httpWrite⟩,
  ⟨"web/query.go", "handler.respondSuccess", "resp.Write", "stmt", httpWrite⟩,
  ⟨"web/query.go", "handler.respondError", "resp.Write", "stmt", httpWrite⟩,
  ⟨"web/query.go", "handler.execQuery", "h.cache.put", "stmt",
    .reportedOtherwise "a failed cache write leaves the entry pending (202) or expired; the result is not served"⟩,
  ⟨"web/query.go", "handler.doQuery", "row.Key.Iterate", "stmt",
    .harmless "bytemap.ByteMap.Iterate has no error result (name shared with RowSource.Iterate; the extractor is syntactic)"⟩
]

def classify (d : Facts.ErrDrop) : Option DropClass :=
  (expectations.find? (fun e => e.file == d.file && e.func == d.func && e.callee == d.callee && e.how == d.how)).map (·.cls)

def acceptable : Option DropClass → Bool
  | some (.harmless _) => true
  | some (.reportedOtherwise _) => true
  | _ => false

end Zeno.ReportSpec

namespace Zeno.C13
open Zeno Zeno.Report Zeno.ReportSpec

/-! ## Each operator reports its own truncation and propagates its downstream's reply
(`StepOK`, Lemmas/Report.lean: what it forwards is its specification; when it answers by itself
it is an error, a `(true, nil)` for a row that contributes nothing, or `stop()` when nothing
can contribute any more; the downstream's reply goes up unchanged or becomes an error) -/

theorem limit_reports (n : Nat) : StepOK (limitStep n) (fun _ => True) (limitF n) idxNx := limitStep_ok n
theorem offset_reports (g : Guard) (n : Nat) : StepOK (offsetStep g n) (fun _ => True) (offsetF n) idxNx := offsetStep_ok g n
theorem filter_reports (g : Guard) (incl : Row → Incl) : StepOK (filterStep g incl) (fun _ => True) (inclF incl) unitNx :=
  filterStep_ok g incl
theorem flatten_reports (g : Guard) (fl : Row → List Row) : StepOK (flattenStep g fl) (fun _ => True) (fun _ r => fl r) unitNx :=
  flattenStep_ok g fl
theorem unflatten_reports (f : Row → Row) : StepOK (unflattenStep f) (fun _ => True) (fun _ r => [f r]) unitNx :=
  unflattenStep_ok f
theorem rowstore_guard_reports (g : Guard) : StepOK (guardStep g) (fun _ => True) (fun _ r => [r]) unitNx := guardStep_ok g
theorem memory_check_reports (oomAt : Option Nat) : StepOK (oomStep oomAt) (fun _ => True) (fun _ r => [r]) idxNx :=
  oomStep_ok oomAt

/-- sort: not told ⇒ it collected a complete input and emitted a prefix of the sorted rows that
    is proper only at the downstream's own request -/
theorem sort_reports (env : Env) (p : Plan) (sf : List Row → List Row) (h : Inv env p) : Inv env (.sort sf p) :=
  sort_inv env p sf h

theorem group_reports (env : Env) (p : Plan) (gs : GroupSpec) (h : Inv env p) : Inv env (.group gs p) :=
  group_inv env p gs h

/-- the table scan (file part, memstore part, row-store guard, coalescing fan-out in either
    mode, memory check) -/
theorem table_reports (env : Env) (hfix : env.cfg.Fixed) (t : Table) : Inv env (.table t) := table_inv env hfix t

/-- queryCluster delivering flat rows -/
theorem cluster_reports (env : Env) (c : Cluster) (hw : c.wf) (hf : c.unflat = false) : Inv env (.cluster c) := by
  intro σ s st now h
  exact cluster_flat_inv c hw hf s st now h

/-- queryCluster delivering unflat rows drops the consumer's error (D5), but its only consumer,
    group's collector, loses no row by that: not told ⇒ the collected rows are complete -/
theorem cluster_unflat_collect_complete (c : Cluster) (hw : c.wf) (g : Guard) (now : Nat)
    (h : (clusterIterate c (collectSink g) [] now).told = false) :
    c.Out (clusterIterate c (collectSink g) [] now).st := cluster_collect c hw g now h

/-- every plan -/
theorem plan_reports (env : Env) (hfix : env.cfg.Fixed) (p : Plan) (hwf : p.wf) : Inv env p := inv_of_wf env hfix p hwf

/-! ## The embedded API -/

/-- **told_when_incomplete.**  If the rows delivered to the caller are not a fault-free output of
    the plan and the caller's own callback did not ask to stop, the caller is told. -/
theorem told_when_incomplete (env : Env) (hfix : env.cfg.Fixed) (p : Plan) (hwf : p.wf) (f : UFault)
    (size : Row → Nat) (now : Nat)
    (hdiff : ¬ ∃ l, Out p l ∧ (embedded env p f size now).rows = l)
    (hns : (embedded env p f size now).stopped = false) :
    (embedded env p f size now).told = true := by
  cases ht : (embedded env p f size now).told with
  | true => rfl
  | false =>
    exfalso
    have ht' : (iterate env p (userSink f size) {} now).told = false := ht
    obtain ⟨l, hl, hp⟩ := inv_of_wf env hfix p hwf (userSink f size) {} now ht'
    rcases (user_polite f size _ l hp).1 with ⟨hrows, _⟩ | hst
    · exact hdiff ⟨l, hl, hrows⟩
    · have : (embedded env p f size now).stopped = true := hst
      rw [this] at hns; cases hns

/-- the same, positively: not told ⇒ the rows are a prefix of a fault-free output, and all of
    it unless the caller's own callback asked to stop -/
theorem complete_unless_told (env : Env) (hfix : env.cfg.Fixed) (p : Plan) (hwf : p.wf) (f : UFault)
    (size : Row → Nat) (now : Nat) (ht : (embedded env p f size now).told = false) :
    ∃ l, Out p l ∧ (∃ m, (embedded env p f size now).rows = l.take m) ∧
      ((embedded env p f size now).stopped = false → (embedded env p f size now).rows = l) := by
  have ht' : (iterate env p (userSink f size) {} now).told = false := ht
  obtain ⟨l, hl, hp⟩ := inv_of_wf env hfix p hwf (userSink f size) {} now ht'
  obtain ⟨h1, h2⟩ := user_polite f size _ l hp
  refine ⟨l, hl, h2, fun hns => ?_⟩
  rcases h1 with ⟨hrows, _⟩ | hst
  · exact hrows
  · have : (embedded env p f size now).stopped = true := hst
    rw [this] at hns; cases hns

/-! ## Panics in per-row processing

A failure raised as a PANIC (goexpr SUBSTR/SPLIT/LEN on a dimension value of an unexpected type
in WHERE / GROUP BY, a consumer callback) is the reply `fail .panic` (see `Err.panic`): it goes
up through every operator unchanged and meets table.go `safeOnValue` (`recoverStep`) before the
shared scan. -/

/-- the recover boundary as it stands (deferred closure assigns the named results) hands
    everything that comes up to the scan unchanged: it is the identity operator -/
theorem recover_boundary_reports : StepOK (recoverStep true) (fun _ => True) (fun _ r => [r]) unitNx :=
  recoverStep_ok

/-- **panic_is_reported.**  For every well-formed plan: if the caller's callback panics at its
    call k and the caller is NOT told (nil error, statistics not partial), then that call never
    happened — the callback was called at most k times (calls 0 … k-1).  A panic that happened
    is always reported. -/
theorem panic_is_reported (env : Env) (hfix : env.cfg.Fixed) (p : Plan) (hwf : p.wf) (k : Nat)
    (size : Row → Nat) (now : Nat) (ht : (embedded env p (.panicAt k) size now).told = false) :
    (embedded env p (.panicAt k) size now).calls ≤ k := by
  have ht' : (iterate env p (userSink (.panicAt k) size) {} now).told = false := ht
  obtain ⟨l, _, m, rep, hf, he, _⟩ := inv_of_wf env hfix p hwf (userSink (.panicAt k) size) {} now ht'
  exact panic_fed k size _ _ _ _ hf he (Nat.zero_le k)

/-- a table query reports through the error: its statistics say 0 of 1 exactly when there is one -/
theorem table_stats_follow_error (env : Env) (t : Table) (f : UFault) (size : Row → Nat) (now : Nat) :
    (embedded env (.table t) f size now).stats =
      some { total := 1, successful := if (embedded env (.table t) f size now).err.isNone then 1 else 0, missing := [] } := by
  obtain ⟨e, h1, h2⟩ := table_stats env t (userSink f size) {} now
  show (iterate env (.table t) (userSink f size) {} now).stats = _
  rw [h2]
  have : (embedded env (.table t) f size now).err = e := h1
  rw [this]

/-- Where the scan looks at the deadline: only after a row it has DELIVERED
    (`guard.ProceedAfter(onValue(..))` in rowStore.iterate / combinedOnValue).  A scan that finds
    only file rows mapping none of the requested columns (and nothing in the memstore) calls
    nobody, consults no guard and ends with nil error and statistics 1/1 even under an expired
    deadline — and that empty result IS the complete answer (`t.rows = []`), so nothing is
    presented as complete that is not. -/
theorem only_skipped_rows_no_error (cfg : Cfg) (h15 : cfg.d15 = true) (dl : Option Nat) (t : Table)
    (hf : ∀ x, x ∈ t.file → x.2 = false) (hm : t.includeMem = false ∨ t.mem = []) (hco : t.co = none)
    (f : UFault) (size : Row → Nat) (now : Nat) :
    (embedded ⟨cfg, dl⟩ (.table t) f size now).rows = [] ∧
    (embedded ⟨cfg, dl⟩ (.table t) f size now).err = none ∧
    (embedded ⟨cfg, dl⟩ (.table t) f size now).stats = some ⟨1, 1, []⟩ ∧ t.rows = [] := by
  have hrows : t.rows = [] := by
    unfold Table.rows
    have h1 : t.file.filter (·.2) = [] := List.filter_eq_nil_iff.mpr (fun x hx => by simp [hf x hx])
    rcases hm with h | h <;> simp [h1, h]
  refine ⟨?_, ?_, ?_, hrows⟩ <;>
  · simp only [embedded, iterate, tableIterate, coalescedScan, hco]
    cases cfg.coalesce <;>
      simp [fileStore_all_skipped cfg h15 t _ _ now hf hm]

/-! ## Cluster queries: the partition is listed -/

/-- A cluster query that returns no error: every partition either delivered all its rows to the
    caller, or is listed in `MissingPartitions` with `NumSuccessfulPartitions < NumPartitions` —
    whatever the partitions' outcomes (no handler, error after k rows, hanging until the timer
    fires), the arrival order, and the caller's faults, as long as the caller did not ask to stop. -/
theorem cluster_partition_told (env : Env) (c : Cluster) (hw : c.wf) (hf : c.unflat = false) (f : UFault)
    (size : Row → Nat) (now : Nat)
    (he : (embedded env (.cluster c) f size now).err = none)
    (hns : (embedded env (.cluster c) f size now).stopped = false) :
    ∀ (p : Nat) (pt : Part), c.parts[p]? = some pt →
      (embedded env (.cluster c) f size now).rows.filter (fun r => r.part == p) = pt.rows ∨
      ∃ st, (embedded env (.cluster c) f size now).stats = some st ∧ p ∈ st.missing ∧ st.successful < st.total := by
  intro p pt hp
  have hplt : p < c.parts.length := (List.getElem?_eq_some_iff.mp hp).1
  simp only [embedded, iterate, clusterIterate, hf] at he hns ⊢
  generalize hrun : clusterLoop c.parts false (userSink f size) { pending := c.parts.length } {} now c.events = res at he hns ⊢
  obtain ⟨st', d, e, c'⟩ := res
  simp only at he hns ⊢
  obtain ⟨acc, okFin, hinv, hall⟩ := cluster_run2 c.parts hw (userSink f size) {} c.events _ {} now [] []
    (CInv.init c.parts _ _) _ _ _ _ hrun he
  -- the caller never asked to stop, so the leader never stopped
  have hstop : c'.stopped = false := by
    cases hs : c'.stopped with
    | false => rfl
    | true =>
      obtain ⟨rep, hfed, hre, hm⟩ := hinv.fedStop hs
      have := (user_fed f size _ _ _ _ hfed).2.2 hm hre
      rw [this] at hns; cases hns
  have hrows : st'.rows = acc := by
    have := (user_fed f size _ _ _ _ (hinv.fedOk hstop)).1
    simpa [Reply.ok, Reply.proceed] using this
  by_cases hok : p ∈ okFin
  · left
    obtain ⟨j, _, hfj, hjj⟩ := hinv.proj p pt hp
    rcases hinv.okProp p pt hok hp with h | ⟨hl, hfe⟩
    · rw [hstop] at h; cases h
    · rw [hrows]
      show acc.filter (partKey p) = pt.rows
      rw [hfj, hjj hstop, List.take_of_length_le hl]
      exact pt.script_of_final_ok (hw p pt hp).2 hfe
  · right
    refine ⟨c'.stats c.parts.length, rfl, ?_, ?_⟩
    · rcases hall p hplt with h | h
      · exact absurd h hok
      · simp only [CState.stats, List.mem_filter, List.mem_range]
        exact ⟨hplt, h⟩
    · simp only [CState.stats]
      rw [hinv.succ]
      have := nodup_bounded_length c.parts.length (p :: okFin) (List.nodup_cons.mpr ⟨hok, hinv.okNodup⟩)
        (fun x hx => by
          rcases List.mem_cons.mp hx with h | h
          · subst h; exact hplt
          · exact hinv.finLt x (hinv.okSub x h))
      simp only [List.length_cons] at this
      omega

/-- A partition is counted successful only if its end-of-results was received: in a cluster
    query that returns no error and was not stopped by the caller, every partition whose handler
    does not end with a clean final result (`Part.finalErr ≠ some none`: no handler, an error,
    a stream that ended — EOF, reset — without the end-of-results message, a handler that
    hangs) is listed in `MissingPartitions` and makes `NumSuccessfulPartitions < NumPartitions`
    — even when all of its rows happened to arrive. -/
theorem cluster_success_needs_end_of_results (env : Env) (c : Cluster) (hw : c.wf) (hf : c.unflat = false) (f : UFault)
    (size : Row → Nat) (now : Nat)
    (he : (embedded env (.cluster c) f size now).err = none)
    (hns : (embedded env (.cluster c) f size now).stopped = false) :
    ∀ (p : Nat) (pt : Part), c.parts[p]? = some pt → pt.finalErr ≠ some none →
      ∃ st, (embedded env (.cluster c) f size now).stats = some st ∧ p ∈ st.missing ∧ st.successful < st.total := by
  intro p pt hp hfin
  have hplt : p < c.parts.length := (List.getElem?_eq_some_iff.mp hp).1
  simp only [embedded, iterate, clusterIterate, hf] at he hns ⊢
  generalize hrun : clusterLoop c.parts false (userSink f size) { pending := c.parts.length } {} now c.events = res at he hns ⊢
  obtain ⟨st', d, e, c'⟩ := res
  simp only at he hns ⊢
  obtain ⟨acc, okFin, hinv, hall⟩ := cluster_run2 c.parts hw (userSink f size) {} c.events _ {} now [] []
    (CInv.init c.parts _ _) _ _ _ _ hrun he
  have hstop : c'.stopped = false := by
    cases hs : c'.stopped with
    | false => rfl
    | true =>
      obtain ⟨rep, hfed, hre, hm⟩ := hinv.fedStop hs
      have := (user_fed f size _ _ _ _ hfed).2.2 hm hre
      rw [this] at hns; cases hns
  have hok : p ∉ okFin := by
    intro hin
    rcases hinv.okProp p pt hin hp with h | ⟨_, hfe⟩
    · rw [hstop] at h; cases h
    · exact hfin hfe
  refine ⟨c'.stats c.parts.length, rfl, ?_, ?_⟩
  · rcases hall p hplt with h | h
    · exact absurd h hok
    · simp only [CState.stats, List.mem_filter, List.mem_range]
      exact ⟨hplt, h⟩
  · simp only [CState.stats]
    rw [hinv.succ]
    have := nodup_bounded_length c.parts.length (p :: okFin) (List.nodup_cons.mpr ⟨hok, hinv.okNodup⟩)
      (fun x hx => by
        rcases List.mem_cons.mp hx with h | h
        · subst h; exact hplt
        · exact hinv.finLt x (hinv.okSub x h))
    simp only [List.length_cons] at this
    omega

/-- in particular a remote handler whose stream ends without the end-of-results message -/
theorem eof_without_end_of_results_is_missing (pt : Part) (k : Nat) (h : pt.outcome = .eofAfter k) :
    pt.finalErr ≠ some none := by
  simp [Part.finalErr, h]

/-- and a remote handler whose end-of-results message CARRIES the follower's query error (what
    rpc_client.go ProcessRemoteQuery sends when the query fails after its field list): the
    end-of-results message was received, yet it is not "a clean final result" — the partition
    falls under `cluster_success_needs_end_of_results` like an error before the end -/
theorem error_on_end_of_results_is_missing (pt : Part) (k : Nat) (h : pt.outcome = .endErrorAfter k) :
    pt.finalErr ≠ some none ∧ pt.finalErr = (Part.mk pt.rows (.failAfter k)).finalErr ∧
      pt.script = (Part.mk pt.rows (.failAfter k)).script := by
  simp [Part.finalErr, Part.script, h]

/-- concretely: all rows of partition 1 arrived, its end-of-results message carries an error:
    listed as missing, 1 of 2 successful -/
theorem error_on_end_of_results_witness :
    let pr (p k : Nat) : Row := { key := k, ts := 0, vals := [1], part := p }
    let cl : Cluster := { parts := [⟨[pr 0 1], .ok⟩, ⟨[pr 1 3, pr 1 4], .endErrorAfter 2⟩],
                          events := [.msg 0 false, .msg 1 false, .msg 1 false, .msg 0 false, .msg 1 false], unflat := false }
    let o := embedded ⟨Cfg.fixed, none⟩ (.cluster cl) .none (fun _ => 0) 0
    o.rows = [pr 0 1, pr 1 3, pr 1 4] ∧ o.err = none ∧ o.stats = some ⟨2, 1, [1]⟩ ∧ o.told = true := by decide

/-- a stale handler (stream ended before its first message) is passed over: the partition is
    served by the next handler in its queue, or is a partition without handler -/
theorem stale_handler_is_retried (rest : List Attempt) :
    effectiveOutcome (.stale :: rest) = effectiveOutcome rest ∧ effectiveOutcome [] = .noHandler ∧
    effectiveOutcome [.stale, .stale] = .noHandler := ⟨rfl, rfl, rfl⟩

/-! ## LIMIT is not a fault -/

/-- whatever happens, a LIMIT query that is not told has delivered exactly the first n rows of a
    fault-free output of its source (or a prefix of them at the caller's own request) -/
theorem limit_is_not_a_fault (env : Env) (hfix : env.cfg.Fixed) (p : Plan) (hwf : p.wf) (n : Nat) (f : UFault)
    (size : Row → Nat) (now : Nat) (ht : (embedded env (.limit n p) f size now).told = false)
    (hns : (embedded env (.limit n p) f size now).stopped = false) :
    ∃ l, Out p l ∧ (embedded env (.limit n p) f size now).rows = l.take n := by
  obtain ⟨l', ⟨l, hl, rfl⟩, _, hfull⟩ := complete_unless_told env hfix (.limit n p) hwf f size now ht
  exact ⟨l, hl, hfull hns⟩

/-- … and the stop itself produces no error: a source that would fail (or sleep past a
    deadline) only after the first n rows is never asked for those rows -/
theorem limit_stop_is_silent (cfg : Cfg) (rows : List Row) (n k : Nat) (hk : n < k) (hn : n < rows.length)
    (size : Row → Nat) (now : Nat) :
    (embedded ⟨cfg, none⟩ (.limit n (.mock rows (some k) none)) .none size now).err = none ∧
    (embedded ⟨cfg, none⟩ (.limit n (.mock rows (some k) none)) .none size now).rows = rows.take n := by
  -- the limit callback over the recording callback, fed by the mock loop
  have key : ∀ (rs : List Row) (i idx : Nat) (st : UState) (t : Nat), i + (n - idx) < k → idx ≤ n → n - idx < rs.length →
      (mockLoop (wrap (limitStep n) (userSink .none size)) (some k) none i (idx, st) t rs).2.2 = none ∧
      (mockLoop (wrap (limitStep n) (userSink .none size)) (some k) none i (idx, st) t rs).1.2.rows = st.rows ++ rs.take (n - idx) := by
    intro rs
    induction rs with
    | nil => intro i idx st t _ _ h; simp at h
    | cons r rs ih =>
      intro i idx st t hik hidx hlen
      have hne : ((some k : Option Nat) == some i) = false := by
        simp; omega
      by_cases hlt : idx < n
      · have hstep : (wrap (limitStep n) (userSink .none size)).onRow (idx, st) (t + sleepFor none i) r =
            ((idx + 1, { st with rows := st.rows ++ [r], n := st.n + 1 }), 0, Reply.proceed) := by
          simp [wrap, limitStep, hlt, feed, userSink, Reply.ok, Reply.proceed]
        unfold mockLoop
        rw [hne]
        simp only [Bool.false_eq_true, if_false, hstep, Reply.ok, Reply.proceed, Bool.and_self, if_true, Option.isNone_none]
        have := ih (i + 1) (idx + 1) { st with rows := st.rows ++ [r], n := st.n + 1 } (t + sleepFor none i + 0)
          (by omega) (by omega) (by simp at hlen; omega)
        obtain ⟨h1, h2⟩ := this
        refine ⟨h1, ?_⟩
        rw [h2]
        have e : n - idx = (n - (idx + 1)) + 1 := by omega
        rw [e]; simp
      · have hidn : idx = n := by omega
        have hstep : (wrap (limitStep n) (userSink .none size)).onRow (idx, st) (t + sleepFor none i) r =
            ((idx + 1, st), 0, Reply.stop) := by
          simp [wrap, limitStep, hlt]
        unfold mockLoop
        rw [hne]
        simp only [Bool.false_eq_true, if_false, hstep, Reply.ok, Reply.stop, Bool.false_and]
        simp [hidn]
  have := key rows 0 0 {} now (by omega) (Nat.zero_le _) (by omega)
  simp only [embedded, iterate, Res.mapSt]
  exact ⟨this.1, by simpa using this.2⟩

/-! ## RPC server and web -/

/-- rpc Query: a stream that ends with end-of-results whose statistics are not partial carried
    exactly a fault-free output -/
theorem rpc_told (env : Env) (hfix : env.cfg.Fixed) (p : Plan) (hwf : p.wf) (now : Nat) (stats : Option Stats)
    (hend : (rpcQuery env p now).fin = .endOfResults stats)
    (hnp : ∀ st, stats = some st → st.partial_ = false) :
    ∃ l, Out p l ∧ (rpcQuery env p now).rows = l := by
  cases he : (embedded env p .none (fun _ => 0) now).err with
  | some e =>
    have : rpcQuery env p now = ⟨(embedded env p .none (fun _ => 0) now).rows, .streamError e⟩ := by
      simp [rpcQuery, he]
    rw [this] at hend; cases hend
  | none =>
    have hq : rpcQuery env p now = ⟨(embedded env p .none (fun _ => 0) now).rows,
        .endOfResults (embedded env p .none (fun _ => 0) now).stats⟩ := by
      simp [rpcQuery, he]
    rw [hq] at hend ⊢
    simp only [RpcEnd.endOfResults.injEq] at hend
    have ht : (embedded env p .none (fun _ => 0) now).told = false := by
      unfold Outcome.told
      rw [he, hend]
      cases stats with
      | none => rfl
      | some st => simp [hnp st rfl]
    obtain ⟨l, hl, _, hfull⟩ := complete_unless_told env hfix p hwf .none (fun _ => 0) now ht
    exact ⟨l, hl, hfull rfl⟩

/-- what execQuery caches, after the fix for D4 -/
theorem web_exec_cases (cfg : Cfg) (hd4 : cfg.d4 = true) (w : WebOpts) (p : Plan) (now : Nat) :
    let o := embedded ⟨cfg, some (now + w.queryTimeout)⟩ p (.sizeCap w.maxResponseBytes) w.rowSize (now + w.lag)
    (∀ e, o.err = some e → webExecQuery cfg w p now = { status := .error, rows := [], stats := none, err := some e }) ∧
    (o.err = none → w.maxResponseBytes < w.finalSize o.rows →
      webExecQuery cfg w p now = { status := .error, rows := [], stats := none, err := some .size }) ∧
    (o.err = none → ¬ w.maxResponseBytes < w.finalSize o.rows →
      webExecQuery cfg w p now = { status := .success, rows := o.rows, stats := o.stats, err := none }) := by
  refine ⟨fun e he => ?_, fun he hsz => ?_, fun he hsz => ?_⟩
  · simp [webExecQuery, webDoQuery, he, hd4]
  · simp [webExecQuery, webDoQuery, he, hsz]
  · simp [webExecQuery, webDoQuery, he, hsz]

/-- web: a cache entry with status success holds exactly a fault-free output of the query, or
    statistics that list missing partitions (cluster).  In particular a result cut short by the
    deadline, the memory cap or the response-size cap is never cached as a success. -/
theorem web_success_is_complete (cfg : Cfg) (hfix : cfg.Fixed) (w : WebOpts) (p : Plan) (hwf : p.wf) (now : Nat)
    (hs : (webExecQuery cfg w p now).status = .success) :
    (∃ l, Out p l ∧ (webExecQuery cfg w p now).rows = l) ∨
    (∃ st, (webExecQuery cfg w p now).stats = some st ∧ st.partial_ = true) := by
  have hd4 : cfg.d4 = true := hfix.2.2.1
  obtain ⟨c1, c2, c3⟩ := web_exec_cases cfg hd4 w p now
  cases he : (embedded ⟨cfg, some (now + w.queryTimeout)⟩ p (.sizeCap w.maxResponseBytes) w.rowSize (now + w.lag)).err with
  | some e => rw [c1 e he] at hs; cases hs
  | none =>
    by_cases hsz : w.maxResponseBytes < w.finalSize (embedded ⟨cfg, some (now + w.queryTimeout)⟩ p (.sizeCap w.maxResponseBytes) w.rowSize (now + w.lag)).rows
    · rw [c2 he hsz] at hs; cases hs
    · rw [c3 he hsz]
      simp only
      cases hst : (embedded ⟨cfg, some (now + w.queryTimeout)⟩ p (.sizeCap w.maxResponseBytes) w.rowSize (now + w.lag)).stats with
      | none =>
        left
        have ht : (embedded ⟨cfg, some (now + w.queryTimeout)⟩ p (.sizeCap w.maxResponseBytes) w.rowSize (now + w.lag)).told = false := by
          unfold Outcome.told; rw [he, hst]; rfl
        obtain ⟨l, hl, _, hfull⟩ := complete_unless_told ⟨cfg, some (now + w.queryTimeout)⟩ hfix p hwf _ _ (now + w.lag) ht
        exact ⟨l, hl, hfull rfl⟩
      | some st =>
        cases hp : st.partial_ with
        | true => right; exact ⟨st, rfl, hp⟩
        | false =>
          left
          have ht : (embedded ⟨cfg, some (now + w.queryTimeout)⟩ p (.sizeCap w.maxResponseBytes) w.rowSize (now + w.lag)).told = false := by
            unfold Outcome.told; rw [he, hst]; simp [hp]
          obtain ⟨l, hl, _, hfull⟩ := complete_unless_told ⟨cfg, some (now + w.queryTimeout)⟩ hfix p hwf _ _ (now + w.lag) ht
          exact ⟨l, hl, hfull rfl⟩

/-- HTTP 200 is only ever answered from a success entry -/
theorem web_200_only_from_success (ce : CacheEntry) (h : (webRespond ce).1 = 200) : ce.status = .success := by
  unfold webRespond at h
  cases hs : ce.status <;> simp [hs] at h ⊢

/-- an error of the iteration becomes an error entry (HTTP 500 on this and every later request
    for the cached result) -/
theorem web_error_is_500 (cfg : Cfg) (hfix : cfg.Fixed) (w : WebOpts) (p : Plan) (now : Nat)
    (he : (embedded ⟨cfg, some (now + w.queryTimeout)⟩ p (.sizeCap w.maxResponseBytes) w.rowSize (now + w.lag)).err ≠ none) :
    (webRespond (webExecQuery cfg w p now)).1 = 500 := by
  obtain ⟨c1, _, _⟩ := web_exec_cases cfg hfix.2.2.1 w p now
  cases h : (embedded ⟨cfg, some (now + w.queryTimeout)⟩ p (.sizeCap w.maxResponseBytes) w.rowSize (now + w.lag)).err with
  | none => exact absurd h he
  | some e => rw [c1 e h]; rfl

/-! ## queryCluster never returns its `_finalErr` (D5), so only the statistics tell -/

theorem fail_never_records (c : CState) (p : Nat) (e : Option Err) (h : c.finalErr = none) : (c.fail p e).finalErr = none :=
  (fail_frame c p e h).1

/-! ## Regenerated facts: every discarded error on the query path is classified -/

/-- every call on the query path whose error result is discarded (as extracted from the current
    Go source) is classified, and none is classified as swallowing a truncation: a NEW discarded
    error breaks this until it is classified -/
theorem facts_all_classified : Facts.errorDrops.all (fun d => acceptable (classify d)) = true := by decide

/-- the expectation table has no stale entry -/
theorem expectations_all_used :
    expectations.all (fun e => Facts.errorDrops.any (fun d =>
      e.file == d.file && e.func == d.func && e.callee == d.callee && e.how == d.how)) = true := by decide

/-- the two sites fixed for C13 are gone: no `Walk` result dropped in fileStore.iterate, no
    `Iterate` error blanked in web doQuery -/
theorem fixed_sites_absent :
    Facts.errorDrops.all (fun d => !(d.file == "row_store.go" && d.callee == "ms.tree.Walk") &&
      !(d.file == "web/query.go" && d.callee == "rs.Iterate")) = true := by decide

/-- every way out of the receive loop of rpc/server HandleRemoteQueries (regenerated from the Go
    source) either sets the handler's error or follows a received end-of-results message: the
    loop cannot end silently (e.g. on io.EOF), which queryCluster would count as a successful
    partition; and the end-of-results exit is there -/
theorem remote_loop_exits_report :
    Facts.remoteLoopExits.all (fun e => e.setsErr || e.afterEnd) = true ∧
    Facts.remoteLoopExits.any (fun e => e.afterEnd) = true := by decide

/-- regenerated facts: every recover boundary of the query path's packages hands the recovered
    panic on — by assigning a NAMED error result of its function ("named"), by sending it on the
    result channel ("send"), or it stands in a function without an error result ("void": logs
    only; ingestion and follow paths).  A boundary whose deferred closure assigns only local
    variables of a function with an (unnamed) error result is "lost" and breaks this.  The five
    boundaries of the query path are there, each with its way of reporting. -/
theorem recover_boundaries_report :
    Facts.recoverBoundaries.all (fun b => b.reach != "lost") = true ∧
    Facts.recoverBoundaries.any (fun b => b.file == "table.go" && b.func == "safeOnValue" && b.reach == "named" && b.assigns.contains "err") = true ∧
    Facts.recoverBoundaries.any (fun b => b.file == "planner/subquery.go" && b.reach == "send") = true ∧
    Facts.recoverBoundaries.any (fun b => b.file == "web/query.go" && b.func == "doQuery" && b.reach == "named") = true ∧
    Facts.recoverBoundaries.any (fun b => b.file == "rpc/server/rpc_server.go" && b.func == "Query" && b.reach == "named") = true ∧
    Facts.recoverBoundaries.any (fun b => b.file == "cluster_query.go" && b.func == "queryForRemote" && b.reach == "named") = true := by decide

/-! ## Pre-fix witnesses (the record of the findings) -/

def r (k : Nat) : Row := { key := k, ts := 0, vals := [1] }
def noSize : Row → Nat := fun _ => 0
def cfgWith (d3 d15 d4 subq subqStats : Bool) : Cfg :=
  { d3 := d3, d15 := d15, d4 := d4, subq := subq, subqStats := subqStats, coalesce := .abortAll }  -- the code the defects were found in

/-- the same for a panic raised by the query's own row processing (`incl` = the WHERE clause or
    a GROUP BY expression evaluated on the row): an untold result is a complete one, so no row
    whose evaluation panics was reached — `told_when_incomplete` for `UFault.none` covers it;
    here the concrete shape: a panic on the third of four rows -/
theorem panic_in_where_reported :
    let t : Table := { file := [(r 0, true), (r 1, true), (r 2, true), (r 3, true)], mem := [], includeMem := true, oomAt := none, co := none }
    let o := embedded ⟨Cfg.fixed, none⟩ (.filter (fun x => if x.key == 2 then .err .panic else .keep x) (.table t)) .none noSize 0
    o.rows = [r 0, r 1] ∧ o.err = some .panic ∧ o.stats = some ⟨1, 0, []⟩ := by decide

/-- the boundary whose deferred closure assigns LOCAL variables (unnamed results): the function
    returns `(false, nil)`, the scan drops the query as if it had asked to stop — 2 of 4 rows,
    nil error, statistics 1 of 1: a truncated result presented as complete -/
theorem recover_lost_witness :
    let t : Table := { file := [(r 0, true), (r 1, true), (r 2, true), (r 3, true)], mem := [], includeMem := true, oomAt := none, co := none }
    let o := embedded ⟨{ Cfg.fixed with recover := false }, none⟩ (.table t) (.panicAt 2) noSize 0
    o.rows = [r 0, r 1] ∧ o.err = none ∧ o.stats = some ⟨1, 1, []⟩ ∧ o.stopped = false ∧ o.told = false ∧
      o.calls = 3 := by decide

/-- the same data and fault with the boundary as it stands: told -/
theorem recover_fixed_witness :
    let t : Table := { file := [(r 0, true), (r 1, true), (r 2, true), (r 3, true)], mem := [], includeMem := true, oomAt := none, co := none }
    let o := embedded ⟨Cfg.fixed, none⟩ (.table t) (.panicAt 2) noSize 0
    o.rows = [r 0, r 1] ∧ o.err = some .panic ∧ o.stats = some ⟨1, 0, []⟩ ∧ o.calls = 3 := by decide

/-- D3: a consumer error in the memstore part vanishes: 3 of 4 rows, nil error, statistics 1/1 -/
theorem d3_witness :
    let t : Table := { file := [(r 0, true), (r 1, true)], mem := [r 2, r 3], includeMem := true, oomAt := none, co := none }
    let o := embedded ⟨cfgWith false true true true true, none⟩ (.table t) (.failAt 3) noSize 0
    o.rows = [r 0, r 1, r 2] ∧ o.told = false ∧ o.stopped = false ∧ t.rows = [r 0, r 1, r 2, r 3] := by decide

/-- D3 with a deadline: the caller sleeps past it in the memstore part -/
theorem d3_deadline_witness :
    let t : Table := { file := [(r 0, true)], mem := [r 1, r 2], includeMem := true, oomAt := none, co := none }
    let o := embedded ⟨cfgWith false true true true true, some 10⟩ (.table t) (.sleepAt 1 20) noSize 0
    o.rows = [r 0, r 1] ∧ o.told = false ∧ t.rows = [r 0, r 1, r 2] := by decide

/-- D15: a file row that maps none of the requested columns ends the scan silently -/
theorem d15_witness :
    let t : Table := { file := [(r 0, true), (r 1, false), (r 2, true)], mem := [r 3], includeMem := true, oomAt := none, co := none }
    let o := embedded ⟨cfgWith true false true true true, none⟩ (.table t) .none noSize 0
    o.rows = [r 0] ∧ o.told = false ∧ t.rows = [r 0, r 2, r 3] := by decide

/-- D4: the size cap stops the scan, the rows so far are cached as success and served with 200 -/
theorem d4_witness :
    let t : Table := { file := [(r 0, true), (r 1, true), (r 2, true)], mem := [], includeMem := false, oomAt := none, co := none }
    let w : WebOpts := { maxResponseBytes := 20, queryTimeout := 1000, rowSize := fun _ => 8, finalSize := fun _ => 10 }
    let ce := webExecQuery (cfgWith true true false true true) w (.table t) 0
    ce.status = .success ∧ ce.rows = [r 0, r 1] ∧ (webRespond ce).1 = 200 := by decide

/-- D4 with an expired deadline -/
theorem d4_deadline_witness :
    let t : Table := { file := [(r 0, true), (r 1, true), (r 2, true)], mem := [], includeMem := false, oomAt := none, co := none }
    let w : WebOpts := { maxResponseBytes := 1000, queryTimeout := 0, lag := 1, rowSize := fun _ => 8, finalSize := fun _ => 10 }
    let ce := webExecQuery (cfgWith true true false true true) w (.table t) 5
    ce.status = .success ∧ ce.rows = [r 0] := by decide

/-- subquery deadline ignored: `NOT (k IN (SELECT …)) LIMIT 1` under an expired deadline
    delivers a row the complete subquery result excludes; no error -/
theorem subq_witness :
    let sub : Plan := .flatten (fun x => [x]) (.mock [r 7, r 0] none none)
    let main : Plan := .limit 1 (.flatten (fun x => [x, { x with ts := 1 }])
      (.subqFilter sub (·.key) (fun dims x => !dims.contains x.key) (.mock [r 0, r 1] none none)))
    let o := embedded ⟨cfgWith true true true false true, some 3⟩ main .none noSize 5
    o.rows = [r 0] ∧ o.told = false ∧
    (embedded ⟨cfgWith true true true false true, none⟩ main .none noSize 5).rows = [r 1] := by decide

/-- subquery statistics dropped: a partition that fails during the subquery makes the filter
    incomplete; the main query runs everywhere and reports 2/2 -/
theorem subq_stats_witness :
    let pr (p k : Nat) : Row := { key := k, ts := 0, vals := [1], part := p }
    let sub : Plan := .cluster { parts := [⟨[pr 0 1], .ok⟩, ⟨[pr 1 2], .noHandler⟩],
                                 events := [.msg 0 false, .msg 0 false, .msg 1 false], unflat := false }
    let cl : Plan := .cluster { parts := [⟨[pr 0 1], .ok⟩, ⟨[pr 1 2], .ok⟩],
                                events := [.msg 0 false, .msg 0 false, .msg 1 false, .msg 1 false], unflat := false }
    let main : Plan := .subqFilter sub (·.key) (fun dims x => dims.contains x.key) cl
    let o := embedded ⟨cfgWith true true true true false, none⟩ main .none noSize 0
    o.rows = [pr 0 1] ∧ o.told = false ∧
    (embedded ⟨cfgWith true true true true true, none⟩ main .none noSize 0).err = some .incomplete := by decide

/-! ## Non-vacuity -/

/-- a complete run: nothing is told and everything is delivered -/
example :
    let t : Table := { file := [(r 0, true), (r 1, true)], mem := [r 2], includeMem := true, oomAt := none, co := none }
    let o := embedded ⟨Cfg.fixed, some 100⟩ (.sort List.reverse (.flatten (fun x => [x]) (.table t))) .none noSize 0
    o.rows = [r 2, r 1, r 0] ∧ o.told = false := by decide

/-- the same consumer fault as in `d3_witness`, after the fix: told -/
example :
    let t : Table := { file := [(r 0, true), (r 1, true)], mem := [r 2, r 3], includeMem := true, oomAt := none, co := none }
    let o := embedded ⟨Cfg.fixed, none⟩ (.table t) (.failAt 3) noSize 0
    o.rows = [r 0, r 1, r 2] ∧ o.err = some .consumer ∧ o.stats = some ⟨1, 0, []⟩ := by decide

/-- coalescing: a failing neighbour does not touch us (before the fix for D8 it did) -/
example :
    let bad : CoIter := { sink := ⟨fun n _ _ => (n + 1, 0, if n == 1 then Reply.fail .consumer else Reply.proceed)⟩, deadline := none, first := true }
    let t : Table := { file := [(r 0, true), (r 1, true)], mem := [r 2], includeMem := true, oomAt := none, co := some bad }
    (embedded ⟨Cfg.fixed, none⟩ (.table t) .none noSize 0).rows = [r 0, r 1, r 2] ∧
    (embedded ⟨Cfg.fixed, none⟩ (.table t) .none noSize 0).told = false ∧
    -- before 49f0895 the neighbour's error ended our scan too, and we were told
    (embedded ⟨Cfg.preD8, none⟩ (.table t) .none noSize 0).rows = [r 0] ∧
    (embedded ⟨Cfg.preD8, none⟩ (.table t) .none noSize 0).err = some .consumer := by decide

/-- a cluster query with a partition without handler: told by the statistics, partition listed -/
example :
    let pr (p k : Nat) : Row := { key := k, ts := 0, vals := [1], part := p }
    let cl : Cluster := { parts := [⟨[pr 0 1, pr 0 2], .ok⟩, ⟨[pr 1 3], .noHandler⟩, ⟨[pr 2 4], .failAfter 0⟩],
                          events := [.msg 1 false, .msg 0 false, .msg 2 false, .msg 0 false, .msg 0 false], unflat := false }
    let o := embedded ⟨Cfg.fixed, none⟩ (.cluster cl) .none noSize 0
    o.rows = [pr 0 1, pr 0 2] ∧ o.err = none ∧ o.stats = some ⟨3, 1, [1, 2]⟩ ∧ o.told = true := by decide

/-- two stale handlers in front of a live one; another partition's stream ends after one row
    without the end-of-results message: complete for the first, listed as missing for the second -/
example :
    let pr (p k : Nat) : Row := { key := k, ts := 0, vals := [1], part := p }
    let cl : Cluster := { parts := [⟨[pr 0 1, pr 0 2], effectiveOutcome [.stale, .stale, .answer .ok]⟩,
                                    ⟨[pr 1 3, pr 1 4], effectiveOutcome [.stale, .answer (.eofAfter 1)]⟩],
                          events := [.msg 0 false, .msg 1 false, .msg 0 false, .msg 1 false, .msg 0 false], unflat := false }
    let o := embedded ⟨Cfg.fixed, none⟩ (.cluster cl) .none noSize 0
    o.rows = [pr 0 1, pr 1 3, pr 0 2] ∧ o.err = none ∧ o.stats = some ⟨2, 1, [1]⟩ := by decide

/-- the leader's timer fires while a partition hangs -/
example :
    let pr (p k : Nat) : Row := { key := k, ts := 0, vals := [1], part := p }
    let cl : Cluster := { parts := [⟨[pr 0 1], .ok⟩, ⟨[pr 1 3, pr 1 4], .silentAfter 1⟩],
                          events := [.msg 0 false, .msg 1 false, .msg 0 false, .msg 1 false, .tick 50, .timeout], unflat := false }
    let o := embedded ⟨Cfg.fixed, none⟩ (.cluster cl) .none noSize 0
    o.rows = [pr 0 1, pr 1 3] ∧ o.err = none ∧ o.stats = some ⟨2, 1, [1]⟩ := by decide

/-- an already expired deadline: rows without any requested column are skipped in silence
    (complete, empty, no error), rows with an EMPTY requested column are delivered, so the guard
    behind the first of them reports the deadline -/
example :
    let t0 : Table := { file := [(⟨1, 0, [], 0⟩, false), (⟨2, 0, [], 0⟩, false)], mem := [], includeMem := true, oomAt := none, co := none }
    let t1 : Table := { file := [(⟨1, 0, [], 0⟩, true), (⟨2, 0, [], 0⟩, true)], mem := [], includeMem := true, oomAt := none, co := none }
    let q (t : Table) := embedded ⟨Cfg.fixed, some 0⟩ (.flatten (fun x => x.vals.map (fun v => { x with vals := [v] })) (.group ⟨id, false⟩ (.table t))) .none noSize 1
    (q t0).rows = [] ∧ (q t0).err = none ∧ (q t0).stats = some ⟨1, 1, []⟩ ∧
    (q t1).rows = [] ∧ (q t1).err = some .deadline ∧ (q t1).stats = some ⟨1, 0, []⟩ := by decide

/-- LIMIT: the source is stopped after n rows, no error, not told -/
example :
    let o := embedded ⟨Cfg.fixed, some 50⟩ (.limit 2 (.mock [r 0, r 1, r 2, r 3] (some 3) none)) .none noSize 0
    o.rows = [r 0, r 1] ∧ o.told = false := by decide

/-- web after the fix: the size cap yields an error entry and HTTP 500 -/
example :
    let t : Table := { file := [(r 0, true), (r 1, true), (r 2, true)], mem := [], includeMem := false, oomAt := none, co := none }
    let w : WebOpts := { maxResponseBytes := 20, queryTimeout := 1000, rowSize := fun _ => 8, finalSize := fun _ => 10 }
    let ce := webExecQuery Cfg.fixed w (.table t) 0
    ce.status = .error ∧ ce.err = some .size ∧ webRespond ce = (500, []) := by decide

/-- the memory check happens at the 1000th, 2000th, … row -/
example : oomHit (some 1) 999 = false ∧ oomHit (some 1) 1000 = true ∧ oomHit (some 2) 1000 = false ∧
    oomHit (some 2) 2000 = true ∧ oomHit none 1000 = false := by decide

end Zeno.C13
