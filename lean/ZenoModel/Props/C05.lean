/-
C05 — combining partial aggregates equals aggregating the raw points directly.

Property theorems only (helper lemmas: Lemmas/Expr*.lean, Lemmas/Seq*.lean).
All statements quantify over every valid PERCENTILE-free expression tree `e`
(`Ex.valid`, `Ex.noPtile`), every list of points and every split, with no bound.
The leaf arithmetic (`Gen.*`) is regenerated from /repo/expr on every run, so a
change to a closure re-opens these obligations.
-/
import ZenoModel.Lemmas.ExprLaws
import ZenoModel.Lemmas.Seq
import ZenoModel.Lemmas.SeqMerge

namespace Zeno.C05
open Zeno

variable (x : Ext)

/-- Merging two partial states = accumulating all points into one state. -/
theorem merge_homomorphism {e : Ex} (hv : e.valid = true) (hp : e.noPtile = true)
    (ps₁ ps₂ : List Pt) :
    e.mrg (e.acc x ps₁) (e.acc x ps₂) = e.acc x (ps₁ ++ ps₂) := by
  have h1 := mrg_foldl x hv hp ps₂ (acc_wf x hv hp ps₁) (wf_empty e)
  rw [mrg_empty_right hv hp (acc_wf x hv hp ps₁)] at h1
  simpa [Ex.acc, List.foldl_append] using h1

/-- Three-way split. -/
theorem merge_homomorphism3 {e : Ex} (hv : e.valid = true) (hp : e.noPtile = true)
    (ps₁ ps₂ ps₃ : List Pt) :
    e.mrg (e.mrg (e.acc x ps₁) (e.acc x ps₂)) (e.acc x ps₃) = e.acc x (ps₁ ++ ps₂ ++ ps₃) := by
  rw [merge_homomorphism x hv hp, merge_homomorphism x hv hp]

/-- The value read after merging (ratios such as AVG and `/` are recomputed from the merged
    components by `get`) is the value of the single accumulation. -/
theorem value_after_merge {e : Ex} (hv : e.valid = true) (hp : e.noPtile = true)
    (ps₁ ps₂ : List Pt) :
    e.val x (e.mrg (e.acc x ps₁) (e.acc x ps₂)) = e.val x (e.acc x (ps₁ ++ ps₂)) := by
  rw [merge_homomorphism x hv hp]

/-- Merge is commutative on well-formed states … -/
theorem merge_comm {e : Ex} (hv : e.valid = true) (hp : e.noPtile = true)
    {a b : List Cell} (ha : WF e a) (hb : WF e b) : e.mrg a b = e.mrg b a :=
  mrg_comm hv hp ha hb

/-- … and associative. -/
theorem merge_assoc {e : Ex} (hv : e.valid = true) (hp : e.noPtile = true)
    {a b c : List Cell} (ha : WF e a) (hb : WF e b) (hc : WF e c) :
    e.mrg (e.mrg a b) c = e.mrg a (e.mrg b c) :=
  mrg_assoc hv hp ha hb hc

/-- Every accumulated state is well-formed, so the hypotheses above are met by every state the
    system can produce by accumulating points (and, by `mrg_wf`, by merging such states). -/
theorem acc_wellformed {e : Ex} (hv : e.valid = true) (hp : e.noPtile = true) (ps : List Pt) :
    WF e (e.acc x ps) := acc_wf x hv hp ps

/-- The order in which two batches of points are accumulated does not matter. -/
theorem acc_batches_commute {e : Ex} (hv : e.valid = true) (hp : e.noPtile = true)
    (ps₁ ps₂ : List Pt) : e.acc x (ps₁ ++ ps₂) = e.acc x (ps₂ ++ ps₁) := by
  rw [← merge_homomorphism x hv hp, ← merge_homomorphism x hv hp,
    merge_comm hv hp (acc_wf x hv hp ps₁) (acc_wf x hv hp ps₂)]

/-- COUNT merges by adding counts although it updates by adding one. -/
theorem count_merge_adds (a b : Rat) : aggMerge .count true a b = a + b := by
  simp [aggMerge, Gen.agg_COUNT_merge]

/-- Restricting a stored series to a time range keeps exactly the periods whose end lies in
    `(asOf', until']` — the bounds rounded down onto the series' own grid, `0` meaning "no
    bound" — with their states unchanged; every other period reads as empty.  (That the
    operand is not modified is the frame property checked at byte level by the `seq`
    engine and proved for the heap model under C04.) -/
theorem truncate_keeps_window (e : Ex) {res : Int} (h : 0 < res) (q : Seq) (asOf hi : Int) (t : Int) :
    (Sq.truncate (some q) res asOf hi).at e res t =
      if (roundUntilDown asOf res q.hi = 0 ∨ roundUntilDown asOf res q.hi < t) ∧
         (roundUntilDown hi res q.hi = 0 ∨ t ≤ roundUntilDown hi res q.hi)
      then Sq.at (some q) e res t else e.empty :=
  sem_truncate e h q asOf hi t

/-- … and the rounded bounds are the grid points just below the requested ones. -/
theorem truncate_bounds_rounding {t res hi : Int} (h : 0 < res) (ht : t ≠ 0) (hh : hi ≠ 0) :
    (hi - roundUntilDown t res hi) % res = 0 ∧ roundUntilDown t res hi ≤ t ∧
      t - res < roundUntilDown t res hi :=
  roundUntilDown_spec h ht hh

/-- Merging two stored series (memory with disk, partition with partition): for every period
    that is still live (at or after the rounded truncateBefore), the merged series holds the
    merge of the two operands' states of that period — for any relative alignment of the two
    series on the common grid, any lengths, gaps or overlaps. -/
theorem series_merge_semantics {e : Ex} (hv : e.valid = true) (hp : e.noPtile = true)
    {res : Int} (h : 0 < res) (a b : Seq) (ha : CellsWF e a.cells) (hb : CellsWF e b.cells)
    (hal : (a.hi - b.hi) % res = 0) (tb t : Int)
    (hlive : roundUntilUp tb res (max a.hi b.hi) ≤ t) :
    (Sq.merge e res (some a) (some b) tb).at e res t =
      e.mrg (Sq.at (some a) e res t) (Sq.at (some b) e res t) :=
  sem_merge hv hp h a b ha hb hal tb t hlive

/-- Series merge is commutative in value on every live period. -/
theorem series_merge_comm {e : Ex} (hv : e.valid = true) (hp : e.noPtile = true)
    {res : Int} (h : 0 < res) (a b : Seq) (ha : CellsWF e a.cells) (hb : CellsWF e b.cells)
    (hal : (a.hi - b.hi) % res = 0) (tb t : Int)
    (hlive : roundUntilUp tb res (max a.hi b.hi) ≤ t) :
    (Sq.merge e res (some a) (some b) tb).at e res t =
      (Sq.merge e res (some b) (some a) tb).at e res t := by
  have hal' : (b.hi - a.hi) % res = 0 := by
    have hd : res ∣ a.hi - b.hi := Int.dvd_of_emod_eq_zero hal
    have : b.hi - a.hi = -(a.hi - b.hi) := by omega
    rw [this]
    exact Int.emod_eq_zero_of_dvd (Int.dvd_neg.mpr hd)
  have hmax : max b.hi a.hi = max a.hi b.hi := Int.max_comm _ _
  rw [sem_merge hv hp h a b ha hb hal tb t hlive,
    sem_merge hv hp h b a hb ha hal' tb t (by rw [hmax]; exact hlive)]
  exact mrg_comm hv hp (at_wf ha res t) (at_wf hb res t)

/-- Merging with an empty series returns the other one unchanged. -/
theorem series_merge_empty (e : Ex) (res : Int) (s : Sq) (tb : Int) :
    Sq.merge e res none s tb = s ∧ Sq.merge e res s none tb = s := by
  cases s <;> simp [Sq.merge]

/-! Non-vacuity: a concrete non-trivial expression and points meet the hypotheses, and the
    homomorphism computes the expected numbers. -/

def exE : Ex := .bin .div (.agg .sum (.field "a")) (.avg (.field "b") (.const 1))
def exPs₁ : List Pt := [{ vals := [("a", 3), ("b", 4)] }, { vals := [("a", 1)] }]
def exPs₂ : List Pt := [{ vals := [("a", 5), ("b", 2)] }]

example : exE.valid = true ∧ exE.noPtile = true := by decide
example : exE.mrg (exE.acc default exPs₁) (exE.acc default exPs₂) =
    [.agg (some 9), .avg (some (2, 6))] := by decide +kernel
example : exE.val default (exE.acc default (exPs₁ ++ exPs₂)) = some 3 := by decide +kernel

def exSeq : Seq := ⟨1000, [[.agg (some 1)], [.agg (some 2)], [.agg (some 3)], [.agg (some 4)]]⟩
example : Sq.truncate (some exSeq) 10 975 995 = some ⟨990, [[.agg (some 2)], [.agg (some 3)]]⟩ := by
  decide +kernel

def exSeqB : Seq := ⟨980, [[.agg (some 10)], [.agg none], [.agg (some 30)]]⟩
example : CellsWF (.agg .sum (.field "a")) exSeq.cells ∧ (exSeq.hi - exSeqB.hi) % 10 = 0 := by
  constructor
  · intro c hc; simp [exSeq] at hc; rcases hc with rfl | rfl | rfl | rfl <;> rfl
  · decide
example : Sq.merge (.agg .sum (.field "a")) 10 (some exSeq) (some exSeqB) 0 =
    some ⟨1000, [[.agg (some 1)], [.agg (some 2)], [.agg (some 13)], [.agg (some 4)], [.agg (some 30)]]⟩ := by
  decide +kernel

end Zeno.C05
