/-
C07 — ASOF/UNTIL return exactly the periods inside the requested time window.

`planLocal` (Model/Query.lean) is `asOfUntilFor` + `resolutionFor` of planner/local.go; the
restriction of a stored series to the window is `Sq.truncate` (the first thing
`Sequence.SubMerge` does to its source).  The `query` engine compares real bounded queries
with the model and with the raw-point spec `specQuery`, whose window clause is literally
`asOf < periodEnd ∧ periodEnd ≤ until`.
-/
import ZenoModel.Lemmas.Seq
import ZenoModel.Model.QuerySpec

namespace Zeno.C07
open Zeno

theorem roundUp_zero (res : Int) : roundUp 0 res = 0 := by
  unfold roundUp goRound
  by_cases hr : res ≤ 0
  · simp [hr]
  · have : (0 : Int) % res = 0 := Int.zero_emod res
    simp [hr, this]
    omega

/-- Without a time range the window is the table's:
    `(roundUp (roundUp now res − retention) res, roundUp now res]`. -/
theorem window_default (cfg : TableCfg) (now : Int) (q : Query)
    (h0 : q.asOf = 0 ∧ q.hi = 0 ∧ q.asOfOffset = 0 ∧ q.untilOffset = 0) :
    (windowFor cfg now q).asOf = roundUp (roundUp now cfg.res - cfg.retention) cfg.res ∧
      (windowFor cfg now q).hi = roundUp now cfg.res ∧
      (windowFor cfg now q).asOfChanged = false ∧ (windowFor cfg now q).untilChanged = false := by
  obtain ⟨ha, hh, hao, huo⟩ := h0
  simp [windowFor, ha, hh, hao, huo, roundUp_zero, tableAsOf, tableUntil]

/-- With a time range, the window's bounds are the requested ones rounded up (or the table's
    when the rounded value coincides with it). -/
theorem window_requested (cfg : TableCfg) (now : Int) (q : Query) :
    ((windowFor cfg now q).asOf = (windowFor cfg now q).qAsOf ∨ (windowFor cfg now q).asOf = tableAsOf cfg now) ∧
    ((windowFor cfg now q).hi = (windowFor cfg now q).qUntil ∨ (windowFor cfg now q).hi = tableUntil cfg now) := by
  simp only [windowFor]
  constructor
  · by_cases hc : ((roundUp (if q.asOfOffset ≠ 0 then now + q.asOfOffset else q.asOf) cfg.res ≠ 0 &&
        roundUp (if q.asOfOffset ≠ 0 then now + q.asOfOffset else q.asOf) cfg.res ≠ tableAsOf cfg now) = true)
    · left; rw [if_pos hc]
    · right; rw [if_neg hc]
  · by_cases hc : ((roundUp (if q.untilOffset ≠ 0 then now + q.untilOffset else q.hi) cfg.res ≠ 0 &&
        roundUp (if q.untilOffset ≠ 0 then now + q.untilOffset else q.hi) cfg.res ≠ tableUntil cfg now) = true)
    · left; rw [if_pos hc]
    · right; rw [if_neg hc]

/-- A requested bound is moved UP to the next period boundary of the table, never down, and by
    less than one resolution. -/
theorem bound_rounded_up {t res : Int} (h : 0 < res) :
    roundUp t res % res = 0 ∧ t ≤ roundUp t res ∧ roundUp t res < t + res :=
  ⟨roundUp_mod h, roundUp_ge h, roundUp_lt h⟩

/-- A bound that lies on the series' grid is used as it is. -/
theorem aligned_bound_exact {t res hi : Int} (h : 0 < res) (ht : t ≠ 0) (hh : hi ≠ 0)
    (hal : (hi - t) % res = 0) : roundUntilDown t res hi = t := by
  obtain ⟨hg, hle, hgt⟩ := roundUntilDown_spec (t := t) h ht hh
  generalize roundUntilDown t res hi = r at *
  have hm : (t - r) % res = 0 := by
    have : t - r = (hi - r) - (hi - t) := by omega
    rw [this, Int.sub_emod, hg, hal]; simp
  have hx : t - r = res * ((t - r) / res) := by
    have := Int.mul_ediv_add_emod (t - r) res; omega
  by_cases hz : (t - r) / res ≤ 0
  · have : res * ((t - r) / res) ≤ 0 := Int.mul_nonpos_of_nonneg_of_nonpos (Int.le_of_lt h) hz
    omega
  · have : res * 1 ≤ res * ((t - r) / res) := Int.mul_le_mul_of_nonneg_left (by omega) (Int.le_of_lt h)
    omega

/-- WINDOW, EXACTLY: restricting a stored series to `(asOf, until]` with both bounds on the
    series' grid (the planner has rounded them) keeps every period with `asOf < end ≤ until`
    with its state unchanged and makes every other period read as empty — so a period wholly
    inside is returned with the value the unbounded query reports, and a period that ends at or
    before `asOf`, or after `until`, is not returned. -/
theorem window_exact (e : Ex) {res : Int} (h : 0 < res) (q : Seq) (asOf hi : Int)
    (ha : asOf ≠ 0) (hh : hi ≠ 0) (hq : q.hi ≠ 0)
    (hal1 : (q.hi - asOf) % res = 0) (hal2 : (q.hi - hi) % res = 0) (T : Int) :
    (Sq.truncate (some q) res asOf hi).at e res T =
      if asOf < T ∧ T ≤ hi then Sq.at (some q) e res T else e.empty := by
  rw [sem_truncate e h q asOf hi T, aligned_bound_exact h ha hq hal1, aligned_bound_exact h hh hq hal2]
  simp [ha, hh]

/-- Unaligned bounds (only possible for series off the absolute grid): the straddling period is
    decided by rounding the bound DOWN on the series' grid, i.e. a period is kept iff it ends
    after the largest grid point ≤ asOf and at or before the largest grid point ≤ until. -/
theorem window_general (e : Ex) {res : Int} (h : 0 < res) (q : Seq) (asOf hi T : Int) :
    (Sq.truncate (some q) res asOf hi).at e res T =
      if (roundUntilDown asOf res q.hi = 0 ∨ roundUntilDown asOf res q.hi < T) ∧
         (roundUntilDown hi res q.hi = 0 ∨ T ≤ roundUntilDown hi res q.hi)
      then Sq.at (some q) e res T else e.empty :=
  sem_truncate e h q asOf hi T

/-- A query whose (rounded) asOf is earlier than the table's is rejected, not silently clamped. -/
theorem asOf_before_table_rejected (cfg : TableCfg) (now : Int) (q : Query)
    (hlt : (windowFor cfg now q).asOf < tableAsOf cfg now) :
    planLocal cfg now q = .error .asOfBeforeTable := by
  unfold planLocal
  simp [hlt]

/-- The group operator always spans at least one output period (`group.GetAsOf`). -/
theorem at_least_one_period (hi asOf0 res : Int) :
    hi - (if hi - asOf0 < res then hi - res else asOf0) ≥ res := by
  by_cases h : hi - asOf0 < res
  · rw [if_pos h]; omega
  · rw [if_neg h]; omega

/-- The spec keeps exactly the accepted rows whose native period end lies in `(lo, hi]`. -/
theorem spec_window_clause (rows : List AccRow) (lo hi : Int) (r : AccRow) :
    r ∈ rows.filter (fun r => lo < r.period ∧ r.period ≤ hi) ↔ r ∈ rows ∧ lo < r.period ∧ r.period ≤ hi := by
  simp [List.mem_filter]

/-! Non-vacuity -/

def exSeq : Seq := ⟨1000, [[.agg (some 1)], [.agg (some 2)], [.agg (some 3)], [.agg (some 4)]]⟩
example : (exSeq.hi - 970) % 10 = 0 ∧ (exSeq.hi - 990) % 10 = 0 := by decide
example : Sq.truncate (some exSeq) 10 970 990 = some ⟨990, [[.agg (some 2)], [.agg (some 3)]]⟩ := by decide +kernel

end Zeno.C07
