/-
C01 — each ingested point is aggregated exactly once into the right group and period.

Stated for one column of the row store (one field of one group key; the fan-out of a
point to its key's row and to every field's column is the list plumbing of
`Model/Store.lean`, tied to the code by the `store` correspondence engine, which also
evaluates the table-level raw-point spec `specTable` of `Model/Spec.lean`).  A script
is ANY finite interleaving of: rows of accepted points of this key, accepted points of
other keys (they only move the virtual clock), rejected points, and flushes with or
without raw pass-through — no bound on its length.
-/
import ZenoModel.Lemmas.ColumnSpec

namespace Zeno.C01
open Zeno

variable (x : Ext)

/-- After any script, a memstore-inclusive scan returns, for every period `T` that has not
    expired, exactly the accumulation (from the empty state, each once, in arrival order) of
    the rows of accepted points whose timestamp rounds up to `T` — whatever flushes happened. -/
theorem ingest_refines_spec (cfg : ColCfg) (hv : cfg.e.valid = true) (hp : cfg.e.noPtile = true)
    (hres : 0 < cfg.res) (ops : List ColOp) (hpos : OpsPos ops) (T : Int)
    (hl : Live cfg (Col.run x cfg ops).now T) (hT0 : 0 < T) :
    ((Col.run x cfg ops).view cfg true).at cfg.e cfg.res T = cfg.e.acc x (rowsFor cfg T 0 ops) := by
  rw [view_eq_spec x cfg hv hp hres (colInv_run x cfg hv hp hres ops hpos) T hl hT0, spec_cells_eq_acc]

/-- The period that counts a point is the least multiple of the resolution that is ≥ its
    timestamp, and no other: the point's half-open period `(T − res, T]`. -/
theorem period_of_point {ts res T : Int} (h : 0 < res) (hT : T % res = 0) :
    (T - res < ts ∧ ts ≤ T) ↔ T = roundUp ts res :=
  period_unique h hT

theorem period_is_least {ts res m : Int} (h : 0 < res) (hm : m % res = 0) (hge : ts ≤ m) :
    roundUp ts res ≤ m ∧ ts ≤ roundUp ts res ∧ roundUp ts res % res = 0 :=
  ⟨roundUp_least h hm hge, roundUp_ge h, roundUp_mod h⟩

/-- A row is counted in the period its timestamp rounds up to and in no other period
    (`rowsFor` of any other period does not contain it). -/
theorem counted_once (cfg : ColCfg) (now ts : Int) (pt : Pt) (T : Int) :
    rowsFor cfg T now [.ingest ts pt] =
      if accepted cfg now ts ∧ roundUp ts cfg.res = T then [pt] else [] := by
  simp only [rowsFor]
  by_cases ha : accepted cfg now ts = true <;> by_cases hT : roundUp ts cfg.res = T <;> simp [ha, hT]

/-- The virtual clock of the column equals the spec's: the maximum timestamp of the accepted
    points so far. -/
theorem clock_agrees (cfg : ColCfg) (hv : cfg.e.valid = true) (hp : cfg.e.noPtile = true)
    (hres : 0 < cfg.res) (ops : List ColOp) (hpos : OpsPos ops) :
    (Col.run x cfg ops).now = (ColSpec.run x cfg ops).now :=
  (colInv_run x cfg hv hp hres ops hpos).now_eq

/-- `_points = SUM(_point)` with `_point = 1` on every row: each row adds one. -/
theorem points_step (c : Option Rat) :
    (Ex.agg .sum (.field "_point")).upd x [.agg c] { vals := [("_point", 1)] } =
      [.agg (some (c.getD 0 + 1))] := by
  cases c <;> simp [Ex.upd, Ex.update, Pt.get, aggUpdate, Gen.agg_SUM_update]

/-- … so the accumulated `_points` state of a period is the number of its rows. -/
theorem points_counts_rows (n : Nat) :
    (Ex.agg .sum (.field "_point")).acc x (List.replicate (n + 1) { vals := [("_point", 1)] }) =
      [.agg (some ((n : Rat) + 1))] := by
  induction n with
  | zero =>
    simp only [Ex.acc, List.replicate, List.foldl, Ex.empty]
    rw [points_step]; simp
  | succ n ih =>
    rw [List.replicate_succ', Ex.acc, List.foldl_append]
    unfold Ex.acc at ih
    rw [ih]
    simp only [List.foldl]
    rw [points_step]
    simp

/-! Non-vacuity: a concrete script with out-of-order points, another key's point, a rejected
    point and two kinds of flush meets every hypothesis. -/

def exCfg : ColCfg := { e := .agg .sum (.field "a"), res := 10, retention := 100 }
def exOps : List ColOp :=
  [.ingest 1003 { vals := [("a", 2)] }, .flush false, .ingest 1001 { vals := [("a", 5)] },
   .tick 1040, .ingest 995 { vals := [("a", 1)] }, .flush true, .late 3, .ingest 1010 { vals := [("a", 7)] }]

example : exCfg.e.valid = true ∧ exCfg.e.noPtile = true ∧ 0 < exCfg.res ∧ OpsPos exOps := by
  refine ⟨by decide, by decide, by decide, ?_⟩
  simp [exOps, OpsPos]
example : rowsFor exCfg 1010 0 exOps = [{ vals := [("a", 2)] }, { vals := [("a", 5)] }, { vals := [("a", 7)] }] := by
  decide +kernel
example : ((Col.run default exCfg exOps).view exCfg true).at exCfg.e exCfg.res 1010 = [.agg (some 14)] := by
  decide +kernel

end Zeno.C01
