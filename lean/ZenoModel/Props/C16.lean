/-
C16 — malformed client input yields an error, never a crash or a stalled pipeline.

Property theorems only (helper lemmas: Lemmas/SqlDispatch.lean).  The model
(Model/SqlDispatch.lean) gives, for every sqlparser AST, the SET of possible outcomes
`ok | error | panic` of `sql.Parse`, `sql.TableFor` and `Fields.Get`, with every type
assertion, index and panicking callee of sql/sql.go as an explicit `panic` outcome; and the
insert path as a state machine with `recover` semantics.  The theorems quantify over all
ASTs (unbounded nesting) that satisfy the three grammar invariants `wf` (tuples non-empty,
function names non-empty, FROM non-empty), and over all payload sequences.
`Facts.*` is regenerated from /repo on every run, so a new unchecked assertion, a removed
`recover` or a new dispatch-table entry re-opens the `decide` obligations below.
The behaviour of the code as found (before the C16 fixes) is kept as witnesses at the end.

Lexer agreement (Model/SqlLex.lean, Lemmas/SqlLex.lean): `sql.Parse` runs two lexers over the
same text, the pre-scan `checkLiteralIdentifiers` and sqlparser's tokenizer, and the second never
returns from a backtick identifier that is open at the end of the input.  The theorems say that
the pre-scan (as regenerated: `prescan_shape_matches`) accepts exactly the inputs on which the
tokenizer terminates, for every byte sequence.
-/
import ZenoModel.Lemmas.SqlDispatch
import ZenoModel.Lemmas.SqlLex
import ZenoModel.Generated.Facts

namespace Zeno.C16
open Zeno Zeno.Sql Zeno.Sql.Ins

/-- `sql.Parse` (after sqlparser accepted the text), with the C16 repairs in place -/
abbrev parseModel (s : Stmt) : Res Unit := parseStmt Cfg.fixed s

/-! ## SQL: parsing and planning never panic -/

/-- `sql.Parse` returns a query or an error for every statement kind and every expression
    tree (any nesting depth): `panic` is not among its possible outcomes. -/
theorem parse_never_panics (s : Stmt) (h : s.wf = true) : (parseModel s).pan = false :=
  (noPanic_all (sizeOf s)).T s (Nat.le_refl _) h

/-- `sql.TableFor` never panics. -/
theorem tableFor_never_panics (s : Stmt) (h : s.wf = true) : (tableFor Cfg.fixed s).pan = false :=
  np_tableFor s h

/-- `query.Fields.Get(known)` (what the planner calls on the parsed query) never panics,
    whatever fields the table has. -/
theorem fields_never_panic (known : List (String × Bool)) (s : Stmt) (h : s.wf = true) :
    (fieldsOf Cfg.fixed known s).pan = false := by
  unfold fieldsOf
  split
  · rename_i fields _ _ _ _ _ _
    simp only [np_void]
    exact (noPanic_all _).F _ fields (Nat.le_refl _) (by simp_all [Stmt.wf, Sel.wf])
  · rfl

/-- any expression, used as a field expression or as a dimension expression -/
theorem expr_dispatch_never_panics (c : Ctx) (e : Ex) (d : Bool) (h : e.wf = true) :
    (exprFor Cfg.fixed c e d).pan = false ∧ (goExprFor Cfg.fixed e).pan = false :=
  ⟨(noPanic_all _).E c e d (Nat.le_refl _) h, (noPanic_all _).G e (Nat.le_refl _) h⟩

/-- Non-SELECT statements are rejected with an error (not just "not a panic"). -/
theorem non_select_is_error (s : Stmt) (h : ∀ sel, s ≠ .select sel) :
    parseModel s = Res.error ∧ tableFor Cfg.fixed s = Res.error := by
  cases s <;> first | exact absurd rfl (h _) | exact ⟨rfl, rfl⟩

/-- The WHERE clause is a boolean expression by the grammar; whenever `goExprFor` accepts it,
    the resulting expression evaluates to a `bool`, so `result.(bool)` in
    planner.applySubQueryFilters (guarded there by `result != nil`) cannot fail. -/
theorem where_is_bool (e : Ex) (hb : e.isBoolKind = true) (t : GoTy)
    (h : (goExprFor Cfg.fixed e).val = some t) : t = GoTy.bool :=
  (goExprFor_bool e hb).h t h

/-! ## Regenerated facts against hand-written expectations -/

/-- Sites the extractor cannot see a guard for, with the reason why the assertion cannot fail.
    (file, function, asserted type, expression, reason).  A site that CAN fail on client input
    does not belong here: it is a defect. -/
def expectedUnguarded : List (String × String × String × String × String) := [
  ("insert.go", "(*table).doInsert", "bool", "ok",
    "value of where.Eval for the table's own WHERE clause (operator SQL, boolean by grammar: where_is_bool); the only caller is (*table).insert, which has a deferred recover() (recover_boundaries_present)"),
  ("planner/local.go", "applySubQueryFilters", "bool", "result",
    "result != nil is checked in the same condition, and a non-nil result of the WHERE expression is a bool (where_is_bool)"),
  ("sql/sql.go", "(*selectClause).addExpr", "expr.Expr", "fe",
    "fe was produced two statements above by the checked assertion fe, ok := _fe.(expr.Expr) with !ok returning; asserting a non-nil expr.Expr to expr.Expr cannot fail")
]

def siteMatches (s : Facts.AssertSite) (e : String × String × String × String × String) : Bool :=
  e.1 == s.file && e.2.1 == s.fn && e.2.2.1 == s.typ && e.2.2.2.1 == s.expr

/-- Every single-value type assertion in sql/*.go, planner/*.go, core/*.go, insert.go, query.go,
    web/insert.go, rpc/server/rpc_server.go is guarded (type switch, ok-check, type-equality check,
    deferred recover) or listed above with its reason — and nothing listed above is stale. -/
theorem facts_all_guarded :
    Facts.assertSites.all (fun s => s.guarded || expectedUnguarded.any (siteMatches s)) = true ∧
    expectedUnguarded.all (fun e => Facts.assertSites.any (fun s => !s.guarded && siteMatches s e)) = true := by
  decide

/-- The functions whose deferred `recover()` the model relies on still have it:
    `table.insert` (bad point ⇒ skipped), the query boundaries (a panic while executing a query
    fails that query, not the process: the shared iteration goroutine, the gRPC / web / remote
    query handlers, the planner's sub query goroutines), `InsertRaw`'s byte-map probe. -/
def expectedRecover : List (String × String) := [
  ("insert.go", "(*table).insert"),
  ("insert.go", "checkByteMap"),
  ("table.go", "(*iteration).safeOnValue"),
  ("rpc/server/rpc_server.go", "(*server).Query"),
  ("web/query.go", "(*handler).doQuery"),
  ("cluster_query.go", "(*DB).queryForRemote"),
  ("cluster_follow.go", "(*DB).mapPartitionRequest"),
  ("planner/subquery.go", "planSubQueries (goroutine)")
]

theorem recover_boundaries_present :
    expectedRecover.all (fun e => Facts.recoverFuncs.contains e) = true := by
  decide

/-- The dispatch tables of the model are exactly the map literals of sql/sql.go and
    expr/math.go (a new function name re-opens the model). -/
theorem dispatch_tables_match :
    Facts.sqlFuncTables = [
      ("aggregateFuncs", aggregateFuncs), ("binaryAggregateFuncs", binaryAggregateFuncs),
      ("operators", operators), ("conditions", conditions), ("nullaryGoExpr", nullaryGoExpr),
      ("unaryGoExpr", unaryGoExpr), ("binaryGoExpr", binaryGoExpr), ("ternaryGoExpr", ternaryGoExpr),
      ("varGoExpr", varGoExpr), ("varGoExprMinParams", ["CONCAT"]), ("unaryMathFNs", unaryMathFNs)] := by
  decide

/-! ## Inserts: a bad payload is rejected or skipped, and ingestion continues -/

/-- `DB.InsertRaw` itself never panics in the caller's goroutine (with or without a dimension
    whitelist): malformed byte maps are rejected before they are sliced. -/
theorem insertRaw_never_panics (wl : Bool) (p : Payload) :
    insertRaw (ICfg.fixed wl) p ≠ Ack.callerPanic := by
  obtain ⟨sk, fo, dv, vv, fr, vals⟩ := p
  cases wl <;> cases sk <;> cases fo <;> cases dv <;> cases vv <;> simp [insertRaw, ICfg.fixed]

/-- A bad payload (unreadable byte maps, unknown stream, follower, empty array value, …) is either
    rejected with an error — nothing changes — or written and then skipped: the table keeps its
    rows, the WAL offset advances by one, the pipeline stays alive. -/
theorem bad_insert_is_skipped_or_rejected (wl : Bool) (s : St) (p : Payload)
    (hb : p.bad = true) (hs : s.dead = false) :
    let s' := step (ICfg.fixed wl) s p
    s'.rows = s.rows ∧ s'.dead = false ∧
      ((insertRaw (ICfg.fixed wl) p = Ack.rejected ∧ s' = s) ∨
       (insertRaw (ICfg.fixed wl) p = Ack.accepted ∧ s'.offset = s.offset + 1)) := by
  intro s'
  cases hr : insertRaw (ICfg.fixed wl) p with
  | callerPanic => exact absurd hr (insertRaw_never_panics wl p)
  | rejected =>
      have hs' : s' = s := by simp [s', step, hr]
      exact ⟨by rw [hs'], by rw [hs', hs], Or.inl ⟨rfl, hs'⟩⟩
  | accepted =>
      -- accepted ⇒ the request is well formed, so it is bad because `doInsert` panics
      have hd : doInsert p = none := by
        obtain ⟨sk, fo, dv, vv, fr, vals⟩ := p
        cases wl <;> cases sk <;> cases fo <;> cases dv <;> cases vv <;>
          simp_all [insertRaw, ICfg.fixed, Payload.bad]
      have ht : tableInsert (ICfg.fixed wl) p = Fate.skipped := by
        unfold tableInsert
        split
        · rfl
        · simp [hd, ICfg.fixed]
      have hs' : s' = { s with offset := s.offset + 1 } := by
        simp [s', step, hr, Ins.apply, hs, ht]
      exact ⟨by rw [hs'], by rw [hs', hs], Or.inr ⟨rfl, by rw [hs']⟩⟩

/-- A point after a bad payload is ingested exactly as if the bad one had not been there:
    the table content after `pre ++ [b] ++ post` equals the content after `pre ++ post`,
    and the pipeline is alive in both. -/
theorem ingest_continues (wl : Bool) (pre post : List Payload) (b : Payload) (hb : b.bad = true) :
    (run (ICfg.fixed wl) St.init (pre ++ [b] ++ post)).rows =
      (run (ICfg.fixed wl) St.init (pre ++ post)).rows ∧
    (run (ICfg.fixed wl) St.init (pre ++ [b] ++ post)).dead = false := by
  have halive : ∀ ps, (run (ICfg.fixed wl) St.init ps).dead = false :=
    fun ps => run_alive _ rfl ps St.init rfl
  refine ⟨?_, halive _⟩
  rw [List.append_assoc, run_append, run_append (ps := pre)]
  generalize hs1 : run (ICfg.fixed wl) St.init pre = s1
  have hd1 : s1.dead = false := hs1 ▸ halive pre
  have hbad := bad_insert_is_skipped_or_rejected wl s1 b hb hd1
  simp only at hbad
  have hsame : SameTable (step (ICfg.fixed wl) s1 b) s1 := ⟨hbad.1, by rw [hbad.2.1, hd1]⟩
  show (run _ s1 ([b] ++ post)).rows = _
  rw [List.singleton_append, run_cons]
  exact (run_sameTable _ post hsame).1

/-- A well-formed fresh point with at least one numeric value is ingested: it adds a row. -/
theorem good_insert_is_ingested (wl : Bool) (s : St) (p : Payload) (hs : s.dead = false)
    (hp : p.streamKnown = true ∧ p.follower = false ∧ p.dimsValid = true ∧ p.valsValid = true ∧ p.fresh = true)
    (n : Nat) (hn : doInsert p = some n) :
    (step (ICfg.fixed wl) s p).rows = s.rows ++ [n] := by
  obtain ⟨sk, fo, dv, vv, fr, vals⟩ := p
  obtain ⟨h1, h2, h3, h4, h5⟩ := hp
  simp only at h1 h2 h3 h4 h5
  subst h1 h2 h3 h4 h5
  cases wl <;> simp_all [step, insertRaw, ICfg.fixed, Ins.apply, tableInsert]

/-! ## Work controlled by numeric parameters: CROSSHIFT expands to at most cap + 1 fields -/

/-- the cap the model uses is the constant of sql/sql.go -/
theorem crosshift_cap_matches :
    Facts.sqlConsts.lookup "maxCrosshiftFields" = some maxCrosshiftFields := by
  decide

/-- The statements of `addCrosshiftExpr` that decide how often its loop runs are, in the source,
    in the order the theorem below is about: zero checks, `interval = |interval|`,
    `limit = |cutoff|`, THEN the cap check, then the loop with its overflow guard. -/
theorem crosshift_statement_order : Facts.crosshiftOps = Cross.canonicalNames ∧
    Cross.canonicalNames.map Cross.Op.ofString = Cross.canonical.map some := by
  decide

/-- For EVERY cutoff and interval (any sign, any magnitude) one CROSSHIFT returns an error or
    adds at most cap + 1 fields: no divergence, no int64 wrap-around, no division by zero.
    Explicit precondition on faithfulness: the two values are durations `ParseDuration` can return,
    i.e. in [-(2^63-1), 2^63-1], so that `-1 * x` is exact in int64 (it is exact in the model's
    `Int` anyway, which is why the hypotheses are not used by the proof). -/
theorem crosshift_fields_bounded (cutoff interval : Int)
    (_hc : -Cross.maxDur ≤ cutoff ∧ cutoff ≤ Cross.maxDur) (_hi : -Cross.maxDur ≤ interval ∧ interval ≤ Cross.maxDur) :
    Cross.crosshift maxCrosshiftFields Cross.canonical cutoff interval = .error ∨
    ∃ n, Cross.crosshift maxCrosshiftFields Cross.canonical cutoff interval = .fields n ∧ (n : Int) ≤ maxCrosshiftFields + 1 :=
  Cross.canonical_bounded maxCrosshiftFields cutoff interval

/-- Without the loop's overflow guard the same bound needs |cutoff| + |interval| ≤ 2^63 - 1
    (otherwise `i += interval` wraps, see the witness below). -/
theorem crosshift_unguarded_needs_no_overflow (cutoff interval : Int)
    (h : cutoff.natAbs + interval.natAbs ≤ Cross.maxDur.toNat) :
    Cross.crosshift maxCrosshiftFields Cross.unguarded cutoff interval = .error ∨
    ∃ n, Cross.crosshift maxCrosshiftFields Cross.unguarded cutoff interval = .fields n ∧ (n : Int) ≤ maxCrosshiftFields + 1 :=
  Cross.unguarded_bounded maxCrosshiftFields cutoff interval h

/-- The CROSSHIFT branch of the dispatch model (`crosshiftTail`, used by `fields_never_panic`)
    errors exactly when this program errors. -/
theorem crosshift_dispatch_agrees (c : Ctx) (v : VKind) (as : String) (l1 l2 : Lit)
    (h1 : l1.durOk = true) (h2 : l2.durOk = true) :
    ((crosshiftTail Cfg.fixed c v as l1 l2).val.isSome = true ↔
      ∃ n, Cross.crosshift maxCrosshiftFields Cross.canonical l1.durNs l2.durNs = .fields n) :=
  Cross.crosshiftTail_agrees c v as l1 l2 h1 h2

/-! ## Lexer agreement: the pre-scan and the tokenizer are two lexers that agree -/

section LexerAgreement
open Zeno.Sql.Lex

set_option maxRecDepth 100000 in
/-- The control skeleton of `checkLiteralIdentifiers` in /repo (every branch condition, loop header,
    return and position update, in source order) is the one the model `preScan` was written
    against: editing a branch condition of the pre-scan re-opens the model. -/
theorem prescan_shape_matches : Facts.prescanShape = expectedShape := by decide

/-- Token by token the pre-scan is the tokenizer: for every input, every amount of fuel and both
    start states, the pre-scan's verdict is the tokenizer's fate. -/
theorem prescan_agrees_with_tokenizer (n : Nat) (first : Bool) (s : Str) :
    preAll n first s = tokAll n first s := preAll_eq n first s

/-- Fuel is not an escape hatch: every token consumes at least one byte, so with more fuel than
    bytes both iterations end with a verdict. -/
theorem lexer_fuel_suffices (s : Str) (first : Bool) :
    (∃ b, tokAll (s.length + 1) first s = some b) ∧ (∃ b, preAll (s.length + 1) first s = some b) :=
  ⟨tokAll_fuel _ first s (Nat.lt_succ_self _), preAll_fuel _ first s (Nat.lt_succ_self _)⟩

/-- THE property: whenever `checkLiteralIdentifiers` returns nil, tokenizing the whole input
    terminates (the parser may stop earlier, at a syntax error; never later) — `sql.Parse` cannot
    hang in `scanLiteralIdentifier`, for any byte sequence. -/
theorem prescan_accepts_implies_tokenizer_terminates (s : Str) (first : Bool)
    (h : preAll (s.length + 1) first s = some true) : tokAll (s.length + 1) first s = some true := by
  rw [← prescan_agrees_with_tokenizer]; exact h

/-- … and it is not over-strict: `ErrUnterminatedIdentifier` is returned only for inputs on which
    the tokenizer would really never return. -/
theorem prescan_rejects_only_if_tokenizer_loops (s : Str) (first : Bool)
    (h : preAll (s.length + 1) first s = some false) : tokAll (s.length + 1) first s = some false := by
  rw [← prescan_agrees_with_tokenizer]; exact h

end LexerAgreement

/-! ## Non-vacuity: concrete inputs, and the findings as witnesses on the code as found -/

private def lit0 : Lit := {}
private def colA : Arg := .ns (.col "a") "" lit0
private def tbl (exprs : Args) (wher : Option Ex := none) (gb : Args := .nil) : Stmt :=
  .select (.mk exprs true exprs .table wher.isSome (wher.getD .other) true gb true)

/-- `SELECT a FROM t` parses. -/
example : parseModel (tbl (.cons colA .nil)) = Res.ok () := by decide
/-- `DELETE FROM t` is an error now; it was a panic (`parsed.(*sqlparser.Select)`, finding D7). -/
example : parseModel .delete = Res.error ∧ (parseStmt Cfg.orig .delete).pan = true := by decide
example : (parseStmt Cfg.orig .union).pan = true ∧ (tableFor Cfg.orig .set).pan = true := by decide
/-- `SELECT * FROM (SELECT a FROM t UNION SELECT a FROM t)`: the FROM-subquery text is parsed again. -/
example : (parseStmt Cfg.orig (.select (.mk .nil true .nil (.subq .union) false .other true .nil true))).pan = true ∧
    parseModel (.select (.mk .nil true .nil (.subq .union) false .other true .nil true)) = Res.error := by decide
/-- `… WHERE LUA('x', 1, 2) = 1`: error now, panic before (`keys.(*goexpr.ArrayExpr)`). -/
private def luaBad : Ex := .cmp "=" (.func "LUA" (.cons (.ns .str "" lit0) (.cons (.ns (.num true true) "" lit0)
  (.cons (.ns (.num true true) "" lit0) .nil)))) (.num true true)
example : (goExprFor Cfg.orig luaBad).pan = true ∧ goExprFor Cfg.fixed luaBad = Res.error := by decide
/-- `… WHERE LUA('x', ARRAY(x), ARRAY(y)) = 1` is accepted. -/
private def arr (n : String) : Arg := .ns (.func "ARRAY" (.cons (.ns (.col n) "" lit0) .nil)) "" lit0
example : goExprFor Cfg.fixed (.cmp "=" (.func "LUA" (.cons (.ns .str "" lit0) (.cons (arr "x") (.cons (arr "y") .nil))))
    (.num true true)) = Res.ok GoTy.bool := by decide
/-- `… WHERE CONCAT() = 1`: goexpr.Concat indexes its (empty) arguments. -/
example : (goExprFor Cfg.orig (.cmp "=" (.func "CONCAT" .nil) (.num true true))).pan = true ∧
    goExprFor Cfg.fixed (.cmp "=" (.func "CONCAT" .nil) (.num true true)) = Res.error := by decide
/-- the grammar invariants matter: an empty tuple would make `e[0]` panic. -/
example : (exprFor Cfg.fixed ⟨[], []⟩ (.tuple .nil) true).pan = true := by decide
/-- an expression with both outcomes: `SELECT SUM(a) AS x FROM t` builds, `Validate()` decides. -/
example : fieldsOf Cfg.fixed [] (tbl (.cons (.ns (.func "SUM" (.cons colA .nil)) "x" lit0) .nil)) =
    ⟨some (), true, false⟩ := by decide

private def good : Payload := ⟨true, false, true, true, true, [.num]⟩
private def emptyArr : Payload := ⟨true, false, true, true, true, [.arrF 0, .num]⟩
private def garbage : Payload := ⟨true, false, false, false, true, []⟩
example : emptyArr.bad = true ∧ garbage.bad = true ∧ good.bad = false := by decide
/-- valid, bad, valid: both valid points arrive, the bad one is skipped and the offset is 3. -/
example : run (ICfg.fixed true) St.init [good, emptyArr, good] = ⟨[1, 1], 3, false⟩ := by decide
/-- garbage bytes are rejected up front now; with a dimension whitelist they used to panic in the
    caller (`dims.Slice` in InsertRaw, i.e. in the gRPC handler's goroutine). -/
example : insertRaw (ICfg.fixed true) garbage = Ack.rejected ∧
    insertRaw ⟨false, true, true⟩ garbage = Ack.callerPanic := by decide
/-- without the `recover` in `table.insert` an empty array kills the pipeline: the valid point
    after it never arrives (what `recover_boundaries_present` protects). -/
example : run ⟨true, false, false⟩ St.init [good, emptyArr, good] = ⟨[1], 1, true⟩ := by decide

/-- `CROSSHIFT(a, '10s', '-3s')`: 4 fields; `('1000s','1s')`: 1000; `('1001s','-1s')`: error. -/
example : Cross.crosshift 1000 Cross.canonical 10000000000 (-3000000000) = .fields 4 ∧
    Cross.crosshift 1000 Cross.canonical 1000000000000 1000000000 = .fields 1000 ∧
    Cross.crosshift 1000 Cross.canonical 1001000000000 (-1000000000) = .error := by decide
/-- the order matters: with the sign normalisation moved below the cap check,
    `CROSSHIFT(a, '100h', '-1ns')` passes the check (negative quotient) and loops 3.6e14 times -/
example : Cross.crosshift 1000 [.zeroCutoff, .zeroInterval, .limitIsCutoff, .absLimit, .cap, .absInterval, .loopGuarded]
    360000000000000 (-1) = .fields 360000000000000 := by decide
/-- … and without the normalisation the loop counter never reaches the limit -/
example : Cross.crosshift 1000 [.zeroCutoff, .zeroInterval, .limitIsCutoff, .absLimit, .cap, .loopGuarded]
    10000000000 (-1000000000) = .diverges := by decide
/-- without the cap: 3.6e14 fields -/
example : Cross.crosshift 1000 [.zeroCutoff, .zeroInterval, .absInterval, .limitIsCutoff, .absLimit, .loopGuarded]
    360000000000000 1 = .fields 360000000000000 := by decide
/-- without the overflow guard (the code before C16-fix-16): `CROSSHIFT(a, '2562047h', '1708031h')`
    passes the cap (quotient 1) and `i += interval` wraps around int64 -/
example : Cross.crosshift 1000 Cross.unguarded 9223369200000000000 6148911600000000000 = .wraps ∧
    Cross.crosshift 1000 Cross.canonical 9223369200000000000 6148911600000000000 = .fields 2 := by decide
/-- without the zero check the cap check divides by zero -/
example : Cross.crosshift 1000 [.zeroCutoff, .absInterval, .limitIsCutoff, .absLimit, .cap, .loopGuarded] 5 0 = .divZero := by decide

/-! ### Lexer agreement: non-vacuity and the findings as witnesses

The inputs are written as `Char` lists (`decide` on `String.toList` of some literals does not
terminate in reasonable time); each is tied to its text by an `example`. -/

section LexerWitnesses
open Zeno.Sql.Lex

/-- closed backtick identifier, a string with an escaped quote, backticks inside comments -/
private def wOk : Str :=
  ['a', ' ', '=', ' ', '\'', 'x', '\\', '\'', '\'', ' ', 'A', 'N', 'D', ' ', '`', 'c', '`', ' ', '/', '*', ' ', '`', ' ', '*', '/', ' ', '-', '-', ' ', '`']
example : wOk = "a = 'x\\'' AND `c` /* ` */ -- `".toList := by decide
/-- an open backtick identifier -/
private def wOpen : Str :=
  ['a', ' ', '=', ' ', '1', ' ', 'A', 'N', 'D', ' ', '`', 'c']
example : wOpen = "a = 1 AND `c".toList := by decide
/-- a literal ending in two backslashes, then an open backtick identifier -/
private def wBackslash : Str :=
  ['x', ' ', '=', ' ', '\'', 'b', '\\', '\\', '\'', ' ', '`', 'c']
example : wBackslash = "x = 'b\\\\' `c".toList := by decide
/-- exponent sign, lone minus, open backtick identifier -/
private def wExponent : Str :=
  ['x', ' ', '=', ' ', '1', 'e', '-', '-', '`', 'c']
example : wExponent = "x = 1e--`c".toList := by decide

/-- accepted, and the tokenizer ends -/
example : preAll 40 true wOk = some true ∧ tokAll 40 true wOk = some true := by decide
/-- rejected, and the tokenizer would loop -/
example : preAll 40 true wOpen = some false ∧ tokAll 40 true wOpen = some false := by decide

/-- the seeded regression (`case ch == '\\' && at(i) == c`: a backslash escapes only the delimiter),
    on the text  x = 'b\\' `c  (two backslashes): the tokenizer takes them as one escaped backslash,
    closes the string at the quote and then meets the open backtick — it never returns.  The mutated
    pre-scan takes the first backslash as a plain byte and the second as escaping the quote, so for
    it the string never ends: it returns nil.  The pre-scan as it is rejects. -/
theorem seeded_backslash_witness :
    preAllWith (preStringWith false) 40 true wBackslash = some true ∧
    tokAll 40 true wBackslash = some false ∧ preAll 40 true wBackslash = some false := by decide

/-- finding N14 (the pre-scan before C16-fix-18 knew strings, comments and backticks, but not
    tokens): in  x = 1e--`c  the tokenizer takes the first `-` as the exponent's sign, so the second
    is a lone minus and the backtick identifier is open: the tokenizer loops.  The old pre-scan
    saw the line comment  --`c  and accepted. -/
theorem old_prescan_witness :
    preOld 40 wExponent = some true ∧ tokAll 40 true wExponent = some false ∧
    preAll 40 true wExponent = some false := by decide

end LexerWitnesses

end Zeno.C16
