/-
C08 — WHERE, HAVING and IN-subquery filters keep exactly the matching rows.

Dimension predicates are opaque bits per row key (evaluated by the real goexpr in the
harness).  The spec `specQuery` applies WHERE to the accepted raw rows *before* bucketing
and HAVING to the finished rows *after* it; the `query` engine compares the real executor
with it, and with metamorphic differentials on the implementation alone.
-/
import ZenoModel.Model.QuerySpec

namespace Zeno.C08
open Zeno

/-- HAVING is a post-filter on the finished rows: a row is kept iff its helper column is 1 … -/
theorem having_keeps_iff (rows : List QRow) (r : QRow) :
    r ∈ havingFilter rows ↔ ∃ r₀ ∈ rows, r₀.vals.getLast? = some 1 ∧ r = { r₀ with vals := r₀.vals.dropLast } := by
  unfold havingFilter
  simp only [List.mem_filterMap]
  constructor
  · rintro ⟨r₀, hm, hs⟩
    by_cases hc : r₀.vals.getLast? = some 1
    · rw [if_pos hc] at hs
      exact ⟨r₀, hm, hc, by cases hs; rfl⟩
    · rw [if_neg hc] at hs; cases hs
  · rintro ⟨r₀, hm, hc, rfl⟩
    exact ⟨r₀, hm, by rw [if_pos hc]⟩

/-- … and the helper column is never exposed: every delivered row has one column less than the
    row it came from (the columns of the HAVING-free field list), same key and period. -/
theorem having_strips_helper (rows : List QRow) (r : QRow) (h : r ∈ havingFilter rows) :
    ∃ r₀ ∈ rows, r.vals.length = r₀.vals.length - 1 ∧ r.key = r₀.key ∧ r.ts = r₀.ts := by
  obtain ⟨r₀, hm, _, rfl⟩ := (having_keeps_iff rows r).mp h
  exact ⟨r₀, hm, by simp, rfl, rfl⟩

/-- HAVING never invents rows or changes their order: the result is a sublist (by key/period). -/
theorem having_sublist (rows : List QRow) :
    ((havingFilter rows).map (fun r => (r.key, r.ts))).Sublist (rows.map (fun r => (r.key, r.ts))) := by
  unfold havingFilter
  induction rows with
  | nil => simp
  | cons r rs ih =>
    by_cases hc : r.vals.getLast? = some 1
    · simp only [List.filterMap_cons, hc, if_true, List.map_cons]
      exact List.Sublist.cons₂ _ ih
    · simp only [List.filterMap_cons, hc, if_false, List.map_cons]
      exact List.Sublist.cons _ ih

/-- WHERE is a pre-filter on the accepted raw rows of the spec: filtering the rows by the key
    predicate and then restricting to the window equals restricting and then filtering —
    the predicate sees nothing but the row's key. -/
theorem where_commutes_with_window (rows : List AccRow) (ok : Key → Bool) (lo hi : Int) :
    (rows.filter (fun r => ok r.key)).filter (fun r => lo < r.period ∧ r.period ≤ hi) =
      (rows.filter (fun r => lo < r.period ∧ r.period ≤ hi)).filter (fun r => ok r.key) := by
  simp only [List.filter_filter]
  congr 1
  funext r
  exact Bool.and_comm _ _

/-- A row excluded by WHERE contributes to no bucket: it is absent from the filtered rows. -/
theorem where_excludes (rows : List AccRow) (ok : Key → Bool) (r : AccRow) (h : ok r.key = false) :
    r ∉ rows.filter (fun r => ok r.key) := by
  simp [List.mem_filter, h]

/-- `dim IN (SELECT dim …)` has set semantics: only WHICH values the subquery returned matters,
    not their order or multiplicity (`SubQuery.SetResult` + membership test). -/
theorem in_subquery_is_in_list (l₁ l₂ : List String) (hset : ∀ v, v ∈ l₁ ↔ v ∈ l₂) (v : String) :
    l₁.contains v = l₂.contains v := by
  by_cases h : v ∈ l₁
  · have h2 := (hset v).mp h
    simp [h, h2]
  · have h2 : v ∉ l₂ := fun hh => h ((hset v).mpr hh)
    simp [h, h2]

/-- The distinct values are what is kept of the subquery's rows. -/
theorem in_subquery_distinct (l : List String) (v : String) : l.eraseDups.contains v = l.contains v :=
  in_subquery_is_in_list _ _ (fun w => List.mem_eraseDups) v

/-- KNOWN LIMIT (recorded finding `empty-bucket-row`, D13): the helper column — like any selected
    expression with a constant operand — "has a value" on an EMPTY bucket, so a HAVING such as
    `_points <= 0` yields rows for periods without data that the HAVING-free query does not
    return.  Witness on the model of the expression layer: -/
theorem having_helper_has_value_without_data :
    (Ex.bin .le (.agg .sum (.field "_point")) (.const 0)).val default
      (Ex.bin .le (.agg .sum (.field "_point")) (.const 0)).empty = some 1 := by
  decide +kernel

/-! Non-vacuity -/

def exRows : List QRow :=
  [{ ts := 10, key := [("d", "s:x")], vals := [5, 1] }, { ts := 20, key := [("d", "s:x")], vals := [7, 0] },
   { ts := 10, key := [("d", "s:y")], vals := [9, 1] }]
example : havingFilter exRows =
    [{ ts := 10, key := [("d", "s:x")], vals := [5] }, { ts := 10, key := [("d", "s:y")], vals := [9] }] := by
  decide +kernel

end Zeno.C08
