/-
C11 — the distributed query plan is equivalent to the local plan.

Property theorems only (helper lemmas: Lemmas/Plan*.lean).  Model: Model/Plan.lean.

Quantifiers: every query tree (SELECT with a FROM-subquery chain of any depth, any field
expressions that are valid and PERCENTILE-free, any WHERE / IF / GROUP BY / CROSSTAB functions
on keys, any HAVING, period, stride), every hash function, every partition-key list, every
number of partitions, every list of rows, every split that routes rows by `partitionFor`.
Hypotheses are explicit: `TreeWF` (distinct GROUP BY names, the one-to-one declarations of
goexpr hold — they do not for LEN, see `len_not_one_to_one` — and no `*` next to explicit
dimensions), `NPWF` (valid PERCENTILE-free fields, GROUP BY expressions read the key through
their params, no dimension called `_crosstab`), and for list equality of ORDER BY results
that ORDER BY decides (`StrictTotalOn`); without it the results are equal as multisets.
-/
import ZenoModel.Lemmas.PlanInSub
import ZenoModel.Lemmas.PlanText
import ZenoModel.Model.SubMerge

namespace Zeno.C11
open Zeno Zeno.Plan Zeno.PlanLemmas

variable (x : Ext)

/-! ## pushdown -/

/-- A query is pushed down whole only when every output group is confined to a single
    partition: if `pushdownAllowed` says yes, two table rows whose keys end up in the same
    outermost group are routed to the same partition — for every hash, every partition-key
    list, every number of partitions and every FROM-subquery chain. -/
theorem pushdown_sound (h : DKey → Nat) (pk : List String) (t : QTree) (hwf : TreeWF t)
    (hp : pushdownAllowed pk t = true) (n : Nat) (k₁ k₂ : DKey)
    (hk : chainKey t k₁ = chainKey t k₂) :
    partitionFor h pk k₁ n = partitionFor h pk k₂ n := by
  unfold pushdownAllowed at hp
  split at hp
  · cases hp
  · rename_i hc
    split at hp
    · cases hp
    · rename_i hs
      have hs' : subsClean t = true := by simpa using hs
      have hc' : t.top.ctab = none := by
        cases h' : t.top.ctab with
        | none => rfl
        | some _ => simp [h'] at hc
      have := pushdownWalk_sound pk t true [] id hwf (subsClean_noCtab t hs' hc')
        (fun a b hab => by simpa using hab) hp k₁ k₂ hk
      simp [partitionFor, this]

/-- … in terms of rows and output groups of a single SELECT. -/
theorem pushdown_sound_rows (h : DKey → Nat) (pk : List String) (q : Query) (s : Src)
    (hwf : QWF q) (hp : pushdownAllowed pk (.table q) = true) (n : Nat) (r₁ r₂ : PRow)
    (hg : gid q s r₁ = gid q s r₂) :
    partitionFor h pk r₁.key n = partitionFor h pk r₂.key n :=
  pushdown_sound h pk (.table q) hwf hp n r₁.key r₂.key (congrArg Prod.fst hg)

/-- The union of the partitions' results is the local result over the union of the
    partitions (before the leader's ORDER BY / LIMIT): exact list equality, groups listed in
    partition order.  `Routed`: rows in different parts have different partition numbers
    (`splitBy_routed`: the split by `partitionFor` is such a split, and by `splitBy_perm` its
    parts together are the table). -/
theorem pushdown_equiv_rows (h : DKey → Nat) (pk : List String) (n : Nat) (t : QTree) (s : Src)
    (hwf : TreeWF t) (hp : pushdownAllowed pk t = true) (parts : List (List PRow))
    (hr : Routed (fun r => partitionFor h pk r.key n) parts) :
    (parts.map (runTreePre x t s)).flatten = runTreePre x t s parts.flatten := by
  have hp' := hp
  unfold pushdownAllowed at hp
  split at hp
  · cases hp
  · rename_i hc
    split at hp
    · cases hp
    · rename_i hs
      have hs' : subsClean t = true := by simpa using hs
      have hc' : t.top.ctab = none := by
        cases h' : t.top.ctab with
        | none => rfl
        | some _ => simp [h'] at hc
      have hsep : parts.Pairwise (KeySep (fun k => id (chainKey t k))) := by
        refine hr.imp ?_
        intro A B hAB a ha b hb e
        exact hAB a ha b hb (pushdown_sound h pk t hwf hp' n a.key b.key e)
      exact ((runTreePre_flatten x t id s parts (subsClean_noCtab t hs' hc')
        (subsClean_oloFree t hs') hsep).1).symm

/-- Whole-query pushdown, queries without LIMIT: executing the cluster plan (every
    partition runs the query including its ORDER BY, the leader orders the union) yields
    exactly the rows of the local plan over the union of the partitions — as a list when
    ORDER BY decides (or is absent). -/
theorem pushdown_equiv (h : DKey → Nat) (pk : List String) (n : Nat) (t : QTree) (s : Src)
    (hwf : TreeWF t) (hp : pushdownAllowed pk t = true) (parts : List (List PRow))
    (hr : Routed (fun r => partitionFor h pk r.key n) parts)
    (hl : t.top.olo.limit = 0) (ho : t.top.olo.offset = 0)
    (hord : t.top.olo.orderBy ≠ [] →
      StrictTotalOn (less t.top.olo.orderBy) (runTreePre x t s parts.flatten)) :
    clusterRun x pk parts t s = runTree x t s parts.flatten := by
  rw [clusterRun_pushdown x pk parts t s hp, runTree_olo,
    ← pushdown_equiv_rows x h pk n t s hwf hp parts hr]
  have hpo : (partOlo t.top.olo).limit = 0 ∧ (partOlo t.top.olo).offset = 0 := by
    simp [partOlo, hl]
  have hperm : (parts.flatMap (fun p => olo (partOlo t.top.olo) (runTreePre x t s p))).Perm
      (parts.map (runTreePre x t s)).flatten := by
    rw [flatten_map_eq_flatMap]
    exact flatMap_perm_congr parts _ _ (fun p _ => olo_nolimit_perm _ hpo.1 hpo.2 _)
  by_cases hob : t.top.olo.orderBy = []
  · have he : emptyOlo t.top.olo := ⟨hob, hl, ho⟩
    have hpe : emptyOlo (partOlo t.top.olo) := ⟨hob, hpo.1, hpo.2⟩
    rw [olo_empty he, olo_empty he]
    simp only [olo_empty hpe]
    rw [flatten_map_eq_flatMap]
  · apply olo_eq_of_perm _ hperm hob
    have := hord hob
    rw [← pushdown_equiv_rows x h pk n t s hwf hp parts hr] at this
    exact this.perm hperm.symm

/-- With LIMIT (and in general): the cluster plan returns as many rows as the local plan.
    (Which rows a LIMIT keeps among tied or unordered rows is not determined by the query;
    the full statement for LIMIT under a deciding ORDER BY is `pushdown_equiv_limit`.) -/
theorem pushdown_equiv_count (h : DKey → Nat) (pk : List String) (n : Nat) (t : QTree) (s : Src)
    (hwf : TreeWF t) (hp : pushdownAllowed pk t = true) (parts : List (List PRow))
    (hr : Routed (fun r => partitionFor h pk r.key n) parts)
    (hl : t.top.olo.limit = 0) :
    (clusterRun x pk parts t s).length = (runTree x t s parts.flatten).length := by
  rw [clusterRun_pushdown x pk parts t s hp, runTree_olo,
    ← pushdown_equiv_rows x h pk n t s hwf hp parts hr]
  apply olo_length_of_perm
  rw [flatten_map_eq_flatMap]
  refine flatMap_perm_congr parts _ _ (fun p _ => ?_)
  refine olo_nolimit_perm _ ?_ ?_ _ <;> simp [partOlo, hl]

/-- Whole-query pushdown with ORDER BY … LIMIT [OFFSET]: every partition returns its first
    offset+limit rows in ORDER BY order (after fix-05; before it each partition also skipped
    `offset` rows), the leader orders the union, skips `offset` rows and keeps `limit`.  When
    ORDER BY decides (strict total order on the — pairwise distinct — result rows) this is
    exactly the local plan's result. -/
theorem pushdown_equiv_limit (h : DKey → Nat) (pk : List String) (n : Nat) (t : QTree) (s : Src)
    (hwf : TreeWF t) (hp : pushdownAllowed pk t = true) (parts : List (List PRow))
    (hr : Routed (fun r => partitionFor h pk r.key n) parts)
    (hob : t.top.olo.orderBy ≠ []) (hl : t.top.olo.limit > 0)
    (hord : StrictTotalOn (less t.top.olo.orderBy) (runTreePre x t s parts.flatten))
    (hnd : (runTreePre x t s parts.flatten).Nodup) :
    clusterRun x pk parts t s = runTree x t s parts.flatten := by
  have hrows := pushdown_equiv_rows x h pk n t s hwf hp parts hr
  rw [clusterRun_pushdown x pk parts t s hp, runTree_olo, ← hrows]
  rw [← hrows] at hord hnd
  rw [olo_ordered _ hob hl, olo_ordered _ hob hl, drop_take_topk, drop_take_topk]
  simp only [olo_partOlo _ hob hl]
  have := topk_flatMap hord (t.top.olo.offset + t.top.olo.limit) (parts.map (runTreePre x t s))
    (fun _ ha => ha) hnd
  rw [List.flatMap_map] at this
  rw [this]

/-! ## partition-side pre-aggregation + leader-side group / having / order / limit -/

/-- The rows the leader computes from the partitions' states are the rows of the local plan
    over the union of the partitions, up to the order in which groups are listed — for every
    split of the rows whatsoever (the non-pushdown plan does not depend on the routing).
    Uses the merge homomorphism (C05) and "regrouping fine → coarse composes". -/
theorem nonpushdown_equiv_rows (q : Query) (hq : NPWF q) (s : Src) (cv : List String)
    (parts : List (List PRow)) :
    (leaderPre x q cv (parts.flatMap (runStates x (rewriteAst q) s))).Perm
      (runPre x q s cv parts.flatten) :=
  leaderPre_perm x hq s cv parts

/-- … per output group and column: the merged state equals the state accumulated directly. -/
theorem nonpushdown_state (q : Query) (hq : NPWF q) (s : Src) (G : DKey × Int)
    (sel : Option String) (hsel : sel = none ∨ q.ctab.isSome = true) (e : Ex)
    (hv : e.valid = true) (hp : e.noPtile = true) (parts : List (List PRow)) :
    leaderState e sel ((parts.flatMap (runStates x (rewriteAst q) s)).filter (fun m => cid q m == G)) =
      e.acc x ((((parts.flatten.filter (admits q s)).filter (fun r => gid q s r == G)).filter
        (selR q sel)).map (toPt q)) :=
  leaderState_eq x hq s G sel hsel hv hp parts

/-- the leader derives the same crosstab columns as the local plan -/
theorem nonpushdown_crosstab_columns (q : Query) (hq : NPWF q) (s : Src) (parts : List (List PRow)) :
    (leaderCtabValues q (parts.flatMap (runStates x (rewriteAst q) s))).mergeSort
        (fun a b => decide (a ≤ b)) = cvOf q s parts.flatten := by
  unfold cvOf
  apply strSort_eq_of_mem
  · unfold leaderCtabValues; split <;> simp [nodup_dedup]
  · unfold ctabValues; split <;> simp [nodup_dedup]
  · exact leader_ctab_values x hq s parts

/-- Non-pushdown plan = local plan: as lists when ORDER BY decides; -/
theorem nonpushdown_equiv (q : Query) (hq : NPWF q) (s : Src) (parts : List (List PRow))
    (hob : q.olo.orderBy ≠ [])
    (hord : StrictTotalOn (less q.olo.orderBy) (runPre x q s (cvOf q s parts.flatten) parts.flatten)) :
    leaderSide x q (parts.flatMap (runStates x (rewriteAst q) s)) = run x q s parts.flatten := by
  unfold leaderSide run
  rw [nonpushdown_crosstab_columns x q hq s parts]
  have hp := nonpushdown_equiv_rows x q hq s (cvOf q s parts.flatten) parts
  exact olo_eq_of_perm _ hp hob (hord.perm hp.symm)

/-- as multisets without ORDER BY and LIMIT; -/
theorem nonpushdown_equiv_unordered (q : Query) (hq : NPWF q) (s : Src) (parts : List (List PRow))
    (ho : emptyOlo q.olo) :
    (leaderSide x q (parts.flatMap (runStates x (rewriteAst q) s))).Perm (run x q s parts.flatten) := by
  unfold leaderSide run
  rw [nonpushdown_crosstab_columns x q hq s parts]
  exact olo_perm_of_unordered _ (nonpushdown_equiv_rows x q hq s _ parts) ho

/-- and with the same number of rows in every case (LIMIT without a deciding ORDER BY). -/
theorem nonpushdown_equiv_count (q : Query) (hq : NPWF q) (s : Src) (parts : List (List PRow)) :
    (leaderSide x q (parts.flatMap (runStates x (rewriteAst q) s))).length =
      (run x q s parts.flatten).length := by
  unfold leaderSide run
  rw [nonpushdown_crosstab_columns x q hq s parts]
  exact olo_length_of_perm _ (nonpushdown_equiv_rows x q hq s _ parts)

/-- `clusterRun` on a table query that may not be pushed down is the non-pushdown plan. -/
theorem clusterRun_nonpushdown (pk : List String) (parts : List (List PRow)) (q : Query) (s : Src)
    (hp : pushdownAllowed pk (.table q) = false) :
    clusterRun x pk parts (.table q) s =
      leaderSide x q (parts.flatMap (runStates x (rewriteAst q) s)) := by
  simp [clusterRun, hp]

/-! ## the plan as a whole -/

/-- `planner.Plan` with `QueryCluster` set — whole-query pushdown where allowed, else
    partition-side pre-aggregation for a table query, else the enclosing SELECT on the leader
    over the cluster plan of its FROM-subquery (recursively) — returns the rows of the local
    plan over the union of the partitions, as a multiset, for every query tree without
    ORDER BY / LIMIT and every split routed by `partitionFor`. -/
theorem cluster_equiv_unordered (h : DKey → Nat) (pk : List String) (n : Nat) (s : Src)
    (parts : List (List PRow)) (hr : Routed (fun r => partitionFor h pk r.key n) parts) :
    ∀ (t : QTree), TreeWF t → TreeNP t →
      (clusterRun x pk parts t s).Perm (runTree x t s parts.flatten) := by
  intro t
  induction t with
  | table q =>
    intro hwf hnp
    by_cases hp : pushdownAllowed pk (.table q) = true
    · apply List.Perm.of_eq
      exact pushdown_equiv x h pk n (.table q) s hwf hp parts hr hnp.2.2.1 hnp.2.2.2
        (fun hne => absurd hnp.2.1 hne)
    · have hp' : pushdownAllowed pk (.table q) = false := by simpa using hp
      rw [clusterRun_nonpushdown x pk parts q s hp']
      exact nonpushdown_equiv_unordered x q hnp.1 s parts hnp.2
  | sub q inner ih =>
    intro hwf hnp
    by_cases hp : pushdownAllowed pk (.sub q inner) = true
    · apply List.Perm.of_eq
      exact pushdown_equiv x h pk n (.sub q inner) s hwf hp parts hr hnp.2.1.2.1 hnp.2.1.2.2
        (fun hne => absurd hnp.2.1.1 hne)
    · have hp' : pushdownAllowed pk (.sub q inner) = false := by simpa using hp
      have ih' := ih hwf.2 hnp.2.2
      simp only [clusterRun, hp', Bool.false_eq_true, if_false, runTree]
      exact run_perm x hnp.1 hnp.2.1 _ (ih'.map _)

/-! ## IN-subqueries

`planSubQueries` plans every IN-subquery of a WHERE with `Plan` and `Opts.IsSubQuery`: with
`QueryCluster` set it is a statement planned for the cluster like any other, and the distinct
values of its dimension become the IN list — the WHERE function — of the enclosing statement.
The theorems above apply to the sub-query's own tree; these state the consequence for the IN
list. -/

/-- `IsSubQuery` replaces the fields and nothing else: the pushdown decision of an
    IN-subquery is `pushdownAllowed` of the sub-query's own tree (GROUP BY, HAVING, ORDER BY /
    LIMIT of its FROM-subqueries, partition keys). -/
theorem in_subquery_decision (pk : List String) (t : QTree) :
    pushdownAllowed pk (asSub t) = pushdownAllowed pk t :=
  pushdownAllowed_asSub pk t

/-- An IN-subquery that is pushed down whole because `pushdownAllowed` says so (no LIMIT;
    ORDER BY deciding or absent) gives the leader exactly the IN list of the local plan — with
    HAVING, since every group of the sub-query then lives on one partition. -/
theorem in_subquery_pushdown_equiv (h : DKey → Nat) (pk : List String) (n : Nat) (t : QTree)
    (s : Src) (dim : String) (hwf : TreeWF (asSub t)) (hp : pushdownAllowed pk t = true)
    (parts : List (List PRow)) (hr : Routed (fun r => partitionFor h pk r.key n) parts)
    (hl : (asSub t).top.olo.limit = 0) (ho : (asSub t).top.olo.offset = 0)
    (hord : (asSub t).top.olo.orderBy ≠ [] →
      StrictTotalOn (less (asSub t).top.olo.orderBy) (runTreePre x (asSub t) s parts.flatten)) :
    inListCluster x pk parts t s dim = inListLocal x t s dim parts.flatten := by
  unfold inListCluster inListLocal
  rw [pushdown_equiv x h pk n (asSub t) s hwf (by rw [in_subquery_decision]; exact hp) parts hr hl ho hord]

/-- … and with ORDER BY … LIMIT k in the sub-query (ORDER BY deciding). -/
theorem in_subquery_pushdown_limit_equiv (h : DKey → Nat) (pk : List String) (n : Nat) (t : QTree)
    (s : Src) (dim : String) (hwf : TreeWF (asSub t)) (hp : pushdownAllowed pk t = true)
    (parts : List (List PRow)) (hr : Routed (fun r => partitionFor h pk r.key n) parts)
    (hob : (asSub t).top.olo.orderBy ≠ []) (hl : (asSub t).top.olo.limit > 0)
    (hord : StrictTotalOn (less (asSub t).top.olo.orderBy) (runTreePre x (asSub t) s parts.flatten))
    (hnd : (runTreePre x (asSub t) s parts.flatten).Nodup) :
    inListCluster x pk parts t s dim = inListLocal x t s dim parts.flatten := by
  unfold inListCluster inListLocal
  rw [pushdown_equiv_limit x h pk n (asSub t) s hwf (by rw [in_subquery_decision]; exact hp)
    parts hr hob hl hord hnd]

/-- Whatever the planner decides for the sub-query (pushdown where allowed, else partition-side
    pre-aggregation with the HAVING condition as a field and HAVING evaluated on the leader,
    else the enclosing SELECT over the cluster plan of its FROM-subquery), the leader's IN
    list has the members of the local plan's, so the enclosing statement filters with the same
    WHERE function on every partition (sub-queries without ORDER BY / LIMIT). -/
theorem in_subquery_equiv (h : DKey → Nat) (pk : List String) (n : Nat) (t : QTree) (s : Src)
    (dim : String) (hwf : TreeWF (asSub t)) (hnp : TreeNP (asSub t))
    (parts : List (List PRow)) (hr : Routed (fun r => partitionFor h pk r.key n) parts) :
    whereIn dim (inListCluster x pk parts t s dim) = whereIn dim (inListLocal x t s dim parts.flatten) := by
  apply whereIn_congr
  intro v
  exact inList_of_perm dim (cluster_equiv_unordered x h pk n s parts hr (asSub t) hwf hnp) v

/-- … and for a table sub-query with a deciding ORDER BY and LIMIT that is not pushed down. -/
theorem in_subquery_nonpushdown_equiv (pk : List String) (q : Query) (s : Src) (dim : String)
    (hq : NPWF (asSubQ q)) (parts : List (List PRow))
    (hp : pushdownAllowed pk (.table q) = false)
    (hob : (asSubQ q).olo.orderBy ≠ [])
    (hord : StrictTotalOn (less (asSubQ q).olo.orderBy)
      (runPre x (asSubQ q) s (cvOf (asSubQ q) s parts.flatten) parts.flatten)) :
    inListCluster x pk parts (.table q) s dim = inListLocal x (.table q) s dim parts.flatten := by
  unfold inListCluster inListLocal
  have hp' : pushdownAllowed pk (asSub (.table q)) = false := by rw [in_subquery_decision]; exact hp
  show inList dim (clusterRun x pk parts (.table (asSubQ q)) s) = inList dim (run x (asSubQ q) s parts.flatten)
  rw [clusterRun_nonpushdown x pk parts (asSubQ q) s hp', nonpushdown_equiv x (asSubQ q) hq s parts hob hord]

/-- The regression "an IN-subquery may always be pushed down, only the distinct values of its
    dimension matter": `WHERE x IN (SELECT x FROM t GROUP BY x HAVING a > 130)` on a table
    partitioned by `y`.  The group x = p has 60 on one partition and 120 on the other (total
    180): pushed down whole, no partition lets it pass and the IN list is empty; the local
    plan and the real cluster plan (which refuses the pushdown) both yield [p]. -/
def inSubQ : Query :=
  { fields := [("x", .agg .sum (.field "x"))],
    having := some (.bin .gt (.agg .sum (.field "a")) (.const 130)),
    by_ := [dimGB "x"], byAll := false }

def inSubRows : List PRow :=
  [⟨[("x", .str "p"), ("y", .int .int 1)], 10, [("_point", 1), ("a", 60)]⟩,
   ⟨[("x", .str "p"), ("y", .int .int 2)], 10, [("_point", 1), ("a", 120)]⟩,
   ⟨[("x", .str "q"), ("y", .int .int 1)], 10, [("_point", 1), ("a", 100)]⟩]

def inSubHash : DKey → Nat := fun k => match k.get "y" with
  | some (.int _ 1) => 0
  | _ => 1

def inSubSrc : Src := { res := 1, hi := 10 }

def inSubParts : List (List PRow) :=
  splitBy (fun r => partitionFor inSubHash ["y"] r.key 2) 2 inSubRows

theorem in_subquery_forced_pushdown_differs :
    pushdownAllowed ["y"] (.table inSubQ) = false ∧
    inList "x" (forcedPushdown default inSubParts (asSub (.table inSubQ)) inSubSrc) = [] ∧
    inListCluster default ["y"] inSubParts (.table inSubQ) inSubSrc "x" = [some (.str "p")] ∧
    inListLocal default (.table inSubQ) inSubSrc "x" inSubParts.flatten = [some (.str "p")] := by
  decide +kernel

/-! ## shipped sub-query results -/

/-- The length/position contract of `Opts.SubQueryResults`: when the lists shipped with a
    statement are, position by position, the lists the leader resolved for the IN-subqueries of
    that statement (one per sub-query, in `WhereSubQueries` order), every partition filters with
    the leader's WHERE function — whatever the partition's own data would give. -/
theorem shipped_lists_positional (comb : List Bool → DKey → Bool) (dims : List String)
    (leader own shipped : List InVals) (hs : shipped = leader) (hl : leader.length = own.length) :
    whereWith comb dims (partitionLists shipped own) = whereWith comb dims leader := by
  subst hs
  simp [partitionLists, hl]

/-- If the number of shipped lists is not the number of IN-subqueries the partition falls back
    to planning and running them itself: it filters with its OWN lists. -/
theorem shipped_count_mismatch_uses_own_lists (comb : List Bool → DKey → Bool) (dims : List String)
    (own shipped : List InVals) (hl : shipped.length ≠ own.length) :
    whereWith comb dims (partitionLists shipped own) = whereWith comb dims own := by
  simp [partitionLists, hl]

/-- The regression "identical IN-subqueries are resolved once, one result per DISTINCT
    sub-query is returned": `x IN (S) OR y IN (S)`, leader lists [L, L], shipped [L]; a
    partition whose own rows give S = [] drops the key (x = p) that the leader's filter keeps. -/
theorem shipped_deduplicated_results_differ :
    let L : InVals := [some (.str "p")]
    let comb : List Bool → DKey → Bool := fun bs _ => bs.any id
    whereWith comb ["x", "y"] (partitionLists [L] [[], []]) [("x", .str "p")] = false ∧
    whereWith comb ["x", "y"] [L, L] [("x", .str "p")] = true := by
  decide

/-- … and results shipped in another order are set on the wrong sub-queries. -/
theorem shipped_reversed_results_differ :
    let L₁ : InVals := [some (.str "p")]
    let L₂ : InVals := [some (.int .int 2)]
    let comb : List Bool → DKey → Bool := fun bs _ => bs.any id
    whereWith comb ["x", "y"] (partitionLists [L₂, L₁] [[], []]) [("x", .str "p")] = false ∧
    whereWith comb ["x", "y"] [L₁, L₂] [("x", .str "p")] = true := by
  decide

/-- The table clause of `pushdownAllowed` (/repo d1dff43): it only ever refuses, so every
    pushdown theorem applies under `pushdownAllowedT`; and when it holds the partition of a
    point is the partition of the row key the table stores (the `Routed` hypothesis is about
    stored keys). -/
theorem pushdownAllowedT_sound (tgb pk : List String) (t : QTree)
    (h : pushdownAllowedT tgb pk t = true) :
    pushdownAllowed pk t = true ∧ ∀ k : DKey, pkProj pk (storedKey tgb k) = pkProj pk k := by
  unfold pushdownAllowedT at h
  simp only [Bool.and_eq_true] at h
  exact ⟨h.2, pkProj_storedKey tgb pk h.1⟩

/-! ## overlapping select expressions on the non-pushdown path -/

/-- The leader's state of every field equals `Ex.acc` over the group's rows ALSO when the
    partition-side select list `fields` contains overlapping expressions (IF(c, f) next to f,
    f + g next to f, the same aggregate under two names): with pass-through fields the
    sub-merger matching, reduced to "first input column with the output's own expression, and
    nothing else" (`pickExact`: exact match wins over matches of parts + bytetree's input
    de-duplication), merges each output column from its own column only. -/
theorem nonpushdown_state_overlapping (q : Query) (hq : NPWF q) (s : Src) (G : DKey × Int)
    (sel : Option String) (hsel : sel = none ∨ q.ctab.isSome = true) (fields : List Ex) (e : Ex)
    (he : e ∈ fields) (hv : e.valid = true) (hp : e.noPtile = true) (parts : List (List PRow)) :
    leaderStateCols fields e sel
        ((parts.flatMap (runStates x (rewriteAst q) s)).filter (fun m => cid q m == G)) =
      e.acc x ((((parts.flatten.filter (admits q s)).filter (fun r => gid q s r == G)).filter
        (selR q sel)).map (toPt q)) := by
  rw [leaderStateCols_eq fields e he]
  exact nonpushdown_state x q hq s G sel hsel e hv hp parts

/-- 0 = no sub-merger, 1 = the expression's own `Merge` (exact match), 2 = anything else
    (conditional / combined / shifted merge of a part) -/
def smTag : Option SM → Nat
  | none => 0
  | some (.direct _) => 1
  | some _ => 2

/-- what `bytetree.New` computes for output column `o` over the input columns `ins` -/
def mergeRow (ins : List Ex) (o : Ex) : List Nat := (dedupInputs ins (o.subMergers ins)).map smTag

def ovA : Ex := .agg .sum (.field "a")
def ovB : Ex := .agg .sum (.field "b")
def ovIf : Ex := .ifE 0 ovA
def ovSum : Ex := .bin .add ovA ovB
def ovMix : Ex := .bin .add ovIf ovB

/-- The real matching rules (Model/SubMerge.lean: `Ex.subMergers` + `dedupInputs`) on
    overlapping pass-through select lists give the diagonal that `pickExact` states: every
    output column is merged from its own input column, directly, and from no other —
    `a, IF(c, a)`; `IF(c, a), a, b`; `a, a + b`; `a, b, IF(c, a) + b, IF(c, a)`; `a, a, IF(c, a)`. -/
theorem overlapping_columns_merge_diagonally :
    mergeRow [ovA, ovIf] ovA = [1, 0] ∧ mergeRow [ovA, ovIf] ovIf = [0, 1] ∧
    mergeRow [ovIf, ovA, ovB] ovIf = [1, 0, 0] ∧ mergeRow [ovIf, ovA, ovB] ovA = [0, 1, 0] ∧
    mergeRow [ovA, ovSum] ovSum = [0, 1] ∧ mergeRow [ovA, ovSum] ovA = [1, 0] ∧
    mergeRow [ovA, ovB, ovMix, ovIf] ovMix = [0, 0, 1, 0] ∧
    mergeRow [ovA, ovB, ovMix, ovIf] ovIf = [0, 0, 0, 1] ∧
    mergeRow [ovA, ovA, ovIf] ovA = [1, 0, 0] ∧ mergeRow [ovA, ovA, ovIf] ovIf = [0, 0, 1] := by
  decide

/-- The regression "ifExpr.SubMergers decides per column": an exact match merges as is, every
    other column gets the conditional merge of whatever the wrapped expression matches.  For
    the select list `a, IF(c, a)` the IF output is then merged from BOTH input columns
    (doubled where the condition holds on the leader's key). -/
def ifSubMergersPerColumn (c : Nat) (w : Ex) (subs : List Ex) : List (Option SM) :=
  (List.zip subs (w.subMergers subs)).map (fun p =>
    if (Ex.ifE c w).sameStr p.1 then some (.direct (.ifE c w)) else p.2.map (SM.cond c))

theorem per_column_if_rule_merges_twice :
    (dedupInputs [ovA, ovIf] (ifSubMergersPerColumn 0 ovA [ovA, ovIf])).map smTag = [2, 1] ∧
    mergeRow [ovA, ovIf] ovIf = [0, 1] := by
  decide

/-! ## the rewrite as text -/

/-- After the fix the partition-side SQL is the rendering of the AST rewrite, for every
    statement: GROUP BY / HAVING / ORDER BY / LIMIT cleared, the HAVING condition appended to
    the select list, the synthesised GROUP BY in the GROUP BY position. -/
theorem rewriteText_refines_ast (s : QSyn) (i : RwInfo) (ct : Option (List Char)) :
    rewriteText s i ct = render (partSyn s i ct) :=
  rewriteText_eq_render s i ct

/-- The text surgery as found produced the same text (modulo blanks) only under the decidable
    hypothesis that each searched keyword is found first at the outer clause. -/
theorem rewriteTextPre_refines_ast (s : QSyn) (i : RwInfo) (ct : Option (List Char))
    (h : OuterClauseFirst s i ct) :
    (rewriteTextPre (render s) s.frm i).map despace = some (despace (rewriteText s i ct)) :=
  rewriteTextPre_refines s i ct h

/-! ## witnesses: the defects found, and non-vacuity -/

/-- D6: `WHERE x = 'group by '`.  The text surgery cuts inside the string literal. -/
def d6Syn : QSyn :=
  { sel := "a".toList, frm := "t".toList, whr := some "x = 'group by '".toList,
    groupBy := some "y".toList }
def d6Info : RwInfo :=
  { hasHaving := false, havingSQL := [], groupByAll := false, params := ["y".toList], hasGroupBy := true }

set_option maxRecDepth 100000 in
theorem d6_text_surgery_cuts_inside_literal :
    rewriteTextPre (render d6Syn) d6Syn.frm d6Info =
      some "select a from t where x = ' group by y".toList ∧
    rewriteText d6Syn d6Info none = "select a from t where x = 'group by ' group by y".toList ∧
    indexOf tGroupBy (lower (render d6Syn)) ≠ some ((renderHead d6Syn).length + 1) := by
  decide

/-- D6: an IN-subquery with its own GROUP BY. -/
def d6SubSyn : QSyn :=
  { sel := "a".toList, frm := "t".toList, whr := some "x in (select x from t group by x)".toList,
    groupBy := some "y".toList }

set_option maxRecDepth 100000 in
theorem d6_text_surgery_cuts_inside_subquery :
    rewriteTextPre (render d6SubSyn) d6SubSyn.frm d6Info =
      some "select a from t where x in (select x from t  group by y".toList := by
  decide

/-- D6: the word CROSSTAB inside a string literal makes a query without CROSSTAB a crosstab
    query (`query.Crosstab = core.ClusterCrosstab`). -/
def d6CtabSyn : QSyn :=
  { sel := "a".toList, frm := "t".toList, whr := some "z != 'crosstab(z)'".toList,
    groupBy := some "y".toList }

set_option maxRecDepth 100000 in
theorem d6_spurious_crosstab :
    concatForCrosstabPre (render d6CtabSyn) = "concat('_', z) as _crosstab".toList ∧
    concatForCrosstab none = [] := by
  decide

/-- a text on which the hypothesis holds (non-vacuity of `rewriteTextPre_refines_ast`) -/
def okSyn : QSyn :=
  { sel := "a".toList, frm := "t".toList, whr := some "x = 'b'".toList,
    groupBy := some "concat('_', x, y) as xy, crosstab(z)".toList,
    having := some "a > 1".toList, orderBy := some "a desc".toList, limit := some "3".toList }
def okInfo : RwInfo :=
  { hasHaving := true, havingSQL := "a > 1 AS _having".toList, groupByAll := false,
    params := ["x".toList, "y".toList], hasGroupBy := true }

set_option maxRecDepth 100000 in
example : indexOf tGroupBy (lower (render okSyn)) = some ((renderHead okSyn).length + 1) := by decide
set_option maxRecDepth 100000 in
example : indexOf (tFrom ++ lower okSyn.frm) (lower (render okSyn)) =
    some ((tSelect ++ okSyn.sel).length + 1) := by decide
set_option maxRecDepth 100000 in
example : concatForCrosstabPre (render okSyn) = concatForCrosstab (some "z".toList) := by decide
set_option maxRecDepth 100000 in
example : rewriteText okSyn okInfo (some "z".toList) =
    "select a, a > 1 AS _having from t where x = 'b' group by x, y, concat('_', z) as _crosstab".toList := by
  decide

/-- LEN(x) is declared one-to-one in `x` by goexpr, but it is not: the hypothesis `GBSound`
    of `pushdown_sound` fails for it (known finding C11-len-declared-one-to-one). -/
def lenGB : GroupBy :=
  { name := "len_x", params := [("x", true)],
    eval := fun k => match k.get "x" with
      | some (.str v) => some (.int .int v.length)
      | _ => none }

theorem len_not_one_to_one : ¬ GBSound lenGB := by
  intro h
  have := h [("x", .str "ab")] [("x", .str "cd")] (by decide) "x" (by decide)
  revert this
  decide

/-- with that declaration the query `GROUP BY LEN(x)` on a table partitioned by `x` is pushed
    down although the group `len_x = 2` has rows in every partition that holds "ab" or "cd" -/
def lenQ : Query := { fields := [("a", .agg .sum (.field "a"))], by_ := [lenGB], byAll := false }

theorem len_pushed_down : pushdownAllowed ["x"] (.table lenQ) = true ∧
    chainKey (.table lenQ) [("x", .str "ab")] = chainKey (.table lenQ) [("x", .str "cd")] ∧
    pkProj ["x"] [("x", .str "ab")] ≠ pkProj ["x"] [("x", .str "cd")] := by
  decide

/-- Before fix-02 only the immediate FROM-subquery was inspected for ORDER BY / LIMIT: a
    LIMIT two levels down was pushed to every partition. -/
def plainQ : Query := { fields := [("a", .agg .sum (.field "a"))] }
def limitQ : Query := { fields := [("a", .agg .sum (.field "a"))], olo := { orderBy := [], limit := 1, offset := 0 } }
def nested3 : QTree := .sub plainQ (.sub plainQ (.table limitQ))

theorem nested_limit_was_pushed_down :
    pushdownAllowedPre ["x"] nested3 = true ∧ pushdownAllowed ["x"] nested3 = false := by
  decide

/-! non-vacuity of the equivalence theorems: a query, a table, two partition-key choices -/

def exQ : Query :=
  { fields := [("a", .agg .sum (.field "a")),
               ("r", .bin .div (.agg .sum (.field "a")) (.avg (.field "b") (.const 1)))],
    having := some (.bin .gt (.agg .sum (.field "a")) (.const 1)),
    by_ := [dimGB "x"], byAll := false,
    olo := { orderBy := [{ field := "a", desc := true }], limit := 0, offset := 0 } }

def exRows : List PRow :=
  [⟨[("x", .str "p"), ("y", .int .int 1)], 10, [("a", 3), ("b", 4)]⟩,
   ⟨[("x", .str "q"), ("y", .int .int 1)], 10, [("a", 1), ("b", 2)]⟩,
   ⟨[("x", .str "p"), ("y", .int .int 2)], 10, [("a", 5), ("b", 2)]⟩,
   ⟨[("x", .str "q"), ("y", .int .int 2)], 10, [("a", 2), ("b", 6)]⟩]

def exSrc : Src := { res := 1, hi := 10 }

/-- hash: by the first partition-key value -/
def exHash : DKey → Nat := fun k => match k with
  | (_, .str "p") :: _ => 0
  | (_, .int _ 1) :: _ => 0
  | _ => 1

def exParts (pk : List String) : List (List PRow) :=
  splitBy (fun r => partitionFor exHash pk r.key 2) 2 exRows

example : QWF exQ := ⟨by decide, by
  intro g hg k₁ k₂ he p hp
  simp only [exQ, List.mem_singleton] at hg
  subst hg
  simp only [dimGB, GroupBy.oneToOne, List.filter, List.map, List.mem_singleton] at hp
  subst hp
  exact he, by decide⟩

example : NPWF exQ := ⟨by decide, by
  intro g hg k₁ k₂ he
  simp only [exQ, List.mem_singleton] at hg
  subst hg
  exact he "x" (by decide), by decide⟩

-- partitioned by x: pushed down; partitioned by y: pre-aggregation by x on the partitions
example : pushdownAllowed ["x"] (.table exQ) = true ∧ pushdownAllowed ["y"] (.table exQ) = false := by
  decide
example : exParts ["y"] = [[exRows[0], exRows[1]], [exRows[2], exRows[3]]] := by decide
example : (run default exQ exSrc exRows).map (·.fields) = [[("a", 8), ("r", 8/3)], [("a", 3), ("r", 3/4)]] := by
  decide +kernel
example : clusterRun default ["y"] (exParts ["y"]) (.table exQ) exSrc = run default exQ exSrc exRows := by
  decide +kernel
example : clusterRun default ["x"] (exParts ["x"]) (.table exQ) exSrc = run default exQ exSrc exRows := by
  decide +kernel

end Zeno.C11
