/-
C17 — concurrent queries on a table each get the result they would get alone.

Model (Model/Coalesce.lean): `doProcessIterations` = table.go after the fixes of D3/D8/D15
(`scanLoop` drives `combined` = `combinedOnValue` over the rows of one shared
`rowStore.iterate`; `Iter.step` = fresh `itVals`, `mapBack` through `indexOfOutField`, the
callback, the iteration's own guard, removal from `remainingIterations`; fan-out of own
outcome / scan error), `Table.scan` = the row source, `…Buggy` = the code as found.

Specification (Lemmas/Coalesce.lean, namespace `Zeno.CoalesceSpec`): `lookupField` /
`projectRow` (the value of a field in a positional row), `consume` (ONE iteration fed a list
of rows laid out for it until it says stop, fails or times out), `alone it rows fail` (what a
query running alone gets from a scan yielding `rows` and ending with `fail`).

What the theorems say.  For every batch (any size), every row stream (any length), every
consumer state machine:
* `coalesced_spec`: the batch result is, iteration by iteration, `alone it (rows projected
  onto it.fields) fail` — a `List.map` over the iterations: nothing of iteration j enters the
  result of iteration i except through the two things that are shared BY DESIGN, the field
  union (which the projection removes again) and the OR of `includeMemStore`.
* `coalesced_equals_solo` (over a `Table`) / `coalesced_equals_solo_stream` (any source):
  that result equals the result of the batch `[it]`.
Hypotheses that cannot be dropped (each with a refuting `example` below):
  duplicate-free field list (`indexOfOutField` = first match), `it.includeMem = OR of the
  batch` (`includeMem_or_leaks`: a disk-only query coalesced with a fresh one is handed
  memstore data — what the code does, reported as known finding), and `Covers`: no file row
  is blank for the iteration (otherwise the coalesced iteration sees such rows with all-nil
  values while the solo scan skips them; no consumer in the repo reacts to an all-nil row).
The pre-fix functions violate the property: `d8_error_aborts_everyone`,
`d3_d8_rows_lost_silently`, `d8_deadline_inherited`, `d8_finished_query_gets_foreign_error`,
`d15_blank_row_ends_solo_scan`.
-/
import ZenoModel.Lemmas.Coalesce

set_option linter.unusedSimpArgs false
set_option linter.unusedVariables false

namespace Zeno.CoalesceSpec
open Zeno.Coalesce

/-- rows of the shared scan laid out for `it` -/
def laidOut {σ : Type} (its : List (Iter σ)) (it : Iter σ) (rows : List Row) : List Recv :=
  rows.map (projectRow (unionFields its []) it.fields)

/-- no file row of the view is blank for the iteration (it requests at least one column every
    file row has; always true for queries over the table's own fields on an unaltered table) -/
def Covers {σ : Type} (t : Table) (it : Iter σ) : Prop :=
  ∀ r ∈ t.view it.includeMem, r.blankFor it.fields = false

end Zeno.CoalesceSpec

/-! ## fixtures of the examples and witnesses
(own namespace: their equation lemmas are not proof obligations of `Zeno.C17`) -/
namespace Zeno.CoalesceEx
open Zeno.Coalesce

/-- table fields -/
def A : FieldId := "a (SUM(a))"
def B : FieldId := "b (SUM(b))"
/-- same NAME as `A`, different expression: a different column -/
def A' : FieldId := "a (MAX(a))"

def fileRow (k : String) (a b : Nat) : TRow := { key := k, cols := [(A, some a), (B, some b)] }
def memRow (k : String) (a b : Nat) : TRow :=
  { key := k, cols := [(A, some a), (B, some b)], mem := true }

def tbl : Table :=
  { disk := [fileRow "k1" 1 2, fileRow "k2" 3 4, fileRow "k3" 5 6],
    fresh := [fileRow "k1" 11 12, fileRow "k2" 3 4, fileRow "k3" 5 6, memRow "k4" 7 8] }

def tblMemOnly : Table :=
  { disk := [], fresh := [memRow "k1" 1 2, memRow "k2" 3 4, memRow "k3" 5 6] }

def q (fields : List FieldId) (c : Nat → String → List Val → Nat × Bool × Option Err)
    (mem : Bool := true) (dl : Option Nat := none) : Iter Nat :=
  { fields := fields, includeMem := mem, deadline := dl, onValue := c, init := 0 }

def out (rs : List (ItResult Nat)) : List (List Recv × Option Err) :=
  rs.map (fun r => (r.recv, r.err))

def bq (fields : List FieldId) (c : Nat → String → List Val → Nat × Bool × Option Err)
    (dl : Option Nat := none) : Iter Nat :=
  { fields := fields, deadline := dl, onValue := c, init := 0 }

def rows3 (mem : Bool) : Table :=
  let r (k : String) (v : Nat) : TRow := { key := k, cols := [("a", some v)], mem := mem }
  { disk := if mem then [] else [r "k1" 1, r "k2" 2, r "k3" 3],
    fresh := [r "k1" 1, r "k2" 2, r "k3" 3] }

def outB (rs : List (ItResult Nat)) : List (List Recv × Option Err) :=
  rs.map (fun r => (r.recv, r.err))

end Zeno.CoalesceEx

namespace Zeno.C17
open Zeno.Coalesce Zeno.CoalesceSpec Zeno.CoalesceEx

/-! ## field union -/

/-- every requested field is in the union, exactly once, and nothing else is -/
theorem union_covers {σ : Type} (its : List (Iter σ)) :
    (unionFields its []).Nodup ∧
    (∀ it ∈ its, ∀ f ∈ it.fields, f ∈ unionFields its [] ∧ (unionFields its []).count f = 1) ∧
    (∀ f ∈ unionFields its [], ∃ it ∈ its, f ∈ it.fields) := by
  have hnd := unionFields_nodup its [] List.nodup_nil
  refine ⟨hnd, ?_, ?_⟩
  · intro it hit f hf
    have hm : f ∈ unionFields its [] := (mem_unionFields its [] f).mpr (Or.inr ⟨it, hit, hf⟩)
    exact ⟨hm, count_eq_one_of_nodup _ f hnd hm⟩
  · intro f hf
    rcases (mem_unionFields its [] f).mp hf with h | h
    · simp at h
    · exact h

/-- a query alone scans exactly its own (duplicate-free) field list, with its own
    `includeMemStore` -/
theorem union_of_one {σ : Type} (it : Iter σ) (h : it.fields.Nodup) :
    unionFields [it] [] = it.fields ∧ orMem [it] = it.includeMem := by
  exact ⟨unionFields_single it h, by simp [orMem]⟩

/-- the shared scan includes the memstore iff somebody asked for it -/
theorem orMem_iff {σ : Type} (its : List (Iter σ)) :
    orMem its = true ↔ ∃ it ∈ its, it.includeMem = true := by
  simp [orMem]

/-! ## mapping back -/

/-- `itVals` is the projection of the shared row onto the iteration's own fields, in its own
    order (nil for a field the scan does not carry) -/
theorem mapping_is_projection {σ : Type} (its : List (Iter σ)) (it : Iter σ) (vals : List Val)
    (hnd : it.fields.Nodup) :
    mapBack (unionFields its []) it.fields vals =
      it.fields.map (lookupField (unionFields its []) vals) :=
  mapBack_eq_project _ _ _ (unionFields_nodup its [] List.nodup_nil) hnd

/-- …and over a table row the projection does not depend on the union at all: it is the
    row's own value of each requested field -/
theorem no_cross_talk {σ : Type} (its : List (Iter σ)) (it : Iter σ) (hit : it ∈ its)
    (hnd : it.fields.Nodup) (r : TRow) :
    mapBack (unionFields its []) it.fields (r.project (unionFields its [])).vals =
      it.fields.map r.get := by
  rw [mapping_is_projection its it _ hnd]
  apply List.map_congr_left
  intro f hf
  exact lookupField_map _ r.get f ((mem_unionFields its [] f).mpr (Or.inr ⟨it, hit, hf⟩))

/-! ## the batch, iteration by iteration -/

/-- Every iteration of a batch gets exactly what it would get alone from the same rows
    projected onto its own fields: same callback inputs in the same order up to and including
    the row at which it stops / fails / times out, same final state, same error. -/
theorem coalesced_spec {σ : Type} (scan : List FieldId → Bool → Stream) (its : List (Iter σ))
    (hnd : ∀ it ∈ its, it.fields.Nodup) :
    doProcessIterations scan its =
      its.map (fun it => alone it (laidOut its it (scan (unionFields its []) (orMem its)).rows)
        (scan (unionFields its []) (orMem its)).fail) := by
  unfold doProcessIterations
  simp only
  rw [scanLoop_eq_runs its _ 0 _ _ (by simp), zipWith_map_right, List.map_map]
  apply List.map_congr_left
  intro it hit
  simp only [Function.comp, alone, laidOut, runIter_eq_consume]
  congr 2
  apply List.map_congr_left
  intro r _
  simp [projectRow, mapping_is_projection its it r.vals (hnd it hit)]

/-- same statement for one position of the batch, needing only THAT iteration's field list to
    be duplicate-free -/
theorem coalesced_spec_at {σ : Type} (scan : List FieldId → Bool → Stream) (its : List (Iter σ))
    (i : Nat) (it : Iter σ) (hi : its[i]? = some it) (hnd : it.fields.Nodup) :
    (doProcessIterations scan its)[i]? =
      some (alone it (laidOut its it (scan (unionFields its []) (orMem its)).rows)
        (scan (unionFields its []) (orMem its)).fail) := by
  unfold doProcessIterations
  simp only
  rw [scanLoop_eq_runs its _ 0 _ _ (by simp), zipWith_map_right, List.map_map]
  simp only [List.getElem?_map, hi, Option.map_some, Function.comp]
  simp only [alone, laidOut, runIter_eq_consume]
  congr 3
  apply List.map_congr_left
  intro r _
  simp [projectRow, mapping_is_projection its it r.vals hnd]

/-- a query alone gets the rows of its own scan as they are -/
theorem solo_spec {σ : Type} (scan : List FieldId → Bool → Stream) (it : Iter σ)
    (hnd : it.fields.Nodup)
    (hwf : ∀ r ∈ (scan it.fields it.includeMem).rows, r.vals.length = it.fields.length) :
    doProcessIterations scan [it] =
      [alone it ((scan it.fields it.includeMem).rows.map (fun r => (r.key, r.vals)))
        (scan it.fields it.includeMem).fail] := by
  rw [coalesced_spec scan [it] (by simpa using hnd)]
  simp only [List.map, laidOut, (union_of_one it hnd).1, (union_of_one it hnd).2]
  congr 2
  apply List.map_congr_left
  intro r hr
  simp [projectRow, map_lookupField_self it.fields r.vals hnd (hwf r hr)]

/-- **Coalesced = solo, any row source.**  If the scan the query would run alone sees the same
    data as the shared scan (same rows up to the projection onto its fields, same end), the
    query gets the same rows, the same final consumer state and the same error in the batch as
    alone — whatever the other iterations request, wherever they stop, fail or time out. -/
theorem coalesced_equals_solo_stream {σ : Type} (scan : List FieldId → Bool → Stream)
    (its : List (Iter σ)) (i : Nat) (it : Iter σ) (hi : its[i]? = some it) (hnd : it.fields.Nodup)
    (hwf : ∀ r ∈ (scan it.fields it.includeMem).rows, r.vals.length = it.fields.length)
    (hrows : (scan it.fields it.includeMem).rows.map (fun r => (r.key, r.vals)) =
      laidOut its it (scan (unionFields its []) (orMem its)).rows)
    (hfail : (scan it.fields it.includeMem).fail = (scan (unionFields its []) (orMem its)).fail) :
    (doProcessIterations scan its)[i]? = (doProcessIterations scan [it])[0]? := by
  rw [coalesced_spec_at scan its i it hi hnd, solo_spec scan it hnd hwf, hrows, hfail]
  rfl

/-! ## over a table -/

theorem blankFor_mono (r : TRow) (F U : List FieldId) (h : ∀ f ∈ F, f ∈ U)
    (hb : r.blankFor F = false) : r.blankFor U = false := by
  simp only [TRow.blankFor, Bool.and_eq_false_iff, Bool.not_eq_false', List.all_eq_false] at *
  rcases hb with hb | ⟨f, hf, hb⟩
  · exact Or.inl hb
  · exact Or.inr ⟨f, h f hf, hb⟩

/-- **Coalesced = solo, over a table.**  On the same table contents, a query whose
    `includeMemStore` equals the OR of the batch and that is not blank on any file row gets
    from ANY batch it is coalesced into exactly what it gets alone. -/
theorem coalesced_equals_solo {σ : Type} (t : Table) (its : List (Iter σ)) (i : Nat) (it : Iter σ)
    (hi : its[i]? = some it) (hnd : it.fields.Nodup) (hmem : it.includeMem = orMem its)
    (hcov : Covers t it) :
    (doProcessIterations t.scan its)[i]? = (doProcessIterations t.scan [it])[0]? := by
  have hit : it ∈ its := List.mem_of_getElem? hi
  have hsub : ∀ f ∈ it.fields, f ∈ unionFields its [] :=
    fun f hf => (mem_unionFields its [] f).mpr (Or.inr ⟨it, hit, hf⟩)
  have hread : ∀ r ∈ (t.readable it.includeMem).1, r ∈ t.view it.includeMem := by
    intro r hr
    unfold Table.readable at hr
    cases hf : t.failAt with
    | none => simpa [hf] using hr
    | some p => rw [hf] at hr; exact List.mem_of_mem_take hr
  have hfilt : ∀ F : List FieldId, (∀ f ∈ it.fields, f ∈ F) →
      (t.readable it.includeMem).1.filter (fun r => !r.blankFor F) = (t.readable it.includeMem).1 := by
    intro F hF
    apply List.filter_eq_self.mpr
    intro r hr
    simp [blankFor_mono r it.fields F hF (hcov r (hread r hr))]
  apply coalesced_equals_solo_stream t.scan its i it hi hnd
  · intro r hr
    simp [Table.scan] at hr
    rcases hr with ⟨tr, _, rfl⟩
    simp [TRow.project]
  · rw [← hmem]
    simp only [Table.scan, laidOut, hfilt it.fields (fun _ h => h), hfilt _ hsub, List.map_map]
    apply List.map_congr_left
    intro r _
    simp only [Function.comp, TRow.project, projectRow, Prod.mk.injEq, true_and]
    apply List.map_congr_left
    intro f hf
    exact (lookupField_map _ r.get f (hsub f hf)).symm
  · rw [← hmem]; simp [Table.scan]

/-! ## stopping -/

/-- once an iteration has answered `more = false`, failed or timed out, no later row of the
    shared scan reaches it and nothing about it changes -/
theorem stopped_iteration_gets_nothing_more {σ : Type} (it : Iter σ) (n : Nat)
    (before after : List Recv) (s : ItState σ)
    (h : (consume it n before s).done.isSome) :
    consume it n (before ++ after) s = consume it n before s := by
  induction before generalizing n s with
  | nil => simpa [consume] using consume_done it n after s (by simpa [consume] using h)
  | cons rv rvs ih => simpa [consume] using ih (n + 1) _ (by simpa [consume] using h)

/-- an iteration receives a prefix of the projected rows: nothing skipped, nothing reordered,
    nothing invented -/
theorem receives_prefix {σ : Type} (it : Iter σ) (n : Nat) (rows : List Recv) (s : ItState σ) :
    ∃ k, (consume it n rows s).recv = s.recv ++ rows.take k := by
  induction rows generalizing n s with
  | nil => exact ⟨0, by simp [consume]⟩
  | cons rv rvs ih =>
    simp only [consume]
    cases hd : s.done with
    | some e =>
      refine ⟨0, ?_⟩
      have hs : consumeStep it n rv s = s := consumeStep_done it n rv s (by simp [hd])
      rw [hs, consume_done it (n + 1) rvs s (by simp [hd])]; simp
    | none =>
      obtain ⟨k, hk⟩ := ih (n + 1) (consumeStep it n rv s)
      refine ⟨k + 1, ?_⟩
      rw [hk]
      have : (consumeStep it n rv s).recv = s.recv ++ [rv] := by
        unfold consumeStep
        simp only [hd]
        split <;> rfl
      rw [this]; simp

/-- an iteration that is still listening when the rows run out has received every row -/
theorem unfinished_received_all {σ : Type} (it : Iter σ) (n : Nat) (rows : List Recv) (s : ItState σ)
    (h : (consume it n rows s).done = none) : (consume it n rows s).recv = s.recv ++ rows := by
  induction rows generalizing n s with
  | nil => simp [consume]
  | cons rv rvs ih =>
    simp only [consume] at h ⊢
    cases hd : s.done with
    | some e =>
      have hs : consumeStep it n rv s = s := consumeStep_done it n rv s (by simp [hd])
      rw [hs, consume_done it (n + 1) rvs s (by simp [hd])] at h
      simp [hd] at h
    | none =>
      rw [ih (n + 1) _ h]
      have : (consumeStep it n rv s).recv = s.recv ++ [rv] := by
        unfold consumeStep
        simp only [hd]
        split <;> rfl
      rw [this]; simp

/-! ## non-vacuity and the findings (concrete, evaluated by the kernel) -/

section Examples

/-- the fixed code on a mixed batch: different field subsets and orders, a LIMIT-like stop, a
    failing consumer, an expired deadline — everybody gets exactly their own projection -/
example : out (doProcessIterations tbl.scan
      [q [B, A] collect, q [A] (stopAt 2), q [B] (errAt 2 7), q [A] collect true (some 0)]) =
    [ ([("k1", [some 12, some 11]), ("k2", [some 4, some 3]), ("k3", [some 6, some 5]),
        ("k4", [some 8, some 7])], none),
      ([("k1", [some 11]), ("k2", [some 3])], none),
      ([("k1", [some 12]), ("k2", [some 4])], some (.consumer 7)),
      ([("k1", [some 11])], some .deadline) ] := by decide

/-- …and each of them alone gets the same -/
example : out (doProcessIterations tbl.scan [q [A] (stopAt 2)]) =
    [([("k1", [some 11]), ("k2", [some 3])], none)] := by decide
example : out (doProcessIterations tbl.scan [q [B] (errAt 2 7)]) =
    [([("k1", [some 12]), ("k2", [some 4])], some (.consumer 7))] := by decide
example : out (doProcessIterations tbl.scan [q [A] collect true (some 0)]) =
    [([("k1", [some 11])], some .deadline)] := by decide

/-- the hypotheses of `coalesced_equals_solo` are satisfiable -/
example : Covers tbl (q [A] (stopAt 2)) := by unfold Covers; decide

/-- `coalesced_equals_solo` applied: the LIMIT-like query at position 1 of the mixed batch -/
example :
    (doProcessIterations tbl.scan
      [q [B, A] collect, q [A] (stopAt 2), q [B] (errAt 2 7), q [A] collect true (some 0)])[1]? =
    (doProcessIterations tbl.scan [q [A] (stopAt 2)])[0]? :=
  coalesced_equals_solo tbl _ 1 (q [A] (stopAt 2)) rfl (by decide) (by decide)
    (by unfold Covers; decide)

/-- an I/O failure of the source reaches exactly those who were still listening -/
example : out (doProcessIterations ({ tbl with failAt := some (2, .source 5) } : Table).scan
      [q [A] collect, q [B] (stopAt 1)]) =
    [ ([("k1", [some 11]), ("k2", [some 3])], some (.source 5)), ([("k1", [some 12])], none) ] := by
  decide

/-- fields are told apart by their printed identity, not by their name -/
example : out (doProcessIterations tbl.scan [q [A] collect false, q [A'] collect false]) =
    [ ([("k1", [some 1]), ("k2", [some 3]), ("k3", [some 5])], none),
      ([("k1", [none]), ("k2", [none]), ("k3", [none])], none) ] := by decide

/-- the duplicate-free hypothesis is needed: `indexOfOutField` only fills the first position -/
example : out (doProcessIterations tbl.scan [q [A, A] collect false]) =
    [([("k1", [some 1, none]), ("k2", [some 3, none]), ("k3", [some 5, none])], none)] := by decide

end Examples

/-- **Shared by design, and a violation of the property as stated**: `includeMemStore` is
    OR-ed over the batch, so a query that asked for disk-only data is handed memstore data
    (a merged value 11 instead of 1, and the memstore-only row k4) when coalesced with a
    query that asked for fresh data.  This is what table.go does. -/
theorem includeMem_or_leaks :
    let t : Table :=
      { disk := [{ key := "k1", cols := [("a", some 1)] }],
        fresh := [{ key := "k1", cols := [("a", some 11)] },
                  { key := "k4", cols := [("a", some 7)], mem := true }] }
    let diskOnly : Iter Nat := { fields := ["a"], includeMem := false, onValue := collect, init := 0 }
    let fresh : Iter Nat := { fields := ["a"], includeMem := true, onValue := collect, init := 0 }
    ((doProcessIterations t.scan [diskOnly, fresh]).map (·.recv))[0]? =
        some [("k1", [some 11]), ("k4", [some 7])] ∧
    ((doProcessIterations t.scan [diskOnly]).map (·.recv))[0]? = some [("k1", [some 1])] := by
  decide

/-- `Covers` is needed: a file row without any of the iteration's columns is skipped by the
    solo scan but shows up (all-nil) in the coalesced one -/
theorem blank_rows_differ :
    let t : Table :=
      { disk := [], fresh := [{ key := "k1", cols := [("a", some 1)] },
                              { key := "k2", cols := [("a", some 2), ("b", some 3)] }] }
    let qb : Iter Nat := { fields := ["b"], onValue := collect, init := 0 }
    let qa : Iter Nat := { fields := ["a"], onValue := collect, init := 0 }
    ((doProcessIterations t.scan [qb, qa]).map (·.recv))[0]? =
        some [("k1", [none]), ("k2", [some 3])] ∧
    ((doProcessIterations t.scan [qb]).map (·.recv))[0]? = some [("k2", [some 3])] := by
  decide

/-! ## the code as found violates the property -/

/-- D8: a failing consumer aborts the shared scan; the healthy query loses every row and is
    handed the other query's error (alone it gets 3 rows and no error) -/
theorem d8_error_aborts_everyone :
    outB (doProcessIterationsBuggy (rows3 false).scanBuggy [bq ["a"] (errAt 1 9), bq ["a"] collect]) =
      [([("k1", [some 1])], some (.consumer 9)), ([], some (.consumer 9))] ∧
    outB (doProcessIterationsBuggy (rows3 false).scanBuggy [bq ["a"] collect]) =
      [([("k1", [some 1]), ("k2", [some 2]), ("k3", [some 3])], none)] ∧
    outB (doProcessIterations (rows3 false).scan [bq ["a"] (errAt 1 9), bq ["a"] collect]) =
      [([("k1", [some 1])], some (.consumer 9)),
       ([("k1", [some 1]), ("k2", [some 2]), ("k3", [some 3])], none)] := by
  refine ⟨by decide, by decide, by decide⟩

/-- D3 + D8: when the rows come from the memstore walk the error is dropped on top of it — the
    healthy query gets 0 of 3 rows and NO error -/
theorem d3_d8_rows_lost_silently :
    outB (doProcessIterationsBuggy (rows3 true).scanBuggy [bq ["a"] (errAt 1 9), bq ["a"] collect]) =
      [([("k1", [some 1])], none), ([], none)] := by
  decide

/-- D8: a query without deadline inherits the (expired) deadline of the query it is coalesced
    with: 1 of 3 rows, `deadline exceeded` -/
theorem d8_deadline_inherited :
    outB (doProcessIterationsBuggy (rows3 false).scanBuggy
        [bq ["a"] collect (some 0), bq ["a"] collect none]) =
      [([("k1", [some 1])], some .deadline), ([("k1", [some 1])], some .deadline)] := by
  decide

/-- D8: a query that had already finished (LIMIT reached) is handed a later error of another
    query -/
theorem d8_finished_query_gets_foreign_error :
    outB (doProcessIterationsBuggy (rows3 false).scanBuggy [bq ["a"] (stopAt 1), bq ["a"] (errAt 2 9)]) =
      [([("k1", [some 1])], some (.consumer 9)),
       ([("k1", [some 1]), ("k2", [some 2])], some (.consumer 9))] := by
  decide

/-- D15: alone, a query for a column the first file row does not have ends at that row (no
    error, memstore part never read); coalesced with a query for another column it sees
    everything -/
theorem d15_blank_row_ends_solo_scan :
    let t : Table :=
      { disk := [], fresh := [{ key := "k1", cols := [("a", some 1)] },
                              { key := "k2", cols := [("a", some 2), ("b", some 3)] },
                              { key := "k3", cols := [("b", some 4)], mem := true }] }
    outB (doProcessIterationsBuggy t.scanBuggy [bq ["b"] collect]) = [([], none)] ∧
    outB (doProcessIterationsBuggy t.scanBuggy [bq ["b"] collect, bq ["a"] collect]) =
      [([("k1", [none]), ("k2", [some 3]), ("k3", [some 4])], none),
       ([("k1", [some 1]), ("k2", [some 2]), ("k3", [none])], none)] ∧
    outB (doProcessIterations t.scan [bq ["b"] collect]) = [([("k2", [some 3]), ("k3", [some 4])], none)] := by
  intro t
  refine ⟨by decide, by decide, by decide⟩

end Zeno.C17
