/-
C15 — altering a table keeps the stored values of every field it retains; added fields start
empty and are filled only by points processed afterwards; a new WHERE applies only to points
processed after the change.

Layers (model: Model/Alter.lean on top of Model/Store.lean):
* field mapping (`outIdxsFor`, `rowMapper`, `rowMerger`) — proved for ALL field lists without
  duplicate printed identities: permutations, insertions, deletions, any widths (the mapping is
  per column);
* one scanned / rewritten row, per field identity — proved for all three layouts (file header as
  resolved, memstore layout, requested / new layout): an alter acts on a retained column as the
  one-column model's truncating flush, an added column is written empty;
* one column over whole histories of ingest / flush / restart / alter — refinement to the
  raw-point spec (`AColSpec`), unbounded histories;
* the list-of-rows plumbing between the store model and the column model is tied by the
  executable simulation check `stepMismatches` (evaluated by the driver on every generated
  history) and the store model is tied to the code by the `alter` correspondence engine.

The identity of a field in this code path is its PRINTED form (`Field.same`).  Where that makes
the property false at full strength the negation is proved with a concrete witness:
`added_field_empty_full_false` (AVG/WAVG print alike — known finding C15-wavg-avg-identity) and,
for the code as found, `asfound_added_field_empty_false` (D14a, repaired by
handoff/C15-fix-2-D14a.diff).
-/
import ZenoModel.Lemmas.AlterColumn
import ZenoModel.Lemmas.AlterRow

namespace Zeno.C15Ex
open Zeno
/-! fixtures of the witnesses and examples (own namespace: not proof obligations) -/
def pointsF : Field := { name := "_points", ex := .agg .sum (.field "_point") }
def sumF (n : String) : Field := { name := n, ex := .agg .sum (.field n) }
def avgX : Field := { name := "x", ex := .avg (.field "b") (.const 1) }
def wavgX : Field := { name := "x", ex := .avg (.field "b") (.field "a") }
def wCfg (fs : List Field) : TableCfg := { fields := pointsF :: fs, res := 10, retention := 1000, groupBy := none }
def wPt (ts : Int) (k : String) (vals : List (String × Rat)) : AOp :=
  .ingest { ts := ts, dims := [("d", k)], vals := vals.map (fun (n, v) => (n, [v])) }

end Zeno.C15Ex

namespace Zeno.C15
open Zeno Zeno.C15Ex

variable (x : Ext)

/-! ## 1. field mapping -/

/-- For an out list without duplicate printed identities, `outIdxsFor out inn` sends every
    in-field to THE out position that prints like it (there is exactly one candidate), and an
    unknown header entry or a field that no out field prints like to "none" (−1): permutations,
    insertions and deletions of fields of any width. -/
theorem outIdxs_correct {out : List Field} (hnd : IdNodup out) (inn : List (Option Field)) (i : Nat)
    (hi : i < inn.length) :
    (outIdxsFor out inn).length = inn.length ∧
    (∀ o, (outIdxsFor out inn)[i]? = some (some o) ↔
      ∃ f, inn[i] = some f ∧ ∃ ho : o < out.length, f.same out[o] = true) ∧
    ((outIdxsFor out inn)[i]? = some none ↔
      (inn[i] = none ∨ ∃ f, inn[i] = some f ∧ ∀ g ∈ out, f.same g = false)) ∧
    (∀ f o o' (ho : o < out.length) (ho' : o' < out.length), inn[i] = some f →
      f.same out[o] = true → f.same out[o'] = true → o = o') := by
  have hget : inn[i]? = some inn[i] := List.getElem?_eq_getElem hi
  have hlen := outIdxsFor_length out inn
  have hi' : i < (outIdxsFor out inn).length := by omega
  have hD : (outIdxsFor out inn)[i]? = some ((outIdxsFor out inn).getD i none) := by
    rw [List.getD_eq_getElem?_getD, List.getElem?_eq_getElem hi']; rfl
  refine ⟨hlen, ?_, ?_, ?_⟩
  · intro o
    rw [hD, Option.some.injEq, outIdxsFor_eq_some hnd inn i o, hget]
    constructor
    · rintro ⟨f, hf, h⟩; exact ⟨f, Option.some.inj hf, h⟩
    · rintro ⟨f, hf, h⟩; exact ⟨f, by rw [hf], h⟩
  · rw [outIdxsFor_getElem?, hget]
    cases hf : inn[i] with
    | none => simp
    | some f =>
      simp only [Option.map_some, Option.some.injEq, List.findIdx?_eq_none_iff, reduceCtorEq, false_or]
      constructor
      · intro h; exact ⟨f, rfl, h⟩
      · rintro ⟨g, hg, h⟩; cases hg; exact h
  · intro f o o' ho ho' _ hs hs'
    exact findIdx_same_unique hnd ho ho' hs hs'

/-! ## 2. one row, per field identity -/

/-- Out-column `o` of a scanned file row = merge (with `out[o]`'s expression) of what the file
    row stores and what the memstore row holds for the field PRINTED like `out[o]`; a layout
    that lacks the field contributes the empty series.  All three layouts arbitrary. -/
theorem scanned_column_by_identity (cfg : TableCfg) (tb : Int) {out : List Field} (hout : IdNodup out)
    {ff : List (Option Field)} (hff : IdNodupO ff) {mf : List Field} (hmf : IdNodup mf)
    (fileCols : List Sq) (ms : Option (List Sq)) (o : Nat) (ho : o < out.length) :
    (scanFileRow cfg tb out ff mf fileCols ms).1.getD o none =
      Sq.merge out[o].ex cfg.res (fileColOf ff out[o] fileCols) (memColOf mf out[o] ms) tb :=
  scanFileRow_col cfg tb hout hff hmf fileCols ms o ho

/-- An alter acts on a retained column as the column model's `flush false`: what the rewrite
    stores at the field's NEW position is the truncated merge of the series at its OLD file
    position and the series at its OLD memstore position. -/
theorem alter_acts_as_column_flush (cfg : TableCfg) (now : Int) {out : List Field} (hout : IdNodup out)
    {ff : List (Option Field)} (hff : IdNodupO ff) {mf : List Field} (hmf : IdNodup mf)
    (key : Key) (fileCols : List Sq) (ms : Option (List Sq)) (o : Nat) (ho : o < out.length) :
    writtenCol (writeRow cfg (now - cfg.retention)
        { key := key, cols := (scanFileRow cfg (now - cfg.retention) out ff mf fileCols ms).1 }) o =
      (Col.step x { e := out[o].ex, res := cfg.res, retention := cfg.retention }
        { file := fileColOf ff out[o] fileCols, mem := memColOf mf out[o] ms, now := now } (.flush false)).file :=
  rewrite_row_is_column_flush x cfg now hout hff hmf key fileCols ms o ho

theorem alter_acts_as_column_flush_memrow (cfg : TableCfg) (now : Int) {out : List Field} (hout : IdNodup out)
    {mf : List Field} (hmf : IdNodup mf) (key : Key) (m : List Sq) (o : Nat) (ho : o < out.length) :
    writtenCol (writeRow cfg (now - cfg.retention)
        { key := key, cols := scanMemRow cfg (now - cfg.retention) out mf m }) o =
      (Col.step x { e := out[o].ex, res := cfg.res, retention := cfg.retention }
        { file := none, mem := memColOf mf out[o] (some m), now := now } (.flush false)).file :=
  rewrite_memrow_is_column_flush x cfg now hout hmf key m o ho

/-! ## 3. a retained column over whole histories -/

/-- Refinement with restarts and alters: after ANY history of inserts, flushes, restarts and
    alters that retain the field, a memstore-inclusive scan returns on every never-expired period
    exactly the accumulation of the accepted rows that round up to it. -/
theorem retained_refines_spec (cfg : ColCfg) (hv : cfg.e.valid = true) (hp : cfg.e.noPtile = true)
    (hres : 0 < cfg.res) (ops : List AColOp) (hpos : AOpsPos ops) (T : Int)
    (hl : LiveH cfg (hwmOf x cfg ops) T) (hT0 : 0 < T) :
    ((Col.arun x cfg {} ops).view cfg true).at cfg.e cfg.res T = cfg.e.acc x (rowsForA cfg T 0 ops) := by
  rw [aview_eq_spec x cfg hv hp hres (inv_run x cfg hv hp hres ops hpos) T hl hT0, aspec_foldl_cells]
  rfl

/-- The values stored for a retained field are the same immediately before and immediately
    after an alter (whether it rewrites the file or not, re-encoding the row or passing it
    through), whatever happened before. -/
theorem alter_view_unchanged (cfg : ColCfg) (hv : cfg.e.valid = true) (hp : cfg.e.noPtile = true)
    (hres : 0 < cfg.res) (ops : List AColOp) (hpos : AOpsPos ops) (b raw : Bool) (T : Int)
    (hl : LiveH cfg (hwmOf x cfg ops) T) (hT0 : 0 < T) :
    ((Col.arun x cfg {} (ops ++ [.alterKeep b raw])).view cfg true).at cfg.e cfg.res T =
      ((Col.arun x cfg {} ops).view cfg true).at cfg.e cfg.res T := by
  have i₁ := inv_run x cfg hv hp hres ops hpos
  have hpos2 : AOpsPos (ops ++ [.alterKeep b raw]) := aopsPos_append hpos trivial
  have i₂ := inv_run x cfg hv hp hres _ hpos2
  have hs : AColSpec.run x cfg (spec0 cfg) (ops ++ [.alterKeep b raw]) = AColSpec.run x cfg (spec0 cfg) ops := by
    simp [AColSpec.run, List.foldl_append, AColSpec.step]
  rw [aview_eq_spec x cfg hv hp hres i₁ T hl hT0,
    aview_eq_spec x cfg hv hp hres i₂ T (by rw [hs]; exact hl) hT0, hs]

/-- … and they stay equal to those of the never-altered run (same history with every alter
    erased) after any later inserts, flushes and restarts: at every moment, on every
    never-expired period. -/
theorem alter_preserves_retained (cfg : ColCfg) (hv : cfg.e.valid = true) (hp : cfg.e.noPtile = true)
    (hres : 0 < cfg.res) (ops : List AColOp) (hpos : AOpsPos ops) (T : Int)
    (hl : LiveH cfg (hwmOf x cfg ops) T) (hT0 : 0 < T) :
    ((Col.arun x cfg {} ops).view cfg true).at cfg.e cfg.res T =
      ((Col.arun x cfg {} (eraseAlters ops)).view cfg true).at cfg.e cfg.res T ∧
    (Col.arun x cfg {} ops).now = (Col.arun x cfg {} (eraseAlters ops)).now ∧
    hwmOf x cfg ops = hwmOf x cfg (eraseAlters ops) := by
  have i₁ := inv_run x cfg hv hp hres ops hpos
  have i₂ := inv_run x cfg hv hp hres _ (aopsPos_erase hpos)
  have hs := aspec_erase x cfg ops (spec0 cfg)
  refine ⟨?_, ?_, ?_⟩
  · rw [aview_eq_spec x cfg hv hp hres i₁ T hl hT0,
      aview_eq_spec x cfg hv hp hres i₂ T (by rw [← hs]; exact hl) hT0, hs]
  · rw [i₁.now_eq, i₂.now_eq, hs]
  · unfold hwmOf; rw [hs]

/-! ## 4. added fields -/

/-- PARTIAL form (printed identity): a field whose identity is in neither the file header (as
    resolved) nor the memstore layout reads as empty in every row of every scan right after the
    alter that adds it (on disk and with the memstore). -/
theorem added_field_empty_partial (a : AStore) (fields : List Field) (w : Option Nat)
    (hne : fieldsSame fields a.cfg.fields = false) (hnd : IdNodup fields) (o : Nat) (ho : o < fields.length)
    (hfile : ∀ (i : Nat) (g : Field), a.st.fileFields[i]? = some (some g) → g.same fields[o] = false)
    (hmem : ∀ g ∈ a.st.memFields, g.same fields[o] = false) (includeMem : Bool) :
    ∀ row ∈ (a.alter fields w).scan fields includeMem, row.cols.getD o none = none := by
  simp only [AStore.alter, hne, Bool.false_eq_true, if_false, AStore.scan]
  exact scan_after_rewrite_added_none { a.cfg with fields := fields } a.st hnd o ho hfile hmem includeMem

/-- The same over WHOLE HISTORIES of the repaired model: after any history of inserts, flushes,
    restarts and alters, an alter that brings a field whose printed identity is not in the
    current definition leaves that field empty in every row. -/
theorem added_field_empty (cfg : TableCfg) (w : Option Nat) (ops : List AOp) (fields : List Field) (w' : Option Nat)
    (hnd : IdNodup fields) (o : Nat) (ho : o < fields.length)
    (hnew : ∀ g ∈ (AStore.run x cfg w ops).cfg.fields, g.same fields[o] = false) (includeMem : Bool) :
    ∀ row ∈ ((AStore.run x cfg w ops).alter fields w').scan fields includeMem, row.cols.getD o none = none := by
  have inv := layoutInv_run x cfg w ops
  generalize AStore.run x cfg w ops = a at *
  have hne : fieldsSame fields a.cfg.fields = false := by
    cases h : fieldsSame fields a.cfg.fields with
    | false => rfl
    | true =>
      obtain ⟨ho', hs⟩ := fieldsSame_get h o ho
      have := hnew a.cfg.fields[o] (List.getElem_mem ho')
      rw [Field.same_symm hs] at this; exact absurd this (by decide)
  apply added_field_empty_partial a fields w' hne hnd o ho
  · intro i g hg
    obtain ⟨h, hh, hs⟩ := inv.file_sub i g hg
    cases hc : g.same fields[o] with
    | false => rfl
    | true =>
      have := hnew h hh
      rw [Field.same_trans (Field.same_symm hs) hc] at this; exact absurd this (by decide)
  · rw [inv.mem_eq]; exact hnew

/-- An added field is filled ONLY by the points processed afterwards: a column that is empty at
    clock `n` holds, after any later history, exactly the accumulation of the rows accepted in
    that later history. -/
theorem added_field_filled_by_later_points (cfg : ColCfg) (hv : cfg.e.valid = true) (hp : cfg.e.noPtile = true)
    (hres : 0 < cfg.res) (n h : Int) (hn : 0 ≤ n) (hnh : n ≤ h) (ops : List AColOp) (hpos : AOpsPos ops) (T : Int)
    (hl : LiveH cfg (AColSpec.run x cfg { s := { now := n, cells := fun _ => cfg.e.empty }, hwm := h } ops).hwm T)
    (hT0 : 0 < T) :
    ((Col.arun x cfg { now := n } ops).view cfg true).at cfg.e cfg.res T = cfg.e.acc x (rowsForA cfg T n ops) := by
  have inv := acolInv_foldl x cfg hv hp hres ops _ _ (acolInv_fresh x cfg hv hp n h hn hnh) hpos
  rw [aview_eq_spec x cfg hv hp hres inv T hl hT0, aspec_foldl_cells]
  rfl

/-! ### full strength fails on printed identity: witnesses -/

/-- FULL-STRENGTH statement for a given alter function: a field of the new definition that is
    not a field (name AND expression) of the current definition reads empty right after. -/
def AddedFieldEmptyFull (alter : AStore → List Field → Option Nat → AStore) : Prop :=
  ∀ (a : AStore) (fields : List Field) (f : Field), f ∈ fields → f ∉ a.cfg.fields →
    ∀ row ∈ (alter a fields none).scan [f] true, row.cols.getD 0 none = none

/-- D14b — `WAVG(b, a)` prints as `AVG(b)`: altering `x = AVG(b)` to `x = WAVG(b, a)` is "fields
    unchanged"; the new field shows the old AVG state (count 1, total 5). -/
def d14bStore : AStore := AStore.run default (wCfg [sumF "a", avgX]) none [wPt 1003 "k" [("a", 2), ("b", 5)]]

theorem d14b_witness :
    wavgX ∈ [pointsF, sumF "a", wavgX] ∧ wavgX ∉ d14bStore.cfg.fields ∧
    ((d14bStore.alter [pointsF, sumF "a", wavgX] none).scan [wavgX] true).map (fun r => r.cols.getD 0 none) =
      [some ⟨1010, [[.avg (some (1, 5))]]⟩] := by
  decide +kernel

theorem added_field_empty_full_false : ¬ AddedFieldEmptyFull AStore.alter := by
  intro h
  have := h d14bStore [pointsF, sumF "a", wavgX] wavgX d14b_witness.1 d14b_witness.2.1
  have hw := d14b_witness.2.2
  cases hs : (d14bStore.alter [pointsF, sumF "a", wavgX] none).scan [wavgX] true with
  | nil => rw [hs] at hw; cases hw
  | cons r rs =>
    rw [hs] at hw this
    have h0 := this r (List.mem_cons_self ..)
    simp only [List.map_cons, List.cons.injEq] at hw
    rw [h0] at hw
    exact absurd hw.1 (by decide)

/-- D14a (code as found) — `b` removed while the memstore is empty (no rewrite: the file keeps
    column `b`), then re-added: the "added" field shows its old file data.  All identities here
    are injective, so this is not an identity collision; it is repaired by rewriting the file on
    every field update (`AStore.alter`, for which `added_field_empty` holds). -/
def d14aOps : List AOp :=
  [wPt 1003 "k" [("a", 1), ("b", 5)], .flush, .alter [pointsF, sumF "a"] none]

theorem d14a_witness :
    sumF "b" ∉ (AStore.runPre default (wCfg [sumF "a", sumF "b"]) none d14aOps).cfg.fields ∧
    (((AStore.runPre default (wCfg [sumF "a", sumF "b"]) none d14aOps).alterPre [pointsF, sumF "a", sumF "b"] none).scan
      [sumF "b"] true).map (fun r => r.cols.getD 0 none) = [some ⟨1010, [[.agg (some 5)]]⟩] ∧
    (((AStore.run default (wCfg [sumF "a", sumF "b"]) none d14aOps).alter [pointsF, sumF "a", sumF "b"] none).scan
      [sumF "b"] true).map (fun r => r.cols.getD 0 none) = [none] := by
  decide +kernel

theorem asfound_added_field_empty_false : ¬ AddedFieldEmptyFull AStore.alterPre := by
  intro h
  have hw := d14a_witness
  have := h (AStore.runPre default (wCfg [sumF "a", sumF "b"]) none d14aOps) [pointsF, sumF "a", sumF "b"] (sumF "b")
    (by decide) hw.1
  cases hs : ((AStore.runPre default (wCfg [sumF "a", sumF "b"]) none d14aOps).alterPre
      [pointsF, sumF "a", sumF "b"] none).scan [sumF "b"] true with
  | nil => rw [hs] at hw; cases hw.2.1
  | cons r rs =>
    rw [hs] at hw this
    have h0 := this r (List.mem_cons_self ..)
    have h1 := hw.2.1
    simp only [List.map_cons, List.cons.injEq] at h1
    rw [h0] at h1
    exact absurd h1.1 (by decide)

/-! ## 5. WHERE -/

/-- A new WHERE is not retroactive: (1) what an alter stores (memstore, file, layouts, clock,
    header, definition) does not depend on the WHERE it carries; (2) an alter that changes only
    the WHERE leaves the store exactly as it was; (3) the WHERE is consulted only when a point is
    processed, with the table's WHERE at that moment: a point it rejects leaves everything
    unchanged, and after `alter … w` it is `w` that is evaluated on the point. -/
theorem new_where_not_retroactive (a : AStore) (fields : List Field) (w w' : Option Nat) :
    ((a.alter fields w).st = (a.alter fields w').st ∧ (a.alter fields w).header = (a.alter fields w').header ∧
      (a.alter fields w).cfg = (a.alter fields w').cfg) ∧
    ((a.alter a.cfg.fields w).st = a.st ∧ (a.alter a.cfg.fields w).header = a.header ∧
      (a.alter a.cfg.fields w).cfg = a.cfg) ∧
    (∀ p, a.whereOk p = false → a.ingest x p = (a, false)) ∧
    (∀ p, (a.alter fields w).whereOk p = (match w with | none => true | some c => p.conds.contains c)) := by
  refine ⟨?_, ?_, ?_, ?_⟩
  · unfold AStore.alter; split <;> exact ⟨rfl, rfl, rfl⟩
  · unfold AStore.alter; rw [fieldsSame_refl]; exact ⟨rfl, rfl, rfl⟩
  · intro p hp
    simp only [AStore.ingest, Store.ingest, hp]
    split <;> rfl
  · intro p
    have hw : (a.alter fields w).whereC = w := by unfold AStore.alter; split <;> rfl
    unfold AStore.whereOk
    rw [hw]
    cases w <;> rfl

/-! ## 6. scans after an alter deliver every row -/

/-- A scan — of any selection of fields, e.g. only a newly added one — hands out every
    memstore row that has no file row, whatever the file rows map (fix dd8e0db). -/
theorem scan_delivers_memstore_rows (cfg : TableCfg) (st : Store) (out : List Field) (m : Row)
    (hm : m ∈ st.mem) (hnf : ∀ r ∈ st.file.getD [], (r.key == m.key) = false) :
    ∃ row ∈ st.iterateC cfg out true, row.key = m.key :=
  iterateC_has_mem_only_rows cfg st out m hm hnf

/-- The per-row scan these theorems are about IS the scan of the shared store model
    (Model/Store.lean, tied to the code by the `store` and `alter` engines). -/
theorem scan_model_is_store_model (cfg : TableCfg) (st : Store) (out : List Field) (includeMem : Bool) :
    (st.iterate cfg out includeMem).rows = st.iterateC cfg out includeMem :=
  iterateC_eq_iterate cfg st out includeMem

/-- the scenario of D15/D17 (fixed in dd8e0db; the as-found behaviour is recorded by C17's
    `d15_blank_row_ends_solo_scan`): the file has no column `c` (the definition gained `c` while
    the database was down); a scan of `c` alone skips the file row of key `x` and delivers the
    memstore-only key `z` -/
def d17Store : Store :=
  { memFields := [pointsF, sumF "a", sumF "c"],
    mem := [{ key := [("d", "z")], cols := [some ⟨1020, [[.agg (some 1)]]⟩, some ⟨1020, [[.agg (some 3)]]⟩, some ⟨1020, [[.agg (some 7)]]⟩] }],
    fileFields := [some pointsF, some (sumF "a")],
    file := some [{ key := [("d", "x")], cols := [some ⟨1010, [[.agg (some 1)]]⟩, some ⟨1010, [[.agg (some 1)]]⟩] }],
    now := 1013 }

example : (d17Store.iterateC (wCfg [sumF "a", sumF "c"]) [sumF "c"] true).map (fun r => (r.key, r.cols)) =
    [([("d", "z")], [some ⟨1020, [[.agg (some 7)]]⟩])] := by
  decide +kernel

/-! ## Non-vacuity -/

/-- a permutation with an insertion and a deletion: in = [a, b, _points, ?], out = [_points, c, a] -/
example : outIdxsFor [pointsF, sumF "c", sumF "a"] [some (sumF "a"), some (sumF "b"), some pointsF, none] =
    [some 2, none, some 0, none] := by decide +kernel
example : IdNodup [pointsF, sumF "c", sumF "a"] := by
  unfold IdNodup; decide +kernel
/-- the printed-identity collision is real: the two fields differ but print alike -/
example : avgX ≠ wavgX ∧ avgX.same wavgX = true := by decide +kernel
example : ¬ IdNodup [avgX, wavgX] := by
  unfold IdNodup; decide +kernel

def exCfg : ColCfg := { e := .agg .sum (.field "a"), res := 10, retention := 30 }
def exOps : List AColOp :=
  [.base (.ingest 1003 { vals := [("a", 2)] }), .alterKeep true false, .base (.ingest 1001 { vals := [("a", 5)] }),
   .reopen true, .base (.ingest 1004 { vals := [("a", 1)] }), .alterKeep false false, .base (.flush false),
   .base (.ingest 1055 { vals := [("a", 9)] }), .alterKeep true true]

example : exCfg.e.valid = true ∧ exCfg.e.noPtile = true ∧ 0 < exCfg.res ∧ AOpsPos exOps := by
  refine ⟨by decide, by decide, by decide, ?_⟩
  simp [exOps, AOpsPos, OpsPos]
example : hwmOf default exCfg exOps = 1055 ∧ LiveH exCfg (hwmOf default exCfg exOps) 1060 := by
  refine ⟨by decide +kernel, by decide +kernel, ?_⟩
  have : hwmOf default exCfg exOps = 1055 := by decide +kernel
  rw [this]; decide
example : ((Col.arun default exCfg {} exOps).view exCfg true).at exCfg.e exCfg.res 1060 = [.agg (some 9)] ∧
    ((Col.arun default exCfg {} (eraseAlters exOps)).view exCfg true).at exCfg.e exCfg.res 1060 = [.agg (some 9)] := by
  decide +kernel
/-- after the restart the clock is zero: the point at 1004 is accepted although 1004 < 1055 − 30
    would later be expired; period 1010 = 2 + 5 + 1 before the clock moves to 1055 -/
example : rowsForA exCfg 1010 0 exOps = [{ vals := [("a", 2)] }, { vals := [("a", 5)] }, { vals := [("a", 1)] }] := by
  decide +kernel

/-- a store history with a permuting / extending / reducing alter and a restart -/
def exStoreOps : List AOp :=
  [wPt 1003 "k" [("a", 1), ("b", 5)], .alter [pointsF, sumF "b", sumF "c", sumF "a"] (some 0),
   .ingest { ts := 1004, dims := [("d", "k")], vals := [("a", [2]), ("c", [7])], conds := [0] },
   wPt 1005 "j" [("a", 9)], .reopen [pointsF, sumF "b", sumF "c", sumF "a"] (some 0), .alter [pointsF, sumF "a", sumF "b"] none]

/-- retained `a` and `b` keep their values across both alters and the restart, `c` was filled only
    by the point processed while it existed and is gone again; the point of key "j" was rejected
    by the WHERE in force when it arrived (condition 0 does not hold for it) -/
example : ((AStore.run default (wCfg [sumF "a", sumF "b"]) none exStoreOps).scan [pointsF, sumF "a", sumF "b"] true).map
    (fun r => (r.key, r.cols)) =
    [([("d", "k")], [some ⟨1010, [[.agg (some 2)]]⟩, some ⟨1010, [[.agg (some 3)]]⟩, some ⟨1010, [[.agg (some 5)]]⟩])] := by
  decide +kernel
/-- the executable simulation check (store model vs column model) holds along this history -/
example : (exStoreOps.foldl (fun (acc : AStore × List (Key × String)) op =>
    (acc.1.step default op, acc.2 ++ stepMismatches default acc.1 op))
    (AStore.init (wCfg [sumF "a", sumF "b"]) none, [])).2 = [] := by
  decide +kernel

end Zeno.C15
