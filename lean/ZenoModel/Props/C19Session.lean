/-
C19, stateful part — credentials that the server hands out in one response and accepts
in a later one (`Model/AuthSession.lean`).

Theorems are over request SEQUENCES of any length, any interleaving of data requests and
OAuth callbacks, any answers of the identity provider (in org / not in org / HTTP error /
garbage / unreachable, changing from call to call), any clock, and every cookie-issuing
policy that is SAFE (`Policy.safe`: no sealing call is reached without a check, after
"not in org", or after an error):

* every served data request is backed by the static token or by a cookie the server
  sealed after an "in org" answer for its principal, unexpired or re-verified now;
* a response that is not itself an authorised one (served / logged in) neither issues a
  cookie nor changes the state (`refusal_issues_nothing`);
* every cookie in circulation comes from the initial state or from an authorised response
  given on an "in org" answer (`replayed_cookie_has_authorised_origin`).

`all_cookie_writes_guarded` ties the policy to the source: the regenerated
`Facts.cookieWriteSites` (every call that writes the cookie, with the identity-provider
answers under which it is reached) must derive exactly `Policy.code`, which is safe.
The witnesses replay, on unsafe policies, the sequences that the `auth` engine finds
against such code (the seeded refresh-on-`err == nil`, the pre-D17 callback).
-/
import ZenoModel.Lemmas.AuthSession
import ZenoModel.Generated.Facts
import ZenoModel.Props.C19

namespace Zeno.AuthSpec
open Zeno

/-- every cookie sealed so far was sealed on an "in org" answer -/
def AllVerified (s : SessState) : Prop := ∀ c ∈ s, c.verified = true

def staticOk (o : WebOpts) (r : SReq) : Prop := o.password ≠ "" ∧ r.header = o.password

/-- the request presents a cookie the server sealed after verifying its principal, and that
    cookie is unexpired or its principal is confirmed in the organisation right now -/
def sessionBacked (s : SessState) (r : SReq) : Prop :=
  ∃ i c, r.cookie = .issued i ∧ s[i]? = some c ∧ c.verified = true ∧
    (r.now < c.expiry ∨ r.orgAns = .inOrg)

/-- the abstract single-request cookie of `Model/Auth.lean` that a sequence request amounts to -/
def abstractCookie (s : SessState) (r : SReq) : Option Cookie :=
  match r.cookie with
  | .none => none
  | .forged => some ⟨false, 0, false⟩
  | .issued i =>
    match s[i]? with
    | none => some ⟨false, 0, false⟩
    | some c => some ⟨true, c.expiry, r.orgAns == .inOrg⟩

def decisionOf : Outcome → Option WebDecision
  | .served => some .allow | .deny => some .deny | .redirect => some .redirect | _ => none

def guardOfSite (s : Facts.CookieWriteSite) : Guard := ⟨s.noCheck, s.onInOrg, s.onNotInOrg, s.onError⟩

/-- The policy the source implements, read off the regenerated call sites: per place, the
    union of the guards of its (non-helper) cookie writes. -/
def policyOfFacts (sites : List Facts.CookieWriteSite) : Policy :=
  let g := fun (fn : String) =>
    ((sites.filter (fun s => !s.inHelper && s.fn == fn)).map guardOfSite).foldl Guard.or Guard.never
  ⟨g "authenticate", g "oauthCode"⟩

def oauthOpts : WebOpts := ⟨"id", "secret", ""⟩
def dataReq (path : String) (c : CookieCred) (now : Int) (a : OrgAnswer) : SReq :=
  ⟨.data path, "", c, now, false, .unreachable, a⟩
def callbackReq (now : Int) (t : TokenAnswer) (a : OrgAnswer) : SReq :=
  ⟨.callback, "", .none, now, true, t, a⟩

end Zeno.AuthSpec

namespace Zeno.C19
open Zeno Zeno.AuthSpec

/-- On a data route the sequence model gives the answer of the single-request model
    (`webServe`) for the abstract cookie the request amounts to, whatever the issuing policy. -/
theorem session_step_agrees_with_request_model (pol : Policy) (o : WebOpts) (s : SessState)
    (p : String) (r : SReq) (b : Bool) (hp : webRouteGuarded p = some b) :
    webServe p o ⟨r.header, abstractCookie s r⟩ r.now = decisionOf (stepData pol o s p r).2.outcome := by
  unfold webServe webServeB stepData webAuthenticateB oauthSet abstractCookie
  cases b <;> simp only [hp, Option.getD_some, Bool.not_false, Bool.not_true, if_true,
    Bool.false_eq_true, if_false, Option.map_some]
  · rfl
  · by_cases h1 : (o.oauthClientID == "" || o.oauthClientSecret == "") = true
    · simp [h1, mkResp, decisionOf]
    · simp only [h1, Bool.not_eq_true, Bool.false_eq_true, if_false]
      have h1' : (o.oauthClientID == "" || o.oauthClientSecret == "") = false := by simpa using h1
      simp only [h1', Bool.not_false, if_true, Bool.false_eq_true, if_false]
      by_cases h2 : (o.password != "" && r.header != "") = true
      · simp only [h2, if_true]
        by_cases h3 : (r.header == o.password) = true <;> simp [h3, mkResp, decisionOf]
      · simp only [h2, Bool.false_eq_true, if_false]
        cases hc : r.cookie with
        | none => simp [mkResp, decisionOf]
        | forged => simp [mkResp, decisionOf]
        | issued i =>
          cases hs : s[i]? with
          | none => simp [hs, mkResp, decisionOf]
          | some c =>
            by_cases hf : r.now < c.expiry
            · simp [hs, hf, sessionFresh, mkResp, decisionOf]
            · generalize pol.recheck.fires r.orgAns = fz
              cases fz <;> cases hoa : r.orgAns <;> simp [hs, hf, sessionFresh, decisionOf]

/-- The state only ever grows by the cookie the response sets (any policy). -/
theorem state_grows_by_set_cookie (pol : Policy) (o : WebOpts) (s : SessState) (r : SReq) :
    (sessionStep pol o s r).1 = s ++ (sessionStep pol o s r).2.setCookie.toList := by
  unfold sessionStep
  cases ht : r.target with
  | data p =>
    simp only [stepData]
    repeat' split
    all_goals simp [mkResp]
  | callback =>
    simp only [stepCallback]
    repeat' split
    all_goals simp [mkResp]

/-- Under a safe policy a response that sets a cookie was given on an "in org" answer of the
    identity provider, is itself an authorised response, and the cookie is marked verified. -/
theorem issue_requires_inorg_answer (pol : Policy) (hs : pol.safe = true) (o : WebOpts)
    (s : SessState) (r : SReq) (c : Session)
    (h : (sessionStep pol o s r).2.setCookie = some c) :
    r.orgAns = .inOrg ∧ c.verified = true ∧ (sessionStep pol o s r).2.outcome.authorised = true := by
  simp only [Policy.safe, Bool.and_eq_true] at hs
  unfold sessionStep at h ⊢
  cases ht : r.target with
  | data p =>
    simp only [ht] at h ⊢
    obtain ⟨hf, hv, hout⟩ := stepData_setCookie h
    have ha := safe_guard_fires_only_in_org _ hs.1 _ hf
    simp [ha, hv, hout, Outcome.authorised]
  | callback =>
    simp only [ht] at h ⊢
    obtain ⟨hf, hv, hout⟩ := stepCallback_setCookie h
    have ha := safe_guard_fires_only_in_org _ hs.2 _ hf
    simp [ha, hv, hout, Outcome.authorised]

/-- No refusal (deny, redirect, "not in org", any error path) issues or extends a credential:
    the response sets no cookie and the state is unchanged. -/
theorem refusal_issues_nothing (pol : Policy) (hs : pol.safe = true) (o : WebOpts)
    (s : SessState) (r : SReq) (h : (sessionStep pol o s r).2.outcome.authorised = false) :
    (sessionStep pol o s r).2.setCookie = none ∧ (sessionStep pol o s r).1 = s := by
  have hnone : (sessionStep pol o s r).2.setCookie = none := by
    cases hc : (sessionStep pol o s r).2.setCookie with
    | none => rfl
    | some c =>
      have := (issue_requires_inorg_answer pol hs o s r c hc).2.2
      rw [h] at this
      cases this
  refine ⟨hnone, ?_⟩
  rw [state_grows_by_set_cookie, hnone]
  simp

/-- Invariant over sequences: under a safe policy every cookie ever sealed is a verified one. -/
theorem issued_sessions_verified (pol : Policy) (hs : pol.safe = true) (o : WebOpts)
    (rs : List SReq) : ∀ s, AllVerified s → AllVerified (sessionRun pol o s rs) := by
  induction rs with
  | nil => intro s h; exact h
  | cons r rs ih =>
    intro s h
    simp only [sessionRun]
    apply ih
    rw [state_grows_by_set_cookie]
    intro c hc
    rcases List.mem_append.1 hc with hc | hc
    · exact h c hc
    · cases hset : (sessionStep pol o s r).2.setCookie with
      | none => simp [hset] at hc
      | some c' =>
        simp only [hset, Option.toList_some, List.mem_singleton] at hc
        subst hc
        exact (issue_requires_inorg_answer pol hs o s r c hset).2.1

/-- One step, from a state whose cookies are all verified: a served data route is backed. -/
theorem served_step_is_backed (pol : Policy) (o : WebOpts) (s : SessState) (hv : AllVerified s)
    (p : String) (hp : p ∈ dataRoutes) (r : SReq) (ho : oauthSet o = true)
    (h : (stepData pol o s p r).2.outcome = .served) : staticOk o r ∨ sessionBacked s r := by
  have hg : webRouteGuarded p = some true :=
    (by decide : ∀ q ∈ dataRoutes, webRouteGuarded q = some true) p hp
  unfold stepData at h
  simp only [hg, Option.getD_some, Bool.not_true, Bool.false_eq_true, if_false, ho] at h
  by_cases h2 : (o.password != "" && r.header != "") = true
  · simp only [h2, if_true] at h
    by_cases h3 : (r.header == o.password) = true
    · left
      simp only [Bool.and_eq_true, bne_iff_ne, ne_eq] at h2
      exact ⟨h2.1, by simpa using h3⟩
    · simp [h3, mkResp] at h
  · simp only [h2, Bool.false_eq_true, if_false] at h
    right
    cases hc : r.cookie with
    | none => simp [hc, mkResp] at h
    | forged => simp [hc, mkResp] at h
    | issued i =>
      simp only [hc] at h
      cases hsi : s[i]? with
      | none => simp [hsi, mkResp] at h
      | some c =>
        simp only [hsi] at h
        have hcv : c.verified = true := hv c (List.mem_of_getElem? hsi)
        refine ⟨i, c, hc, hsi, hcv, ?_⟩
        by_cases hf : r.now < c.expiry
        · exact Or.inl hf
        · right
          by_cases ha : r.orgAns = .inOrg
          · exact ha
          · by_cases hgf : pol.recheck.fires r.orgAns = true <;> simp [hf, ha, hgf] at h

/-- Over any request sequence: every served data request is backed by the static token or by
    a verified, unexpired-or-just-re-verified session the server itself sealed. -/
theorem served_is_backed (pol : Policy) (hs : pol.safe = true) (o : WebOpts) (ho : oauthSet o = true)
    (rs : List SReq) : ∀ s0, AllVerified s0 →
    ∀ e ∈ sessionTrace pol o s0 rs, ∀ p ∈ dataRoutes, e.2.1.target = .data p →
      e.2.2.outcome = .served → staticOk o e.2.1 ∨ sessionBacked e.1 e.2.1 := by
  induction rs with
  | nil => intro s0 _ e he; simp [sessionTrace] at he
  | cons r rs ih =>
    intro s0 hv e he p hp ht hserved
    simp only [sessionTrace, List.mem_cons] at he
    rcases he with he | he
    · subst he
      simp only at ht hserved ⊢
      simp only [sessionStep, ht] at hserved
      exact served_step_is_backed pol o s0 hv p hp r ho hserved
    · have hv' : AllVerified (sessionStep pol o s0 r).1 :=
        issued_sessions_verified pol hs o [r] s0 hv
      exact ih _ hv' e he p hp ht hserved

/-- Every cookie in circulation anywhere in a sequence is one of the initial ones or was set
    by an authorised response (served / logged in) given on an "in org" answer — a cookie
    obtained from a refusal, a redirect or an error response does not exist. -/
theorem replayed_cookie_has_authorised_origin (pol : Policy) (hs : pol.safe = true) (o : WebOpts)
    (rs : List SReq) : ∀ s0, ∀ e ∈ sessionTrace pol o s0 rs, ∀ c ∈ e.1,
      c ∈ s0 ∨ ∃ e' ∈ sessionTrace pol o s0 rs, e'.2.2.setCookie = some c ∧
        e'.2.2.outcome.authorised = true ∧ e'.2.1.orgAns = .inOrg := by
  induction rs with
  | nil => intro s0 e he; simp [sessionTrace] at he
  | cons r rs ih =>
    intro s0 e he c hc
    simp only [sessionTrace, List.mem_cons] at he
    rcases he with he | he
    · subst he; exact Or.inl hc
    · rcases ih _ e he c hc with h | ⟨e', he', h⟩
      · rw [state_grows_by_set_cookie] at h
        rcases List.mem_append.1 h with h | h
        · exact Or.inl h
        · right
          cases hset : (sessionStep pol o s0 r).2.setCookie with
          | none => simp [hset] at h
          | some c' =>
            simp only [hset, Option.toList_some, List.mem_singleton] at h
            subst h
            have := issue_requires_inorg_answer pol hs o s0 r c hset
            exact ⟨(s0, r, (sessionStep pol o s0 r).2), by simp [sessionTrace], hset, this.2.2, this.1⟩
      · exact Or.inr ⟨e', by simp [sessionTrace, he'], h⟩

/-- Over the regenerated cookie-write sites of web/*.go:
    (1) every site sits in `authenticate`, in `oauthCode`, or inside an unexported helper whose
        own call sites are listed;
    (2) every site outside a helper is reached only after `userInOrg` returned (true, nil);
    (3) the policy derived from the sites is exactly the model's `Policy.code`, which is safe;
    (4) there is a place where a session can start at all. -/
theorem all_cookie_writes_guarded :
    (∀ s ∈ Facts.cookieWriteSites, s.inHelper = true ∨ s.fn ∈ ["authenticate", "oauthCode"]) ∧
    (∀ s ∈ Facts.cookieWriteSites, s.inHelper = false → (guardOfSite s).safe = true ∧ s.onInOrg = true) ∧
    policyOfFacts Facts.cookieWriteSites = Policy.code ∧ Policy.code.safe = true ∧
    (∃ s ∈ Facts.cookieWriteSites, s.inHelper = false ∧ s.fn = "oauthCode") := by
  decide

/-! ## Witnesses: what the unsafe policies allow (the sequences the engine finds) -/

def outcomes (pol : Policy) (s0 : SessState) (rs : List SReq) : List (Outcome × Bool) :=
  (sessionTrace pol oauthOpts s0 rs).map (fun e => (e.2.2.outcome, e.2.2.setCookie.isSome))

/-- Seeded refactoring (`if err == nil { startSession }` at the re-check): a member whose
    session timed out and who has left the organisation is refused, but the refusal carries a
    fresh cookie, and replaying it is served with GitHub not even reachable. -/
theorem refresh_on_err_nil_witness :
    let rs := [dataReq "/immediate" (.issued 0) 7200 .notInOrg, dataReq "/immediate" (.issued 1) 7200 .unreachable]
    outcomes Policy.refreshOnErrNil [⟨7, 3600, true⟩] rs = [(.redirect, true), (.served, false)] ∧
    outcomes Policy.code [⟨7, 3600, true⟩] rs = [(.redirect, false), (.redirect, false)] := by decide

/-- D17 (before the fix): the OAuth callback sealed a session when the membership check
    FAILED — e.g. for the empty token GitHub's error reply to a bogus code yields. -/
theorem d17_witness_callback_error_starts_session :
    let rs := [callbackReq 0 .noToken .httpError, dataReq "/run" (.issued 0) 10 .unreachable]
    outcomes Policy.beforeD17 [] rs = [(.loggedIn, true), (.served, false)] ∧
    outcomes Policy.code [] rs = [(.redirect, false), (.redirect, false)] := by decide

/-- A refresh reached on a GitHub error, and a callback that seals before it checks. -/
theorem refresh_on_error_and_early_seal_witnesses :
    outcomes Policy.refreshOnError [⟨7, 0, true⟩]
      [dataReq "/run" (.issued 0) 10 .unreachable, dataReq "/run" (.issued 1) 10 .unreachable]
      = [(.redirect, true), (.served, false)] ∧
    outcomes Policy.callbackBeforeCheck []
      [callbackReq 0 (.token 9) .notInOrg, dataReq "/run" (.issued 0) 10 .unreachable]
      = [(.loggedIn, true), (.served, false)] := by decide

/-! ## Non-vacuity -/

example : Policy.code.safe = true ∧ Policy.beforeD17.safe = false ∧
    Policy.refreshOnErrNil.safe = false := by decide
/-- a safe policy other than the code's: refresh after a successful re-verification -/
example : (⟨Guard.whenInOrg, Guard.whenInOrg⟩ : Policy).safe = true := by decide
/-- a legitimate login followed by use, expiry, re-verification and revocation -/
example : outcomes Policy.code []
    [dataReq "/run" .none 0 .unreachable, callbackReq 5 (.token 3) .inOrg,
     dataReq "/run" (.issued 0) 100 .unreachable, dataReq "/run" (.issued 0) 4000 .inOrg,
     dataReq "/run" (.issued 0) 4100 .notInOrg]
    = [(.redirect, false), (.loggedIn, true), (.served, false), (.served, false), (.redirect, false)] := by
  decide
example : Facts.cookieWriteSites.length ≥ 1 := by decide

end Zeno.C19
