/-
EndToEnd — C06/C07 from the store script to the grouped cell, in one theorem.

The store half (Props/StoreProj.lean: the scan of `runStore x cfg ops` at (key, field, live period)
is `ex.acc` over the raw rows `tableRowsFor` reads off the script) and the query half
(Props/SubMergeSem.lean: the cell `groupRows` computes is `ex.acc` over `specQuery`'s bucket, GIVEN
`hstore`/`hkeys`/`hcover`/`hper` about the scan) are composed:

* the two raw-point vocabularies agree (`tableRowsFor_is_acceptedRows`, `accepted_clock_is_store_clock`);
* the window `planLocal` hands to `core.Group` lies inside the store's live range
  (`window_inside_live_range`: both roundings of `tableAsOf` go up — no gap at the boundary);
* `hper`, `hkeys`, `hstore` are discharged for scans of `runStore x cfg ops`
  (`accepted_periods_on_grid`, `scan_one_row_per_key`, `scan_state_is_accepted_rows`), also when the
  query scans only the fields it needs (`included_scan_reads_full_scan`);
* `hcover` is bypassed: a key without a scan row only has empty states (`unscanned_key_is_empty`);
* MAIN: `group_cell_end_to_end`.

Hypotheses are explained at the theorems and in handoff/EndToEnd.md.
-/
import ZenoModel.Lemmas.EndToEndCell
import ZenoModel.Lemmas.EndToEndFields
import ZenoModel.Lemmas.EndToEndRead4

namespace Zeno.EndToEnd
open Zeno

variable (x : Ext)

/-! ## The two raw-point vocabularies -/

/-- THE TIE.  StoreProj's per-(key, period) spec of a store script is the (key, period) slice — in
    arrival order — of QuerySpec's `acceptedRows` on the points of the script (`dup = true`: the
    store inserts extra array rows twice, known finding C01-array-double). -/
theorem tableRowsFor_is_acceptedRows (cfg : TableCfg) (key : Key) (T : Int) (ops : List StoreOp) :
    tableRowsFor cfg key T 0 ops =
      ((acceptedRows cfg true (pointsOf ops)).1.filter (fun a => a.key == key && a.period == T)).map (·.pt) := by
  rw [tableRowsFor_eq_keyPeriodPts, acceptedRows_eq]; rfl

/-- the clock `acceptedRows` threads over the points is the store's clock after the script:
    flushes do not move it -/
theorem accepted_clock_is_store_clock (cfg : TableCfg) (dup : Bool) (ops : List StoreOp) :
    (acceptedRows cfg dup (pointsOf ops)).2 = (runStore x cfg ops).now := by
  rw [acceptedRows_eq, runStore_now, nowAfter_eq_clockFrom]

/-- two scripts that differ only in their flushes have the same points, hence the same accepted rows -/
theorem accepted_rows_ignore_flushes (cfg : TableCfg) (dup : Bool) (ops₁ ops₂ : List StoreOp)
    (hsame : eraseFlush ops₁ = eraseFlush ops₂) :
    acceptedRows cfg dup (pointsOf ops₁) = acceptedRows cfg dup (pointsOf ops₂) := by
  rw [← pointsOf_eraseFlush ops₁, ← pointsOf_eraseFlush ops₂, hsame]

/-- `hper`: accepted rows lie on the table's period grid -/
theorem accepted_periods_on_grid (cfg : TableCfg) (hres : 0 < cfg.res) (dup : Bool) (ps : List RawPoint) :
    ∀ a ∈ (acceptedRows cfg dup ps).1, a.period % cfg.res = 0 := by
  rw [acceptedRows_eq]; exact accRowsFrom_period cfg hres dup ps 0

/-! ## The window is inside the live range -/

/-- what `core.Group` uses as window is the plan's window, which starts at or after the table's -/
theorem group_window_is_plan_window (cfg : TableCfg) (now : Int) (q : Query) (pl : Plan)
    (h : planLocal cfg now q = .ok pl) :
    gAsOfOf cfg now pl = pl.asOf ∧ gUntilOf cfg now pl = pl.hi ∧ tableAsOf cfg now ≤ pl.asOf :=
  planLocal_gAsOf cfg now q pl h

/-- every period end inside the group window `(gAsOf, gUntil]` is later than the store's
    truncation bound `now − retention`: the store's guarantee covers the whole window -/
theorem window_inside_live_range (cfg : TableCfg) (now : Int) (q : Query) (pl : Plan)
    (h : planLocal cfg now q = .ok pl) (hres : 0 < cfg.res) (t : Int) (ht : gAsOfOf cfg now pl < t) :
    t > now - cfg.retention :=
  planLocal_window_live cfg now q pl h hres t ht

/-- the side condition `0 < gAsOf` of the theorems below holds as soon as the clock has passed the
    retention period (the table's window does not reach back to Go's zero time) -/
theorem window_start_positive (cfg : TableCfg) (now : Int) (q : Query) (pl : Plan)
    (h : planLocal cfg now q = .ok pl) (hres : 0 < cfg.res) (hret : cfg.retention < now) :
    0 < gAsOfOf cfg now pl := by
  obtain ⟨h1, _, h3⟩ := planLocal_gAsOf cfg now q pl h
  have := tableAsOf_ge cfg now hres
  omega

/-! ## The scan of a reachable store -/

/-- `hkeys`: a memstore-inclusive scan of any requested field list yields each key once -/
theorem scan_one_row_per_key (cfg : TableCfg) (wf : CfgWF cfg) (ops : List StoreOp) (hpos : StorePos ops)
    (out : List Field) : (((runStore x cfg ops).iterate cfg out true).rows.map (·.key)).Nodup :=
  nodup_keys_of_pairwise (scanG_keys_pairwise cfg _ (StoreProj.reachable_store_wf x cfg wf ops hpos) out)

/-- `hstore`: inside the live range the state the full scan holds at (key, table field `ti`,
    period end `t` — on the grid or not) is the accumulation of the accepted rows of that key and
    period -/
theorem scan_state_is_accepted_rows (cfg : TableCfg) (wf : CfgWF cfg) (ops : List StoreOp) (hpos : StorePos ops)
    (key : Key) (ti : Nat) (hti : ti < cfg.fields.length)
    (hv : (cfg.fields[ti]).ex.valid = true) (hp : (cfg.fields[ti]).ex.noPtile = true) (t : Int)
    (hlive : t > (runStore x cfg ops).now - cfg.retention) (ht0 : 0 < t) :
    (scanCol cfg (runStore x cfg ops) true key ti).at (cfg.fields[ti]).ex cfg.res t =
      (cfg.fields[ti]).ex.acc x (keyPeriodPts (acceptedRows cfg true (pointsOf ops)).1 (·.pt) key t) :=
  scanCol_at_live x cfg wf ops hpos key ti hti hv hp t hlive ht0

/-- the scan a query performs (only the fields it needs: `includedFields`) reads, at the position
    `j` of table field `ti`, what the full scan reads at `ti`: every row has the column, it is the
    full scan's, and a key that has no row reads `none` in the full scan too -/
theorem included_scan_reads_full_scan (cfg : TableCfg) (wf : CfgWF cfg) (ops : List StoreOp) (hpos : StorePos ops)
    (q : Query) (j ti : Nat) (hti : ti < cfg.fields.length)
    (hj : (includedFields cfg q)[j]? = some (cfg.fields[ti])) :
    (∀ r ∈ ((runStore x cfg ops).iterate cfg (includedFields cfg q) true).rows,
      j < r.cols.length ∧ r.cols.getD j none = scanCol cfg (runStore x cfg ops) true r.key ti) ∧
    (∀ κ, (∀ r ∈ ((runStore x cfg ops).iterate cfg (includedFields cfg q) true).rows, r.key ≠ κ) →
      scanCol cfg (runStore x cfg ops) true κ ti = none) := by
  have sv := scanView_included cfg wf.distinct _ (StoreProj.reachable_store_wf x cfg wf ops hpos) q j ti hti hj
  exact ⟨fun r hr => ⟨sv.width r hr, sv.col r hr⟩, sv.cover⟩

/-- instead of `hcover`: a key that the full scan does not read (`scanCol … = none`: no row) has,
    in every live period, accepted rows that accumulate to the EMPTY state only -/
theorem unscanned_key_is_empty (cfg : TableCfg) (wf : CfgWF cfg) (ops : List StoreOp) (hpos : StorePos ops)
    (key : Key) (ti : Nat) (hti : ti < cfg.fields.length)
    (hv : (cfg.fields[ti]).ex.valid = true) (hp : (cfg.fields[ti]).ex.noPtile = true)
    (hnone : scanCol cfg (runStore x cfg ops) true key ti = none) (t : Int)
    (hlive : t > (runStore x cfg ops).now - cfg.retention) (ht0 : 0 < t) :
    (cfg.fields[ti]).ex.acc x (keyPeriodPts (acceptedRows cfg true (pointsOf ops)).1 (·.pt) key t) =
      (cfg.fields[ti]).ex.empty := by
  rw [← scanCol_at_live x cfg wf ops hpos key ti hti hv hp t hlive ht0, hnone]; rfl

/-- dropping the rows of such keys from a bucket does not change its accumulation -/
theorem bucket_without_unscanned_keys {e : Ex} (hv : e.valid = true) (hp : e.noPtile = true)
    (q : Query) (A : List AccRow) (adj : AccRow → Pt) (lo hi P : Int) (k : Key) (T : Int)
    (good : AccRow → Bool) (hgk : ∀ a b : AccRow, a.key = b.key → good a = good b)
    (hempty : ∀ a ∈ A, lo < a.period ∧ a.period ≤ hi → good a = false →
      e.acc x (keyPeriodPts A adj a.key a.period) = e.empty) :
    e.acc x (specBucketPts q A adj lo hi P k T) = e.acc x (specBucketPts q (A.filter good) adj lo hi P k T) :=
  specBucket_drop_uncovered x hv hp q A adj lo hi P k T good hgk hempty

/-! ## MAIN -/

/-- END-TO-END (C06 + C07).  For every well-formed table configuration, every store script (points
    of any keys, array values, rejected points, flushes of either kind anywhere), and every grouped
    query whose plan succeeds at the store's clock, without STRIDE: take a selected field `f`
    (`i`-th of the query) that is one of the scanned table fields (`j`-th of `includedFields`, same
    expression; valid, no PERCENTILE, no SHIFT) and is sub-merged from that field alone, directly
    (`hone`; `table_aggregate_is_direct` below gives it for aggregates).  Then for every output key
    `k` and every out period end `T` on the query's grid, the cell `core.Group` computes over the
    memstore-inclusive scan of `runStore x cfg ops` — the scan `runQuery` performs, WHERE applied —
    is
    * inside the window `(gAsOf, gUntil]`: `f.ex.acc x` of exactly the accepted raw rows of the
      script (`acceptedRows`, as `specQuery` defines them, WHERE applied per key) whose key projects
      to `k` and whose period falls into the bucket `(T − P, T]` inside the window — `specQuery`'s
      bucket `(k, T)`, each row once, none from elsewhere;
    * outside the window: the empty state. -/
theorem group_cell_end_to_end (cfg : TableCfg) (wf : CfgWF cfg) (ops : List StoreOp) (hpos : StorePos ops)
    (q : Query) (metas : List KeyMeta) (pl : Plan)
    (hpl : planLocal cfg (runStore x cfg ops).now q = .ok pl) (hstride : q.stride ≤ 0)
    (hpos0 : 0 < gAsOfOf cfg (runStore x cfg ops).now pl)
    (i j : Nat) (f inF : Field) (hout : q.outFields[i]? = some f)
    (hin : (includedFields cfg q)[j]? = some inF) (hex : inF.ex = f.ex)
    (hv : f.ex.valid = true) (hp : f.ex.noPtile = true) (hs : f.ex.shiftOf = 0)
    (hone : OneHot (dedupInputs ((includedFields cfg q).map (·.ex))
      (f.ex.subMergers ((includedFields cfg q).map (·.ex)))) j f.ex)
    (hmetas : q.hasWhere = true → ∀ a ∈ (acceptedRows cfg true (pointsOf ops)).1, ∃ m ∈ metas, m.key = a.key)
    (k : Key) (T : Int) (hT : (gUntilOf cfg (runStore x cfg ops).now pl - T) % gResOf cfg pl = 0) :
    (groupCell cfg (runStore x cfg ops).now q pl (includedFields cfg q) metas
        (whereRows q metas ((runStore x cfg ops).iterate cfg (includedFields cfg q) true).rows) k i).at
        f.ex (gResOf cfg pl) T =
      if gAsOfOf cfg (runStore x cfg ops).now pl < T ∧ T ≤ gUntilOf cfg (runStore x cfg ops).now pl
      then f.ex.acc x (specBucketPts q (specRows q metas (acceptedRows cfg true (pointsOf ops)).1) (·.pt)
        (gAsOfOf cfg (runStore x cfg ops).now pl) (gUntilOf cfg (runStore x cfg ops).now pl) (gResOf cfg pl) k T)
      else f.ex.empty := by
  obtain ⟨ti, hti, hfe⟩ := includedFields_index cfg q j inF hin
  have ft : FieldTie cfg q (includedFields cfg q) i f j ti :=
    ⟨hout, ⟨inF, hin, hex⟩, ⟨hti, by rw [hfe]; exact hex⟩, hv, hp, hs, hone⟩
  have sv := scanView_included cfg wf.distinct _ (StoreProj.reachable_store_wf x cfg wf ops hpos) q j ti hti
    (by rw [hfe]; exact hin)
  exact e2e_cell x cfg wf ops hpos q metas pl hpl (planLocal_noStride cfg _ q pl hpl hstride) hpos0 _ _ i j ti f
    ft sv hmetas k T hT

/-- the rows `core.Group` receives in `group_cell_end_to_end` are literally those of `runQuery`:
    the scan of the included fields, filtered by the per-key WHERE bit when the query has a WHERE -/
theorem whereRows_is_runQuery_filter (q : Query) (metas : List KeyMeta) (scan : List Row) :
    whereRows q metas scan =
      if q.hasWhere then
        scan.filter (fun r => ((metas.find? (fun m => m.key == r.key)).map (·.whereOk)).getD false)
      else scan := rfl

/-- C07 end-to-end: for ANY period end outside `(gAsOf, gUntil]` (on the out grid or not) the cell
    holds nothing -/
theorem group_cell_outside_window_empty (cfg : TableCfg) (wf : CfgWF cfg) (ops : List StoreOp) (hpos : StorePos ops)
    (q : Query) (metas : List KeyMeta) (pl : Plan)
    (hpl : planLocal cfg (runStore x cfg ops).now q = .ok pl) (hstride : q.stride ≤ 0)
    (hpos0 : 0 < gAsOfOf cfg (runStore x cfg ops).now pl)
    (i j : Nat) (f inF : Field) (hout : q.outFields[i]? = some f)
    (hin : (includedFields cfg q)[j]? = some inF) (hex : inF.ex = f.ex)
    (hv : f.ex.valid = true) (hp : f.ex.noPtile = true) (hs : f.ex.shiftOf = 0)
    (hone : OneHot (dedupInputs ((includedFields cfg q).map (·.ex))
      (f.ex.subMergers ((includedFields cfg q).map (·.ex)))) j f.ex)
    (k : Key) (T : Int)
    (hout' : ¬ (gAsOfOf cfg (runStore x cfg ops).now pl < T ∧ T ≤ gUntilOf cfg (runStore x cfg ops).now pl)) :
    (groupCell cfg (runStore x cfg ops).now q pl (includedFields cfg q) metas
        (whereRows q metas ((runStore x cfg ops).iterate cfg (includedFields cfg q) true).rows) k i).at
        f.ex (gResOf cfg pl) T = f.ex.empty := by
  obtain ⟨ti, hti, hfe⟩ := includedFields_index cfg q j inF hin
  have ft : FieldTie cfg q (includedFields cfg q) i f j ti :=
    ⟨hout, ⟨inF, hin, hex⟩, ⟨hti, by rw [hfe]; exact hex⟩, hv, hp, hs, hone⟩
  have sv := scanView_included cfg wf.distinct _ (StoreProj.reachable_store_wf x cfg wf ops hpos) q j ti hti
    (by rw [hfe]; exact hin)
  exact SubMergeSem.groupRows_window_exact
    (groupCell_of_store x cfg wf ops hpos q metas pl hpl (planLocal_noStride cfg _ q pl hpl hstride) hpos0 _ _ i j ti f
      ft sv) metas k T hout'

/-- `specQuery` on the points of the script plans at the store's clock: it is `specOut` of the
    accepted rows under the very plan `runQuery` uses -/
theorem specQuery_on_script (cfg : TableCfg) (ops : List StoreOp) (q : Query) (metas : List KeyMeta) (pl : Plan)
    (hpl : planLocal cfg (runStore x cfg ops).now q = .ok pl) :
    specQuery x cfg true (pointsOf ops) q metas =
      .ok (specOut x cfg q metas (acceptedRows cfg true (pointsOf ops)).1 (runStore x cfg ops).now pl) := by
  rw [SubMergeSem.specQuery_is_specOut, accepted_clock_is_store_clock x, hpl]

/-- … and for a selected expression without IF the accumulation of `group_cell_end_to_end` is the
    one `specOut` performs for the bucket (its points carry the key's IF conditions in addition) -/
theorem bucket_is_specOut_bucket {e : Ex} (h : e.noIf = true) (q : Query) (metas : List KeyMeta)
    (A : List AccRow) (lo hi P : Int) (k : Key) (T : Int) :
    e.acc x (specBucketPts q A (·.pt) lo hi P k T) = e.acc x (specBucketPts q A (specAdj metas) lo hi P k T) := by
  unfold specBucketPts
  exact (SubMergeSem.spec_bucket_conds_irrelevant x h metas _).symm

/-! ## Where `hone` comes from -/

/-- no two of the fields print alike as expressions (stronger than `FieldsDistinct`, which also
    looks at the names; its failure is the known finding field-identity-collision) -/
def ExprsDistinct (fs : List Field) : Prop := fs.Pairwise (fun f g => f.ex.sameStr g.ex = false)

instance (fs : List Field) : Decidable (ExprsDistinct fs) := by unfold ExprsDistinct; exact inferInstance

/-- a selected aggregate that is a scanned table field, in a table whose field expressions print
    pairwise differently, is sub-merged from that field alone, directly -/
theorem table_aggregate_is_direct (cfg : TableCfg) (hd : ExprsDistinct cfg.fields) (q : Query) (j : Nat)
    (inF : Field) (kd : AggKind) (wd : Ex) (hin : (includedFields cfg q)[j]? = some inF)
    (hagg : inF.ex = .agg kd wd) :
    OneHot (dedupInputs ((includedFields cfg q).map (·.ex))
      ((Ex.agg kd wd).subMergers ((includedFields cfg q).map (·.ex)))) j (.agg kd wd) := by
  apply SubMergeSem.direct_submerger_of_table_aggregate
  · rw [List.getElem?_map, hin]; simp [hagg]
  · have hdi : ExprsDistinct (includedFields cfg q) := List.Pairwise.sublist (includedFields_sublist cfg q) hd
    intro a b ea eb hne ha hb
    rw [List.getElem?_map] at ha hb
    obtain ⟨fa, hfa, rfl⟩ := Option.map_eq_some_iff.mp ha
    obtain ⟨fb, hfb, rfl⟩ := Option.map_eq_some_iff.mp hb
    obtain ⟨hal, rfl⟩ := List.getElem?_eq_some_iff.mp hfa
    obtain ⟨hbl, rfl⟩ := List.getElem?_eq_some_iff.mp hfb
    have hpw := List.pairwise_iff_getElem.mp hdi
    rcases Nat.lt_or_gt_of_ne hne with hlt | hgt
    · exact hpw a b hal hbl hlt
    · have := hpw b a hbl hal hgt
      unfold Ex.sameStr at this ⊢
      rw [BEq.comm]; exact this

/-! ## Stage 2: the read-out (`core.Flatten`) against `specQuery`'s row construction

Bundles (Lemmas/EndToEndIncl.lean, EndToEndRead.lean): `E2ECtx x cfg ops q metas pl` = the store/plan
hypotheses of `group_cell_end_to_end` (`CfgWF`, `StorePos`, `planLocal … = .ok pl` at the store's
clock, no STRIDE, `0 < gAsOf`, WHERE bits for all keys); `ScannedField cfg q f` = `f` is a scanned
table field, directly sub-merged from it alone, valid, no PERCENTILE, no SHIFT; `PlainField x cfg q
metas f` = `ScannedField` + not constant + NO VALUE ON THE EMPTY STATE (`f.ex.val x f.ex.empty = none`:
plain aggregates; expressions with a constant operand fail it — known finding empty-bucket-row) +
the per-key IF conditions of the query do not matter to it. -/

/-- the bundles are what `group_cell_end_to_end` assumes -/
theorem e2eCtx_intro (cfg : TableCfg) (wf : CfgWF cfg) (ops : List StoreOp) (hpos : StorePos ops)
    (q : Query) (metas : List KeyMeta) (pl : Plan)
    (hpl : planLocal cfg (runStore x cfg ops).now q = .ok pl) (hstride : q.stride ≤ 0)
    (hpos0 : 0 < gAsOfOf cfg (runStore x cfg ops).now pl)
    (hmetas : q.hasWhere = true → ∀ a ∈ (acceptedRows cfg true (pointsOf ops)).1, ∃ m ∈ metas, m.key = a.key) :
    E2ECtx x cfg ops q metas pl := ⟨wf, hpos, hpl, hstride, hpos0, hmetas⟩

/-- a selected aggregate without IF that is a scanned table field of a table whose field
    expressions print pairwise differently is a `PlainField` -/
theorem plain_aggregate (cfg : TableCfg) (hd : ExprsDistinct cfg.fields) (q : Query) (metas : List KeyMeta)
    (f inF : Field) (j : Nat) (kd : AggKind) (wd : Ex) (hin : (includedFields cfg q)[j]? = some inF)
    (hex : inF.ex = f.ex) (hagg : f.ex = .agg kd wd)
    (hv : f.ex.valid = true) (hp : f.ex.noPtile = true) (hs : f.ex.shiftOf = 0) (hnoif : f.ex.noIf = true) :
    PlainField x cfg q metas f := by
  refine ⟨⟨⟨j, inF, hin, hex, ?_⟩, hv, hp, hs⟩, by rw [hagg]; rfl, ?_, fun l => acc_specAdj x hnoif metas l⟩
  · rw [hagg]; exact table_aggregate_is_direct cfg hd q j inF kd wd hin (by rw [hex, hagg])
  · rw [hagg]; simp [Ex.val, Ex.get, Ex.empty]

/-- `core.Flatten` for one row, without its loop bounds: when the row's columns lie on one grid
    (`OnGrid`: empty, or `until` on the grid anchored at `hi0`), a row comes out for exactly the
    grid times `T` at which the loop body (`flatAt`) yields one — the loop runs from the earliest
    asOf to the latest until of the non-empty columns, and a non-constant expression has a value
    only inside its column's span, so nothing is lost outside the loop bounds -/
theorem flatten_row_members (fields : List Field) (res hi0 : Int) (r : Row) (hres : 0 < res)
    (hgrid : ∀ c ∈ r.cols, OnGrid res hi0 c) (row : QRow) :
    row ∈ flattenRow x fields res r ↔ ∃ T, (hi0 - T) % res = 0 ∧ flatAt x fields res r T = some row :=
  mem_flattenRow x fields res hi0 r hres hgrid row

/-- FLATTEN = SPEC, bucket by bucket.  At an out-grid time `T`, the loop body of `Flatten` on the
    grouped row with key `g.key` yields exactly the row `specOut` builds for the bucket
    `(g.key, T)` (same emission rule, same values) inside the window, and nothing outside.  In
    particular a period WITHOUT data between a group's first and last period (which `Flatten`'s
    loop visits and the spec does not) yields no row: every selected field reads `none` there. -/
theorem flatten_reads_spec_bucket {cfg : TableCfg} {ops : List StoreOp} {q : Query} {metas : List KeyMeta} {pl : Plan}
    (C : E2ECtx x cfg ops q metas pl) (hall : ∀ f ∈ q.outFields, PlainField x cfg q metas f)
    (g : Row) (hg : g ∈ e2eGroup x cfg ops q metas pl) (T : Int)
    (hT : (gUntilOf cfg (runStore x cfg ops).now pl - T) % gResOf cfg pl = 0) :
    flatAt x q.outFields (gResOf cfg pl) g T =
      if gAsOfOf cfg (runStore x cfg ops).now pl < T ∧ T ≤ gUntilOf cfg (runStore x cfg ops).now pl
      then specAt x q metas (specRows q metas (acceptedRows cfg true (pointsOf ops)).1)
        (gAsOfOf cfg (runStore x cfg ops).now pl) (gUntilOf cfg (runStore x cfg ops).now pl) (gResOf cfg pl) g.key T
      else none :=
  e2e_flatAt x C hall g hg T hT

/-- neither side returns a row twice (rows are identified by (key, ts)) -/
theorem result_rows_nodup {cfg : TableCfg} {ops : List StoreOp} {q : Query} {metas : List KeyMeta} {pl : Plan}
    (C : E2ECtx x cfg ops q metas pl) :
    ((e2eGroup x cfg ops q metas pl).flatMap (flattenRow x q.outFields (gResOf cfg pl))).Nodup ∧
    ∀ A lo hi P, ((specBuckets q A lo hi P).filterMap (fun kT => specAt x q metas A lo hi P kT.1 kT.2)).Nodup :=
  ⟨e2e_flat_nodup x _ (groupRows_keys cfg _ q pl _ metas _).1 _ _ C.resPos,
    fun A lo hi P => specOut_nodup x q metas A lo hi P⟩

/-- STAGE 2, MAIN.  For a grouped query (`needsGroupBy`, no HAVING) all of whose selected fields
    are `PlainField`s: `runQuery` on the store reached by ANY script and `specQuery` on the points
    of that script both succeed, and return the same rows as multisets (`List.Perm`; the orders
    differ: `Flatten` goes key by key in time order, the spec in order of first arrival). -/
theorem runQuery_rows_are_specQuery_rows {cfg : TableCfg} {ops : List StoreOp} {q : Query} {metas : List KeyMeta}
    {pl : Plan} (C : E2ECtx x cfg ops q metas pl) (hall : ∀ f ∈ q.outFields, PlainField x cfg q metas f)
    (hne : q.outFields ≠ []) (hng : pl.needsGroupBy = true) (hh : q.hasHaving = false) :
    ∃ R S, runQuery x cfg (runStore x cfg ops) q metas true = .ok R ∧
      specQuery x cfg true (pointsOf ops) q metas = .ok S ∧ R.Perm S :=
  e2e_runQuery_perm x C hall hne hng hh

/-! ## Non-vacuity: a three-field table, three keys (two of which project to the same output key),
an array value (three rows), a rejected point, points at the edge of the retention window, a raw
and a re-encoding flush; the query selects `a` only (so it scans `[a]`, a proper sub-list of the
table's fields), GROUP BY d (dropping e), period 20 = 2 × the table's. -/

def exA : Ex := .agg .sum (.field "a")
def exB : Ex := .agg .count (.field "b")
def exCfg : TableCfg :=
  { fields := [⟨"_points", .agg .sum (.field "_point")⟩, ⟨"a", exA⟩, ⟨"b", exB⟩],
    res := 10, retention := 100, groupBy := none }
def kx1 : Key := [("d", "1"), ("e", "x")]
def ky1 : Key := [("d", "1"), ("e", "y")]
def kx2 : Key := [("d", "2"), ("e", "x")]
def exOps : List StoreOp :=
  [.ingest { ts := 1003, dims := kx1, vals := [("a", [2]), ("b", [1])] },
   .ingest { ts := 1018, dims := ky1, vals := [("a", [5, 1])] },
   .flush false,
   .ingest { ts := 1021, dims := kx1, vals := [("a", [4])] },
   .ingest { ts := 1040, dims := kx2, vals := [("a", [3])] },
   .ingest { ts := 3, dims := kx1, vals := [("a", [9])] },
   .ingest { ts := 950, dims := ky1, vals := [("a", [7])] },
   .ingest { ts := 945, dims := kx2, vals := [("b", [7])] },
   .flush true,
   .ingest { ts := 1034, dims := ky1, vals := [("a", [8])] }]
def exQ : Query :=
  { outFields := [⟨"a", exA⟩], groupByAll := false, groupBy := ["d"], resolution := 20, hasSpecificFields := true }
def exPl : Plan := match planLocal exCfg 1040 exQ with | .ok p => p | .error _ => default
def exScan : List Row := ((runStore default exCfg exOps).iterate exCfg (includedFields exCfg exQ) true).rows
def exAcc : List AccRow := (acceptedRows exCfg true (pointsOf exOps)).1

example : CfgWF exCfg ∧ StorePos exOps ∧ ExprsDistinct exCfg.fields := by decide
private theorem exNow : (runStore default exCfg exOps).now = 1040 := by decide +kernel
private theorem exPlan : planLocal exCfg (runStore default exCfg exOps).now exQ = .ok exPl := by rw [exNow]; rfl
example : includedFields exCfg exQ = [⟨"a", exA⟩] := by decide +kernel
example : gAsOfOf exCfg 1040 exPl = 940 ∧ gUntilOf exCfg 1040 exPl = 1040 ∧ gResOf exCfg exPl = 20 := by decide +kernel
/-- nine accepted rows (the array point gives three, the point at ts 3 is rejected), one scan row per key -/
example : exAcc.length = 9 ∧ exScan.map (·.key) = [kx1, ky1, kx2] := by decide +kernel
/-- the vocabularies agree on the example: key (d=1,e=y), period 1020 has the three rows of the array point -/
example : (tableRowsFor exCfg ky1 1020 0 exOps).length = 3 ∧
    (exAcc.filter (fun a => a.key == ky1 && a.period == 1020)).length = 3 := by decide +kernel

/-- every hypothesis of `group_cell_end_to_end` holds on the example, so its conclusion is a
    statement about the cells computed below -/
example (k : Key) (T : Int) (hT : (gUntilOf exCfg (runStore default exCfg exOps).now exPl - T) % gResOf exCfg exPl = 0) :
    (groupCell exCfg (runStore default exCfg exOps).now exQ exPl (includedFields exCfg exQ) []
        (whereRows exQ [] exScan) k 0).at exA (gResOf exCfg exPl) T =
      if gAsOfOf exCfg (runStore default exCfg exOps).now exPl < T ∧ T ≤ gUntilOf exCfg (runStore default exCfg exOps).now exPl
      then exA.acc default (specBucketPts exQ (specRows exQ [] exAcc) (·.pt)
        (gAsOfOf exCfg (runStore default exCfg exOps).now exPl) (gUntilOf exCfg (runStore default exCfg exOps).now exPl)
        (gResOf exCfg exPl) k T)
      else exA.empty :=
  group_cell_end_to_end default exCfg (by decide) exOps (by decide) exQ [] exPl exPlan (by decide)
    (by rw [exNow]; decide +kernel) 0 0 ⟨"a", exA⟩ ⟨"a", exA⟩ rfl (by decide +kernel) rfl (by decide) (by decide) (by decide)
    (table_aggregate_is_direct exCfg (by decide) exQ 0 ⟨"a", exA⟩ .sum (.field "a") (by decide +kernel) rfl)
    (by intro h; cases h) k T hT

/-- both sides on the example.  Output key d=1 merges (d=1,e=x) and (d=1,e=y) and not (d=2,e=x);
    bucket 1040 = periods 1030 (4) + 1040 (8); bucket 1020 = periods 1010 (2) + 1020 (5+1+1: the
    extra array row twice); bucket 960 holds the point at 950, the first live period (940 is the
    window's exclusive start = the store's truncation bound) -/
example :
    [960, 980, 1000, 1020, 1040].map (fun T =>
      (groupCell exCfg 1040 exQ exPl (includedFields exCfg exQ) [] (whereRows exQ [] exScan) [("d", "1")] 0).at exA 20 T) =
      [[.agg (some 7)], [.agg none], [.agg none], [.agg (some 9)], [.agg (some 12)]] ∧
    [960, 980, 1000, 1020, 1040].map (fun T =>
      exA.acc default (specBucketPts exQ (specRows exQ [] exAcc) (·.pt) 940 1040 20 [("d", "1")] T)) =
      [[.agg (some 7)], [.agg none], [.agg none], [.agg (some 9)], [.agg (some 12)]] ∧
    [960, 980, 1000, 1020, 1040].map (fun T =>
      (specBucketPts exQ (specRows exQ [] exAcc) (·.pt) 940 1040 20 [("d", "1")] T).length) = [1, 0, 0, 4, 2] := by
  decide +kernel
/-- outside the window the cell is empty -/
example : (groupCell exCfg 1040 exQ exPl (includedFields exCfg exQ) [] (whereRows exQ [] exScan) [("d", "1")] 0).at exA 20 940 =
    exA.empty ∧
    (groupCell exCfg 1040 exQ exPl (includedFields exCfg exQ) [] (whereRows exQ [] exScan) [("d", "1")] 0).at exA 20 1060 =
    exA.empty := by decide +kernel

/-! Sharpness of `hmetas`: with a WHERE clause and NO metadata for a key, `runQuery` drops the key's
    scan row (`getD false`) while `specQuery` keeps its accepted rows (`KeyMeta.whereOk` defaults to
    `true`): the two models only agree when the WHERE bit is supplied for every key of the script
    (the harness does). -/
example : (whereRows { exQ with hasWhere := true } [] exScan).length = 0 ∧
    (specRows { exQ with hasWhere := true } [] exAcc).length = 9 := by decide +kernel

/-! stage 2 on the example -/

private theorem exCtx : E2ECtx default exCfg exOps exQ [] exPl :=
  e2eCtx_intro default exCfg (by decide) exOps (by decide) exQ [] exPl exPlan (by decide)
    (by rw [exNow]; decide +kernel) (by intro h; cases h)
private theorem exPlain : ∀ f ∈ exQ.outFields, PlainField default exCfg exQ [] f := by
  intro f hf
  have ho : exQ.outFields = [⟨"a", exA⟩] := rfl
  rw [ho, List.mem_singleton] at hf
  subst hf
  exact plain_aggregate default exCfg (by decide) exQ [] ⟨"a", exA⟩ ⟨"a", exA⟩ 0 .sum (.field "a") (by decide +kernel) rfl rfl
    (by decide) (by decide) (by decide) (by decide)
example : ∃ R S, runQuery default exCfg (runStore default exCfg exOps) exQ [] true = .ok R ∧
    specQuery default exCfg true (pointsOf exOps) exQ [] = .ok S ∧ R.Perm S :=
  runQuery_rows_are_specQuery_rows default exCtx exPlain (by decide) (by decide +kernel) (by decide)
/-- both sides on the example: four rows; bucket (d=1, 980) and (d=1, 1000) lie between the first
    and the last period of the group d=1 and hold no data — no row (SUM reads `none` there) -/
example :
    (match runQuery default exCfg (runStore default exCfg exOps) exQ [] true with
      | .ok r => r.map (fun r => (r.ts, r.key, r.vals.length)) | .error _ => []) =
      [(960, [("d", "1")], 1), (1020, [("d", "1")], 1), (1040, [("d", "1")], 1), (1040, [("d", "2")], 1)] ∧
    (match specQuery default exCfg true (pointsOf exOps) exQ [] with
      | .ok r => r.map (fun r => (r.ts, r.key, r.vals.length)) | .error _ => []) =
      [(1020, [("d", "1")], 1), (1040, [("d", "1")], 1), (1040, [("d", "2")], 1), (960, [("d", "1")], 1)] := by
  decide +kernel
/-- the boundary of `noValueOnEmpty`: an expression with a constant operand has a value on the
    empty state (known finding empty-bucket-row), a plain aggregate has none -/
example : (Ex.bin .mul exA (.const 2)).val default (Ex.bin .mul exA (.const 2)).empty = some 0 ∧
    exA.val default exA.empty = none := by decide +kernel

end Zeno.EndToEnd
