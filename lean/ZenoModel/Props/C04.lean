/-
C04 — queries are read-only: running any query never changes stored data.

Property theorems only (model: Model/SeqHeap.lean; helper lemmas: Lemmas/SeqHeap.lean,
Lemmas/SeqHeapRefine.lean).  The effect model says, for every `encoding.Sequence`
operation the query path uses, which byte ranges of which buffers the Go code stores
into.  All statements hold for every heap size `n` (buffers `0 … n-1` exist before the
call, fresh ones are `n, n+1, …`), all operand views and all value-level parameters, with
no bound.  "Stored data" = the buffers that existed before the query started.
-/
import ZenoModel.Lemmas.SeqHeap
import ZenoModel.Lemmas.SeqHeapRefine

namespace Zeno.C04
open Zeno

/-! ### frame theorems: one per operation -/

/-- `Truncate` (after the D1 fix) stores into freshly allocated memory only; in particular
    never into its operand. -/
theorem frame_truncate (n : Nat) (s : SV) (w : Nat) (res asOf hi : Int) :
    (∀ x ∈ (truncateEff n s w res asOf hi).writes, n ≤ x.buf) ∧
    (∀ v, s.sl = some v → v.buf < n → ∀ x ∈ (truncateEff n s w res asOf hi).writes, x.buf ≠ v.buf) := by
  have h := truncateEff_writes_fresh n s w res asOf hi
  refine ⟨fun x hx => Nat.le_of_eq (h x hx).symm, fun v _ hlt x hx => ?_⟩
  have := h x hx
  omega

/-- `Merge` stores into freshly allocated memory only; never into either operand. -/
theorem frame_merge (n : Nat) (a b : SV) (w : Nat) (res tb : Int) :
    (∀ x ∈ (mergeEff n a b w res tb).writes, n ≤ x.buf) ∧
    (∀ v, (a.sl = some v ∨ b.sl = some v) → v.buf < n →
      ∀ x ∈ (mergeEff n a b w res tb).writes, x.buf ≠ v.buf) := by
  have h := mergeEff_writes_fresh n a b w res tb
  refine ⟨fun x hx => Nat.le_of_eq (h x hx).symm, fun v _ hlt x hx => ?_⟩
  have := h x hx
  omega

/-- `rowMerger` (`out[o] = out[o].Merge(seq, …)`) inherits the frame of `Merge`: the
    memstore column `seq` and the file column `out[o]` are only read. -/
theorem frame_rowMerger (n : Nat) (fileCol memCol : SV) (w : Nat) (res tb : Int) :
    ∀ x ∈ (rowMergerEff n fileCol memCol w res tb).writes, n ≤ x.buf :=
  (frame_merge n fileCol memCol w res tb).1

/-- `ValueAtTime` stores nothing at all. -/
theorem frame_valueAt (s : SV) (e : Ex) (res t : Int) : (valueAtEff s e res t).writes = [] :=
  valueAtEff_writes s e res t

/-- a sub-merge closure (`e.Merge(data, data, other)`, combined / conditional / shifted)
    stores into `data` only: every write lies in `data`'s buffer. -/
theorem frame_subMerger (cb : List Nat) (ow : Nat) (otherRes : Int) (p : Pt) (sm : SM) (data other : View) (c0 : Nat) :
    ∀ x ∈ smWrites cb ow otherRes p sm data c0 other, x.buf = data.buf :=
  smWrites_buf cb ow otherRes p sm data c0 other

/-- `SubMerge` stores into freshly allocated memory or into its RECEIVER's buffer, and never
    into `other`'s buffer when receiver and `other` live in different buffers. -/
theorem frame_subMerge (n : Nat) (ex otherEx : Ex) (sm : SM) (res otherRes : Int) (s other : SV) (p : Pt)
    (asOf hi strideSlice : Int) :
    (∀ x ∈ (subMergeEff n ex otherEx sm res otherRes s other p asOf hi strideSlice).writes,
        n ≤ x.buf ∨ ∃ v, s.sl = some v ∧ x.buf = v.buf) ∧
    (∀ ov, other.sl = some ov → ov.buf < n → (∀ v, s.sl = some v → v.buf ≠ ov.buf) →
      ∀ x ∈ (subMergeEff n ex otherEx sm res otherRes s other p asOf hi strideSlice).writes, x.buf ≠ ov.buf) := by
  have h := (subMergeEff_spec n ex otherEx sm res otherRes s other p asOf hi strideSlice).1
  refine ⟨h, fun ov _ hlt hne x hx => ?_⟩
  rcases h x hx with h1 | ⟨v, hv, hb⟩
  · omega
  · rw [hb]; exact hne v hv

/-- the result of `SubMerge` is the receiver itself, or lives in the receiver's buffer or in
    a fresh one — never in `other`'s (so grouping never hands a stored sequence on as its own
    result). -/
theorem subMerge_result_not_other (n : Nat) (ex otherEx : Ex) (sm : SM) (res otherRes : Int) (s other : SV) (p : Pt)
    (asOf hi strideSlice : Int) :
    (subMergeEff n ex otherEx sm res otherRes s other p asOf hi strideSlice).out = s ∨
    ∃ v', (subMergeEff n ex otherEx sm res otherRes s other p asOf hi strideSlice).out.sl = some v' ∧
      (n ≤ v'.buf ∨ ∃ v, s.sl = some v ∧ v'.buf = v.buf) :=
  (subMergeEff_spec n ex otherEx sm res otherRes s other p asOf hi strideSlice).2

/-- for contrast, the insert path: `UpdateValue` does store into its receiver (in-place
    update of an existing period) — and into nothing else that existed before. -/
theorem frame_updateValue (n : Nat) (s : SV) (w : Nat) (res ts tb : Int) :
    ∀ x ∈ (updateValueEff n s w res ts tb).writes, n ≤ x.buf ∨ ∃ v, s.sl = some v ∧ x.buf = v.buf :=
  updateValueEff_spec n s w res ts tb

/-! ### aliasing: when a result IS (part of) an operand -/

/-- `Merge` returns an operand itself — no copy, nothing allocated, nothing written — exactly
    when the other operand is empty or the earlier operand is wholly expired; otherwise the
    result is a fresh buffer. -/
theorem alias_merge (n : Nat) (a b : SV) (w : Nat) (res tb : Int) :
    (a.len = 0 → (mergeEff n a b w res tb).out = b) ∧
    (a.len ≠ 0 → b.len = 0 → (mergeEff n a b w res tb).out = a) ∧
    (a.len ≠ 0 → b.len ≠ 0 → b.hi > a.hi → a.hi < roundUntilUp tb res b.hi → (mergeEff n a b w res tb).out = b) ∧
    (a.len ≠ 0 → b.len ≠ 0 → ¬ b.hi > a.hi → b.hi < roundUntilUp tb res a.hi → (mergeEff n a b w res tb).out = a) ∧
    (a.len ≠ 0 → b.len ≠ 0 → (b.hi > a.hi → ¬ a.hi < roundUntilUp tb res b.hi) →
      (¬ b.hi > a.hi → ¬ b.hi < roundUntilUp tb res a.hi) →
      ∃ size, (mergeEff n a b w res tb).out.sl = some ⟨n, 0, size, size⟩ ∧ (mergeEff n a b w res tb).allocs = [size]) ∧
    (((mergeEff n a b w res tb).out = a ∨ (mergeEff n a b w res tb).out = b) →
      (mergeEff n a b w res tb).out.sl ≠ some ⟨n, 0, (mergeEff n a b w res tb).out.len, (mergeEff n a b w res tb).out.len⟩ →
      (mergeEff n a b w res tb).allocs = [] ∧ (mergeEff n a b w res tb).writes = []) := by
  have hsome : ∀ (s : SV), s.len ≠ 0 → ∃ v, s.sl = some v ∧ ¬ v.len = 0 := by
    intro s hs
    cases h : s.sl with
    | none => simp [SV.len, Sl.len, h] at hs
    | some v => exact ⟨v, rfl, by simpa [SV.len, Sl.len, h] using hs⟩
  refine ⟨?_, ?_, ?_, ?_, ?_, ?_⟩
  · intro ha
    unfold mergeEff
    split
    · rfl
    · rename_i v hv
      have : v.len = 0 := by simpa [SV.len, Sl.len, hv] using ha
      rw [if_pos this]
  · intro ha hb
    obtain ⟨va, hva, hna⟩ := hsome a ha
    unfold mergeEff
    rw [hva]; dsimp only; rw [if_neg hna]
    split
    · rfl
    · rename_i v hv
      have : v.len = 0 := by simpa [SV.len, Sl.len, hv] using hb
      rw [if_pos this]
  · intro ha hb hgt hex
    obtain ⟨va, hva, hna⟩ := hsome a ha
    obtain ⟨vb, hvb, hnb⟩ := hsome b hb
    unfold mergeEff
    rw [hva]; dsimp only; rw [if_neg hna, hvb]; dsimp only; rw [if_neg hnb, if_pos hgt, if_pos hex]
  · intro ha hb hgt hex
    obtain ⟨va, hva, hna⟩ := hsome a ha
    obtain ⟨vb, hvb, hnb⟩ := hsome b hb
    unfold mergeEff
    rw [hva]; dsimp only; rw [if_neg hna, hvb]; dsimp only; rw [if_neg hnb, if_neg hgt, if_pos hex]
  · intro ha hb h1 h2
    obtain ⟨va, hva, hna⟩ := hsome a ha
    obtain ⟨vb, hvb, hnb⟩ := hsome b hb
    unfold mergeEff
    rw [hva]; dsimp only; rw [if_neg hna, hvb]; dsimp only; rw [if_neg hnb]
    by_cases hgt : b.hi > a.hi
    · rw [if_pos hgt, if_neg (h1 hgt)]
      exact (mergeMainEff_spec n vb va b.hi a.hi w res).2.1
    · rw [if_neg hgt, if_neg (h2 hgt)]
      exact (mergeMainEff_spec n va vb a.hi b.hi w res).2.1
  · intro _ hne
    rcases mergeEff_spec n a b w res tb with ⟨_, h1, h2⟩ | ⟨_, h1, h2⟩ | ⟨⟨size, h1, _⟩, _⟩
    · exact ⟨h1, h2⟩
    · exact ⟨h1, h2⟩
    · exfalso
      apply hne
      rw [h1]
      simp [SV.len, Sl.len, h1, View.mk']

/-- `Truncate` returns nil, or a prefix re-slice of its operand (same buffer, same offset,
    same capacity, not longer; then nothing was allocated or written), or a slice at offset 0
    of the one fresh buffer.  The re-slice happens exactly when the `until` bound cuts
    nothing off the front. -/
theorem alias_truncate (n : Nat) (s : SV) (w : Nat) (res asOf hi : Int) :
    ((truncateEff n s w res asOf hi).out.sl = none ∨
     (∃ v v', s.sl = some v ∧ (truncateEff n s w res asOf hi).out.sl = some v' ∧
        v'.buf = v.buf ∧ v'.off = v.off ∧ v'.len ≤ v.len ∧ v'.cap = v.cap ∧
        (truncateEff n s w res asOf hi).allocs = [] ∧ (truncateEff n s w res asOf hi).writes = []) ∨
     (∃ v', (truncateEff n s w res asOf hi).out.sl = some v' ∧ v'.buf = n ∧ v'.off = 0 ∧
        (truncateEff n s w res asOf hi).allocs.length = 1)) ∧
    (∀ v, s.sl = some v → v.buf < n → ∀ v', (truncateEff n s w res asOf hi).out.sl = some v' →
      (v'.buf = n ↔ (roundUntilDown hi res s.hi ≠ 0 ∧ (s.hi - roundUntilDown hi res s.hi).tdiv res > 0))) := by
  refine ⟨(truncateEff_spec n s w res asOf hi).2.2, ?_⟩
  intro v hv hlt v' hv'
  unfold truncateEff at hv'
  rw [hv] at hv'
  simp only at hv'
  split at hv'
  · simp [SV.nil] at hv'
  · cases hu : truncUntilEff n v s.hi w res (roundUntilDown hi res s.hi) with
    | none => rw [hu] at hv'; simp [SV.nil] at hv'
    | some r =>
      rw [hu] at hv'
      simp only at hv'
      have ha := (truncAsOfEff_spec r w res (roundUntilDown asOf res s.hi)).2.2
      rcases ha with h0 | ⟨v'', h1, h2, _⟩
      · rw [h0] at hv'; cases hv'
      · rw [h1] at hv'
        have : v'' = v' := Option.some.inj hv'
        subst this
        rw [h2]
        unfold truncUntilEff at hu
        split at hu
        · rename_i hne
          extract_lets ptr btr t at hu
          split at hu
          · rename_i hpos
            split at hu
            · cases hu
            · injection hu with hu; subst hu
              exact ⟨fun _ => ⟨hne, hpos⟩, fun _ => rfl⟩
          · rename_i hpos
            injection hu with hu; subst hu
            exact ⟨fun h => by simp only at h; omega, fun h => absurd h.2 hpos⟩
        · rename_i hne
          injection hu with hu; subst hu
          exact ⟨fun h => by simp only at h; omega, fun h => absurd h.1 hne⟩

/-- whatever `Merge` returned — a fresh buffer or one of its operands, i.e. possibly the
    memstore's stored sequence — handing it on to `SubMerge` as `other` (what grouping does)
    writes neither operand of the merge, for any receiver that lives elsewhere. -/
theorem alias_tracking (n : Nat) (a b : SV) (w : Nat) (res tb : Int)
    (ex otherEx : Ex) (sm : SM) (qres otherRes : Int) (recv : SV) (p : Pt) (asOf hi stride : Int)
    (n' : Nat) (hn' : n + (mergeEff n a b w res tb).allocs.length ≤ n')
    (v : View) (hv : a.sl = some v ∨ b.sl = some v) (hlt : v.buf < n)
    (hrecv : ∀ rv, recv.sl = some rv → rv.buf ≠ v.buf) :
    ∀ x ∈ (mergeEff n a b w res tb).writes ++
        (subMergeEff n' ex otherEx sm qres otherRes recv (mergeEff n a b w res tb).out p asOf hi stride).writes,
      x.buf ≠ v.buf := by
  intro x hx
  rw [List.mem_append] at hx
  rcases hx with h | h
  · exact (frame_merge n a b w res tb).2 v hv hlt x h
  · rcases (frame_subMerge n' ex otherEx sm qres otherRes recv _ p asOf hi stride).1 x h with h1 | ⟨rv, hrv, hb⟩
    · omega
    · rw [hb]; exact hrecv rv hrv

/-! ### the query path -/

/-- The composition the query path performs on one stored column and one group — per source
    row: read the file row into a buffer of the scan's own, `rowMerger` (file column with the
    memstore column: a column of the scan's snapshot — a private copy since /repo 63b81da, the
    live memstore's own sequence before; the theorem does not care which), `SubMerge` into the out
    tree's own sequence (nil at first); finally `ValueAtTime` in flatten — never stores into a
    buffer that existed before the query started.  For any number of source rows, any views
    (also: several rows aliasing the same stored sequence), any expressions, sub-mergers,
    resolutions, time ranges and strides. -/
theorem query_frame (n0 : Nat) (fe ex : Ex) (sm : SM) (tres tb qres asOf hi stride : Int)
    (rows : List SrcRow) (ts : List Int) :
    ∀ x ∈ (queryColEff n0 fe ex sm tres tb qres asOf hi stride rows ts).writes, n0 ≤ x.buf := by
  intro x hx
  have hinv := queryRows_inv n0 fe ex sm tres tb qres asOf hi stride rows ⟨n0, SV.nil, []⟩
    ⟨Nat.le_refl _, by simp, by simp [SV.nil]⟩
  simp only [queryColEff, List.mem_append, List.mem_flatten, List.mem_map] at hx
  rcases hx with h | ⟨l, ⟨t, _, rfl⟩, hl⟩
  · exact hinv.2.1 x h
  · rw [valueAtEff_writes] at hl; simp at hl

/-- … hence the stored sequences themselves are never written: -/
theorem query_never_writes_store (n0 : Nat) (fe ex : Ex) (sm : SM) (tres tb qres asOf hi stride : Int)
    (rows : List SrcRow) (ts : List Int) (r : SrcRow) (_hr : r ∈ rows) (v : View) (_hv : r.mem.sl = some v)
    (hlt : v.buf < n0) :
    ∀ x ∈ (queryColEff n0 fe ex sm tres tb qres asOf hi stride rows ts).writes, x.buf ≠ v.buf := by
  intro x hx
  have := query_frame n0 fe ex sm tres tb qres asOf hi stride rows ts x hx
  omega

/-- … and the out tree's sequence the query ends up with is not part of the store either. -/
theorem query_result_is_own (n0 : Nat) (fe ex : Ex) (sm : SM) (tres tb qres asOf hi stride : Int)
    (rows : List SrcRow) (ts : List Int) :
    ∀ v, (queryColEff n0 fe ex sm tres tb qres asOf hi stride rows ts).out.sl = some v → n0 ≤ v.buf := by
  have hinv := queryRows_inv n0 fe ex sm tres tb qres asOf hi stride rows ⟨n0, SV.nil, []⟩
    ⟨Nat.le_refl _, by simp, by simp [SV.nil]⟩
  exact hinv.2.2

/-- Whatever bytes the query stores: every byte of every buffer that existed before the query
    has the same value afterwards … -/
theorem store_bytes_unchanged (n0 : Nat) (fe ex : Ex) (sm : SM) (tres tb qres asOf hi stride : Int)
    (rows : List SrcRow) (ts : List Int) (h h' : Nat → Nat → UInt8)
    (hexec : Agrees h h' (queryColEff n0 fe ex sm tres tb qres asOf hi stride rows ts).writes) :
    ∀ b, b < n0 → ∀ o, h' b o = h b o := by
  intro b hb o
  apply hexec
  rintro ⟨x, hx, hxb, _⟩
  have := query_frame n0 fe ex sm tres tb qres asOf hi stride rows ts x hx
  omega

/-- … so anything computed from the store alone — a probe query right after, the next flush,
    a probe after that flush — sees exactly what it would have seen without the query. -/
theorem probe_unchanged {α : Type} (n0 : Nat) (fe ex : Ex) (sm : SM) (tres tb qres asOf hi stride : Int)
    (rows : List SrcRow) (ts : List Int) (h h' : Nat → Nat → UInt8)
    (hexec : Agrees h h' (queryColEff n0 fe ex sm tres tb qres asOf hi stride rows ts).writes)
    (probe : (Nat → Nat → UInt8) → α)
    (hstore : ∀ h₁ h₂ : Nat → Nat → UInt8, (∀ b, b < n0 → ∀ o, h₁ b o = h₂ b o) → probe h₁ = probe h₂) :
    probe h' = probe h :=
  hstore h' h (store_bytes_unchanged n0 fe ex sm tres tb qres asOf hi stride rows ts h h' hexec)

/-! ### the memstore snapshot (`Tree.Copy`) -/

/-- `Tree.Copy` (the memstore snapshot a scan works on; /repo 63b81da): new node objects, a new
    `[]Sequence` array and ONE fresh byte buffer per node that has data (its size = the summed
    lengths of the node's sequences); every sequence of the copy is a view with `cap = len`
    into one of these fresh buffers `n … n + #allocs - 1`, with the length and `until` of the
    original (nil stays nil); and the copy writes these fresh buffers only. -/
theorem treeCopy_fresh (nObj nArr n : Nat) (t : List TNode) :
    (∀ nd ∈ (treeCopyEff nObj nArr n t).nodes, ∀ cols, nd.data = some cols → ∀ s' ∈ cols, ∀ v', s'.sl = some v' →
      n ≤ v'.buf ∧ v'.buf < n + (treeCopyEff nObj nArr n t).allocs.length ∧ v'.cap = v'.len) ∧
    (∀ w ∈ (treeCopyEff nObj nArr n t).writes,
      n ≤ w.buf ∧ w.buf < n + (treeCopyEff nObj nArr n t).allocs.length) ∧
    (treeCopyEff nObj nArr n t).nodes.map TNode.shape = t.map TNode.shape ∧
    (treeCopyEff nObj nArr n t).nodes.map (·.obj) = (List.range t.length).map (· + nObj) ∧
    (∀ nd ∈ (treeCopyEff nObj nArr n t).nodes, nd.data ≠ none → nArr ≤ nd.dataArr) ∧
    (treeCopyEff nObj nArr n t).allocs = t.filterMap (fun nd => nd.data.map colsTotal) :=
  ⟨(treeCopyEff_fresh t nObj nArr n).1, (treeCopyEff_fresh t nObj nArr n).2, treeCopyEff_shape t nObj nArr n⟩

/-- the copy shares no byte with the live tree: no view of the copy lies in a buffer of a live
    sequence (any buffer that existed before the copy), and the copy itself writes none of them. -/
theorem treeCopy_disjoint_from_live (nObj nArr n : Nat) (t : List TNode) (v : View) (hlive : v.buf < n) :
    (∀ nd ∈ (treeCopyEff nObj nArr n t).nodes, ∀ cols, nd.data = some cols → ∀ s' ∈ cols, ∀ v', s'.sl = some v' →
      v'.buf ≠ v.buf) ∧
    (∀ w ∈ (treeCopyEff nObj nArr n t).writes, w.buf ≠ v.buf) := by
  constructor
  · intro nd hnd cols hcols s' hs' v' hv'
    have := (treeCopyEff_fresh t nObj nArr n).1 nd hnd cols hcols s' hs' v' hv'
    omega
  · intro w hw
    have := (treeCopyEff_fresh t nObj nArr n).2 w hw
    omega

/-- the frame between live tree and snapshot, both ways.  (1) Whatever is stored afterwards
    into buffers that existed before the copy — inserts into the live memstore (`UpdateValue` in
    place) included — no byte of any sequence of the copy changes.  (2) Whatever is stored
    through the copy or into anything allocated after it (the query's own buffers), no byte of
    a buffer that existed before the copy changes. -/
theorem treeCopy_isolated (nObj nArr n : Nat) (t : List TNode) (h h' : Nat → Nat → UInt8) (ws : List Write)
    (hexec : Agrees h h' ws) :
    ((∀ w ∈ ws, w.buf < n) →
      ∀ nd ∈ (treeCopyEff nObj nArr n t).nodes, ∀ cols, nd.data = some cols → ∀ s' ∈ cols, ∀ v', s'.sl = some v' →
        ∀ o, h' v'.buf o = h v'.buf o) ∧
    ((∀ w ∈ ws, n ≤ w.buf) → ∀ b, b < n → ∀ o, h' b o = h b o) := by
  constructor
  · intro hold nd hnd cols hcols s' hs' v' hv' o
    apply hexec
    rintro ⟨x, hx, hxb, _⟩
    have h1 := hold x hx
    have h2 := (treeCopyEff_fresh t nObj nArr n).1 nd hnd cols hcols s' hs' v' hv'
    omega
  · intro hnew b hb o
    apply hexec
    rintro ⟨x, hx, hxb, _⟩
    have := hnew x hx
    omega

/-- a memstore-inclusive query as a whole: snapshot the memstore (`Tree.Copy` at buffer count
    `n0`), then run the query path over any source rows — in particular rows whose memstore
    column is a column of the snapshot.  Nothing that existed before is written. -/
theorem query_with_snapshot_frame (nObj nArr n0 : Nat) (t : List TNode) (fe ex : Ex) (sm : SM)
    (tres tb qres asOf hi stride : Int) (rows : List SrcRow) (ts : List Int) :
    ∀ x ∈ (treeCopyEff nObj nArr n0 t).writes ++
        (queryColEff (n0 + (treeCopyEff nObj nArr n0 t).allocs.length) fe ex sm tres tb qres asOf hi stride rows ts).writes,
      n0 ≤ x.buf := by
  intro x hx
  rcases List.mem_append.mp hx with h | h
  · exact ((treeCopyEff_fresh t nObj nArr n0).2 x h).1
  · exact Nat.le_trans (Nat.le_add_right _ _) (query_frame _ fe ex sm tres tb qres asOf hi stride rows ts x h)

/-- the code before /repo 63b81da (D9), for the record: the copy carried the live tree's own
    data arrays and sequences — every view of the "copy" IS a view of the live tree (which is
    why the frame theorems of the query path carried the whole burden then, and why a live
    insert was visible through the snapshot: C18). -/
theorem treeCopyShared_aliases (nObj : Nat) (t : List TNode) :
    (treeCopyEffShared nObj t).map (·.data) = t.map (·.data) ∧
    (treeCopyEffShared nObj t).map (·.dataArr) = t.map (·.dataArr) ∧
    (treeCopyEffShared nObj t).map (·.obj) = (List.range t.length).map (· + nObj) :=
  treeCopyEffShared_spec nObj t

/-! ### the effect model and the value model describe the same function -/

theorem truncate_refines {w : Nat} (hw : 0 < w) (n : Nat) {sv : SV} {s : Sq} (h : Rep w sv s) (res asOf hi : Int) :
    Rep w (truncateEff n sv w res asOf hi).out (s.truncate res asOf hi) :=
  truncateEff_refines hw n h res asOf hi

theorem merge_refines {w : Nat} (hw : 0 < w) (n : Nat) (e : Ex) {sa sb : SV} {a b : Sq}
    (ha : Rep w sa a) (hb : Rep w sb b) (res tb : Int) :
    Rep w (mergeEff n sa sb w res tb).out (Sq.merge e res a b tb) :=
  mergeEff_refines hw n e ha hb res tb

theorem subMerge_refines (n : Nat) (ex otherEx : Ex) (hw : 0 < ex.bytes) (how : 0 < otherEx.bytes) (sm : SM)
    (res otherRes : Int) {sv ov : SV} {s other : Sq} (hs : Rep ex.bytes sv s) (ho : Rep otherEx.bytes ov other)
    (p : Pt) (asOf hi strideSlice : Int) :
    Rep ex.bytes (subMergeEff n ex otherEx sm res otherRes sv ov p asOf hi strideSlice).out
      (Sq.subMerge ex otherEx sm res otherRes s other p asOf hi strideSlice) :=
  subMergeEff_refines n ex otherEx hw how sm res otherRes hs ho p asOf hi strideSlice

/-! ### the finding (D1): the code before the fix -/

/-- `Truncate` as it was (`result = result[bytesToRemove:]; result.SetUntil(until)`): whenever
    the `until` bound cuts periods off the front (and something remains), 8 bytes of the
    OPERAND's buffer are overwritten — inside the operand's own data. -/
theorem truncateBuggy_writes_operand_general (v : View) (shi : Int) (w : Nat) (res asOf hi : Int)
    (hlen : v.len ≠ 0) (hne : roundUntilDown hi res shi ≠ 0)
    (hcut : (shi - roundUntilDown hi res shi).tdiv res > 0)
    (hrem : ¬ ((shi - roundUntilDown hi res shi).tdiv res).toNat * w + 8 ≥ v.len) :
    (⟨v.buf, v.off + ((shi - roundUntilDown hi res shi).tdiv res).toNat * w, 8⟩ : Write) ∈
      (truncateEffBuggy ⟨some v, shi⟩ w res asOf hi).writes := by
  unfold truncateEffBuggy
  simp only
  rw [if_neg hlen]
  have : truncUntilEffBuggy v shi w res (roundUntilDown hi res shi) =
      some ⟨v.from (((shi - roundUntilDown hi res shi).tdiv res).toNat * w), roundUntilDown hi res shi, [],
        [setUntilW (v.from (((shi - roundUntilDown hi res shi).tdiv res).toNat * w))]⟩ := by
    simp only [truncUntilEffBuggy, if_pos hne, if_pos hcut, if_neg hrem]
  rw [this]
  simp only
  rw [(truncAsOfEff_spec _ w res _).2.1]
  simp [setUntilW, View.from]

/-- the concrete witness (the replay of the finding): a stored sequence of 3 periods of 9 bytes
    ending at t=1000 (resolution 10), lying at offset 16 of buffer 0; `Truncate(until = 990)`
    of the old code writes 8 bytes at offset 25 of buffer 0 — the first stored period that
    survives — although buffer 0 existed before the call.  The fixed code writes buffer 1 only. -/
theorem truncateBuggy_writes_operand :
    (⟨0, 25, 8⟩ : Write) ∈ (truncateEffBuggy ⟨some ⟨0, 16, 35, 35⟩, 1000⟩ 9 10 0 990).writes ∧
    (∀ x ∈ (truncateEff 1 ⟨some ⟨0, 16, 35, 35⟩, 1000⟩ 9 10 0 990).writes, x.buf = 1) := by
  constructor
  · decide
  · decide

/-! ### non-vacuity: concrete views -/

/-- a stored sequence: 4 periods of 9 bytes until t=1000, at offset 16 of buffer 0, with 20
    bytes of spare capacity -/
def exA : SV := ⟨some ⟨0, 16, 44, 64⟩, 1000⟩
/-- another one in buffer 1: 2 periods until t=980 -/
def exB : SV := ⟨some ⟨1, 0, 26, 26⟩, 980⟩

-- until cuts one period: fresh buffer 2 (35 bytes), data copied, header written
example : truncateEff 2 exA 9 10 0 990 =
    ⟨⟨some ⟨2, 0, 35, 35⟩, 990⟩, [35], [⟨2, 8, 27⟩, ⟨2, 0, 8⟩]⟩ := by decide
-- asOf only: a prefix re-slice of the operand, nothing allocated, nothing written
example : truncateEff 2 exA 9 10 970 0 = ⟨⟨some ⟨0, 16, 35, 64⟩, 1000⟩, [], []⟩ := by decide
-- both: fresh buffer, then re-sliced
example : truncateEff 2 exA 9 10 970 990 =
    ⟨⟨some ⟨2, 0, 26, 35⟩, 990⟩, [35], [⟨2, 8, 27⟩, ⟨2, 0, 8⟩]⟩ := by decide
-- merge with an empty operand returns the other operand itself (alias)
example : (mergeEff 2 SV.nil exA 9 10 0).out = exA ∧ (mergeEff 2 exA SV.nil 9 10 0).out = exA := by decide
-- merge of two overlapping sequences: fresh buffer 2; header, 2 lead periods, 2 merged periods
example : mergeEff 2 exA exB 9 10 0 =
    ⟨⟨some ⟨2, 0, 44, 44⟩, 1000⟩, [44], [⟨2, 0, 8⟩, ⟨2, 8, 18⟩, ⟨2, 26, 9⟩, ⟨2, 35, 9⟩]⟩ := by decide
-- the earlier operand wholly expired: the later operand itself
example : (mergeEff 2 exB exA 9 10 995).out = exA := by decide
-- ValueAtTime reads one state and writes nothing
example : valueAtEff exA (.agg .sum (.field "a")) 10 980 = ⟨some ⟨0, 16 + 8 + 18, 18⟩, []⟩ := by decide
-- SubMerge into a nil receiver: a fresh one-period result (buffer 2), grown by appending
-- (buffer 3), then one sub-merge write per source period, all into buffer 3
example : subMergeEff 2 (.agg .sum (.field "a")) (.agg .sum (.field "a")) (.direct (.agg .sum (.field "a")))
    20 10 SV.nil exA { vals := [] } 0 0 0 =
    ⟨⟨some ⟨3, 0, 26, 26⟩, 1000⟩, [17, 26], [⟨2, 0, 8⟩, ⟨3, 0, 17⟩, ⟨3, 8, 9⟩, ⟨3, 8, 9⟩, ⟨3, 17, 9⟩, ⟨3, 17, 9⟩]⟩ := by
  decide
-- SubMerge into an existing receiver (buffer 1) that already spans the source: in-place
-- writes into the RECEIVER's buffer only
example : subMergeEff 2 (.agg .sum (.field "a")) (.agg .sum (.field "a")) (.direct (.agg .sum (.field "a")))
    10 10 ⟨some ⟨1, 0, 44, 44⟩, 1000⟩ exA { vals := [] } 0 0 0 =
    ⟨⟨some ⟨1, 0, 44, 44⟩, 1000⟩, [], [⟨1, 8, 9⟩, ⟨1, 17, 9⟩, ⟨1, 26, 9⟩, ⟨1, 35, 9⟩]⟩ := by decide
-- the query path on two source rows sharing the stored sequence exA (buffer 0 < n0 = 2), the
-- second one also present in the file: writes go to buffers 2, 3, … only
example : ((queryColEff 2 (.agg .sum (.field "a")) (.agg .sum (.field "a")) (.direct (.agg .sum (.field "a")))
    10 0 20 0 0 0 [⟨exA, none, { vals := [] }⟩, ⟨exA, some (100, 30, 26, 1000), { vals := [] }⟩] [1000]).writes.map (·.buf)) =
    [2, 3, 3, 3, 3, 3, 4, 5, 5, 5, 5, 3, 3, 3, 3] := by decide
-- Tree.Copy of a two-node tree (node 0: two sequences in buffers 0 and 1, one nil column; node 1:
-- no data): node 0's sequences are copied back to back into the fresh buffer 2 (44 + 26 bytes),
-- cap = len, nil stays nil; the old code handed out the live views themselves
example : treeCopyEff 10 20 2 [⟨0, 0, some [exA, SV.nil, exB]⟩, ⟨1, 1, none⟩] =
    ⟨[⟨10, 20, some [⟨some ⟨2, 0, 44, 44⟩, 1000⟩, ⟨none, 0⟩, ⟨some ⟨2, 44, 26, 26⟩, 980⟩]⟩, ⟨11, 1, none⟩],
      [70], [⟨2, 0, 44⟩, ⟨2, 44, 26⟩]⟩ := by decide
example : treeCopyEffShared 10 [⟨0, 0, some [exA, SV.nil, exB]⟩, ⟨1, 1, none⟩] =
    [⟨10, 0, some [exA, SV.nil, exB]⟩, ⟨11, 1, none⟩] := by decide
-- Rep is inhabited by a non-trivial pair, and the value model agrees on the example above
example : Rep 9 exA (some ⟨1000, [[.agg none], [.agg none], [.agg none], [.agg none]]⟩) := ⟨rfl, rfl⟩
example : Sq.truncate (some ⟨1000, [[.agg none], [.agg none], [.agg none], [.agg none]]⟩) 10 970 990 =
      some ⟨990, [[.agg none], [.agg none]]⟩ ∧
    (truncateEff 2 exA 9 10 970 990).out = ⟨some ⟨2, 0, 8 + 2 * 9, 35⟩, 990⟩ := by decide

end Zeno.C04
