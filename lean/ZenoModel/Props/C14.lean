/-
C14 — retention drops only expired data, and expired data stays gone.

One column of the row store (see the header of Props/C01.lean).  `now` is the virtual
database clock (maximum accepted timestamp); `tb = now − retention` is the truncation
bound the code computes.
-/
import ZenoModel.Lemmas.ColumnSpec

namespace Zeno.C14
open Zeno

variable (x : Ext)

/-- A point older than the retention period when it is processed leaves the column (series in
    memory, series on disk, clock) exactly as it was. -/
theorem old_point_not_stored (cfg : ColCfg) (c : Col) (ts : Int) (pt : Pt)
    (hold : ts < c.now - cfg.retention) : c.step x cfg (.ingest ts pt) = c := by
  simp [Col.step, accepted, hold]

/-- … and it is not counted by the spec either. -/
theorem old_point_not_counted (cfg : ColCfg) (T now ts : Int) (pt : Pt) (r : List ColOp)
    (hold : ts < now - cfg.retention) :
    rowsFor cfg T now (.ingest ts pt :: r) = rowsFor cfg T now r := by
  simp [rowsFor, accepted, hold]

/-- A period that is still inside the retention window is never dropped: after ANY script of
    inserts (late, out of order), clock advances and flushes (raw or truncating), every live
    period still holds the accumulation of all its accepted rows. -/
theorem live_period_kept (cfg : ColCfg) (hv : cfg.e.valid = true) (hp : cfg.e.noPtile = true)
    (hres : 0 < cfg.res) (ops : List ColOp) (hpos : OpsPos ops) (T : Int)
    (hl : Live cfg (Col.run x cfg ops).now T) (hT0 : 0 < T) :
    ((Col.run x cfg ops).view cfg true).at cfg.e cfg.res T = cfg.e.acc x (rowsFor cfg T 0 ops) := by
  rw [view_eq_spec x cfg hv hp hres (colInv_run x cfg hv hp hres ops hpos) T hl hT0, spec_cells_eq_acc]

/-- The virtual clock never goes back. -/
theorem clock_monotone (cfg : ColCfg) (c : Col) (op : ColOp) : c.now ≤ (c.step x cfg op).now := by
  cases op <;> simp only [Col.step]
  · split <;> simp <;> omega
  · split <;> simp <;> omega
  · exact Int.le_refl _
  · split <;> exact Int.le_refl _

/-- After a truncating (non-raw) flush nothing at or before the rounded truncation bound is
    left on disk. -/
theorem expired_gone_after_truncating_flush (cfg : ColCfg) (hres : 0 < cfg.res) (c : Col) (T : Int)
    (hgone : roundUntilDown (c.now - cfg.retention) cfg.res
        ((Sq.merge cfg.e cfg.res c.file c.mem (c.now - cfg.retention)).until) ≠ 0 ∧
      T ≤ roundUntilDown (c.now - cfg.retention) cfg.res
        ((Sq.merge cfg.e cfg.res c.file c.mem (c.now - cfg.retention)).until)) :
    ((c.step x cfg (.flush false)).file).at cfg.e cfg.res T = cfg.e.empty := by
  simp only [Col.step, Bool.false_and, Bool.false_eq_true, if_false]
  cases hm : Sq.merge cfg.e cfg.res c.file c.mem (c.now - cfg.retention) with
  | none => rfl
  | some q =>
    rw [hm] at hgone
    simp only [Sq.until] at hgone
    rw [sem_truncate cfg.e hres q]
    have : ¬ (roundUntilDown (c.now - cfg.retention) cfg.res q.hi = 0 ∨
        roundUntilDown (c.now - cfg.retention) cfg.res q.hi < T) := by
      intro hc
      cases hc with
      | inl h0 => exact hgone.1 h0
      | inr h1 => omega
    simp [this]

/-- The rounded truncation bound is within one resolution below `now − retention`: nothing that
    ended more than one resolution before `now − retention` survives a truncating flush, and
    nothing that ends after `now − retention` is cut. -/
theorem truncation_bound_tight {tb res hi : Int} (h : 0 < res) (ht : tb ≠ 0) (hh : hi ≠ 0) :
    roundUntilDown tb res hi ≤ tb ∧ tb - res < roundUntilDown tb res hi :=
  ⟨(roundUntilDown_spec h ht hh).2.1, (roundUntilDown_spec h ht hh).2.2⟩

/-- Raw pass-through is refused on every tenth flush, so any ten consecutive flushes contain a
    truncating one (`flushCount % 10 == 9`). -/
theorem truncating_flush_within_ten (n : Nat) : ∃ k, k < 10 ∧ (n + k) % 10 = 9 :=
  ⟨(19 - n % 10) % 10, by omega, by omega⟩

/-- No resurrection: a period that ended strictly before the retention bound cannot receive an
    accepted point any more (its points are rejected by the age check), at any later clock. -/
theorem no_resurrection (cfg : ColCfg) (hres : 0 < cfg.res) (now now' ts T : Int)
    (hmono : now ≤ now') (hexp : T < now - cfg.retention) (hacc : accepted cfg now' ts = true) :
    roundUp ts cfg.res ≠ T := by
  intro heq
  have := roundUp_ge (t := ts) hres
  simp [accepted] at hacc
  omega

/-! Non-vacuity -/

def exCfg : ColCfg := { e := .agg .sum (.field "a"), res := 10, retention := 30 }
def exOps : List ColOp :=
  [.ingest 1003 { vals := [("a", 2)] }, .ingest 1045 { vals := [("a", 5)] }, .ingest 1004 { vals := [("a", 9)] },
   .flush false]

/-- the truncating flush cut the series (periods 1050 … 1020 kept, 1010 dropped; the point at 1004 was too old and rejected) -/
example : ((Col.run default exCfg exOps).file.map (fun q => (q.hi, q.cells.length))) = some (1050, 4) := by
  decide +kernel
example : Live exCfg (Col.run default exCfg exOps).now 1050 ∧ OpsPos exOps := by
  refine ⟨⟨by decide, by decide +kernel⟩, ?_⟩
  simp [exOps, OpsPos]

end Zeno.C14
