/-
C19 — data-disclosing endpoints refuse callers without valid credentials.

Property theorems only.  Two kinds of statement:

* decision logic, for ALL passwords / metadata / options / headers / cookies / instants
  (no bound), over `Model/Auth.lean` (`rpcAuthorize`, `rpcServe`, `webAuthenticate`,
  `webServe`), which follows `rpc/server/rpc_server.go` and `web/auth.go` branch for
  branch and is tied to the code by the exhaustive `auth` correspondence engine;
* `decide` over the tables in `Generated/Facts.lean`, which tools/extract/auth.go
  regenerates from the Go source on every run, against the hand-written expectations
  below — a handler or route that is added, loses its guard, or gets the guard after its
  first use makes these fail until it is classified here.

Reading of "expired session is not accepted" used below (the `fix:` for D11 inverts the
comparison, it does not remove the re-verification branch): an expired cookie is never
accepted for what it says; the request is served only if GitHub, asked at that moment
with the token inside the cookie, confirms the organisation membership again
(`orgVerified`).  `expired_cookie_refused` is therefore stated for `orgVerified = false`
(in the sandbox GitHub is unreachable, so that is the only case the tie can observe).
-/
import ZenoModel.Model.Auth
import ZenoModel.Generated.Facts

/-! ## Hand-written expectations (the specification side)

Kept in their own namespace so that only the property theorems live in `Zeno.C19`
(every theorem of that namespace is counted as a proof obligation and axiom-audited). -/
namespace Zeno.AuthSpec
open Zeno

/-- RPCs that disclose stored data or query traffic. -/
def disclosing : Rpc → Bool
  | .query => true          -- returns rows
  | .follow => true         -- streams the write-ahead log
  | .remoteQuery => true    -- receives the SQL of cluster queries, may answer them
  | .insert => false        -- write-only, "anyone can insert"

/-- The same by Go method name, for the regenerated table. -/
def disclosingRpcs : List String := ["Query", "Follow", "HandleRemoteQueries"]

/-- Path templates of the routes that serve stored data, query results, cached results,
    the query UI or server statistics. -/
def dataRoutes : List String :=
  ["/async", "/immediate", "/run", "/cached/{permalink}", "/report/{permalink}", "/metrics", "/"]

/-- Routes that are meant to be reachable without credentials. -/
def publicRoutes : List String := ["/insert/{stream}", "/oauth/code", "/favicon"]

def oauthConfigured (o : WebOpts) : Prop := o.oauthClientID ≠ "" ∧ o.oauthClientSecret ≠ ""

/-- the request carries the configured static token -/
def staticTokenOk (o : WebOpts) (r : WebReq) : Prop := o.password ≠ "" ∧ r.authHeader = o.password

/-- the request carries a session cookie that verifies and is unexpired, or whose holder
    has just been re-verified as an organisation member -/
def sessionOk (r : WebReq) (now : Int) : Prop :=
  ∃ c, r.cookie = some c ∧ c.decodes = true ∧ (now < c.expiration ∨ c.orgVerified = true)

/-- Is the handler method `name` guarded according to the regenerated facts: its first
    statement is the guard, or its body is a single call of a guarded handler method. -/
def handlerGuarded (hs : List Facts.WebHandler) : Nat → String → Bool
  | 0, _ => false
  | fuel + 1, name =>
    match hs.find? (fun h => h.name == name) with
    | none => false
    | some h => h.guardFirst || (h.delegatesTo != "" && handlerGuarded hs fuel h.delegatesTo)

def routeGuarded (r : Facts.WebRoute) : Bool :=
  r.handler != "" && handlerGuarded Facts.webHandlers 4 r.handler

end Zeno.AuthSpec

namespace Zeno.C19
open Zeno Zeno.AuthSpec

/-! ## RPC -/

/-- `authorize` lets a call through exactly when no password is configured or the
    metadata carries the configured password under `pwd`. -/
theorem rpc_authorize_iff (pw : String) (r : RpcReq) :
    rpcAuthorize pw r = true ↔ pw = "" ∨ (r.hasMd = true ∧ pw ∈ r.md.get rpcPasswordKey) := by
  unfold rpcAuthorize
  by_cases h : pw = ""
  · simp [h]
  · cases hm : r.hasMd
    · simp [h]
    · simp only [h, beq_iff_eq, if_false, Bool.not_true, Bool.false_eq_true, false_or, true_and,
        List.any_eq_true]
      constructor
      · rintro ⟨p, hp, rfl⟩; exact hp
      · intro hp; exact ⟨pw, hp, rfl⟩

/-- Password configured and not among the presented ones ⇒ `authorize` returns an error. -/
theorem rpc_refuses_without_password (pw : String) (r : RpcReq)
    (hpw : pw ≠ "") (hn : pw ∉ r.md.get rpcPasswordKey) : rpcAuthorize pw r = false := by
  cases h : rpcAuthorize pw r with
  | false => rfl
  | true =>
    rcases (rpc_authorize_iff pw r).1 h with h0 | ⟨_, hin⟩
    · exact absurd h0 hpw
    · exact absurd hin hn

/-- … hence every data-disclosing RPC ends before its first database / stream use. -/
theorem rpc_disclosing_refused (k : Rpc) (hk : disclosing k = true) (pw : String) (r : RpcReq)
    (hpw : pw ≠ "") (hn : pw ∉ r.md.get rpcPasswordKey) : rpcServe k pw r = false := by
  have hg : k.guarded = true := by cases k <;> simp_all [disclosing, Rpc.guarded]
  simp [rpcServe, rpcServeWith, hg, rpc_refuses_without_password pw r hpw hn]

/-- The right password is served (the model is not "refuse everything"). -/
theorem rpc_right_password_served (k : Rpc) (pw : String) (r : RpcReq)
    (hm : r.hasMd = true) (hin : pw ∈ r.md.get rpcPasswordKey) : rpcServe k pw r = true := by
  have := (rpc_authorize_iff pw r).2 (Or.inr ⟨hm, hin⟩)
  unfold rpcServe rpcServeWith
  split <;> simp_all

/-- Over the regenerated handler table of `rpc/server/rpc_server.go`:
    (1) every stream handler found in the source is classified by the model's table and
        its guard status is the one the model assumes;
    (2) every data-disclosing handler calls `authorize`, returns its error, and does so
        before the first use of `s.db` / the stream;
    (3) every handler the model knows exists in the source. -/
theorem all_disclosing_handlers_guarded :
    (∀ h ∈ Facts.rpcHandlers, (Rpc.ofGoName h.name).map Rpc.guarded = some h.guardBeforeUse) ∧
    (∀ h ∈ Facts.rpcHandlers, h.name ∈ disclosingRpcs →
        h.authorizeChecked = true ∧ h.guardBeforeUse = true) ∧
    (∀ k ∈ Rpc.all, ∃ h ∈ Facts.rpcHandlers, h.name = k.goName) ∧
    (∀ k ∈ Rpc.all, disclosing k = decide (k.goName ∈ disclosingRpcs)) := by
  decide

/-! ## Web -/

/-- With OAuth configured, `authenticate` returns true only for the static token or a
    verifying session that is unexpired or freshly re-verified. -/
theorem web_refuses (o : WebOpts) (r : WebReq) (now : Int) (ho : oauthConfigured o)
    (h : webAuthenticate o r now = .allow) : staticTokenOk o r ∨ sessionOk r now := by
  obtain ⟨h1, h2⟩ := ho
  unfold webAuthenticate webAuthenticateB at h
  by_cases hs : o.password ≠ "" ∧ r.authHeader ≠ ""
  · by_cases he : r.authHeader = o.password
    · exact Or.inl ⟨hs.1, he⟩
    · simp [h1, h2, hs.1, hs.2, he] at h
  · have hs' : (o.password != "" && r.authHeader != "") = false := by
      simp only [ne_eq, not_and, Decidable.not_not] at hs
      by_cases hp : o.password = "" <;> simp [hp, hs]
    right
    cases hc : r.cookie with
    | none => simp [h1, h2, hs', hc] at h
    | some c =>
      refine ⟨c, hc, ?_⟩
      cases hd : c.decodes
      · simp [h1, h2, hs', hc, hd] at h
      · refine ⟨rfl, ?_⟩
        by_cases hf : now < c.expiration
        · exact Or.inl hf
        · cases hv : c.orgVerified
          · simp [h1, h2, hs', hc, hd, sessionFresh, hf, hv] at h
          · exact Or.inr rfl

/-- The same at route level: a data route's handler body runs only for such requests. -/
theorem web_data_route_refuses (p : String) (hp : p ∈ dataRoutes) (o : WebOpts) (r : WebReq)
    (now : Int) (ho : oauthConfigured o) (h : webServe p o r now = some .allow) :
    staticTokenOk o r ∨ sessionOk r now := by
  have hg : webRouteGuarded p = some true :=
    (by decide : ∀ q ∈ dataRoutes, webRouteGuarded q = some true) p hp
  apply web_refuses o r now ho
  simpa [webServe, webServeB, hg, webAuthenticate] using h

/-- An expired session cookie is not accepted (unless GitHub re-verifies the holder now). -/
theorem expired_cookie_refused (o : WebOpts) (r : WebReq) (now : Int) (c : Cookie)
    (ho : oauthConfigured o) (hs : ¬ staticTokenOk o r) (hc : r.cookie = some c)
    (he : c.expiration ≤ now) (hv : c.orgVerified = false) :
    webAuthenticate o r now ≠ .allow := by
  intro h
  rcases web_refuses o r now ho h with h | ⟨c', hc', _, h⟩
  · exact hs h
  · rw [hc] at hc'
    cases hc'
    rcases h with h | h
    · omega
    · simp [hv] at h

/-- A forged cookie (one that does not verify under the server's keys) is not accepted. -/
theorem forged_cookie_refused (o : WebOpts) (r : WebReq) (now : Int) (c : Cookie)
    (ho : oauthConfigured o) (hs : ¬ staticTokenOk o r) (hc : r.cookie = some c)
    (hd : c.decodes = false) : webAuthenticate o r now ≠ .allow := by
  intro h
  rcases web_refuses o r now ho h with h | ⟨c', hc', hd', _⟩
  · exact hs h
  · rw [hc] at hc'
    cases hc'
    simp [hd] at hd'

/-- No credential at all ⇒ redirect to the OAuth provider. -/
theorem no_credential_refused (o : WebOpts) (now : Int) (ho : oauthConfigured o) :
    webAuthenticate o { authHeader := "", cookie := none } now = .redirect := by
  obtain ⟨h1, h2⟩ := ho
  simp [webAuthenticate, webAuthenticateB, h1, h2]

/-- A wrong static token is refused even when a good session cookie comes with it
    (`authenticate` lets a present static token decide alone). -/
theorem wrong_static_token_refused (o : WebOpts) (r : WebReq) (now : Int) (ho : oauthConfigured o)
    (hp : o.password ≠ "") (hh : r.authHeader ≠ "") (hw : r.authHeader ≠ o.password) :
    webAuthenticate o r now = .deny := by
  obtain ⟨h1, h2⟩ := ho
  simp [webAuthenticate, webAuthenticateB, h1, h2, hp, hh, hw]

/-- A fresh verifying session is served (the model is not "refuse everything"). -/
theorem fresh_session_served (o : WebOpts) (now : Int) (c : Cookie)
    (hd : c.decodes = true) (hf : now < c.expiration) :
    webAuthenticate o { authHeader := "", cookie := some c } now = .allow := by
  unfold webAuthenticate webAuthenticateB
  split
  · rfl
  · simp [hd, sessionFresh, hf]

/-- Over the regenerated route and handler tables of `web/*.go`:
    (1) every registered route is classified (data or public) by the hand-written lists;
    (2) every data route is served by a handler method whose first statement is the
        `authenticate` guard (directly, or through a single delegating call);
    (3) every expected data route is registered;
    (4) the source's route table (path, matching mode, handler, guarded), in registration
        order, is exactly the model's `webRouteTable`. -/
theorem all_data_routes_guarded :
    (∀ r ∈ Facts.webRoutes, r.path ∈ dataRoutes ∨ r.path ∈ publicRoutes) ∧
    (∀ r ∈ Facts.webRoutes, r.path ∈ dataRoutes → routeGuarded r = true) ∧
    (∀ p ∈ dataRoutes, ∃ r ∈ Facts.webRoutes, r.path = p) ∧
    Facts.webRoutes.map (fun r => (⟨r.path, r.prefixMatch, r.handler, routeGuarded r⟩ : WebRouteInfo))
      = webRouteTable := by
  decide

/-! ## The two findings, as witnesses on the pre-fix decision functions -/

/-- D10: before the fix, remote-query registration was served without any password. -/
theorem d10_witness_unauthenticated_registration_served :
    rpcServeBuggy .remoteQuery "secret" { hasMd := true, md := [] } = true ∧
    rpcServe .remoteQuery "secret" { hasMd := true, md := [] } = false := by decide

/-- D11: before the fix, a verifying cookie that expired an hour ago was accepted, and one
    that is still valid for an hour was not (fell through to the GitHub check). -/
theorem d11_witness_expired_cookie_accepted :
    let o : WebOpts := { oauthClientID := "id", oauthClientSecret := "secret", password := "" }
    let expired : WebReq := { authHeader := "", cookie := some ⟨true, -3600, false⟩ }
    let fresh : WebReq := { authHeader := "", cookie := some ⟨true, 3600, false⟩ }
    webAuthenticateBuggy o expired 0 = .allow ∧ webAuthenticate o expired 0 = .redirect ∧
    webAuthenticateBuggy o fresh 0 = .redirect ∧ webAuthenticate o fresh 0 = .allow := by decide

/-! ## Non-vacuity -/

/-- hypotheses of `rpc_disclosing_refused` are satisfiable, with a non-empty credential -/
example : ("secret" : String) ≠ "" ∧
    "secret" ∉ Metadata.get [("pwd", ["wrong", ""]), ("other", ["secret"])] rpcPasswordKey := by decide
example : rpcServe .query "secret" ⟨true, [("pwd", ["wrong", ""]), ("other", ["secret"])]⟩ = false := by decide
example : rpcServe .query "secret" ⟨true, [("pwd", ["wrong", "secret"])]⟩ = true := by decide
example : rpcServe .insert "secret" ⟨true, []⟩ = true := by decide
example : rpcServe .follow "" ⟨true, []⟩ = true := by decide
/-- the regenerated tables are not empty -/
example : Facts.rpcHandlers.length ≥ 4 ∧ Facts.webRoutes.length ≥ 10 := by decide
/-- `web_refuses` has instances on both sides -/
example : webAuthenticate ⟨"id", "sec", "tok"⟩ ⟨"tok", none⟩ 0 = .allow := by decide
example : webAuthenticate ⟨"id", "sec", "tok"⟩ ⟨"nope", some ⟨true, 10, true⟩⟩ 0 = .deny := by decide
example : webAuthenticate ⟨"id", "sec", ""⟩ ⟨"tok", some ⟨false, 10, true⟩⟩ 0 = .redirect := by decide
example : webAuthenticate ⟨"id", "sec", ""⟩ ⟨"", some ⟨true, -1, true⟩⟩ 0 = .allow := by decide
example : webAuthenticate ⟨"id", "", "tok"⟩ ⟨"", none⟩ 0 = .allow := by decide
example : webServe "/run" ⟨"id", "sec", ""⟩ ⟨"", none⟩ 0 = some .redirect := by decide
example : webServe "/insert/{stream}" ⟨"id", "sec", ""⟩ ⟨"", none⟩ 0 = some .allow := by decide
example : webServe "/nope" ⟨"id", "sec", ""⟩ ⟨"", none⟩ 0 = none := by decide

end Zeno.C19
