/-
C06 — coarser grouping (fewer dims, longer period) re-aggregates without loss or overlap.

The executable spec of a grouped query is `specQuery` (Model/QuerySpec.lean): accepted raw
rows → WHERE → window → bucket (projected key, out period) → every selected expression
accumulated directly over the bucket's rows.  The `query` correspondence engine compares
the real executor with it (and with the mechanistic model `runQuery`) on every generated
query.  The theorems below are the facts that make "merge what is stored" equal to
"accumulate the raw points of the bucket", and that make buckets a partition.
-/
import ZenoModel.Lemmas.Regroup
import ZenoModel.Lemmas.SubMergeLoop
import ZenoModel.Model.QuerySpec

namespace Zeno.C06
open Zeno

variable (x : Ext)

/-- Re-aggregation loses nothing and counts nothing twice: merging the stored partial states of
    ANY number of (key, native period) groups — in any grouping of the bucket's rows into
    batches — equals accumulating all the bucket's raw rows into one state. -/
theorem regroup_is_reaggregation {e : Ex} (hv : e.valid = true) (hp : e.noPtile = true)
    (batches : List (List Pt)) :
    (batches.map (e.acc x)).foldl e.mrg e.empty = e.acc x batches.flatten :=
  nway_merge x hv hp batches

/-- Ratios (AVG, `/`) are recomputed from the merged components, never averaged: the value read
    after merging is the value of the single accumulation. -/
theorem regroup_value {e : Ex} (hv : e.valid = true) (hp : e.noPtile = true) (batches : List (List Pt)) :
    e.val x ((batches.map (e.acc x)).foldl e.mrg e.empty) = e.val x (e.acc x batches.flatten) := by
  rw [nway_merge x hv hp]

/-- The order in which the groups of a bucket are merged does not matter (two groups). -/
theorem regroup_order_irrelevant {e : Ex} (hv : e.valid = true) (hp : e.noPtile = true) (a b : List Pt) :
    e.mrg (e.acc x a) (e.acc x b) = e.mrg (e.acc x b) (e.acc x a) :=
  mrg_comm hv hp (acc_wf x hv hp a) (acc_wf x hv hp b)

/-- Every native period end `t` lies in the out period `outPeriod hi P t`: `(T − P, T]`, on the
    grid of step `P` anchored at the query's `until`. -/
theorem bucket_contains {hi P t : Int} (h : 0 < P) :
    (hi - outPeriod hi P t) % P = 0 ∧ outPeriod hi P t - P < t ∧ t ≤ outPeriod hi P t :=
  outPeriod_spec h

/-- … and in no other: out periods are pairwise disjoint and every point inside the window
    contributes to exactly one output row. -/
theorem buckets_partition {hi P t T : Int} (h : 0 < P) (hg : (hi - T) % P = 0)
    (h1 : T - P < t) (h2 : t ≤ T) : T = outPeriod hi P t :=
  outPeriod_unique h hg h1 h2

/-- The code's loop index `⌊(po + untilOffset)/scale⌋` in `Sequence.SubMerge` designates exactly
    that out period (step `scale·otherRes`, anchored at the result's `until`). -/
theorem subMerge_targets_bucket {scale otherRes resultUntil otherUntil untilOffset : Int} (po : Nat)
    (hs : 0 < scale) (hr : 0 < otherRes) (hoff : resultUntil - otherUntil = untilOffset * otherRes) :
    resultUntil - (((po : Int) + untilOffset) / scale) * (scale * otherRes) =
      outPeriod resultUntil (scale * otherRes) (otherUntil - (po : Int) * otherRes) :=
  subMerge_index po hs hr hoff

/-- The loop of `Sequence.SubMerge` (no stride, non-negative offset): for every result period
    `q` it leaves the state obtained by merging in, in source order, exactly the source periods
    `po` with `⌊(po + off)/scale⌋ = q`, each once, and nothing else (`loopSpec`).  Together with
    `subMerge_targets_bucket` this is "every stored period inside the window contributes to
    exactly one output row". -/
theorem subMerge_loop_exactly_once (e : Ex) (sm : SM) (otherRes : Int) (p : Pt) {scale off : Int} (hs : 0 < scale)
    (strideSlice ssp : Int) (hstride : strideSlice ≤ 0) (n : Nat) (os : List (List Cell)) (po : Nat)
    (result : List (List Cell)) (q : Nat) (hnn : 0 ≤ (po : Int) + off) (hlen : result.length = n) (hq : q < n) :
    (subMergeLoop sm otherRes p scale off strideSlice ssp n po os result).getD q e.empty =
      loopSpec sm otherRes p scale off q po os (result.getD q e.empty) :=
  subMergeLoop_spec e sm otherRes p hs strideSlice ssp hstride n os po result q hnn hlen hq

/-- The spec's bucket function is `outPeriod` (so the two theorems above are about the spec). -/
theorem spec_bucket_is_outPeriod (hi P t : Int) : hi - ((hi - t) / P) * P = outPeriod hi P t := rfl

/-- Projecting a key onto a subset of dims is idempotent and monotone in the subset: grouping by
    fewer dims merges exactly the keys that agree on the kept dims. -/
theorem key_projection_idem (names : List String) (k : Key) :
    (k.filter (fun kv => names.contains kv.1)).filter (fun kv => names.contains kv.1) =
      k.filter (fun kv => names.contains kv.1) := by
  simp [List.filter_filter]

/-! Non-vacuity -/

def exE : Ex := .bin .div (.agg .sum (.field "a")) (.agg .count (.field "a"))
def exBatches : List (List Pt) := [[{ vals := [("a", 3)] }, { vals := [("a", 5)] }], [], [{ vals := [("a", 4)] }]]
example : exE.valid = true ∧ exE.noPtile = true := by decide
example : exE.val default ((exBatches.map (exE.acc default)).foldl exE.mrg exE.empty) = some 4 := by decide +kernel
example : outPeriod 1000 30 955 = 970 ∧ outPeriod 1000 30 970 = 970 ∧ outPeriod 1000 30 971 = 1000 := by decide

end Zeno.C06
