/-
C05 (sub-merge part) — SHIFT distributes over the operators of a composite expression.

The Go closure built by `shift.shiftedSubMerger` steps back `-(off / otherRes)` periods *of the
column it reads from* and then runs the wrapped expression's sub-merger.  For a composite wrapped
expression (`x op y`, `IF(c, x)`) this must be the same as shifting each operand separately:
`SHIFT(x op y, off)` sub-merges like `SHIFT(x, off) op SHIFT(y, off)`.  The correspondence harness
checks exactly this equation on the real `Expr.SubMergers`/`Sequence.SubMerge` (seq engine, oracle
"SHIFT distributes over the operators"); here it is proved for the model's `Ex.subMergers`.
-/
import ZenoModel.Model.SubMerge

namespace Zeno.ShiftDistrib

/-- running the (possibly absent) sub-merger of one input column: no sub-merger, no change -/
def app : Option SM → List Cell → List (List Cell) → Int → Pt → List Cell
  | none, data, _, _, _ => data
  | some sm, data, other, otherRes, p => sm.apply data other otherRes p

/-- a shifted pair is the pair of the shifted -/
theorem shifted_both (off : Int) (l r : SM) (skip : Nat) (data : List Cell) (other : List (List Cell))
    (otherRes : Int) (p : Pt) :
    (SM.shifted off (.both l skip r)).apply data other otherRes p
      = (SM.both (.shifted off l) skip (.shifted off r)).apply data other otherRes p := by
  simp only [SM.apply]
  split
  · rfl
  · simp [List.take_append_drop]

theorem shifted_right (off : Int) (r : SM) (skip : Nat) (data : List Cell) (other : List (List Cell))
    (otherRes : Int) (p : Pt) :
    (SM.shifted off (.right skip r)).apply data other otherRes p
      = (SM.right skip (.shifted off r)).apply data other otherRes p := by
  simp only [SM.apply]
  split
  · rfl
  · simp [List.take_append_drop]

/-- `IF(c, ·)` and SHIFT commute -/
theorem shifted_cond (off : Int) (c : Nat) (w : SM) (data : List Cell) (other : List (List Cell))
    (otherRes : Int) (p : Pt) :
    (SM.shifted off (.cond c w)).apply data other otherRes p
      = (SM.cond c (.shifted off w)).apply data other otherRes p := by
  simp only [SM.apply]
  split <;> split <;> rfl

/-- `combinedSubMerge` of two shifted sub-mergers = the shifted `combinedSubMerge` -/
theorem combined_shifted (l r : Option SM) (skip : Nat) (off : Int) (data : List Cell)
    (other : List (List Cell)) (otherRes : Int) (p : Pt) :
    app ((combinedSM l skip r).map (SM.shifted off)) data other otherRes p
      = app (combinedSM (l.map (SM.shifted off)) skip (r.map (SM.shifted off))) data other otherRes p := by
  cases l <;> cases r <;> simp only [combinedSM, Option.map, app]
  · exact shifted_right off _ skip data other otherRes p
  · exact shifted_both off _ _ skip data other otherRes p

theorem getD_map_shifted (xs : List (Option SM)) (off : Int) (j : Nat) :
    (xs.map (fun sm => sm.map (SM.shifted off))).getD j none = ((xs.getD j none).map (SM.shifted off)) := by
  simp only [List.getD_eq_getElem?_getD, List.getElem?_map]
  cases xs[j]? <;> rfl

/-- **SHIFT distributes over a binary operator.**  When no table column prints like one of the
    shifted forms (otherwise that column is merged as it is), every input column `j` contributes to
    `SHIFT(l op r, off)` exactly what it contributes to `SHIFT(l, off) op SHIFT(r, off)`. -/
theorem shift_distributes_bin (op : BinOp) (l r : Ex) (off : Int) (subs : List Ex)
    (h1 : subs.any (fun s => (Ex.shift (.bin op l r) off).sameStr s) = false)
    (h2 : subs.findIdx? (fun s => (Ex.bin op l r).sameStr s) = none)
    (h3 : subs.findIdx? (fun s => (Ex.bin op (.shift l off) (.shift r off)).sameStr s) = none)
    (h4 : subs.any (fun s => (Ex.shift l off).sameStr s) = false)
    (h5 : subs.any (fun s => (Ex.shift r off).sameStr s) = false)
    (j : Nat) (hj : j < subs.length)
    (data : List Cell) (other : List (List Cell)) (otherRes : Int) (p : Pt) :
    app (((Ex.shift (.bin op l r) off).subMergers subs).getD j none) data other otherRes p
      = app (((Ex.bin op (.shift l off) (.shift r off)).subMergers subs).getD j none) data other otherRes p := by
  have hL : (Ex.shift (.bin op l r) off).subMergers subs
      = ((List.range subs.length).map
          (fun j => combinedSM ((l.subMergers subs).getD j none) l.width ((r.subMergers subs).getD j none))).map
          (fun sm => sm.map (SM.shifted off)) := by
    rw [Ex.subMergers]; simp only [h1]; rw [Ex.subMergers]; simp only [h2]; rfl
  have hR : (Ex.bin op (.shift l off) (.shift r off)).subMergers subs
      = (List.range subs.length).map
          (fun j => combinedSM (((l.subMergers subs).map (fun sm => sm.map (SM.shifted off))).getD j none) l.width
                      (((r.subMergers subs).map (fun sm => sm.map (SM.shifted off))).getD j none)) := by
    rw [Ex.subMergers]; simp only [h3]
    have e1 : (Ex.shift l off).subMergers subs = (l.subMergers subs).map (fun sm => sm.map (SM.shifted off)) := by
      rw [Ex.subMergers]; simp only [h4]; rfl
    have e2 : (Ex.shift r off).subMergers subs = (r.subMergers subs).map (fun sm => sm.map (SM.shifted off)) := by
      rw [Ex.subMergers]; simp only [h5]; rfl
    simp only [e1, e2, Ex.width]
  rw [hL, hR]
  simp only [List.getD_eq_getElem?_getD, List.getElem?_map, List.getElem?_range hj, Option.map_some,
    Option.getD_some]
  have := combined_shifted ((l.subMergers subs)[j]?.getD none) ((r.subMergers subs)[j]?.getD none) l.width off
    data other otherRes p
  simp only [List.getD_eq_getElem?_getD] at *
  rw [this]
  congr 2
  · cases (l.subMergers subs)[j]? <;> rfl
  · cases (r.subMergers subs)[j]? <;> rfl

/-- **SHIFT commutes with IF.** -/
theorem shift_distributes_if (c : Nat) (w : Ex) (off : Int) (subs : List Ex)
    (h1 : subs.any (fun s => (Ex.shift (.ifE c w) off).sameStr s) = false)
    (h2 : subs.any (fun s => (Ex.ifE c w).sameStr s) = false)
    (h3 : subs.any (fun s => (Ex.ifE c (.shift w off)).sameStr s) = false)
    (h4 : subs.any (fun s => (Ex.shift w off).sameStr s) = false)
    (j : Nat) (data : List Cell) (other : List (List Cell)) (otherRes : Int) (p : Pt) :
    app (((Ex.shift (.ifE c w) off).subMergers subs).getD j none) data other otherRes p
      = app (((Ex.ifE c (.shift w off)).subMergers subs).getD j none) data other otherRes p := by
  have hL : (Ex.shift (.ifE c w) off).subMergers subs
      = ((w.subMergers subs).map (fun sm => sm.map (SM.cond c))).map (fun sm => sm.map (SM.shifted off)) := by
    rw [Ex.subMergers]; simp only [h1]; rw [Ex.subMergers]; simp only [h2]; rfl
  have hR : (Ex.ifE c (.shift w off)).subMergers subs
      = ((w.subMergers subs).map (fun sm => sm.map (SM.shifted off))).map (fun sm => sm.map (SM.cond c)) := by
    rw [Ex.subMergers]; simp only [h3]
    have e1 : (Ex.shift w off).subMergers subs = (w.subMergers subs).map (fun sm => sm.map (SM.shifted off)) := by
      rw [Ex.subMergers]; simp only [h4]; rfl
    simp only [e1]; rfl
  rw [hL, hR]
  simp only [List.getD_eq_getElem?_getD, List.getElem?_map]
  cases (w.subMergers subs)[j]? with
  | none => rfl
  | some o =>
    cases o with
    | none => rfl
    | some sm => exact shifted_cond off c sm data other otherRes p

/-- non-vacuity: `SHIFT(SUM(a) + SUM(b), -2·res)` over the columns `[SUM(a), SUM(b)]` meets the
    hypotheses, and both forms have a sub-merger for each column -/
example :
    let a := Ex.agg .sum (.field "a"); let b := Ex.agg .sum (.field "b")
    let subs := [a, b]
    subs.any (fun s => (Ex.shift (.bin .add a b) (-2)).sameStr s) = false ∧
    subs.findIdx? (fun s => (Ex.bin .add a b).sameStr s) = none ∧
    subs.findIdx? (fun s => (Ex.bin .add (.shift a (-2)) (.shift b (-2))).sameStr s) = none ∧
    subs.any (fun s => (Ex.shift a (-2)).sameStr s) = false ∧
    subs.any (fun s => (Ex.shift b (-2)).sameStr s) = false ∧
    (((Ex.shift (.bin .add a b) (-2)).subMergers subs).map Option.isSome) = [true, true] := by
  decide

end Zeno.ShiftDistrib
