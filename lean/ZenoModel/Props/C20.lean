/-
C20 — data crossing the RPC boundary keeps its meaning.

Property theorems only (model: Model/Codec.lean, helper lemmas: Lemmas/Codec.lean).

Part 1 quantifies over EVERY Go-level expression object `g` whose closure fields hold what
the registries hold under its name (`GEx.linked`: all objects the constructors build):
decoding the encoding succeeds and returns an object no observer can tell from `g`.
Part 2 is `decide` over tables regenerated from /repo by tools/extract/codec.go on every
run (`Facts.codec*`): the model's wire format is the one the source declares, every field
the wire drops is restored by the type's decoder or classified by hand as unobserved, ext
ids do not collide, custom encoders and decoders agree on field order.  A new registered
type, a new unexported field, a decoder that stops assigning a field, or a changed ext id
re-opens these obligations.
Part 3 is about streams: a small heap model of "Marshal hands a buffer to the transport,
the transport writes it out later"; the regenerated facts about rpc.Codec's Marshal and
Unmarshal (no pooled / package-level / per-codec buffer reachable, result freshly allocated)
select the buffer policy, and under it every message of a stream arrives as sent.
Part 4 is about the boundary between "empty" and "absent": the regenerated msgpack struct
tags of everything that crosses the boundary and the regenerated list of tests by which the
receiving code tells message kinds apart select the tag table of the message model; under it
a RemoteQueryResult comes back exactly (nil-ness included) and the kind the leader infers is
the kind the follower sent.
-/
import ZenoModel.Lemmas.Codec
import ZenoModel.Generated.Facts

namespace Zeno.C20
open Zeno

/-! ## Part 1 — round trip -/

/-- Encoding then decoding any constructor-built expression succeeds, and the result is
    observationally equal to the original: same `String()` under every formatting of the
    scalars, same `EncodedWidth()`, same behavioural model (`toEx`) for both views. -/
theorem dec_enc (g : GEx) (h : g.linked = true) :
    ∃ g', dec (enc g) = some g' ∧ ObsEq g' g :=
  ⟨g.clearDeAgg, dec_enc_linked g h, obsEq_clearDeAgg g⟩

/-- What exactly comes back: the same object, every closure slot restored, every stored
    width and the embedded ptile intact, with `binaryExpr.DeAggregated` reset to false. -/
theorem dec_enc_exact (g : GEx) (h : g.linked = true) : dec (enc g) = some g.clearDeAgg :=
  dec_enc_linked g h

/-- A second hop (follower → leader → client) changes nothing any more. -/
theorem second_hop_identity (g g' : GEx) (h : g.linked = true) (h1 : dec (enc g) = some g') :
    dec (enc g') = some g' := by
  rw [dec_enc_linked g h] at h1
  cases h1
  rw [dec_enc_linked _ (linked_clearDeAgg g h), clearDeAgg_idem]

/-- `Update` after the round trip: same new cells, remaining cells, value and `updated`, on
    every state and point (also: both have a behavioural model or neither has). -/
theorem update_preserved (g g' : GEx) (h : g.linked = true) (h1 : dec (enc g) = some g')
    (cfg : Int → Int → Int → Int → Nat) (x : Ext) (cs : List Cell) (p : Pt) :
    (g'.toEx cfg false).map (fun e => e.update x cs p) = (g.toEx cfg false).map (fun e => e.update x cs p) := by
  rw [dec_enc_linked g h] at h1; cases h1; rw [toEx_clearDeAgg]

/-- `Merge` after the round trip. -/
theorem merge_preserved (g g' : GEx) (h : g.linked = true) (h1 : dec (enc g) = some g')
    (cfg : Int → Int → Int → Int → Nat) (xs ys : List Cell) :
    (g'.toEx cfg false).map (fun e => e.merge xs ys) = (g.toEx cfg false).map (fun e => e.merge xs ys) := by
  rw [dec_enc_linked g h] at h1; cases h1; rw [toEx_clearDeAgg]

/-- `Get` after the round trip (for `ptileOptimized`: read through the outer percentile). -/
theorem get_preserved (g g' : GEx) (h : g.linked = true) (h1 : dec (enc g) = some g')
    (cfg : Int → Int → Int → Int → Nat) (x : Ext) (cs : List Cell) :
    (g'.toEx cfg true).map (fun e => e.get x cs) = (g.toEx cfg true).map (fun e => e.get x cs) := by
  rw [dec_enc_linked g h] at h1; cases h1; rw [toEx_clearDeAgg]

/-- `Shift()`, `IsConstant()`, `EncodedWidth()` and `String()` after the round trip. -/
theorem shape_preserved (g g' : GEx) (h : g.linked = true) (h1 : dec (enc g) = some g')
    (cfg : Int → Int → Int → Int → Nat) (x : Fmt) :
    (g'.toEx cfg false).map Ex.shiftOf = (g.toEx cfg false).map Ex.shiftOf ∧
    (g'.toEx cfg false).map Ex.isConstant = (g.toEx cfg false).map Ex.isConstant ∧
    g'.encodedWidth = g.encodedWidth ∧ g'.str x = g.str x := by
  rw [dec_enc_linked g h] at h1; cases h1
  rw [toEx_clearDeAgg, encodedWidth_clearDeAgg, str_clearDeAgg]
  exact ⟨rfl, rfl, rfl, rfl⟩

/-! ## Part 2 — the model's tables are the source's (regenerated facts, `decide`) -/

/-- the regenerated record of a registered expression type -/
def factFor (n : String) : Option Facts.CodecType :=
  Facts.codecTypes.find? (fun t => t.pkg == "expr" && t.name == n)

/-- The registered types, ids and Go type names are exactly the eleven the model has a
    constructor for (a type registered anywhere in the repository shows up here). -/
theorem facts_match_model :
    Facts.codecTypes.map (fun t => (t.extId, t.pkg, t.name)) =
      [(50, "expr", "field"), (51, "expr", "constant"), (52, "expr", "bounded"), (53, "expr", "aggregate"),
       (54, "expr", "ifExpr"), (55, "expr", "avg"), (56, "expr", "binaryExpr"), (57, "expr", "shift"),
       (58, "expr", "unaryMathExpr"), (59, "expr", "ptile"), (60, "expr", "ptileOptimized")] := by
  decide

/-- Does the encoding of `g` have the shape the regenerated record of its type prescribes:
    the registered ext id, and as body either the map whose keys are the fields reflection
    writes (exported + anonymous, declaration order) or, for a custom encoder, as many
    values as it passes to `enc.Encode`? -/
def encShapeOk (g : GEx) : Bool :=
  match factFor g.tyName, enc g with
  | some t, .ext id b =>
      id == t.extId && g.extId == t.extId &&
      (if t.customEnc then b.keys.isEmpty && b.arity == t.encFields.length
       else b.keys == t.wireFields && b.arity == 0)
  | _, _ => false

/-- `enc` writes, for every object, the ext id the source registers for its type and
    exactly the fields the source says are written. -/
theorem enc_follows_facts (g : GEx) : encShapeOk g = true := by
  cases g <;> rfl

/-- May the decoder of `t` leave field `f` alone? -/
def restoredOrIgnorable (t : Facts.CodecType) (f : String) : Bool :=
  (t.customDec && t.decAssigned.contains f) ||
  codecIgnorable.any (fun r => r.1 == t.name && r.2.1 == f)

/-- Every field the wire does not carry (every unexported field of every registered type)
    is assigned by the type's custom decoder, or is listed by hand as read by no observer;
    and a custom decoder assigns every exported field as well (it replaces reflection
    entirely) unless listed.  A new unexported field falsifies this until classified. -/
theorem facts_cover :
    Facts.codecTypes.all (fun t =>
      t.unexported.all (restoredOrIgnorable t) &&
      (!t.customDec || t.exported.all (restoredOrIgnorable t))) = true := by
  decide

/-- The hand-written exemption list is not wider than needed: each entry names an existing
    field that its decoder indeed does not assign. -/
theorem ignorable_is_minimal :
    codecIgnorable.all (fun r =>
      Facts.codecTypes.any (fun t => t.name == r.1 && (t.exported ++ t.unexported).contains r.2.1 &&
        !(t.decAssigned.contains r.2.1))) = true := by
  decide

/-- Ext ids are pairwise distinct and fit msgpack's int8 id. -/
theorem ext_ids_distinct :
    (Facts.codecTypes.map (·.extId)).Nodup ∧ Facts.codecTypes.all (fun t => t.extId < 128) = true := by
  decide

/-- A type with a custom encoder also has a custom decoder; both handle the same fields in
    the same order, and these are all the fields of the struct.  A type without a custom
    encoder has nothing the custom decoder would read positionally. -/
theorem custom_codecs_symmetric :
    Facts.codecTypes.all (fun t =>
      if t.customEnc then
        t.customDec && t.encFields == t.decPositional &&
        (t.exported ++ t.unexported).all (t.encFields.contains ·)
      else t.decPositional.isEmpty) = true := by
  decide

/-- No custom encoder hands an interface-typed field directly to the variadic
    `enc.Encode(…)`: that entry point calls a nested CustomEncoder's `EncodeMsgpack` itself
    and omits the ext header, which is why BOUNDED directly around BOUNDED used to lose its
    outer bounds and desynchronise the rest of the message (fixed in expr/bounded.go; the
    model's `enc` always writes the header). -/
theorem custom_encoders_keep_ext_header :
    Facts.codecTypes.all (fun t => t.encDirectIface.isEmpty) = true := by
  decide

/-- The closure registries the decoders restore from have exactly the keys the model's
    `aggregateFor` / `binaryExprFor` / `unaryMathFn` know. -/
theorem registries_match :
    Facts.codecAggNames = aggNames ∧ Facts.codecBinOps = binOps ∧ Facts.codecUnaryFns = unaryFns := by
  decide

/-- Message structs (rpc.Insert/Query/Point/RemoteQueryResult/…, core.Field, core.FlatRow,
    common.Follow/QueryMetaData/QueryStats, found from rpc/rpc.go) travel by reflection: all
    their data is in exported fields, except the fields listed by hand with the reason. -/
theorem msg_fields_cover :
    Facts.codecMsgTypes.all (fun t =>
      t.unexported.all (fun f => codecMsgIgnorable.any (fun r => r.1 == t.name && r.2.1 == f))) = true ∧
    (["Insert", "Query", "Point", "RemoteQueryResult", "Field", "FlatRow", "QueryMetaData"].all
      (fun n => Facts.codecMsgTypes.any (·.name == n))) = true := by
  decide

/-! ## Non-vacuity -/

/-- `SUM(a) / IF(c0, AVG(BOUNDED(b,0,10)))`, shifted and logged: built by the constructors -/
def exG : GEx :=
  .unary "LN" (some "LN")
    (.shift
      (.bin "/" (.agg "SUM" (.field "a") (some "SUM") (some "SUM"))
        (.ifE 0 (.avg (.bounded (.field "b") 0 10) (.const 1)) 17) false (some "/"))
      (-1000000000) 26) 26

/-- `PERCENTILE(PERCENTILE(a+b, 99, 0, 100, 1), 50)` -/
def exP : GEx :=
  let pt : GEx := .ptile (.bounded (.bin "+" (.field "a") (.field "b") true (some "+")) 0 100) (.const 99) 0 1000 1 1 808
  .ptileOpt pt pt (.const 50)

example : exG.linked = true ∧ exP.linked = true := by decide
example : dec (enc exG) = some exG := by decide
example : dec (enc exP) = some exP.clearDeAgg ∧ exP.clearDeAgg ≠ exP := by decide
example : exG.toEx (fun _ _ _ _ => 0) false =
    some (.unary 0 (.shift (.bin .div (.agg .sum (.field "a"))
      (.ifE 0 (.avg (.bounded (.field "b") 0 10) (.const 1)))) (-1000000000))) := by decide
example : (exP.toEx (fun _ _ _ _ => 7) true).isSome = true ∧
    exP.toEx (fun _ _ _ _ => 7) true ≠ exP.toEx (fun _ _ _ _ => 7) false := by decide

/-- BOUNDED directly around BOUNDED (what `PERCENTILE(BOUNDED(x,…),…)` builds) keeps both
    pairs of bounds. -/
example : dec (enc (.bounded (.bounded (.field "a") 1 9) 0 100)) =
    some (.bounded (.bounded (.field "a") 1 9) 0 100) := by decide

/-- The slots matter: an aggregate whose `merge` closure is nil has no behaviour, and the
    decoder does NOT reproduce it (it restores the registry's closure) — so a decoder that
    forgot `e.merge = e2.merge` would return exactly such an object and `dec_enc` would fail. -/
example :
    let bad : GEx := .agg "SUM" (.field "a") (some "SUM") none
    bad.linked = false ∧ bad.toEx (fun _ _ _ _ => 0) false = none ∧
    dec (enc bad) = some (.agg "SUM" (.field "a") (some "SUM") (some "SUM")) := by decide

/-- Unknown registry names are refused (`Unknown aggregate`), unknown ext ids too. -/
example : dec (enc (.agg "MEDIAN" (.field "a") none none)) = none ∧
    dec (.ext 61 .mnil) = none := by decide

/-! ## Part 3 — streams: the bytes handed to the transport stay the sender's message -/

/-- Which buffer discipline the source has, as far as the regenerated facts can tell:
    `Marshal` and `Unmarshal` of `rpc.Codec` (and every package-local function they call)
    reference no package-level variable, no receiver field and no `sync.Pool`, what
    `Marshal` returns is syntactically the result of an allocating library call, and
    `Unmarshal` only forwards its input to the library (no local code keeps the receive
    buffer). -/
def policyOfFacts : BufPolicy :=
  if Facts.codecFns.all (fun f => f.pkgVars.isEmpty && f.recvFields.isEmpty && !f.mentionsPool) &&
     Facts.codecFns.any (fun f => f.name == "Marshal" && f.returnsFresh) &&
     Facts.codecFns.any (fun f => f.name == "Unmarshal" && f.forwardsInputOnly)
  then .fresh else .reused

/-- The obligation on the source (regenerated each run): no pooled or shared buffer is
    reachable from `Marshal`/`Unmarshal`; `Marshal` returns freshly allocated bytes. -/
theorem marshal_result_is_fresh : policyOfFacts = .fresh := by decide

/-- Whatever the sender marshals afterwards, a buffer already handed to the transport still
    holds the same bytes (the contract gRPC's deferred frame writer relies on). -/
theorem marshal_outputs_stable (heap : List Wire) (gs : List GEx) (i : Nat) (h : i < heap.length) :
    (sendAll policyOfFacts heap gs).1[i]? = heap[i]? := by
  rw [marshal_result_is_fresh]; exact sendAll_fresh_stable heap gs i h

/-- A stream of messages marshalled back to back and written out by the transport as late
    as it may arrives as exactly those messages, in order, none lost or mixed. -/
theorem stream_delivers (gs : List GEx) :
    delivered policyOfFacts gs = gs.map (fun g => some (enc g)) := by
  rw [marshal_result_is_fresh]; exact delivered_fresh gs

/-- … and every one of them decodes to an object observationally equal to what was sent. -/
theorem stream_roundtrip (gs : List GEx) (h : ∀ g ∈ gs, g.linked = true) :
    (delivered policyOfFacts gs).map (fun w => w.bind dec) = gs.map (fun g => some g.clearDeAgg) := by
  rw [stream_delivers, List.map_map]
  apply List.map_congr_left
  intro g hg
  simp [Function.comp, dec_enc_linked g (h g hg)]

/-- Non-vacuity of the buffer model: with a recycled buffer the first of two messages is
    delivered as the second (what the seeded sync.Pool change did to large messages). -/
example : delivered .reused [exG, exP] = [some (enc exP), some (enc exP)] ∧
    delivered .fresh [exG, exP] = [some (enc exG), some (enc exP)] := by decide

/-! ## Part 4 — empty versus absent: message kinds survive the boundary -/

/-- the struct tag of a message field as regenerated from the source; a field that is not
    there any more counts as never transported -/
def tagOf (typ field : String) : FieldTag :=
  match Facts.codecFieldTags.find? (fun t => t.typ == typ && t.field == field) with
  | some t => { omitEmpty := t.omitEmpty, skip := t.skip }
  | none => { skip := true }

def tagsOfFacts : RQRTags :=
  { fields := tagOf "RemoteQueryResult" "Fields", key := tagOf "RemoteQueryResult" "Key",
    vals := tagOf "RemoteQueryResult" "Vals", row := tagOf "RemoteQueryResult" "Row",
    stats := tagOf "RemoteQueryResult" "Stats", error := tagOf "RemoteQueryResult" "Error",
    endOfResults := tagOf "RemoteQueryResult" "EndOfResults" }

/-- Struct-tag facts: no field of any struct that crosses the boundary (message structs and
    registered expression types) carries a `msgpack` tag — none is renamed, skipped (`-`),
    `omitempty`, inlined, and no struct has the `_msgpack` marker.  This is what makes the
    model's field tables (wire key = Go field name, every exported field written) the
    source's; any tag added later re-opens this obligation until it has been modelled. -/
theorem all_tags_plain :
    Facts.codecFieldTags.all (fun t =>
      !t.hasTag && t.wireName == t.field && !t.omitEmpty && !t.skip && t.opts.isEmpty && t.field != "_msgpack") = true ∧
    (["Insert", "Query", "Point", "RemoteQueryResult", "FlatRow", "Field", "QueryStats", "QueryMetaData", "Follow",
      "aggregate", "binaryExpr", "ptile"].all (fun n => Facts.codecFieldTags.any (·.typ == n))) = true := by
  decide

/-- The tests by which the receiving code tells RemoteQueryResult messages apart are the
    ones the model's `leaderKind` is built from (found in the source: `EndOfResults` in
    rpc_client.Query and HandleRemoteQueries, `Error != ""` in HandleRemoteQueries, and
    `fields/key/flatRow != nil` in queryCluster, traced back through the callbacks to
    `m.Fields`, `m.Key`, `m.Row`).  A new test on a message field breaks this. -/
theorem kind_tests_match_model :
    ((Facts.codecKindTests.filter (·.msgType == "RemoteQueryResult")).map (fun t => (t.field, t.test))).eraseDups =
      rqrKindFields := by
  decide

/-- For EVERY message type: a field the receiving code compares with nil is neither
    `omitempty` nor skipped (nil-ness must survive), and no tested field at all is skipped. -/
theorem tested_fields_keep_their_meaning :
    Facts.codecKindTests.all (fun k =>
      let t := tagOf k.msgType k.field
      !t.skip && (k.test != "nil" || !t.omitEmpty)) = true := by
  decide

/-- Under the source's tags a RemoteQueryResult comes back exactly as sent, nil-ness of every
    slice, ByteMap and pointer included. -/
theorem msg_roundtrip_exact (m : RQR) : m.roundTrip tagsOfFacts = m := by
  have h : tagsOfFacts = {} := by decide
  rw [h]; exact RQR.roundTrip_plain m

/-- The obligation on the source (regenerated each run): in `HandleRemoteQueries`' receive
    loop the test of `m.Error` is not dominated by the `break` on `m.EndOfResults` — the
    follower (`ProcessRemoteQuery`) reports a failed query ON its final message. -/
theorem error_read_before_end : Facts.codecErrorBeforeEnd = true := by decide

/-- The message kind the leader infers from a decoded message is the kind the follower sent —
    for all messages, including unflat rows whose key has zero dims (`some []`), field lists
    with zero fields, flat rows with no values, and the final message that carries the
    follower's error together with `EndOfResults` (kind `failed`: an error sent by the
    follower is an error seen by the leader). -/
theorem kind_preserved (s : Sent) (unflat : Bool)
    (hq : match s with | .unflatRow _ _ => unflat = true | .flatRow _ => unflat = false | _ => True) :
    leaderKind Facts.codecErrorBeforeEnd s.first unflat (s.msg.roundTrip tagsOfFacts) = s.kind := by
  rw [error_read_before_end]
  exact leaderKind_roundTrip tagsOfFacts (by decide) (by decide) (by decide) (by decide) (by decide) s unflat hq

/-- Non-vacuity: with `omitempty` on `Key` (seeded change C20-2) an unflat row whose key has
    zero dims arrives as "partition finished"; with the source's tags it arrives as a row. -/
example :
    leaderKind true false true ((Sent.unflatRow [] (some [some [1, 2], none])).msg.roundTrip { key := { omitEmpty := true } })
      = .partitionDone ∧
    leaderKind true false true ((Sent.unflatRow [] (some [some [1, 2], none])).msg.roundTrip tagsOfFacts) = .unflatRow ∧
    leaderKind true true false ((Sent.fieldList []).msg.roundTrip { fields := { omitEmpty := true } }) = .partitionDone := by
  decide

/-- Non-vacuity: when the loop leaves on `EndOfResults` before it reads `Error` (seeded change
    C20-4) the follower's failure arrives as a normal end of results; in source order it
    arrives as `failed`; an error in a message of its own is seen either way. -/
example :
    leaderKind false false true ((Sent.endOfResults none "deadline exceeded").msg.roundTrip tagsOfFacts) = .endOfResults ∧
    leaderKind true false true ((Sent.endOfResults none "deadline exceeded").msg.roundTrip tagsOfFacts) = .failed ∧
    (Sent.endOfResults none "deadline exceeded").kind = .failed ∧
    leaderKind false false true { error := "boom" } = .failed := by
  decide

/-- Known asymmetry, outside the property's observers: `Validate()` reads
    `binaryExpr.DeAggregated`, which does not survive.  The value expression of
    `PERCENTILE(a+b, …)` validates before the trip and not after. -/
theorem validate_not_preserved :
    exP.validate = true ∧ (dec (enc exP)).map GEx.validate = some false := by decide

end Zeno.C20
