/-
C18 — a query observes the table as of a single instant.

Model (Model/Snapshot.lean, namespace `Zeno.Snap`): sequence buffers and `data` slices are
heap objects with identities; the live memstore tree and every scan's copy refer to them;
`ingest` writes in place into an existing buffer or stores a freshly allocated buffer into the
live node's `data` array; `flush` installs a new empty tree and a new file (a value);
`scanStart` = `Tree.Copy` (three variants: `shared` = the code as found, `arrays` = fresh
`data` slices only, `deep` = the repair: fresh slices AND fresh buffers) + the file of that
instant; `deliver sid k` reads the row of `k` THROUGH THE COPY'S REFERENCES AT THAT MOMENT.
A history is any list of events; `ingestField` is one iteration of the field loop of one
insert, so histories also contain every interleaving of deliveries with half-applied inserts.

What the theorems say (all for the `deep` copy, for every `Cfg` — i.e. whatever the sequence
operations compute and whenever `Update` decides to write in place):
* `ownership`: in every reachable state, what any scan's copy can read (its arrays and the
  buffers they refer to) is disjoint from what the live tree can write (`Snap.Inv`).
* `scan_is_snapshot`: for every history `pre`, every scan started right after it and EVERY
  continuation `post` (inserts — whole or field by field —, flushes, other scans, deliveries in
  any order), each row the scan delivers equals `view` of the state at its start.
* `undisturbed_scan_delivers_view`: `view` is what a scan delivers when nothing happens in
  between (so `view` is "the table as of that instant" and the hypothesis of the theorem above
  is satisfiable).
* `prefix_complete`: an insert that was applied (as a whole: `Ev.ingest`, which is what the
  write lock makes of it) before the scan started is reflected in EVERY field of its row.
* `no_later_point`: a point no event before the scan start belongs to is reflected in NO
  delivered row, wherever it is inserted afterwards.
  ("reflected" is any relation `R` obeying `Snap.Keeps` / `Snap.Only`; `SnapEx.prov`, where a
  sequence value is the list of point ids it has absorbed, is an instance: `prov_keeps`,
  `prov_only`.)
The code as found violates the property (`shared_*`), and copying only the `data` slices
does not repair it (`arrays_*`).
-/
import ZenoModel.Lemmas.SnapshotRefl
import ZenoModel.Generated.Facts

set_option linter.unusedSimpArgs false
set_option linter.unusedVariables false

/-! ## fixtures (own namespace: their equation lemmas are not proof obligations of `Zeno.C18`) -/
namespace Zeno.SnapEx
open Zeno.Snap

/-- provenance instance: a sequence value is the list of ids of the points it has absorbed;
    a point is its id, its key is `id % 4`; ids below 100 hit an existing period (`Update` writes
    in place), the others make `Update` re-allocate -/
def prov (nf : Nat) : Cfg (List Nat) Nat where
  nf := nf
  keyOf := fun p => p % 4
  upd := fun _ c p => c.getD [] ++ [p]
  inPlace := fun _ _ p => p < 100
  merge := fun _ a b =>
    match a, b with
    | none, o => o
    | some x, none => some x
    | some x, some y => some (x ++ y)
  wr := fun row => some row

def reflects (c : List Nat) (p : Nat) : Prop := p ∈ c

/-- deliveries of a history from the empty table -/
def deliveries (mode : CopyMode) (es : List (Ev Nat)) : List (Delivery (List Nat)) :=
  (run (prov 2) mode {} es).2

/-- a concrete environment: the truncation bound (ids double as timestamps: a file column all of
    whose points are older than `tb` has expired and is dropped by `Merge`) and the field list
    (`rowMerger` / `rowMapper` map only the listed fields) -/
structure EnvX where
  tb : Nat
  fields : List Nat
  deriving Repr, DecidableEq

def provE (en : EnvX) : Cfg (List Nat) Nat :=
  { prov 2 with
    merge := fun f a b =>
      if en.fields.contains f then
        (prov 2).merge f (match a with
          | some x => if x.all (fun i => decide (i < en.tb)) then none else some x
          | none => none) b
      else none }

/-- variants of the scan path that re-read ONE component of the environment per row -/
def rrClock (captured current : EnvX) : EnvX := { captured with tb := current.tb }
def rrFields (captured current : EnvX) : EnvX := { captured with fields := current.fields }

def env0 : EnvX := { tb := 0, fields := [0, 1] }

/-- k0 and k1 in file and memstore; after the row of k0 the environment changes; then k1 -/
def envSchedule (e' : EnvX) : List (EEv Nat EnvX) :=
  [.base (.ingest 0), .base (.ingest 1), .base (.flush true), .base (.ingest 4), .base (.ingest 5),
   .base .scanStart, .base (.deliver 0 0), .setEnv e', .base (.deliver 0 1)]

def edeliveries (rr : EnvX → EnvX → EnvX) (es : List (EEv Nat EnvX)) : List (Delivery (List Nat)) :=
  (erun provE .deep rr { cur := env0 } es).2

end Zeno.SnapEx

namespace Zeno.C18
open Zeno.Snap Zeno.SnapEx

variable {C P : Type}

/-- the ownership invariant holds in every reachable state -/
theorem ownership (cfg : Cfg C P) (es : List (Ev P)) : Inv cfg (run cfg .deep {} es).1 :=
  inv_run cfg es {} (inv_init cfg)

/-- Every row a scan delivers is the row of the table as of the scan's start, whatever is
    inserted, flushed, scanned or delivered in between. -/
theorem scan_is_snapshot (cfg : Cfg C P) (pre post : List (Ev P)) (k : Key) (r : Option (Row C))
    (h : ((run cfg .deep {} pre).1.scans.length, k, r) ∈
      (run cfg .deep (run cfg .deep {} pre).1 (Ev.scanStart :: post)).2) :
    r = view cfg (run cfg .deep {} pre).1 k := by
  have i := ownership cfg pre
  generalize (run cfg .deep {} pre).1 = s at h i ⊢
  obtain ⟨g, hs, hv⟩ := good_scanStart cfg s i
  simp only [run, step, Option.toList, List.nil_append] at h
  have hsc : (scanStart .deep s).scans[s.scans.length]? =
      some { nodes := (copyNodes .deep s.heap s.live).2, file := s.file } := by
    rw [hs]; simp
  have := run_deliveries cfg post _ g.inv _ _ hsc k r h
  rw [this]
  simp only [view, hv]

/-- `view` is what a scan delivers when nothing happens between its start and the delivery. -/
theorem undisturbed_scan_delivers_view (cfg : Cfg C P) (pre : List (Ev P)) (k : Key) :
    (run cfg .deep (run cfg .deep {} pre).1
        [Ev.scanStart, Ev.deliver (run cfg .deep {} pre).1.scans.length k]).2 =
      [((run cfg .deep {} pre).1.scans.length, k, view cfg (run cfg .deep {} pre).1 k)] := by
  have i := ownership cfg pre
  generalize (run cfg .deep {} pre).1 = s at i ⊢
  obtain ⟨g, hs, hv⟩ := good_scanStart cfg s i
  have hsc : (scanStart .deep s).scans[s.scans.length]? =
      some { nodes := (copyNodes .deep s.heap s.live).2, file := s.file } := by
    rw [hs]; simp
  simp only [run, step, hsc, Option.toList, List.nil_append, List.append_nil, deliverRow, view, hv]

/-- An insert applied before the scan started is reflected in every field of its row. -/
theorem prefix_complete (cfg : Cfg C P) (R : C → P → Prop) (kp : Keeps cfg R)
    (pre post : List (Ev P)) (p : P) (hp : Ev.ingest p ∈ pre) (r : Option (Row C))
    (h : ((run cfg .deep {} pre).1.scans.length, cfg.keyOf p, r) ∈
      (run cfg .deep (run cfg .deep {} pre).1 (Ev.scanStart :: post)).2)
    (f : Nat) (hf : f < cfg.nf) :
    ∃ row c, r = some row ∧ row.getD f none = some c ∧ R c p := by
  rw [scan_is_snapshot cfg pre post _ r h]
  exact has_view cfg R kp _ p (has_run cfg R kp p pre {} (inv_init cfg) (Or.inr hp)) f hf

/-- A point that no event before the scan start belongs to is reflected in no delivered row. -/
theorem no_later_point (cfg : Cfg C P) (R : C → P → Prop) (on : Only cfg R)
    (pre post : List (Ev P)) (q : P) (hq : ∀ e ∈ pre, e.point ≠ some q) (k : Key) (row : Row C)
    (h : ((run cfg .deep {} pre).1.scans.length, k, some row) ∈
      (run cfg .deep (run cfg .deep {} pre).1 (Ev.scanStart :: post)).2)
    (f : Nat) (c : C) (hc : row.getD f none = some c) : ¬ R c q := by
  have hv := (scan_is_snapshot cfg pre post k _ h).symm
  exact clean_view cfg R on _ q (clean_run cfg R on q pre {} hq (clean_init R q)) k row hv f c hc

/-- the provenance instance obeys the laws "reflected" is constrained by -/
theorem prov_keeps (nf : Nat) : Keeps (prov nf) reflects := by
  refine ⟨?_, ?_, ?_, ?_, ?_⟩
  · intro f c p; simp [prov, reflects]
  · intro f c p q h; simp [prov, reflects] at h ⊢; exact Or.inl h
  · intro f a b q h
    cases b with
    | none => exact ⟨a, rfl, h⟩
    | some y => exact ⟨a ++ y, rfl, by simp [reflects] at h ⊢; exact Or.inl h⟩
  · intro f a b q h
    cases a with
    | none => exact ⟨b, rfl, h⟩
    | some x => exact ⟨x ++ b, rfl, by simp [reflects] at h ⊢; exact Or.inr h⟩
  · intro row f c q h1 h2; exact ⟨row, c, rfl, h1, h2⟩

theorem prov_only (nf : Nat) : Only (prov nf) reflects := by
  refine ⟨?_, ?_, ?_⟩
  · intro f c p q h
    simp only [prov, reflects, List.mem_append, List.mem_singleton] at h
    rcases h with h | h
    · cases c with
      | none => simp at h
      | some c0 => exact Or.inr ⟨c0, rfl, h⟩
    · exact Or.inl h
  · intro f a b c q hm hR
    cases a with
    | none =>
      cases b with
      | none => cases hm
      | some y => cases hm; exact Or.inr ⟨_, rfl, hR⟩
    | some x =>
      cases b with
      | none => cases hm; exact Or.inl ⟨_, rfl, hR⟩
      | some y =>
        cases hm
        simp only [reflects, List.mem_append] at hR
        rcases hR with hR | hR
        · exact Or.inl ⟨_, rfl, hR⟩
        · exact Or.inr ⟨_, rfl, hR⟩
  · intro row row' f c' q hw hg hR
    cases hw
    exact ⟨c', hg, hR⟩

/-! ### the scan's environment: clock / truncation bound, field lists, file store -/

/-- With EVERYTHING a delivery uses taken from the record captured at `scanStart` (memstore copy,
    file store, and the environment: clock / truncation bound, field lists, …), each delivered
    row equals the table as of the scan's start — whatever happens to heap, file AND environment
    (`setEnv`: clock advanced past retention boundaries, ALTER TABLE, …) in between. -/
theorem scan_is_snapshot_env {E : Type} (cfgOf : E → Cfg C P) (hs : SameShape cfgOf) (e0 : E)
    (pre post : List (EEv P E)) (k : Key) (r : Option (Row C))
    (h : ((erun cfgOf .deep keepCaptured { cur := e0 } pre).1.base.scans.length, k, r) ∈
      (erun cfgOf .deep keepCaptured (erun cfgOf .deep keepCaptured { cur := e0 } pre).1
        (EEv.base Ev.scanStart :: post)).2) :
    r = eview cfgOf (erun cfgOf .deep keepCaptured { cur := e0 } pre).1 k := by
  have i := einv_erun cfgOf hs keepCaptured pre _ (einv_init cfgOf e0)
  generalize (erun cfgOf .deep keepCaptured { cur := e0 } pre).1 = s at h i ⊢
  obtain ⟨g, hsc, hv⟩ := good_scanStart (cfgOf s.cur) s.base i.inv
  have g1 := egood_estep cfgOf hs keepCaptured s i (EEv.base Ev.scanStart)
  simp only [erun, Option.toList, List.nil_append] at h
  have h1 : (estep cfgOf .deep keepCaptured s (EEv.base Ev.scanStart)).1 =
      { s with base := scanStart .deep s.base, envs := s.envs ++ [s.cur] } := rfl
  have h2 : (estep cfgOf .deep keepCaptured s (EEv.base Ev.scanStart)).2 = none := rfl
  rw [h2] at h
  simp only [Option.toList, List.nil_append] at h
  rw [h1] at h g1
  have hsc' : ({ s with base := scanStart .deep s.base, envs := s.envs ++ [s.cur] } :
      EState C E).base.scans[s.base.scans.length]? =
      some { nodes := (copyNodes .deep s.base.heap s.base.live).2, file := s.base.file } := by
    simp only [hsc]; simp
  have hen' : ({ s with base := scanStart .deep s.base, envs := s.envs ++ [s.cur] } :
      EState C E).envs[s.base.scans.length]? = some s.cur := by
    simp only [← i.len]; simp
  have := erun_deliveries cfgOf hs post _ g1.inv _ _ _ hsc' hen' k r h
  rw [this]
  simp only [deliverRow, eview, view, hv]

/-- `provE` changes only `merge` with the environment -/
theorem provE_sameShape : SameShape provE := fun _ _ => rfl

/-- Re-reading the CLOCK per row (e.g. handing the method value `fs.t.truncateBefore` to
    `rowMerger`) breaks the property: after the clock moved past the retention boundary of k1's
    file data, the row of k1 has lost it, while the row of k0, delivered before, kept its own. -/
theorem reread_clock_breaks_snapshot :
    edeliveries rrClock (envSchedule { tb := 3, fields := [0, 1] }) =
      [(0, 0, some [some [0, 4], some [0, 4]]), (0, 1, some [some [5], some [5]])] ∧
    edeliveries keepCaptured (envSchedule { tb := 3, fields := [0, 1] }) =
      [(0, 0, some [some [0, 4], some [0, 4]]), (0, 1, some [some [1, 5], some [1, 5]])] :=
  ⟨by decide +kernel, by decide +kernel⟩

/-- Re-reading the table's FIELD LIST per row breaks it: after an ALTER that drops field 1 the
    row of k1 comes without it. -/
theorem reread_fields_breaks_snapshot :
    edeliveries rrFields (envSchedule { tb := 0, fields := [0] }) =
      [(0, 0, some [some [0, 4], some [0, 4]]), (0, 1, some [some [1, 5], none])] ∧
    edeliveries keepCaptured (envSchedule { tb := 0, fields := [0] }) =
      [(0, 0, some [some [0, 4], some [0, 4]]), (0, 1, some [some [1, 5], some [1, 5]])] :=
  ⟨by decide +kernel, by decide +kernel⟩

/-- Re-reading the FILE STORE at delivery time breaks it: after a flush the new file already
    contains what the scan's memstore copy holds — the row counts point 0 twice. -/
theorem reread_file_breaks_snapshot :
    (match (run (prov 2) .deep {} [.ingest 0, .scanStart, .flush true]).1.scans[0]? with
      | some sc => deliverRowLiveFile (prov 2) (run (prov 2) .deep {} [.ingest 0, .scanStart, .flush true]).1 sc 0
      | none => none) = some [some [0, 0], some [0, 0]] ∧
    view (prov 2) (run (prov 2) .deep {} [.ingest 0]).1 0 = some [some [0], some [0]] :=
  ⟨by decide +kernel, by decide +kernel⟩

/-- Regenerated from row_store.go on every run (tools/extract/scanreads.go): the per-row code of
    the scan path reads nothing from the table / database but the logger, the (immutable) file
    name and resolution; it calls no captured function but the consumer callbacks; and the
    closures of `rowMerger` / `rowMapper` are built from VALUES computed before the first row.
    A new per-row read (a method value such as `fs.t.truncateBefore`, `fs.t.getFields()`,
    `rs.fileStore`, `db.clock…`) makes this fail. -/
theorem scan_path_reads_expected :
    Facts.scanPerRowReads.map (fun r => (r.func, r.expr)) =
      [("fileStore.iterate", "fs.filename"), ("fileStore.iterate", "fs.t.Resolution"),
       ("fileStore.iterate", "fs.t.log.Errorf"), ("fileStore.iterate", "fs.t.log.IsTraceEnabled"),
       ("fileStore.iterate", "fs.t.log.Tracef")] ∧
    Facts.scanPerRowParamCalls.map (fun r => (r.func, r.expr)) =
      [("fileStore.iterate", "onRow"), ("rowStore.iterate", "onValue")] ∧
    Facts.scanHelperArgs =
      [("rowMerger", ["outFields", "ms.fields", "fs.t.Resolution", "truncateBefore"]),
       ("rowMapper", ["outFields", "fileFields"])] := by
  decide

/-! ### several scans: a copy reused until the next structural change -/

/-- A `cached` copy violates `prefix_complete`: point 4 (same key and period as point 0: written
    in place, nothing allocated) is processed BEFORE the second scan starts, yet the second
    scan, handed the remembered copy of the first, shows it in no field; the table as of its start
    has it in both.  A structural insert in between (point 104: re-allocation) forgets the copy
    and the next scan is right again — and so is every scan under the deep copy. -/
theorem cached_copy_misses_processed_point :
    (crun (prov 2) {} [.ingest 0, .scanStart, .deliver 0 0, .ingest 4, .scanStart, .deliver 1 0]).2 =
      [(0, 0, some [some [0], some [0]]), (1, 0, some [some [0], some [0]])] ∧
    view (prov 2) (run (prov 2) .deep {} [.ingest 0, .scanStart, .deliver 0 0, .ingest 4]).1 0 =
      some [some [0, 4], some [0, 4]] ∧
    Ev.ingest 4 ∈ [Ev.ingest 0, Ev.scanStart, Ev.deliver 0 0, Ev.ingest 4] ∧
    (crun (prov 2) {} [.ingest 0, .scanStart, .ingest 4, .ingest 104, .scanStart, .deliver 1 0]).2 =
      [(1, 0, some [some [0, 4, 104], some [0, 4, 104]])] ∧
    deliveries .deep [.ingest 0, .scanStart, .deliver 0 0, .ingest 4, .scanStart, .deliver 1 0] =
      [(0, 0, some [some [0], some [0]]), (1, 0, some [some [0, 4], some [0, 4]])] :=
  ⟨by decide +kernel, by decide +kernel, by decide, by decide +kernel, by decide +kernel⟩

/-! ### the code as found (`shared`) and the half repair (`arrays`) violate the property -/

/-- D9, in place: the row of an existing key delivered after an in-scan insert into the same
    period shows that insert (the copy's node shares the sequence bytes). -/
theorem shared_inplace_insert_visible :
    deliveries .shared [.ingest 0, .scanStart, .ingest 4, .deliver 0 0] =
      [(0, 0, some [some [0, 4], some [0, 4]])] ∧
    view (prov 2) (run (prov 2) .shared {} [.ingest 0]).1 0 = some [some [0], some [0]] := by
  decide +kernel

/-- D9, re-allocated: the insert makes `Update` return a new sequence, `doUpdate` stores it into
    the `data` slice the copy shares — visible as well. -/
theorem shared_realloc_insert_visible :
    deliveries .shared [.ingest 0, .scanStart, .ingest 104, .deliver 0 0] =
      [(0, 0, some [some [0, 104], some [0, 104]])] := by
  decide +kernel

/-- D9, torn row: a delivery between two iterations of the field loop of one insert sees the
    insert in the first field only. -/
theorem shared_torn_row :
    deliveries .shared [.ingest 0, .scanStart, .ingestField 4 0, .deliver 0 0, .ingestField 4 1] =
      [(0, 0, some [some [0, 4], some [0]])] := by
  decide +kernel

/-- with sharing, rows delivered BEFORE the insert do not show it: one scan mixes two instants -/
theorem shared_mixes_instants :
    deliveries .shared [.ingest 0, .ingest 1, .scanStart, .deliver 0 0, .ingest 4, .ingest 5, .deliver 0 1] =
      [(0, 0, some [some [0], some [0]]), (0, 1, some [some [1, 5], some [1, 5]])] := by
  decide +kernel

/-- a key inserted during the scan is not delivered even by the sharing copy (the copy has its
    own nodes and edges), and a flush during the scan does not disturb it -/
theorem shared_new_key_invisible :
    deliveries .shared [.ingest 0, .scanStart, .ingest 1, .flush true, .deliver 0 1, .deliver 0 0] =
      [(0, 1, none), (0, 0, some [some [0], some [0]])] := by
  decide +kernel

/-- the property fails for the sharing copy -/
theorem shared_copy_is_not_a_snapshot :
    ∃ (pre post : List (Ev Nat)) (k : Key) (r : Option (Row (List Nat))),
      ((run (prov 2) .shared {} pre).1.scans.length, k, r) ∈
        (run (prov 2) .shared (run (prov 2) .shared {} pre).1 (Ev.scanStart :: post)).2 ∧
      r ≠ view (prov 2) (run (prov 2) .shared {} pre).1 k :=
  ⟨[.ingest 0], [.ingest 4, .deliver 0 0], 0, some [some [0, 4], some [0, 4]], by decide +kernel⟩

/-- half repair: with a fresh `data` slice per node but shared sequence bytes, a re-allocating
    insert is no longer visible, an in-place one still is -/
theorem arrays_copy_not_enough :
    deliveries .arrays [.ingest 0, .scanStart, .ingest 104, .deliver 0 0] =
      [(0, 0, some [some [0], some [0]])] ∧
    deliveries .arrays [.ingest 0, .scanStart, .ingest 4, .deliver 0 0] =
      [(0, 0, some [some [0, 4], some [0, 4]])] :=
  ⟨by decide +kernel, by decide +kernel⟩

/-! ### non-vacuity: the same schedules under the deep copy -/

example : deliveries .deep [.ingest 0, .scanStart, .ingest 4, .deliver 0 0] =
    [(0, 0, some [some [0], some [0]])] := by decide +kernel
example : deliveries .deep [.ingest 0, .scanStart, .ingest 104, .deliver 0 0] =
    [(0, 0, some [some [0], some [0]])] := by decide +kernel
example : deliveries .deep [.ingest 0, .scanStart, .ingestField 4 0, .deliver 0 0, .ingestField 4 1] =
    [(0, 0, some [some [0], some [0]])] := by decide +kernel
/-- file and memstore parts, two concurrent scans, flush between their starts -/
example : deliveries .deep [.ingest 0, .ingest 1, .flush true, .ingest 4, .scanStart, .ingest 8, .flush false,
      .scanStart, .ingest 12, .deliver 0 0, .deliver 1 0, .deliver 0 1, .deliver 0 2] =
    [(0, 0, some [some [0, 4], some [0, 4]]), (1, 0, some [some [0, 4, 8], some [0, 4, 8]]),
     (0, 1, some [some [1], some [1]]), (0, 2, none)] := by decide +kernel
/-- the hypotheses of `prefix_complete` / `no_later_point` are satisfiable and their conclusions
    are about something: point 4 (before) is in both fields, point 8 (after) in none -/
example : (0, (prov 2).keyOf 4, some [some [0, 4], some [0, 4]]) ∈
    (run (prov 2) .deep (run (prov 2) .deep {} [.ingest 0, .ingest 4]).1
      [.scanStart, .ingest 8, .deliver 0 0]).2 := by decide +kernel
example : Ev.ingest 4 ∈ [Ev.ingest 0, Ev.ingest 4] ∧
    (∀ e ∈ [Ev.ingest 0, Ev.ingest 4], Ev.point e ≠ some 8) := by decide

end Zeno.C18
