/-
DERIVED SELECTED EXPRESSIONS (C06 / C07 / C08) — `a / b`, `SUM(a) * 2`, `IF(c, f)`, `a > b`, the
synthetic `_having` helper: selected expressions that are NOT table fields.  Their state is the
concatenation of the states of their sub-expressions; `Expr.SubMergers` wires, per scanned table
column, a closure (`SM.both`, `SM.right` with skip offsets, `SM.cond` gated by the source row's key)
that merges the column into the sub-expressions that print like it.

* STAGE 1 `sem_apply`, `sem_apply_row`: what the closures do, as the merge of an ASSEMBLED state.
* STAGE 2 `subMerge_reduces_to_direct`, `sem_groupRows_leafwise`, `assemble_acc`,
  `sem_groupRows_derived_spec`, `group_cell_derived_end_to_end`: the cell of a derived output field =
  the derived expression accumulated over `specQuery`'s bucket (IF conditions of the source key).
* STAGE 3 `flatten_reads_derived`, `runQuery_derived_rows_are_specQuery_rows` (no value on the empty
  state; HAVING included), `runQuery_derived_rows_agree_on_data`, `extra_rows_characterised`, and, with
  the store-side span hypothesis `ScanSpans`, `runQuery_derived_rows_decomposition` (known finding
  empty-bucket-row: runQuery's rows = specQuery's rows + rows on empty buckets).

Vocabulary and hypotheses: handoff/Derived.md.
-/
import ZenoModel.Lemmas.DerivedExample

namespace Zeno.Derived
open Zeno

variable (x : Ext)

/-! ## Stage 1 — one closure, all closures of a source row -/

/-- `Ex.assemble subs p st e`: the state of `e` with the state `st i` of column `i` in every maximal
    sub-expression of `e` whose FIRST print-alike column is `i` (`matchIdx`), a sub-expression under an
    unresolved `IF(c, ·)` only if the source row satisfies `c`, everything else empty; offsets are the
    `width` sums (`assemble_offsets`).  `singleCol subs j o`: only column `j` filled, with `o`.
    STAGE 1: the closure `core.Group` holds for `e` and column `j` (after `bytetree.New`'s de-dup; `nil` =
    nothing), run on the state `d` of `e` followed by ANY `rest`: merges `o` into exactly the slots of
    `e` that resolve to column `j`, leaves every other slot and `rest` unchanged. -/
theorem sem_apply {e : Ex} (hv : e.valid = true) (hp : e.noPtile = true) (hs : e.shiftFree = true)
    (subs : List Ex) (j : Nat) (cj : Ex) (hj : subs[j]? = some cj) (p : Pt)
    (d o rest : List Cell) (os : List (List Cell)) (otherRes : Int) (hd : WF e d) (ho : WF cj o) :
    applyOpt (colSM e subs j) (d ++ rest) (o :: os) otherRes p =
      e.mrg d (e.assemble subs p (singleCol subs j o)) ++ rest :=
  sem_apply_lem hv hp hs subs j cj hj p d o rest os otherRes hd ho

/-- the slots: for a binary expression that is not itself a column, the left operand's slots come
    first and take exactly `l.width` cells (the `skip` of `combinedSubMerge`) -/
theorem assemble_offsets (subs : List Ex) (p : Pt) (st : Nat → List Cell)
    (hst : ∀ i s, subs[i]? = some s → WF s (st i)) (op : BinOp) (l r : Ex)
    (hm : (Ex.bin op l r).matchIdx subs = none) :
    ((Ex.bin op l r).assemble subs p st).take l.width = l.assemble subs p st ∧
      ((Ex.bin op l r).assemble subs p st).drop l.width = r.assemble subs p st := by
  have hl := (assemble_wf subs p st hst l).length
  simp only [Ex.assemble, hm]
  rw [← hl, List.take_left, List.drop_left]
  exact ⟨rfl, rfl⟩

/-- a column that `bytetree.New` drops (an earlier column prints the same) fills no slot -/
theorem dropped_column_fills_nothing (subs : List Ex) (j : Nat) (hnf : ¬ FirstCol subs j) (p : Pt) (o : List Cell)
    (e : Ex) : e.assemble subs p (singleCol subs j o) = e.empty :=
  assemble_single_dropped subs j hnf p o e

/-- assembled states are well formed -/
theorem assemble_wellformed (subs : List Ex) (p : Pt) (st : Nat → List Cell)
    (hst : ∀ i s, subs[i]? = some s → WF s (st i)) (e : Ex) : WF e (e.assemble subs p st) :=
  assemble_wf subs p st hst e

/-- STAGE 1, whole source row: running the closures of ALL scanned columns, column by column (as
    `groupRows` does), = merging the state assembled from the row's columns -/
theorem sem_apply_row {e : Ex} (hv : e.valid = true) (hp : e.noPtile = true) (hs : e.shiftFree = true)
    (subs : List Ex) (p : Pt) (st : Nat → List Cell) (hst : ∀ i s, subs[i]? = some s → WF s (st i))
    (otherRes : Int) (d : List Cell) (hd : WF e d) :
    applyRow e subs p st otherRes d = e.mrg d (e.assemble subs p st) :=
  sem_applyRow_lem hv hp hs subs p st hst otherRes d hd

/-! ## Stage 2 — through `Sequence.SubMerge` and `core.Group` -/

/-- `SubMerge` with the closure of column `j` IS `SubMerge` with the direct sub-merger of `e` on the
    source sequence mapped, period by period, into the state space of `e` (`colImage`): all of
    SubMergeSem (window, buckets, grid) applies unchanged -/
theorem subMerge_reduces_to_direct {e : Ex} (hv : e.valid = true) (hp : e.noPtile = true) (hs : e.shiftFree = true)
    {subs : List Ex} {j : Nat} {cj : Ex} (hj : subs[j]? = some cj) {sm : SM} (hsm : colSM e subs j = some sm)
    {res otherRes hi : Int} (hres : 0 < res) (hor : 0 < otherRes) (s other : Sq) (p : Pt) (asOf : Int)
    (hr : RecvGrid e res hi s) (hwo : SqWF cj other) :
    Sq.subMerge e cj sm res otherRes s other p asOf hi 0 =
      Sq.subMerge e e (.direct e) res otherRes s (mapSq (colImage e subs j p) other) p asOf hi 0 :=
  subMerge_reduce hv hp (shiftFree_shiftOf hs) sm _ otherRes p (colSM_actsAs hv hp hs hj hsm otherRes p)
    (fun o ho => colImage_wf e hj p ho) hres hor s other asOf hr hwo

/-- STAGE 2, LEAF-WISE: the state of a derived output field at (key `k`, out period `T`) = the merge,
    over exactly the scan rows of the group (`groupMembers`) and exactly the bucket's native periods
    (`bucketTimes`), of the state assembled from the row's stored columns at that period -/
theorem sem_groupRows_leafwise {cfg : TableCfg} {now : Int} {q : Query} {pl : Plan} {inFields : List Field}
    {rows : List Row} {kk i : Nat} {f : Field} (H : DerivedCell cfg now q pl inFields rows kk i f)
    (metas : List KeyMeta) (k : Key) (T : Int) (hT : (gUntilOf cfg now pl - T) % gResOf cfg pl = 0) :
    (groupCell cfg now q pl inFields metas rows k i).at f.ex (gResOf cfg pl) T =
      if gAsOfOf cfg now pl < T ∧ T ≤ gUntilOf cfg now pl
      then leafwise f.ex (inFields.map (·.ex)) metas cfg.res (groupMembers q rows k)
        (bucketTimes cfg.res kk (gAsOfOf cfg now pl) (gUntilOf cfg now pl) T) f.ex.empty
      else f.ex.empty :=
  sem_groupRows_leafwise_lem H metas k T hT

/-- the accumulator column stays on the out grid and inside the window -/
theorem groupRows_derived_invariant {cfg : TableCfg} {now : Int} {q : Query} {pl : Plan} {inFields : List Field}
    {rows : List Row} {kk i : Nat} {f : Field} (H : DerivedCell cfg now q pl inFields rows kk i f)
    (metas : List KeyMeta) (k : Key) :
    RecvGrid f.ex (gResOf cfg pl) (gUntilOf cfg now pl) (groupCell cfg now q pl inFields metas rows k i) ∧
    InWindow f.ex (gResOf cfg pl) (gAsOfOf cfg now pl) (gUntilOf cfg now pl)
      (groupCell cfg now q pl inFields metas rows k i) :=
  groupCell_derived_inv H metas k

/-- THE ALGEBRAIC LEMMA: assembling the columns' accumulations of the points `ps` = accumulating `ps`
    directly with `e`, the source row's IF conditions appended to every point.  `resolved`: every
    aggregate lies in a sub-expression that IS a column; the open (query-level) conditions are not
    among the points' own -/
theorem assemble_acc {subs : List Ex} {p : Pt} {ps : List Pt} (hp0 : p.noMeta = false)
    (hirr : ColsIgnore x subs p.conds) (e : Ex) (hv : e.valid = true) (hp : e.noPtile = true)
    (hres : e.resolved subs = true) (hfresh : ∀ c ∈ e.openConds subs, ∀ pt ∈ ps, pt.includes c = false) :
    e.assemble subs p (colAccs x subs ps) = e.acc x (ps.map (addConds p.conds)) :=
  Zeno.assemble_acc x hp0 hirr e hv hp hres hfresh

/-- a leaf under `IF(c, ·)` accumulates exactly the rows whose source key satisfies `c` -/
theorem if_accumulates_satisfying_rows (c : Nat) (w : Ex) (ps : List Pt) :
    ((∀ pt ∈ ps, pt.includes c = true) → (Ex.ifE c w).acc x ps = w.acc x ps) ∧
    ((∀ pt ∈ ps, pt.includes c = false) → (Ex.ifE c w).acc x ps = w.empty) :=
  ⟨acc_ifE_all x c w ps, acc_ifE_none x c w ps⟩

/-- STAGE 2 → SPEC, with the store half as a hypothesis per scanned column (`hstore`) -/
theorem sem_groupRows_derived_spec {cfg : TableCfg} {now : Int} {q : Query} {pl : Plan}
    {inFields : List Field} {rows : List Row} {kk i : Nat} {f : Field}
    (H : DerivedCell cfg now q pl inFields rows kk i f) (metas : List KeyMeta)
    (hres : f.ex.resolved (inFields.map (·.ex)) = true)
    (k : Key) (T : Int) (hT : (gUntilOf cfg now pl - T) % gResOf cfg pl = 0)
    (hW : gAsOfOf cfg now pl < T ∧ T ≤ gUntilOf cfg now pl)
    (A : List AccRow) (hper : ∀ a ∈ A, a.period % cfg.res = 0) (hkeys : (rows.map (·.key)).Nodup)
    (hcover : ∀ a ∈ A, gAsOfOf cfg now pl < a.period ∧ a.period ≤ gUntilOf cfg now pl → ∃ r ∈ rows, r.key = a.key)
    (hirr : ∀ r ∈ rows, ColsIgnore x (inFields.map (·.ex)) (rowPt metas r).conds)
    (hfresh : ∀ c ∈ f.ex.openConds (inFields.map (·.ex)), ∀ a ∈ A, a.pt.includes c = false)
    (hstore : ∀ r ∈ rows, ∀ j cj, (inFields.map (·.ex))[j]? = some cj →
      ∀ t, gAsOfOf cfg now pl < t ∧ t ≤ gUntilOf cfg now pl →
        (r.cols.getD j none).at cj cfg.res t = cj.acc x (keyPeriodPts A (·.pt) r.key t)) :
    (groupCell cfg now q pl inFields metas rows k i).at f.ex (gResOf cfg pl) T =
      f.ex.acc x (specBucketPts q A (specAdj metas) (gAsOfOf cfg now pl) (gUntilOf cfg now pl) (gResOf cfg pl) k T) :=
  sem_groupRows_derived_spec_lem x H metas hres k T hT hW A hper hkeys hcover hirr hfresh hstore

/-- columns without IF (or a key without conditions) do not read the key-level conditions -/
theorem cols_ignore_conditions (subs : List Ex) :
    ((∀ c ∈ subs, c.noIf = true) → ∀ cs, ColsIgnore x subs cs) ∧ ColsIgnore x subs [] :=
  ⟨fun h cs => colsIgnore_of_noIf x subs h cs, colsIgnore_nil x subs⟩

/-- STAGE 2, END TO END: for EVERY store script, the cell `core.Group` computes for a derived selected
    expression over the scan `runQuery` performs = the expression accumulated over `specQuery`'s bucket
    of accepted raw rows (the source key's IF conditions appended, as `specQuery` does) -/
theorem group_cell_derived_end_to_end {cfg : TableCfg} {ops : List StoreOp} {q : Query} {metas : List KeyMeta}
    {pl : Plan} (C : DerivedCtx x cfg ops q metas pl) (i : Nat) (f : Field) (hout : q.outFields[i]? = some f)
    (df : DerivedField x cfg ops q f) (k : Key) (T : Int)
    (hT : (gUntilOf cfg (runStore x cfg ops).now pl - T) % gResOf cfg pl = 0) :
    (groupCell cfg (runStore x cfg ops).now q pl (includedFields cfg q) metas (e2eScan x cfg ops q metas) k i).at
        f.ex (gResOf cfg pl) T =
      if gAsOfOf cfg (runStore x cfg ops).now pl < T ∧ T ≤ gUntilOf cfg (runStore x cfg ops).now pl
      then f.ex.acc x (specBucketPts q (specRows q metas (acceptedRows cfg true (pointsOf ops)).1) (specAdj metas)
        (gAsOfOf cfg (runStore x cfg ops).now pl) (gUntilOf cfg (runStore x cfg ops).now pl) (gResOf cfg pl) k T)
      else f.ex.empty :=
  e2e_cell_derived x C i f hout df k T hT

/-! ## Stage 3 — read-out (`Flatten`, HAVING) -/

/-- FLATTEN, EXACTLY: at a grid time, for each selected field `Flatten` reads the value of the spec
    bucket's accumulation — for a non-constant field only if the period is physically present in the
    grouped column (`spanHas`), otherwise nothing (`readVal`) -/
theorem flatten_reads_derived {cfg : TableCfg} {ops : List StoreOp} {q : Query} {metas : List KeyMeta} {pl : Plan}
    (C : DerivedCtx x cfg ops q metas pl) (hall : ∀ f ∈ q.outFields, DerivedField x cfg ops q f)
    (g : Row) (hg : g ∈ e2eGroup x cfg ops q metas pl) (T : Int)
    (hT : (gUntilOf cfg (runStore x cfg ops).now pl - T) % gResOf cfg pl = 0) :
    flatAt x q.outFields (gResOf cfg pl) g T =
      rowOf ((q.outFields.zip g.cols).map (fun (fc : Field × Sq) =>
        (readVal x fc.1 fc.2 (gResOf cfg pl) T (e2eBucket x cfg ops q metas pl g.key T), fc.1.ex.isConstant))) T g.key := by
  rw [flatAt_rowOf, derived_flat_vs x C hall g hg T hT]

/-- … which is the row `specOut` builds, at every slot that holds data in each field that would have
    a value without data (`HoldsData`; vacuous without constant operands) -/
theorem flatten_eq_spec_on_data {cfg : TableCfg} {ops : List StoreOp} {q : Query} {metas : List KeyMeta} {pl : Plan}
    (C : DerivedCtx x cfg ops q metas pl) (hall : ∀ f ∈ q.outFields, DerivedField x cfg ops q f)
    (g : Row) (hg : g ∈ e2eGroup x cfg ops q metas pl) (T : Int)
    (hT : (gUntilOf cfg (runStore x cfg ops).now pl - T) % gResOf cfg pl = 0)
    (hd : HoldsData x cfg ops q metas pl g.key T) :
    flatAt x q.outFields (gResOf cfg pl) g T = e2eSpecAt x cfg ops q metas pl g.key T :=
  derived_flatAt_data x C hall g hg T hT hd

/-- STAGE 3, MAIN (no value on the empty state: `a / b`, `a + b`, `IF(c, f)`, `HAVING a > b`):
    `runQuery` and `specQuery` return the same rows as multisets — HAVING included -/
theorem runQuery_derived_rows_are_specQuery_rows {cfg : TableCfg} {ops : List StoreOp} {q : Query}
    {metas : List KeyMeta} {pl : Plan} (C : DerivedCtx x cfg ops q metas pl)
    (hall : ∀ f ∈ q.outFields, DerivedField x cfg ops q f) (hnv : NoEmptyValues x q)
    (hne : (includedFields cfg q).isEmpty = false) (hng : pl.needsGroupBy = true) :
    ∃ R S, runQuery x cfg (runStore x cfg ops) q metas true = .ok R ∧
      specQuery x cfg true (pointsOf ops) q metas = .ok S ∧ R.Perm S :=
  derived_runQuery_perm x C hall hnv hne hng

/-- STAGE 3, GENERAL (constant operands, `HAVING f > 1`): both succeed and have the same rows at every
    slot (key, ts) that holds data — HAVING included -/
theorem runQuery_derived_rows_agree_on_data {cfg : TableCfg} {ops : List StoreOp} {q : Query}
    {metas : List KeyMeta} {pl : Plan} (C : DerivedCtx x cfg ops q metas pl)
    (hall : ∀ f ∈ q.outFields, DerivedField x cfg ops q f)
    (hne : (includedFields cfg q).isEmpty = false) (hng : pl.needsGroupBy = true) :
    ∃ R S, runQuery x cfg (runStore x cfg ops) q metas true = .ok R ∧
      specQuery x cfg true (pointsOf ops) q metas = .ok S ∧
      ∀ row : QRow, HoldsData x cfg ops q metas pl row.key row.ts → (row ∈ R ↔ row ∈ S) :=
  derived_runQuery_data x C hall hne hng

/-- both results, unfolded: HAVING applied to the flattened / bucket-wise rows -/
theorem derived_results_unfolded {cfg : TableCfg} {ops : List StoreOp} {q : Query} {metas : List KeyMeta} {pl : Plan}
    (C : DerivedCtx x cfg ops q metas pl) (hall : ∀ f ∈ q.outFields, DerivedField x cfg ops q f)
    (hne : (includedFields cfg q).isEmpty = false) (hng : pl.needsGroupBy = true) :
    runQuery x cfg (runStore x cfg ops) q metas true =
        .ok (if q.hasHaving then havingFilter (e2eFlat x cfg ops q metas pl) else e2eFlat x cfg ops q metas pl) ∧
      specQuery x cfg true (pointsOf ops) q metas =
        .ok (if q.hasHaving then havingFilter (e2eSpecFlat x cfg ops q metas pl) else e2eSpecFlat x cfg ops q metas pl) :=
  derived_results x C hall hne hng

/-- KNOWN FINDING empty-bucket-row, one slot: at an EMPTY bucket `Flatten` builds a row iff some
    non-constant field has a value on the empty state and the period is physically in its column -/
theorem empty_slot_row_iff {cfg : TableCfg} {ops : List StoreOp} {q : Query} {metas : List KeyMeta} {pl : Plan}
    (C : DerivedCtx x cfg ops q metas pl) (hall : ∀ f ∈ q.outFields, DerivedField x cfg ops q f)
    (g : Row) (hg : g ∈ e2eGroup x cfg ops q metas pl) (T : Int)
    (hT : (gUntilOf cfg (runStore x cfg ops).now pl - T) % gResOf cfg pl = 0)
    (hB : e2eBucket x cfg ops q metas pl g.key T = []) :
    (∃ row, flatAt x q.outFields (gResOf cfg pl) g T = some row) ↔
      ∃ fc ∈ q.outFields.zip g.cols, EmptyRead x (gResOf cfg pl) T fc :=
  derived_empty_slot_row_iff x C hall g hg T hT hB

/-- KNOWN FINDING empty-bucket-row, the extra rows: a row of `runQuery` (before HAVING) whose bucket is
    empty is never a row of `specQuery`, stems from such an empty-state reading, and all its values are
    readings of empty states -/
theorem extra_rows_characterised {cfg : TableCfg} {ops : List StoreOp} {q : Query} {metas : List KeyMeta} {pl : Plan}
    (C : DerivedCtx x cfg ops q metas pl) (hall : ∀ f ∈ q.outFields, DerivedField x cfg ops q f)
    (row : QRow) (hr : row ∈ e2eFlat x cfg ops q metas pl)
    (hB : e2eBucket x cfg ops q metas pl row.key row.ts = []) :
    row ∉ e2eSpecFlat x cfg ops q metas pl ∧
      ∃ g ∈ e2eGroup x cfg ops q metas pl, g.key = row.key ∧
        (∃ fc ∈ q.outFields.zip g.cols, EmptyRead x (gResOf cfg pl) row.ts fc) ∧
        row.vals = (q.outFields.zip g.cols).map (fun fc => (readVal x fc.1 fc.2 (gResOf cfg pl) row.ts []).getD 0) :=
  derived_extra_row x C hall row hr hB

/-! ### … with the store-side span hypothesis: the exact decomposition -/

/-- physical spans through `SubMerge`: an out period inside the window that was physically present stays,
    and one whose bucket holds a physically present source period becomes present -/
theorem subMerge_physical_span {e : Ex} (hv : e.valid = true) (hp : e.noPtile = true) (hs : e.shiftOf = 0)
    {res otherRes : Int} {k : Nat} {asOf hi : Int} (w : SMWindow res otherRes k asOf hi)
    (s other : Sq) (p : Pt) (ho : SqOk otherRes other) (hwo : SqWF e other) (hg : RecvGrid e res hi s)
    (T : Int) (hT : (hi - T) % res = 0) (hW : asOf < T ∧ T ≤ hi) :
    (sqCovers s res T → sqCovers (Sq.subMerge e e (.direct e) res otherRes s other p asOf hi 0) res T) ∧
    ((∃ t ∈ bucketTimes otherRes k asOf hi T, sqCovers other otherRes t) →
      sqCovers (Sq.subMerge e e (.direct e) res otherRes s other p asOf hi 0) res T) :=
  subMerge_covers hv hp hs w s other p ho hwo hg T hT hW

/-- under `ScanSpans` (store side, hypothesis): `Flatten` = `specOut` at EVERY non-empty bucket -/
theorem flatten_eq_spec_on_nonempty_bucket {cfg : TableCfg} {ops : List StoreOp} {q : Query} {metas : List KeyMeta}
    {pl : Plan} (C : DerivedCtx x cfg ops q metas pl) (hall : ∀ f ∈ q.outFields, DerivedField x cfg ops q f)
    (SS : ScanSpans x cfg ops q metas pl) (hst : StatefulFields q)
    (g : Row) (hg : g ∈ e2eGroup x cfg ops q metas pl) (T : Int)
    (hB : e2eBucket x cfg ops q metas pl g.key T ≠ []) :
    flatAt x q.outFields (gResOf cfg pl) g T = e2eSpecAt x cfg ops q metas pl g.key T :=
  derived_flatAt_bucket x C hall SS hst g hg T hB

/-- STAGE 3, THE EXACT RELATION (under `ScanSpans`): both succeed; every row of `specQuery` is a row of
    `runQuery`; every other row of `runQuery` sits on an EMPTY bucket — HAVING included -/
theorem runQuery_derived_rows_decomposition {cfg : TableCfg} {ops : List StoreOp} {q : Query}
    {metas : List KeyMeta} {pl : Plan} (C : DerivedCtx x cfg ops q metas pl)
    (hall : ∀ f ∈ q.outFields, DerivedField x cfg ops q f) (SS : ScanSpans x cfg ops q metas pl)
    (hst : StatefulFields q) (hne : (includedFields cfg q).isEmpty = false) (hng : pl.needsGroupBy = true) :
    ∃ R S, runQuery x cfg (runStore x cfg ops) q metas true = .ok R ∧
      specQuery x cfg true (pointsOf ops) q metas = .ok S ∧
      (∀ row, row ∈ S → row ∈ R) ∧
      (∀ row, row ∈ R → row ∈ S ∨ e2eBucket x cfg ops q metas pl row.key row.ts = []) :=
  derived_runQuery_decomp x C hall SS hst hne hng

/-! ## Non-vacuity (data: Lemmas/DerivedExample.lean).  Table `SUM(a) AS f0, COUNT(b) AS f1`;
`dQ` = `SELECT f0 / f1 AS q, IF(c100, f0) AS r … GROUP BY d, period 20 HAVING f0 > 1`. -/

/-- stage 1 on `(f0 / f1) + IF(c100, f0)` (three slots): column f0 fills slots 0 and 2 — slot 2 only for
    a source row satisfying c100 —, column f1 fills slot 1 (`SM.right` with skip 1 inside `SM.both`).
    The real `Expr.SubMergers` gives the same three states (Go run: handoff/Derived.md §4) -/
example :
    let e : Ex := .bin .add (.bin .div dA dB) (.ifE 100 dA)
    let d : List Cell := [.agg (some 1), .agg (some 2), .agg (some 1)]
    applyOpt (colSM e [dA, dB] 0) d [[.agg (some 10)]] 10 { vals := [], conds := [100] } =
        [.agg (some 11), .agg (some 2), .agg (some 11)] ∧
    applyOpt (colSM e [dA, dB] 0) d [[.agg (some 10)]] 10 { vals := [] } = [.agg (some 11), .agg (some 2), .agg (some 1)] ∧
    applyOpt (colSM e [dA, dB] 1) d [[.agg (some 5)]] 10 { vals := [] } = [.agg (some 1), .agg (some 7), .agg (some 1)] ∧
    e.assemble [dA, dB] { vals := [], conds := [100] } (fun j => [.agg (some (10 + j : Nat))]) =
        [.agg (some 10), .agg (some 11), .agg (some 10)] ∧
    (colSM e [dA, dA, dB] 1).isNone = true := by decide +kernel

private theorem dNow : (runStore default dCfg dOps).now = 1040 := by decide +kernel
private theorem dPlan (q : Query) (h : (planLocal dCfg 1040 q).isOk = true) :
    planLocal dCfg (runStore default dCfg dOps).now q = .ok (dPl q) := by
  rw [dNow]; unfold dPl
  cases hp : planLocal dCfg 1040 q with
  | ok p => rfl
  | error e => rw [hp] at h; cases h
private theorem dCtx (q : Query) (h : (planLocal dCfg 1040 q).isOk = true) (hs : q.stride ≤ 0)
    (ha : 0 < gAsOfOf dCfg 1040 (dPl q)) (hw : q.hasWhere = false) :
    DerivedCtx default dCfg dOps q dMetas (dPl q) :=
  ⟨⟨by decide, by decide, dPlan q h, hs, by rw [dNow]; exact ha, by intro h'; rw [hw] at h'; cases h'⟩,
    show ∀ g ∈ dCfg.fields, _ from by decide,
    fun κ => colsIgnore_of_noIf default _ (fun c hc => by
      obtain ⟨f, hf, rfl⟩ := List.mem_map.mp hc
      have hall : ∀ g ∈ dCfg.fields, g.ex.noIf = true := by decide
      exact hall f ((includedFields_sublist dCfg q).subset hf)) _⟩
private theorem dFields : ∀ f ∈ dQ.outFields, DerivedField default dCfg dOps dQ f := by
  intro f hf
  have ho : dQ.outFields = [⟨"q", .bin .div dA dB⟩, ⟨"r", .ifE 100 dA⟩, ⟨"_having", .bin .gt dA (.const 1)⟩] := rfl
  rw [ho] at hf
  simp only [List.mem_cons, List.not_mem_nil, or_false] at hf
  rcases hf with rfl | rfl | rfl <;>
    exact ⟨by decide, by decide, by decide, by decide +kernel, by decide +kernel⟩
example : includedFields dCfg dQ = [⟨"f0", dA⟩, ⟨"f1", dB⟩] := by decide +kernel

/-- the general theorem applies to the HAVING query; here the extra rows at 980/1000 read `_having` = 0
    and are dropped by HAVING, so both sides return the same four rows (different orders) -/
example : ∃ R S, runQuery default dCfg (runStore default dCfg dOps) dQ dMetas true = .ok R ∧
    specQuery default dCfg true (pointsOf dOps) dQ dMetas = .ok S ∧
    ∀ row : QRow, HoldsData default dCfg dOps dQ dMetas (dPl dQ) row.key row.ts → (row ∈ R ↔ row ∈ S) :=
  runQuery_derived_rows_agree_on_data default (dCtx dQ (by decide +kernel) (by decide) (by decide +kernel) rfl) dFields
    (by decide +kernel) (by decide +kernel)
example :
    okRows (runQuery default dCfg (runStore default dCfg dOps) dQ dMetas true) =
      [⟨960, [("d", "1")], [8, 0]⟩, ⟨1020, [("d", "1")], [4, 2]⟩, ⟨1040, [("d", "1")], [6, 4]⟩, ⟨1040, [("d", "2")], [3, 3]⟩] ∧
    okRows (specQuery default dCfg true (pointsOf dOps) dQ dMetas) =
      [⟨1020, [("d", "1")], [4, 2]⟩, ⟨1040, [("d", "1")], [6, 4]⟩, ⟨1040, [("d", "2")], [3, 3]⟩, ⟨960, [("d", "1")], [8, 0]⟩] := by
  decide +kernel


/-- stage 2 on the example, cells of d=1 at the out periods 960 … 1040: `q`'s two slots hold SUM(a) and
    COUNT(b) of ALL member rows; `r = IF(c100, f0)` holds SUM(a) of the rows of key (d=1,e=x) only (2 at
    1020, 4 at 1040; the 6 and the 8s of (d=1,e=y) are not merged) — as the spec's bucket accumulation says -/
example :
    [960, 980, 1000, 1020, 1040].map (fun T =>
      (groupCell dCfg 1040 dQ (dPl dQ) (includedFields dCfg dQ) dMetas (e2eScan default dCfg dOps dQ dMetas) [("d", "1")] 0).at
        (.bin .div dA dB) 20 T) =
      [[.agg (some 8), .agg (some 1)], [.agg none, .agg none], [.agg none, .agg none],
       [.agg (some 8), .agg (some 2)], [.agg (some 12), .agg (some 2)]] ∧
    [960, 980, 1000, 1020, 1040].map (fun T =>
      (groupCell dCfg 1040 dQ (dPl dQ) (includedFields dCfg dQ) dMetas (e2eScan default dCfg dOps dQ dMetas) [("d", "1")] 1).at
        (.ifE 100 dA) 20 T) = [[.agg none], [.agg none], [.agg none], [.agg (some 2)], [.agg (some 4)]] ∧
    [960, 980, 1000, 1020, 1040].map (fun T => (Ex.ifE 100 dA).acc default (e2eBucket default dCfg dOps dQ dMetas (dPl dQ) [("d", "1")] T)) =
      [[.agg none], [.agg none], [.agg none], [.agg (some 2)], [.agg (some 4)]] := by decide +kernel

/-- `HoldsData` on the example: the `_having` helper `f0 > 1` has a value (0) on the empty state, so the
    gap slot (d=1, 980) does not hold data, the slot (d=1, 1020) does -/
example : ¬ HoldsData default dCfg dOps dQ dMetas (dPl dQ) [("d", "1")] 980 ∧
    HoldsData default dCfg dOps dQ dMetas (dPl dQ) [("d", "1")] 1020 := by
  unfold HoldsData; decide +kernel

/-- no value on the empty state, WITH HAVING (`HAVING f0 > f1`): equal as multisets -/
example : ∃ R S, runQuery default dCfg (runStore default dCfg dOps) dQ3 dMetas true = .ok R ∧
    specQuery default dCfg true (pointsOf dOps) dQ3 dMetas = .ok S ∧ R.Perm S := by
  refine runQuery_derived_rows_are_specQuery_rows default
    (dCtx dQ3 (by decide +kernel) (by decide) (by decide +kernel) rfl) ?_ ?_ (by decide +kernel) (by decide +kernel)
  · intro f hf
    have ho : dQ3.outFields = [⟨"q", .bin .div dA dB⟩, ⟨"r", .ifE 100 dA⟩, ⟨"_having", .bin .gt dA dB⟩] := rfl
    rw [ho] at hf
    simp only [List.mem_cons, List.not_mem_nil, or_false] at hf
    rcases hf with rfl | rfl | rfl <;>
      exact ⟨by decide, by decide, by decide, by decide +kernel, by decide +kernel⟩
  · unfold NoEmptyValues; decide +kernel
example : (okRows (runQuery default dCfg (runStore default dCfg dOps) dQ3 dMetas true)).map (fun r => (r.ts, r.key, r.vals)) =
    [(960, [("d", "1")], [8, 0]), (1020, [("d", "1")], [4, 2]), (1040, [("d", "1")], [6, 4]), (1040, [("d", "2")], [3, 3])] := by
  decide +kernel

/-- KNOWN FINDING empty-bucket-row on the example (`SELECT f0 * 2`): `runQuery` returns two rows more
    than `specQuery`, at the gap periods 980 and 1000 of d=1, value 0 read from the empty state;
    `extra_rows_characterised` applies to them -/
example :
    (okRows (runQuery default dCfg (runStore default dCfg dOps) dQ2 dMetas true)).map (fun r => (r.ts, r.key, r.vals)) =
      [(960, [("d", "1")], [16]), (980, [("d", "1")], [0]), (1000, [("d", "1")], [0]), (1020, [("d", "1")], [16]),
       (1040, [("d", "1")], [24]), (1040, [("d", "2")], [6])] ∧
    (okRows (specQuery default dCfg true (pointsOf dOps) dQ2 dMetas)).map (fun r => (r.ts, r.key, r.vals)) =
      [(1020, [("d", "1")], [16]), (1040, [("d", "1")], [24]), (1040, [("d", "2")], [6]), (960, [("d", "1")], [16])] ∧
    (⟨980, [("d", "1")], [0]⟩ : QRow) ∈ e2eFlat default dCfg dOps dQ2 dMetas (dPl dQ2) ∧
    e2eBucket default dCfg dOps dQ2 dMetas (dPl dQ2) [("d", "1")] 980 = [] ∧
    (Ex.bin .mul dA (.const 2)).val default (Ex.bin .mul dA (.const 2)).empty = some 0 := by decide +kernel


/-- `ScanSpans` holds on the example (decidable), so the decomposition applies to `SELECT f0 * 2` -/
example : ∃ R S, runQuery default dCfg (runStore default dCfg dOps) dQ2 dMetas true = .ok R ∧
    specQuery default dCfg true (pointsOf dOps) dQ2 dMetas = .ok S ∧ (∀ row, row ∈ S → row ∈ R) ∧
    (∀ row, row ∈ R → row ∈ S ∨ e2eBucket default dCfg dOps dQ2 dMetas (dPl dQ2) row.key row.ts = []) := by
  refine runQuery_derived_rows_decomposition default
    (dCtx dQ2 (by decide +kernel) (by decide) (by decide +kernel) rfl) ?_ ?_ ?_ (by decide +kernel) (by decide +kernel)
  · intro f hf
    have ho : dQ2.outFields = [⟨"x", .bin .mul dA (.const 2)⟩] := rfl
    rw [ho, List.mem_singleton] at hf
    subst hf
    exact ⟨by decide, by decide, by decide, by decide +kernel, by decide +kernel⟩
  · unfold ScanSpans; decide +kernel
  · unfold StatefulFields; decide

end Zeno.Derived
