/-
C03 — query results do not depend on flush timing or on where data currently lives.

One column of the row store (see the header of Props/C01.lean for what a script is and
how the list plumbing and the table level are tied to the code).
-/
import ZenoModel.Lemmas.ColumnSpec

namespace Zeno.C03
open Zeno

variable (x : Ext)

/-- Any two scripts that differ only in where their flushes are (how many, where, raw
    pass-through or re-encoding/truncating) give the same memstore-inclusive view on every
    period that has not expired. -/
theorem view_schedule_independent (cfg : ColCfg) (hv : cfg.e.valid = true) (hp : cfg.e.noPtile = true)
    (hres : 0 < cfg.res) (ops₁ ops₂ : List ColOp) (h₁ : OpsPos ops₁) (h₂ : OpsPos ops₂)
    (hsame : noFlush ops₁ = noFlush ops₂) (T : Int)
    (hl : Live cfg (Col.run x cfg ops₁).now T) (hT0 : 0 < T) :
    ((Col.run x cfg ops₁).view cfg true).at cfg.e cfg.res T =
      ((Col.run x cfg ops₂).view cfg true).at cfg.e cfg.res T := by
  have i₁ := colInv_run x cfg hv hp hres ops₁ h₁
  have i₂ := colInv_run x cfg hv hp hres ops₂ h₂
  have hs : ColSpec.run x cfg ops₁ = ColSpec.run x cfg ops₂ := by
    unfold ColSpec.run
    rw [spec_ignores_flush, spec_ignores_flush x cfg ops₂, hsame]
  have hnow : (Col.run x cfg ops₂).now = (Col.run x cfg ops₁).now := by
    rw [i₁.now_eq, i₂.now_eq, hs]
  rw [view_eq_spec x cfg hv hp hres i₁ T hl hT0,
    view_eq_spec x cfg hv hp hres i₂ T (by rw [hnow]; exact hl) hT0, hs]

/-- The clock does not depend on the flush schedule either. -/
theorem clock_schedule_independent (cfg : ColCfg) (hv : cfg.e.valid = true) (hp : cfg.e.noPtile = true)
    (hres : 0 < cfg.res) (ops₁ ops₂ : List ColOp) (h₁ : OpsPos ops₁) (h₂ : OpsPos ops₂)
    (hsame : noFlush ops₁ = noFlush ops₂) :
    (Col.run x cfg ops₁).now = (Col.run x cfg ops₂).now := by
  rw [(colInv_run x cfg hv hp hres ops₁ h₁).now_eq, (colInv_run x cfg hv hp hres ops₂ h₂).now_eq]
  unfold ColSpec.run
  rw [spec_ignores_flush, spec_ignores_flush x cfg ops₂, hsame]

/-- A single flush (of either kind) does not change the memstore-inclusive view of a live
    period. -/
theorem view_flush (cfg : ColCfg) (hv : cfg.e.valid = true) (hp : cfg.e.noPtile = true)
    (hres : 0 < cfg.res) (ops : List ColOp) (hpos : OpsPos ops) (raw : Bool) (T : Int)
    (hl : Live cfg (Col.run x cfg ops).now T) (hT0 : 0 < T) :
    ((Col.run x cfg (ops ++ [.flush raw])).view cfg true).at cfg.e cfg.res T =
      ((Col.run x cfg ops).view cfg true).at cfg.e cfg.res T := by
  have hp2 : OpsPos (ops ++ [.flush raw]) := opsPos_append_flush raw hpos
  have hnf : noFlush (ops ++ [.flush raw]) = noFlush ops := noFlush_append_flush raw ops
  have hnow := clock_schedule_independent x cfg hv hp hres _ _ hp2 hpos hnf
  exact view_schedule_independent x cfg hv hp hres _ _ hp2 hpos hnf T (by rw [hnow]; exact hl) hT0

/-- Immediately after a flush the memstore is empty, so a disk-only scan hands out the very
    same series as a memstore-inclusive one. -/
theorem disk_equals_mem_after_flush (cfg : ColCfg) (ops : List ColOp) (raw : Bool) :
    (Col.run x cfg (ops ++ [.flush raw])).view cfg false =
      (Col.run x cfg (ops ++ [.flush raw])).view cfg true := by
  have hm : (Col.run x cfg (ops ++ [.flush raw])).mem = none := by
    unfold Col.run
    rw [List.foldl_append]
    simp only [List.foldl, Col.step]
    split
    · rename_i hc
      simp only [Bool.and_eq_true, Option.isNone_iff_eq_none] at hc
      exact hc.2
    · rfl
  simp only [Col.view, hm, Bool.false_eq_true, if_false, if_true]
  cases (Col.run x cfg (ops ++ [.flush raw])).file <;> simp [Sq.merge]

/-- Where a period's data lives is irrelevant: a scan returns the merge of the file part and
    the memory part (on live periods), for any split between them. -/
theorem view_is_merge {e : Ex} (hv : e.valid = true) (hp : e.noPtile = true) {res : Int} (h : 0 < res)
    (file mem : Sq) (hf : SqOk res file) (hm : SqOk res mem) (wf : SqWF e file) (wm : SqWF e mem)
    (tb T : Int) (hT : T % res = 0) (hgt : T > tb) (hT0 : 0 < T) :
    (Sq.merge e res file mem tb).at e res T = e.mrg (file.at e res T) (mem.at e res T) :=
  view_at hv hp h file mem hf hm wf wm tb T hT hgt hT0

/-! Non-vacuity -/

def exCfg : ColCfg := { e := .agg .sum (.field "a"), res := 10, retention := 100 }
def exA : List ColOp :=
  [.ingest 1003 { vals := [("a", 2)] }, .flush false, .ingest 1001 { vals := [("a", 5)] }, .flush true]
def exB : List ColOp :=
  [.flush true, .ingest 1003 { vals := [("a", 2)] }, .ingest 1001 { vals := [("a", 5)] }]

example : noFlush exA = noFlush exB ∧ OpsPos exA ∧ OpsPos exB := by
  refine ⟨by decide +kernel, ?_, ?_⟩ <;> simp [exA, exB, OpsPos]
example : ((Col.run default exCfg exA).view exCfg true).at exCfg.e exCfg.res 1010 = [.agg (some 7)] ∧
    ((Col.run default exCfg exB).view exCfg true).at exCfg.e exCfg.res 1010 = [.agg (some 7)] := by
  decide +kernel

end Zeno.C03
