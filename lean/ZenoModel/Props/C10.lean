/-
C10 — a partitioned cluster answers every query like a standalone database: the ROUTING part.

C10 is a composition: (1) routing — every accepted point is applied by exactly one partition
of each table, whatever the table's partition keys, the number of partitions or of leaders
(this file, over Model/Route.lean, hash uninterpreted); (2) replication — every follower of
partition p holds exactly the points routed to p, each once (Props/C12.lean over
Model/Repl.lean); (3) the cluster plan over a partition-respecting split equals the local plan
(C11, Props/C11.lean).  The end-to-end composition on the real code is the `cluster` engine
(mode `equiv`): real leaders and followers vs a standalone database.

What the theorems say (for every hash function `h`, every key list, every `N ≥ 1`):
* `route_total_unique` / `route_lt`: `partitionFor` maps each point to exactly one `p < N`.
* `leader_follower_agree`: the leader's per-(keys, table) decision and the follower's re-check
  are the same function of the point; `applied_iff` spells it out: applied on follower of
  partition `p` iff `partitionFor (sorted T.keys) = p ∧ where_T`.
* `forwarded_other_table_filtered`: an entry forwarded because ANOTHER table wanted it is
  dropped by the re-check of a table that does not.
* `partitions_cover_standalone`, `partitions_disjoint`, `each_point_exactly_one_partition`:
  over any point list, the per-partition application sets of a table are pairwise disjoint and
  their union is the standalone table's application set; per point, the number of partitions
  applying it is 1 if the WHERE passes and 0 otherwise (so a union of per-partition results —
  C11 — sees every point exactly once).
* what must not change: `key_order_matters` (hashing the keys in a different order on the two
  sides sends points elsewhere — both sides sort), `signed_mod_escapes` (a remainder of a signed
  32-bit value leaves `0..N-1`), `all_keys_missing_hash_nothing` / `no_keys_hash_all_dims`
  (a table whose partition keys are all absent from a point hashes the EMPTY input, it does
  not fall back to all dims).
-/
import ZenoModel.Model.Route

namespace Zeno.C10

variable (h : List (String × String) → Nat)

theorem route_lt (keys : List String) (dims : Dims) (N : Nat) (hN : 0 < N) :
    partitionFor h keys dims N < N := by
  unfold partitionFor
  exact Nat.mod_lt _ hN

/-- every point maps to exactly one partition `p < N` -/
theorem route_total_unique (keys : List String) (dims : Dims) (N : Nat) (hN : 0 < N) :
    ∃ p, (p < N ∧ inPartition h keys dims N p = true) ∧
      ∀ q, (q < N ∧ inPartition h keys dims N q = true) → q = p := by
  refine ⟨partitionFor h keys dims N, ⟨route_lt h keys dims N hN, by simp [inPartition]⟩, ?_⟩
  intro q hq
  have := hq.2
  simp [inPartition] at this
  exact this.symm

/-- leader-side decision and follower-side re-check are the same function -/
theorem leader_follower_agree (T : TableRoute) (N : Nat) (dims : Dims) (p : Nat) :
    leaderWants h T N dims p = followerKeeps h T N dims p := rfl

/-- a point is applied to table `T` on a follower of partition `p` iff it routes to `p` under
    `T`'s (sorted) keys and passes `T`'s WHERE -/
theorem applied_iff (T : TableRoute) (N : Nat) (dims : Dims) (p : Nat) :
    followerKeeps h T N dims p = true ↔
      partitionFor h (sortKeys T.keys) dims N = p ∧ T.whereOk dims = true := by
  simp [followerKeeps, inPartition]

/-- an entry forwarded to the follower because another table wanted it is filtered out by the
    re-check of a table that does not want it -/
theorem forwarded_other_table_filtered (Ts : List TableRoute) (T T' : TableRoute) (N : Nat)
    (dims : Dims) (p : Nat) (_hT' : T' ∈ Ts) (_hw' : leaderWants h T' N dims p = true)
    (hw : leaderWants h T N dims p = false) :
    forwarded h Ts N dims p = true ∧ followerKeeps h T N dims p = false := by
  refine ⟨?_, by rw [← leader_follower_agree]; exact hw⟩
  simp only [forwarded, List.any_eq_true]
  exact ⟨T', _hT', _hw'⟩

/-- nothing reaches a table that no table's leader-side decision asked for -/
theorem kept_implies_forwarded (Ts : List TableRoute) (T : TableRoute) (N : Nat) (dims : Dims) (p : Nat)
    (hT : T ∈ Ts) (hk : followerKeeps h T N dims p = true) : forwarded h Ts N dims p = true := by
  simp only [forwarded, List.any_eq_true]
  exact ⟨T, hT, by rw [leader_follower_agree]; exact hk⟩

/-- application set of table `T` on partition `p` over a list of points -/
def appliedOn (T : TableRoute) (N : Nat) (pts : List Dims) (p : Nat) : List Dims :=
  pts.filter (fun d => followerKeeps h T N d p)

/-- application set of the standalone table -/
def appliedStandalone (T : TableRoute) (pts : List Dims) : List Dims :=
  pts.filter (fun d => standaloneKeeps T d)

/-- union over the partitions = the standalone table's application set -/
theorem partitions_cover_standalone (T : TableRoute) (N : Nat) (hN : 0 < N) (pts : List Dims) (d : Dims) :
    d ∈ appliedStandalone T pts ↔ ∃ p, p < N ∧ d ∈ appliedOn h T N pts p := by
  simp only [appliedStandalone, appliedOn, List.mem_filter, standaloneKeeps, followerKeeps, inPartition,
    Bool.and_eq_true, beq_iff_eq]
  constructor
  · intro ⟨hm, hw⟩
    exact ⟨partitionFor h (sortKeys T.keys) d N, route_lt h _ _ _ hN, hm, rfl, hw⟩
  · intro ⟨p, _, hm, _, hw⟩
    exact ⟨hm, hw⟩

/-- the per-partition application sets are pairwise disjoint -/
theorem partitions_disjoint (T : TableRoute) (N : Nat) (pts : List Dims) (p q : Nat) (hpq : p ≠ q)
    (d : Dims) (hd : d ∈ appliedOn h T N pts p) : d ∉ appliedOn h T N pts q := by
  simp only [appliedOn, List.mem_filter, followerKeeps, inPartition, Bool.and_eq_true, beq_iff_eq] at hd ⊢
  intro hq
  exact hpq (hd.2.1.symm.trans hq.2.1)

private theorem countP_range_eq (c N : Nat) (hc : c < N) :
    (List.range N).countP (fun p => c == p) = 1 := by
  induction N with
  | zero => omega
  | succ n ih =>
    rw [List.range_succ, List.countP_append]
    by_cases hcn : c = n
    · subst hcn
      have : (List.range c).countP (fun p => c == p) = 0 := by
        rw [List.countP_eq_zero]
        intro p hp
        have := List.mem_range.mp hp
        simp; omega
      simp [this]
    · have := ih (by omega)
      simp [this, hcn]

/-- per point: the number of partitions that apply it to `T` is 1 if `T`'s WHERE passes, else 0 -/
theorem each_point_exactly_one_partition (T : TableRoute) (N : Nat) (hN : 0 < N) (d : Dims) :
    (List.range N).countP (fun p => followerKeeps h T N d p) = if T.whereOk d then 1 else 0 := by
  by_cases hw : T.whereOk d = true
  · have := countP_range_eq (partitionFor h (sortKeys T.keys) d N) N (route_lt h _ _ _ hN)
    simp only [followerKeeps, inPartition, hw, Bool.and_true, if_true]
    exact this
  · simp only [Bool.not_eq_true] at hw
    simp [followerKeeps, hw]

/-- sizes add up: the standalone table applies as many points as all partitions together -/
theorem partition_sizes_add_up (T : TableRoute) (N : Nat) (hN : 0 < N) (pts : List Dims) :
    ((List.range N).map (fun p => (appliedOn h T N pts p).length)).sum = (appliedStandalone T pts).length := by
  induction pts with
  | nil =>
    simp only [appliedOn, appliedStandalone, List.filter_nil, List.length_nil]
    induction (List.range N) with
    | nil => rfl
    | cons a as iha => simpa using iha
  | cons d ds ih =>
    have h1 := each_point_exactly_one_partition h T N hN d
    have key : ∀ (L : List Nat),
        (L.map (fun p => (appliedOn h T N (d :: ds) p).length)).sum =
          (L.map (fun p => (appliedOn h T N ds p).length)).sum + L.countP (fun p => followerKeeps h T N d p) := by
      intro L
      induction L with
      | nil => simp
      | cons p ps ihL =>
        simp only [List.map_cons, List.sum_cons, List.countP_cons, ihL]
        by_cases hk : followerKeeps h T N d p = true
        · simp [appliedOn, hk]; omega
        · simp only [Bool.not_eq_true] at hk
          simp [appliedOn, hk]; omega
    rw [key, ih, h1]
    by_cases hw : T.whereOk d = true
    · simp [appliedStandalone, standaloneKeeps, hw]
    · simp only [Bool.not_eq_true] at hw
      simp [appliedStandalone, standaloneKeeps, hw]

/-- a table whose partition keys are all absent from the point hashes the EMPTY input … -/
theorem all_keys_missing_hash_nothing (keys : List String) (dims : Dims) (hne : keys ≠ [])
    (hmiss : ∀ k ∈ keys, dimBytes dims k = "") : hashInput keys dims = [] := by
  unfold hashInput
  have : keys.isEmpty = false := by cases keys <;> simp_all
  simp only [this, Bool.false_eq_true, if_false]
  rw [List.filterMap_eq_nil_iff]
  intro k hk
  simp [hmiss k hk]

/-- … while a table without partition keys hashes all dims -/
theorem no_keys_hash_all_dims (dims : Dims) : hashInput [] dims = dims := by
  simp [hashInput]

/-! ## what must not change -/

/-- a hash that looks at the first value only -/
def firstValLen : List (String × String) → Nat
  | [] => 0
  | (_, v) :: _ => v.length

/-- hashing the keys in a different order on the two sides routes a point to different
    partitions: the leader and the follower must agree on the order (both sort) -/
theorem key_order_matters :
    partitionFor firstValLen ["d", "g"] [("d", "x"), ("g", "12")] 2 ≠
    partitionFor firstValLen ["g", "d"] [("d", "x"), ("g", "12")] 2 := by decide

/-- the remainder of a signed 32-bit hash value can be negative: not a partition number -/
theorem signed_mod_escapes : partitionForSigned (-7) 3 = -1 ∧ ¬ (0 ≤ partitionForSigned (-7) 3) := by
  decide

/-! ## non-vacuity -/

example : sortKeys ["g", "d", "n"] = ["d", "g", "n"] := by decide
example : hashInput ["d", "zz", "g"] [("d", "x"), ("g", "1"), ("n", "2")] = [("d", "x"), ("g", "1")] := by decide
example : hashInput ["zz"] [("d", "x")] = [] := by decide
example : partitionFor firstValLen ["g"] [("d", "x"), ("g", "12")] 3 = 2 := by decide
example : (List.range 3).countP (fun p => followerKeeps firstValLen ⟨["g"], fun _ => true⟩ 3 [("g", "12")] p) = 1 := by decide
example : appliedOn firstValLen ⟨["g"], fun _ => true⟩ 2 [[("g", "1")], [("g", "12")], [("g", "123")]] 1
    = [[("g", "1")], [("g", "123")]] := by decide

end Zeno.C10
