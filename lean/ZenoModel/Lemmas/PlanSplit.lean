/-
C11 helper lemmas: the spec evaluator distributes over a key-separated split of its input
(whole-query pushdown), level by level through a FROM-subquery chain.
-/
import ZenoModel.Lemmas.PlanPushdown

namespace Zeno.PlanLemmas
open Zeno Zeno.Plan Zeno.SortLemmas

theorem filterMap_congr' {α β : Type} (f g : α → Option β) (l : List α)
    (h : ∀ a ∈ l, f a = g a) : l.filterMap f = l.filterMap g := by
  induction l with
  | nil => rfl
  | cons a l ih =>
    simp only [List.filterMap_cons, h a (by simp), ih (fun b hb => h b (by simp [hb]))]

/-- rows of two lists never share a projected key -/
def KeySep (κ : DKey → DKey) (A B : List PRow) : Prop := ∀ a ∈ A, ∀ b ∈ B, κ a.key ≠ κ b.key

theorem runPre_append (x : Ext) (q : Query) (s : Src) (cv : List String) (A B : List PRow)
    (h : KeySep (sliceKey q) A B) :
    runPre x q s cv (A ++ B) = runPre x q s cv A ++ runPre x q s cv B := by
  have hdis : ∀ g ∈ (A.filter (admits q s)).map (gid q s), g ∉ (B.filter (admits q s)).map (gid q s) := by
    intro g hgA hgB
    obtain ⟨a, ha, rfl⟩ := List.mem_map.mp hgA
    obtain ⟨b, hb, hab⟩ := List.mem_map.mp hgB
    have h1 : sliceKey q b.key = sliceKey q a.key := congrArg Prod.fst hab
    exact h a (List.mem_filter.mp ha).1 b (List.mem_filter.mp hb).1 h1.symm
  simp only [runPre, List.filter_append, List.map_append]
  rw [dedup_append_disjoint _ _ hdis, List.filterMap_append]
  congr 1
  · apply filterMap_congr'
    intro g hg
    have hgA := (mem_dedup g _).mp hg
    have : (B.filter (admits q s)).filter (fun r => gid q s r == g) = [] := by
      apply List.filter_eq_nil_iff.mpr
      intro b hb hbg
      exact hdis g hgA (List.mem_map.mpr ⟨b, hb, by simpa using hbg⟩)
    simp [this]
  · apply filterMap_congr'
    intro g hg
    have hgB := (mem_dedup g _).mp hg
    have : (A.filter (admits q s)).filter (fun r => gid q s r == g) = [] := by
      apply List.filter_eq_nil_iff.mpr
      intro a ha hag
      exact hdis g (List.mem_map.mpr ⟨a, ha, by simpa using hag⟩) hgB
    simp [this]

theorem keySep_flatten (κ : DKey → DKey) (A : List PRow) (rest : List (List PRow))
    (h : ∀ B ∈ rest, KeySep κ A B) : KeySep κ A rest.flatten := by
  intro a ha b hb
  obtain ⟨B, hB, hbB⟩ := List.mem_flatten.mp hb
  exact h B hB a ha b hbB

theorem runPre_flatten (x : Ext) (q : Query) (s : Src) (cv : List String)
    (parts : List (List PRow)) (h : parts.Pairwise (KeySep (sliceKey q))) :
    runPre x q s cv parts.flatten = (parts.map (runPre x q s cv)).flatten := by
  induction parts with
  | nil => simp [runPre, dedup]
  | cons A rest ih =>
    obtain ⟨h1, h2⟩ := List.pairwise_cons.mp h
    simp only [List.flatten_cons, List.map_cons]
    rw [runPre_append x q s cv A rest.flatten (keySep_flatten _ A rest h1), ih h2]

theorem mkRow_key {x : Ext} {q : Query} {cv : List String} {g : DKey × Int}
    {stf : Ex → Option String → List Cell} {r : FlatRow} (h : mkRow x q cv g stf = some r) :
    r.key = g.1 := by
  simp only [mkRow] at h
  split at h
  · cases h
  · split at h
    · cases h; rfl
    · split at h
      · cases h; rfl
      · cases h

/-- every output row's key is the projection of the key of some input row -/
theorem runPre_key {x : Ext} {q : Query} {s : Src} {cv : List String} {rows : List PRow}
    {r : FlatRow} (h : r ∈ runPre x q s cv rows) : ∃ a ∈ rows, r.key = sliceKey q a.key := by
  simp only [runPre, List.mem_filterMap] at h
  obtain ⟨g, hg, hr⟩ := h
  obtain ⟨a, ha, rfl⟩ := List.mem_map.mp ((mem_dedup g _).mp hg)
  exact ⟨a, (List.mem_filter.mp ha).1, mkRow_key hr⟩

theorem xfields_cv_irrel (q : Query) (cv cv' : List String) (h : q.ctab = none) :
    xfields q cv = xfields q cv' := by
  unfold xfields
  rw [h]

theorem mkRow_cv_irrel (x : Ext) (q : Query) (cv cv' : List String) (g : DKey × Int)
    (stf : Ex → Option String → List Cell) (h : q.ctab = none) :
    mkRow x q cv g stf = mkRow x q cv' g stf := by
  unfold mkRow
  rw [xfields_cv_irrel q cv cv' h]

theorem runPre_cv_irrel (x : Ext) (q : Query) (s : Src) (cv cv' : List String) (rows : List PRow)
    (h : q.ctab = none) : runPre x q s cv rows = runPre x q s cv' rows := by
  unfold runPre
  simp only [mkRow_cv_irrel x q cv cv' _ _ h]

def emptyOlo (o : OLO) : Prop := o.orderBy = [] ∧ o.limit = 0 ∧ o.offset = 0

theorem olo_empty {o : OLO} (h : emptyOlo o) (rows : List FlatRow) : olo o rows = rows := by
  obtain ⟨h1, h2, h3⟩ := h
  simp [olo, addOrderLimitOffset, limitOffset, h1, h2, h3, flatIterate_collect]

/-- no FROM-subquery of the chain has ORDER BY / LIMIT / OFFSET -/
def subsOloFree : QTree → Prop
  | .table _ => True
  | .sub _ inner => emptyOlo inner.top.olo ∧ subsOloFree inner

theorem runTree_eq_pre (x : Ext) (t : QTree) (s : Src) (rows : List PRow)
    (h : emptyOlo t.top.olo) : runTree x t s rows = runTreePre x t s rows := by
  cases t with
  | table q => simp only [runTree, runTreePre, run]; exact olo_empty h _
  | sub q inner => simp only [runTree, runTreePre, run]; exact olo_empty h _

theorem toPRows_flatten (ls : List (List FlatRow)) :
    toPRows ls.flatten = (ls.map toPRows).flatten := by
  unfold toPRows
  rw [List.map_flatten]

/-- the chain evaluated on a split whose parts never share an outermost group key is the
    concatenation of the chain evaluated on each part, and the results stay separated -/
theorem runTreePre_flatten (x : Ext) :
    ∀ (t : QTree) (κ : DKey → DKey) (s : Src) (parts : List (List PRow)),
      noCtab t → subsOloFree t →
      parts.Pairwise (KeySep (fun k => κ (chainKey t k))) →
      runTreePre x t s parts.flatten = (parts.map (runTreePre x t s)).flatten ∧
      (parts.map (fun p => toPRows (runTreePre x t s p))).Pairwise (KeySep κ) := by
  intro t
  induction t with
  | table q =>
    intro κ s parts hc _ hsep
    simp only [noCtab] at hc
    simp only [chainKey] at hsep
    have hsep' : parts.Pairwise (KeySep (sliceKey q)) :=
      hsep.imp (fun {A B} hAB => fun a ha b hb e => hAB a ha b hb (congrArg κ e))
    refine ⟨?_, ?_⟩
    · simp only [runTreePre]
      rw [runPre_flatten x q s _ parts hsep']
      congr 1
      apply List.map_congr_left
      intro p _
      exact runPre_cv_irrel x q s _ _ p hc
    · rw [List.pairwise_map]
      refine hsep.imp ?_
      intro A B hAB a ha b hb
      simp only [toPRows, List.mem_map] at ha hb
      obtain ⟨ra, hra, rfl⟩ := ha
      obtain ⟨rb, hrb, rfl⟩ := hb
      obtain ⟨a', ha', hka⟩ := runPre_key hra
      obtain ⟨b', hb', hkb⟩ := runPre_key hrb
      simp only [hka, hkb]
      exact hAB a' ha' b' hb'
  | sub q inner ih =>
    intro κ s parts hc ho hsep
    obtain ⟨hcq, hci⟩ := hc
    obtain ⟨hoi, hos⟩ := ho
    simp only [chainKey] at hsep
    obtain ⟨ihEq, ihSep⟩ := ih (fun k => κ (sliceKey q k)) s parts hci hos hsep
    have hrun : ∀ p, runTree x inner s p = runTreePre x inner s p :=
      fun p => runTree_eq_pre x inner s p hoi
    have hsepq : (parts.map (fun p => toPRows (runTreePre x inner s p))).Pairwise (KeySep (sliceKey q)) :=
      ihSep.imp (fun {A B} hAB => fun a ha b hb e => hAB a ha b hb (congrArg κ e))
    have hdef : ∀ rows, runTreePre x (.sub q inner) s rows =
        runPre x q (inner.outSrc s) (cvOf q (inner.outSrc s) (toPRows (runTreePre x inner s rows)))
          (toPRows (runTreePre x inner s rows)) := by
      intro rows
      show runPre x q _ _ (toPRows (runTree x inner s rows)) = _
      rw [hrun]
    refine ⟨?_, ?_⟩
    · rw [hdef, ihEq, toPRows_flatten, List.map_map]
      simp only [Function.comp_def]
      rw [runPre_flatten x q _ _ _ hsepq, List.map_map]
      congr 1
      apply List.map_congr_left
      intro p _
      simp only [Function.comp_def, hdef]
      exact runPre_cv_irrel x q _ _ _ _ hcq
    · rw [List.pairwise_map]
      rw [List.pairwise_map] at ihSep
      refine ihSep.imp ?_
      intro A B hAB a ha b hb
      simp only [toPRows, List.mem_map] at ha hb
      obtain ⟨ra, hra, rfl⟩ := ha
      obtain ⟨rb, hrb, rfl⟩ := hb
      rw [hdef] at hra hrb
      obtain ⟨a', ha', hka⟩ := runPre_key hra
      obtain ⟨b', hb', hkb⟩ := runPre_key hrb
      simp only [hka, hkb]
      exact hAB a' ha' b' hb'

theorem subsClean_oloFree : ∀ (t : QTree), subsClean t = true → subsOloFree t := by
  intro t
  induction t with
  | table q => intro _; trivial
  | sub q inner ih =>
    intro hs
    simp only [subsClean, Bool.and_eq_true, Bool.not_eq_true'] at hs
    refine ⟨?_, ih hs.2⟩
    have := hs.1.1
    simp only [disallowedInSub, Bool.or_eq_false_iff, decide_eq_false_iff_not, Nat.not_lt,
      Nat.le_zero_eq] at this
    obtain ⟨⟨⟨h1, _⟩, h3⟩, h4⟩ := this
    exact ⟨List.length_eq_zero_iff.mp h1, h3, h4⟩

/-! ### splits by a routing function -/

/-- rows in different parts are routed differently -/
def Routed (p : PRow → Nat) (parts : List (List PRow)) : Prop :=
  parts.Pairwise (fun A B => ∀ a ∈ A, ∀ b ∈ B, p a ≠ p b)

theorem splitBy_routed (p : PRow → Nat) (n : Nat) (rows : List PRow) :
    Routed p (splitBy p n rows) := by
  simp only [Routed, splitBy, List.pairwise_map]
  refine (List.pairwise_lt_range (n := n)).imp ?_
  intro i j hij a ha b hb e
  have h1 : p a = i := by simpa using (List.mem_filter.mp ha).2
  have h2 : p b = j := by simpa using (List.mem_filter.mp hb).2
  omega

/-- the parts of `splitBy` together hold exactly the rows (as a multiset) -/
theorem splitBy_perm (p : PRow → Nat) (n : Nat) (rows : List PRow) (h : ∀ r ∈ rows, p r < n) :
    (splitBy p n rows).flatten.Perm rows := by
  have h1 := flatMap_filter_perm p (List.range n) List.nodup_range rows
  have h2 : rows.filter (fun a => (List.range n).contains (p a)) = rows := by
    apply List.filter_eq_self.mpr
    intro a ha
    simpa using h a ha
  rw [h2] at h1
  simpa [splitBy, List.flatMap] using h1

end Zeno.PlanLemmas
