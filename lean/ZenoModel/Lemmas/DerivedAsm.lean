/-
Derived selected expressions, part 1: definitions.  A selected expression that is not itself a
table field (`a / b`, `IF(c, f)`, `f > 1`, the `_having` helper) keeps the concatenated states of its
sub-expressions; `Expr.SubMergers` builds, per table column, a closure that merges the column's
state into the slots of the sub-expressions that print like the column.  `Ex.assemble` is the
semantic reading of that wiring: the state of `e` obtained by putting the state `st i` of column `i`
into every slot of `e` that resolves to column `i` (gated by the IF conditions of the source row).
-/
import ZenoModel.Lemmas.SubMergeSemLoop
set_option linter.unusedSimpArgs false
set_option linter.unusedVariables false
namespace Zeno

/-- no SHIFT inside -/
def Ex.shiftFree : Ex → Bool
  | .field _ => true
  | .const _ => true
  | .agg _ w => w.shiftFree
  | .avg v w => v.shiftFree && w.shiftFree
  | .bin _ l r => l.shiftFree && r.shiftFree
  | .ifE _ w => w.shiftFree
  | .bounded w _ _ => w.shiftFree
  | .shift _ _ => false
  | .unary _ w => w.shiftFree
  | .ptile _ v p _ => v.shiftFree && p.shiftFree

/-- the table column a node resolves to: the FIRST column that prints like the node
    (`bytetree.New` clears the sub-mergers of later columns with the same print) -/
def Ex.matchIdx (n : Ex) (subs : List Ex) : Option Nat := subs.findIdx? (fun s => n.sameStr s)

/-- the state of `e` assembled from the columns' states `st`: column `i`'s state sits in every
    maximal sub-expression of `e` that resolves to column `i`; a sub-expression under an unresolved
    `IF(c, ·)` is filled only when the source row satisfies `c`; unresolved aggregates stay empty -/
def Ex.assemble (subs : List Ex) (p : Pt) (st : Nat → List Cell) : Ex → List Cell
  | .field _ => []
  | .const _ => []
  | .agg k w => match (Ex.agg k w).matchIdx subs with
      | some i => st i
      | none => (Ex.agg k w).empty
  | .avg v w => match (Ex.avg v w).matchIdx subs with
      | some i => st i
      | none => (Ex.avg v w).empty
  | .bin op l r => match (Ex.bin op l r).matchIdx subs with
      | some i => st i
      | none => l.assemble subs p st ++ r.assemble subs p st
  | .ifE c w => match (Ex.ifE c w).matchIdx subs with
      | some i => st i
      | none => if p.includes c then w.assemble subs p st else w.empty
  | .bounded w lo hi => match (Ex.bounded w lo hi).matchIdx subs with
      | some i => st i
      | none => w.assemble subs p st
  | .unary u w => match (Ex.unary u w).matchIdx subs with
      | some i => st i
      | none => w.assemble subs p st
  | .shift w off => (Ex.shift w off).empty
  | .ptile id v pe n => (Ex.ptile id v pe n).empty

/-- the columns' states with only column `j` filled (with `o`), all others empty -/
def singleCol (subs : List Ex) (j : Nat) (o : List Cell) : Nat → List Cell :=
  fun i => if i = j then o else (subs.getD i (.const 0)).empty

/-- run an optional sub-merger (`nil` closure: nothing happens) -/
def applyOpt (sm : Option SM) (d : List Cell) (other : List (List Cell)) (otherRes : Int) (p : Pt) : List Cell :=
  match sm with
  | none => d
  | some sm => sm.apply d other otherRes p

/-- the sub-merger `core.Group` uses for selected expression `e` and scanned column `j` -/
def colSM (e : Ex) (subs : List Ex) (j : Nat) : Option SM :=
  (dedupInputs subs (e.subMergers subs)).getD j none

end Zeno
