/-
Lemmas about M-SEQ: the semantic view `Sq.at` (state stored for the period ending at t)
under drop / take, and the semantics of Truncate.
-/
import ZenoModel.Model.Seq
import ZenoModel.Lemmas.Time

namespace Zeno

theorem at_some (e : Ex) (res hi : Int) (cells : List (List Cell)) (t : Int) :
    Sq.at (some ⟨hi, cells⟩) e res t =
      if (hi - t) % res = 0 ∧ t ≤ hi then cells.getD ((hi - t) / res).toNat e.empty else e.empty := rfl

theorem at_drop (e : Ex) {res : Int} (h : 0 < res) (hi : Int) (cells : List (List Cell)) (k : Nat) (t : Int) :
    Sq.at (some ⟨hi - k * res, cells.drop k⟩) e res t =
      if t ≤ hi - k * res then Sq.at (some ⟨hi, cells⟩) e res t else e.empty := by
  rw [at_some, at_some]
  by_cases ht : t ≤ hi - k * res
  · have hk : (0:Int) ≤ k * res := Int.mul_nonneg (Int.natCast_nonneg k) (Int.le_of_lt h)
    have e1 : (hi - ↑k * res - t) % res = (hi - t) % res := by
      have : hi - ↑k * res - t = hi - t - ↑k * res := by omega
      rw [this, Int.sub_mul_emod_self_right]
    have e2 : (hi - ↑k * res - t) / res = (hi - t) / res - k := by
      have : hi - ↑k * res - t = hi - t + (-(k:Int)) * res := by rw [Int.neg_mul]; omega
      rw [this, Int.add_mul_ediv_right _ _ (Int.ne_of_gt h)]; omega
    have e3 : (k : Int) ≤ (hi - t) / res := by
      rw [Int.le_ediv_iff_mul_le h]; omega
    simp only [ht, e1, e2, if_true]
    have ht' : t ≤ hi := by omega
    simp only [ht', and_true]
    split
    · rw [List.getD_eq_getElem?_getD, List.getD_eq_getElem?_getD, List.getElem?_drop]
      congr 2
      omega
    · rfl
  · simp [ht]
theorem at_take (e : Ex) {res : Int} (h : 0 < res) (hi : Int) (cells : List (List Cell)) (m : Nat) (t : Int) :
    Sq.at (some ⟨hi, cells.take m⟩) e res t =
      if hi - m * res < t then Sq.at (some ⟨hi, cells⟩) e res t else e.empty := by
  rw [at_some, at_some]
  by_cases hc : (hi - t) % res = 0 ∧ t ≤ hi
  · simp only [hc, and_self, if_true]
    obtain ⟨hm, hle⟩ := hc
    have hdiv : res * ((hi - t) / res) = hi - t := by
      have := Int.mul_ediv_add_emod (hi - t) res; omega
    have hq : 0 ≤ (hi - t) / res := Int.ediv_nonneg (by omega) (Int.le_of_lt h)
    rw [List.getD_eq_getElem?_getD, List.getD_eq_getElem?_getD, List.getElem?_take]
    by_cases hlt : hi - m * res < t
    · have : ((hi - t) / res).toNat < m := by
        have : (hi - t) / res < m := by
          rw [Int.ediv_lt_iff_lt_mul h]; omega
        omega
      simp [this, hlt]
    · have : ¬ ((hi - t) / res).toNat < m := by
        have : (m : Int) ≤ (hi - t) / res := by
          rw [Int.le_ediv_iff_mul_le h]; omega
        omega
      simp [this, hlt]
  · simp [hc]

theorem at_none (e : Ex) (res t : Int) : Sq.at none e res t = e.empty := rfl

theorem at_beyond (e : Ex) {res : Int} (h : 0 < res) (q : Seq) (t : Int) (d : Int)
    (hd : (q.cells.length : Int) ≤ d) (ht : t ≤ q.hi - d * res) :
    Sq.at (some q) e res t = e.empty := by
  cases q with
  | mk hi cells =>
  rw [at_some]
  split
  · rename_i hc
    have : (cells.length : Int) ≤ (hi - t) / res := by
      rw [Int.le_ediv_iff_mul_le h]
      have : (cells.length : Int) * res ≤ d * res := Int.mul_le_mul_of_nonneg_right hd (Int.le_of_lt h)
      simp at ht; omega
    rw [List.getD_eq_getElem?_getD, List.getElem?_eq_none (by omega)]
    rfl
  · rfl

theorem roundUntilDown_grid {t res hi : Int} (h : 0 < res) :
    roundUntilDown t res hi = 0 ∨ (hi - roundUntilDown t res hi) % res = 0 := by
  by_cases ht : t = 0
  · left; simp [roundUntilDown, ht]
  · by_cases hh : hi = 0
    · right
      have : roundUntilDown t res hi = roundDown t res := by simp [roundUntilDown, ht, hh]
      rw [this, hh]
      have := roundDown_mod (t := t) h
      rw [Int.sub_emod, this]; simp
    · right; exact (roundUntilDown_spec h ht hh).1

/-- the `until` half of Truncate -/
def truncUntil (q : Seq) (res h' : Int) : Sq :=
  if h' ≠ 0 then
    let periodsToRemove := (q.hi - h').tdiv res
    if periodsToRemove > 0 then
      if periodsToRemove.toNat ≥ q.cells.length then none
      else some ⟨h', q.cells.drop periodsToRemove.toNat⟩
    else some q
  else some q

/-- the `asOf` half of Truncate -/
def truncAsOf (r : Seq) (res a' : Int) : Sq :=
  if a' ≠ 0 then
    let maxPeriods := (r.hi - a').tdiv res
    if maxPeriods ≤ 0 then none
    else if maxPeriods.toNat ≥ r.cells.length then some r
    else some ⟨r.hi, r.cells.take maxPeriods.toNat⟩
  else some r

theorem truncate_eq (q : Seq) (res asOf hi : Int) :
    Sq.truncate (some q) res asOf hi =
      match truncUntil q res (roundUntilDown hi res q.hi) with
      | none => none
      | some r => truncAsOf r res (roundUntilDown asOf res q.hi) := rfl

theorem exact_tdiv {x res : Int} (h : 0 < res) (hm : x % res = 0) : x.tdiv res = x / res := by
  have hx : x = res * (x / res) := by have := Int.mul_ediv_add_emod x res; omega
  rw [hx, Int.mul_tdiv_cancel_left _ (Int.ne_of_gt h), Int.mul_ediv_cancel_left _ (Int.ne_of_gt h)]

theorem at_truncUntil (e : Ex) {res : Int} (h : 0 < res) (q : Seq) (h' : Int)
    (hg : h' = 0 ∨ (q.hi - h') % res = 0) (t : Int) :
    (truncUntil q res h').at e res t = if h' = 0 ∨ t ≤ h' then Sq.at (some q) e res t else e.empty := by
  unfold truncUntil
  by_cases hz : h' = 0
  · simp [hz]
  · have hm : (q.hi - h') % res = 0 := by cases hg with | inl h0 => exact absurd h0 hz | inr h1 => exact h1
    simp only [ne_eq, hz, not_false_eq_true, if_true, false_or]
    rw [exact_tdiv h hm]
    have hx : q.hi - h' = res * ((q.hi - h') / res) := by
      have := Int.mul_ediv_add_emod (q.hi - h') res; omega
    generalize hd : (q.hi - h') / res = d at hx
    have hh' : h' = q.hi - d * res := by rw [Int.mul_comm] ; omega
    split
    · rename_i hpos
      split
      · rename_i hbig
        rw [at_none]
        split
        · rename_i hle
          exact (at_beyond e h q t d (by omega) (by omega)).symm
        · rfl
      · rename_i hsmall
        have hdn : (d.toNat : Int) = d := Int.toNat_of_nonneg (Int.le_of_lt hpos)
        have := at_drop e h q.hi q.cells d.toNat t
        rw [hdn] at this
        rw [hh']
        cases q with | mk qhi qcells => simpa using this
    · rename_i hnp
      have hle : q.hi ≤ h' := by
        have : d ≤ 0 := by omega
        have : d * res ≤ 0 := Int.mul_nonpos_of_nonpos_of_nonneg this (Int.le_of_lt h)
        omega
      split
      · rfl
      · rename_i hgt
        cases q with
        | mk qhi qcells =>
          rw [at_some]
          have : ¬ t ≤ qhi := by simp at hle; omega
          simp [this]

theorem at_above (e : Ex) (res : Int) (q : Seq) (t : Int) (ht : q.hi < t) :
    Sq.at (some q) e res t = e.empty := by
  cases q with
  | mk hi cells =>
    rw [at_some]
    have : ¬ t ≤ hi := by simp at ht; omega
    simp [this]

theorem at_truncAsOf (e : Ex) {res : Int} (h : 0 < res) (r : Seq) (a' : Int)
    (hg : a' = 0 ∨ (r.hi - a') % res = 0) (t : Int) :
    (truncAsOf r res a').at e res t = if a' = 0 ∨ a' < t then Sq.at (some r) e res t else e.empty := by
  unfold truncAsOf
  by_cases hz : a' = 0
  · simp [hz]
  · have hm : (r.hi - a') % res = 0 := by cases hg with | inl h0 => exact absurd h0 hz | inr h1 => exact h1
    simp only [ne_eq, hz, not_false_eq_true, if_true, false_or]
    rw [exact_tdiv h hm]
    have hx : r.hi - a' = res * ((r.hi - a') / res) := by
      have := Int.mul_ediv_add_emod (r.hi - a') res; omega
    generalize hd : (r.hi - a') / res = d at hx
    have ha' : a' = r.hi - d * res := by rw [Int.mul_comm]; omega
    split
    · rename_i hnp
      have hle : r.hi ≤ a' := by
        have : d * res ≤ 0 := Int.mul_nonpos_of_nonpos_of_nonneg hnp (Int.le_of_lt h)
        omega
      rw [at_none]
      split
      · exact (at_above e res r t (by omega)).symm
      · rfl
    · rename_i hpos
      have hdn : (d.toNat : Int) = d := Int.toNat_of_nonneg (by omega)
      split
      · rename_i hbig
        split
        · rfl
        · rename_i hle
          exact at_beyond e h r t d (by omega) (by omega)
      · rename_i hsmall
        have := at_take e h r.hi r.cells d.toNat t
        rw [hdn] at this
        rw [ha']
        cases r with | mk rhi rcells => simpa using this

/-- Semantics of `Sequence.Truncate`: exactly the periods with `asOf' < end ≤ until'` are kept
    (primes = the bounds rounded down on the sequence's own grid, `0` = no bound), with their
    states unchanged. -/
theorem sem_truncate (e : Ex) {res : Int} (h : 0 < res) (q : Seq) (asOf hi : Int) (t : Int) :
    (Sq.truncate (some q) res asOf hi).at e res t =
      if (roundUntilDown asOf res q.hi = 0 ∨ roundUntilDown asOf res q.hi < t) ∧
         (roundUntilDown hi res q.hi = 0 ∨ t ≤ roundUntilDown hi res q.hi)
      then Sq.at (some q) e res t else e.empty := by
  rw [truncate_eq]
  generalize ha : roundUntilDown asOf res q.hi = a'
  generalize hh : roundUntilDown hi res q.hi = h'
  have ga : a' = 0 ∨ (q.hi - a') % res = 0 := by rw [← ha]; exact roundUntilDown_grid h
  have gh : h' = 0 ∨ (q.hi - h') % res = 0 := by rw [← hh]; exact roundUntilDown_grid h
  have hU := at_truncUntil e h q h' gh
  cases hr : truncUntil q res h' with
  | none =>
      simp only
      have := hU t
      rw [hr, at_none] at this
      rw [at_none]
      split
      · rename_i hc
        rw [if_pos hc.2] at this
        exact this
      · rfl
  | some r =>
      simp only
      -- r.hi is on q's grid
      have hrhi : r.hi = q.hi ∨ (h' ≠ 0 ∧ r.hi = h') := by
        unfold truncUntil at hr
        split at hr
        · simp only at hr
          split at hr
          · split at hr
            · cases hr
            · right; rename_i hz _ _; cases hr; exact ⟨hz, rfl⟩
          · left; cases hr; rfl
        · left; cases hr; rfl
      have gr : a' = 0 ∨ (r.hi - a') % res = 0 := by
        cases ga with
        | inl h0 => left; exact h0
        | inr h1 =>
          right
          cases hrhi with
          | inl heq => rw [heq]; exact h1
          | inr hne =>
            rw [hne.2]
            have h2 : (q.hi - h') % res = 0 := by
              cases gh with | inl h0 => exact absurd h0 hne.1 | inr h2 => exact h2
            have : h' - a' = (q.hi - a') - (q.hi - h') := by omega
            rw [this, Int.sub_emod, h1, h2]; simp
      rw [at_truncAsOf e h r a' gr t]
      have := hU t
      rw [hr] at this
      rw [this]
      by_cases c1 : a' = 0 ∨ a' < t <;> by_cases c2 : h' = 0 ∨ t ≤ h' <;> simp [c1, c2]

end Zeno
