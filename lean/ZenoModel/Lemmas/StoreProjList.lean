/-
Store ↔ column projection, part 1: the list plumbing of `Model/Store.lean`
(`outIdxsFor`, `mergeMemCols`, `mapFileCols`) restated pointwise under the hypothesis that
the table's fields are pairwise different (`outIdxsFor fields (fields.map some)` is then the
identity), and two facts about `find?` by row key.
-/
import ZenoModel.Model.StoreColumn
set_option linter.unusedSimpArgs false
set_option linter.unusedVariables false
namespace Zeno

theorem Field.same_refl (f : Field) : f.same f = true := by
  simp [Field.same, Ex.sameStr]

/-- no field equals (`core.Field.Equals`) an earlier one -/
def FieldsDistinct (fields : List Field) : Prop := fields.Pairwise (fun f g => g.same f = false)

instance (fields : List Field) : Decidable (FieldsDistinct fields) := by
  unfold FieldsDistinct; exact inferInstance

theorem findIdx_self {fields : List Field} (hd : FieldsDistinct fields) (i : Nat) (hi : i < fields.length) :
    fields.findIdx? (fun o => (fields[i]).same o) = some i := by
  rw [List.findIdx?_eq_some_iff_getElem]
  refine ⟨hi, Field.same_refl _, ?_⟩
  intro j hji
  have := (List.pairwise_iff_getElem.mp hd) j i (by omega) hi hji
  simp [this]

/-- with pairwise different fields the index map of the memstore / of a file written with the
    table's own fields is the identity -/
theorem outIdxs_id {fields : List Field} (hd : FieldsDistinct fields) (i : Nat) :
    (outIdxsFor fields (fields.map some)).getD i none = if i < fields.length then some i else none := by
  unfold outIdxsFor
  rw [List.getD_eq_getElem?_getD, List.map_map]
  by_cases hi : i < fields.length
  · simp only [List.getElem?_map, List.getElem?_eq_getElem hi, Option.map_some, Function.comp,
      Option.getD_some, if_pos hi]
    exact findIdx_self hd i hi
  · rw [List.getElem?_eq_none (by simpa using hi)]
    simp [hi]

/-! ### `mergeMemCols` -/

def mergeStep (outFields : List Field) (idxs : List (Option Nat)) (res tb : Int)
    (acc : List Sq × Bool) (ci : Sq × Nat) : List Sq × Bool :=
  match idxs.getD ci.2 none with
  | some o => (acc.1.modify o (fun cur => Sq.merge (outFields.getD o default).ex res cur ci.1 tb), true)
  | none => acc

theorem mergeMemCols_eq (outFields memFields : List Field) (res tb : Int) (columns msCols : List Sq) :
    mergeMemCols outFields memFields res tb columns msCols =
      (msCols.zipIdx).foldl (mergeStep outFields (outIdxsFor outFields (memFields.map some)) res tb)
        (columns, false) := rfl

theorem merge_none_right (e : Ex) (res : Int) (s : Sq) (tb : Int) : Sq.merge e res s none tb = s := by
  cases s <;> rfl

theorem merge_none_left (e : Ex) (res : Int) (s : Sq) (tb : Int) : Sq.merge e res none s tb = s := by
  cases s <;> rfl

theorem getD_modify (l : List Sq) (i j : Nat) (f : Sq → Sq) (hf : f none = none ∨ i < l.length) :
    (l.modify i f).getD j none = if i = j then f (l.getD j none) else l.getD j none := by
  simp only [List.getD_eq_getElem?_getD, List.getElem?_modify]
  by_cases hij : i = j
  · subst hij
    simp only [if_true]
    by_cases hl : i < l.length
    · simp [List.getElem?_eq_getElem hl]
    · rw [List.getElem?_eq_none (by omega)]
      cases hf with
      | inl h => simp [h]
      | inr h => exact absurd h hl
  · simp only [if_neg hij]
    cases l[j]? <;> simp

theorem mergeFold_spec {fields : List Field} (idxs : List (Option Nat)) (res tb : Int)
    (hid : ∀ i, idxs.getD i none = if i < fields.length then some i else none) :
    ∀ (ms : List Sq) (k : Nat) (acc : List Sq × Bool), fields.length ≤ acc.1.length →
      ((ms.zipIdx k).foldl (mergeStep fields idxs res tb) acc).1.length = acc.1.length ∧
      ∀ o, ((ms.zipIdx k).foldl (mergeStep fields idxs res tb) acc).1.getD o none =
        if k ≤ o ∧ o < k + ms.length ∧ o < fields.length then
          Sq.merge (fields.getD o default).ex res (acc.1.getD o none) (ms.getD (o - k) none) tb
        else acc.1.getD o none := by
  intro ms
  induction ms with
  | nil =>
    intro k acc _
    refine ⟨rfl, fun o => ?_⟩
    have : ¬ (k ≤ o ∧ o < k + ([] : List Sq).length ∧ o < fields.length) := by
      simp only [List.length_nil]; omega
    simp only [List.zipIdx_nil, List.foldl_nil, if_neg this]
  | cons c ms ih =>
    intro k acc hlen
    rw [List.zipIdx_cons, List.foldl_cons]
    by_cases hk : k < fields.length
    · have hstep : mergeStep fields idxs res tb acc (c, k) =
          (acc.1.modify k (fun cur => Sq.merge (fields.getD k default).ex res cur c tb), true) := by
        unfold mergeStep; simp only [hid, if_pos hk]
      rw [hstep]
      obtain ⟨h1, h2⟩ := ih (k + 1) (acc.1.modify k (fun cur => Sq.merge (fields.getD k default).ex res cur c tb), true)
        (by simpa using hlen)
      refine ⟨by rw [h1]; simp, ?_⟩
      intro o
      rw [h2 o]
      simp only [List.length_cons]
      rw [getD_modify _ _ _ _ (Or.inr (by omega))]
      by_cases hko : k = o
      · subst hko
        have : ¬ (k + 1 ≤ k ∧ k < k + 1 + ms.length ∧ k < fields.length) := by omega
        rw [if_neg this, if_pos rfl, if_pos (by omega)]
        simp
      · rw [if_neg hko]
        by_cases hc : k + 1 ≤ o ∧ o < k + 1 + ms.length ∧ o < fields.length
        · rw [if_pos hc, if_pos (by omega)]
          have : o - k = (o - (k + 1)) + 1 := by omega
          rw [this, List.getD_cons_succ]
        · rw [if_neg hc, if_neg (by omega)]
    · have hstep : mergeStep fields idxs res tb acc (c, k) = acc := by
        unfold mergeStep; simp only [hid, if_neg hk]
      rw [hstep]
      obtain ⟨h1, h2⟩ := ih (k + 1) acc hlen
      refine ⟨h1, ?_⟩
      intro o
      rw [h2 o, if_neg (by omega), if_neg (by omega)]

/-- `rowMerger`, pointwise: output column `o` is the merge of the column so far with the
    memstore's column `o` -/
theorem mergeMemCols_spec {fields : List Field} (hd : FieldsDistinct fields) (res tb : Int)
    (columns msCols : List Sq) (hlen : fields.length ≤ columns.length) :
    (mergeMemCols fields fields res tb columns msCols).1.length = columns.length ∧
    ∀ o, o < fields.length → (mergeMemCols fields fields res tb columns msCols).1.getD o none =
      Sq.merge (fields.getD o default).ex res (columns.getD o none) (msCols.getD o none) tb := by
  rw [mergeMemCols_eq]
  obtain ⟨h1, h2⟩ := mergeFold_spec (fields := fields) _ res tb (outIdxs_id hd) msCols 0 (columns, false) hlen
  refine ⟨h1, ?_⟩
  intro o ho
  rw [h2 o]
  by_cases hc : o < msCols.length
  · rw [if_pos (by omega)]; simp only [Nat.sub_zero]
  · rw [if_neg (by omega)]
    have : msCols.getD o none = none := by
      rw [List.getD_eq_getElem?_getD, List.getElem?_eq_none (by omega)]; rfl
    rw [this, merge_none_right]

/-! ### `mapFileCols` -/

def mapStep (idxs : List (Option Nat)) (acc : List Sq × Bool) (ci : Sq × Nat) : List Sq × Bool :=
  match idxs.getD ci.2 none with
  | some o => (acc.1.set o ci.1, true)
  | none => acc

theorem mapFileCols_eq (outFields : List Field) (fileFields : List (Option Field)) (cols : List Sq) :
    mapFileCols outFields fileFields cols =
      (cols.zipIdx).foldl (mapStep (outIdxsFor outFields fileFields)) (outFields.map (fun _ => none), false) := rfl

theorem getD_set (l : List Sq) (i j : Nat) (a : Sq) (hi : i < l.length) :
    (l.set i a).getD j none = if i = j then a else l.getD j none := by
  simp only [List.getD_eq_getElem?_getD, List.getElem?_set]
  by_cases hij : i = j
  · subst hij; simp [hi]
  · simp [hij]

theorem mapFold_spec (n : Nat) (idxs : List (Option Nat))
    (hid : ∀ i, idxs.getD i none = if i < n then some i else none) :
    ∀ (cs : List Sq) (k : Nat) (acc : List Sq × Bool), n ≤ acc.1.length →
      ((cs.zipIdx k).foldl (mapStep idxs) acc).1.length = acc.1.length ∧
      (((cs.zipIdx k).foldl (mapStep idxs) acc).2 = (acc.2 || (decide (k < n) && !cs.isEmpty))) ∧
      ∀ o, ((cs.zipIdx k).foldl (mapStep idxs) acc).1.getD o none =
        if k ≤ o ∧ o < k + cs.length ∧ o < n then cs.getD (o - k) none else acc.1.getD o none := by
  intro cs
  induction cs with
  | nil =>
    intro k acc _
    refine ⟨rfl, by simp, fun o => ?_⟩
    have : ¬ (k ≤ o ∧ o < k + ([] : List Sq).length ∧ o < n) := by
      simp only [List.length_nil]; omega
    simp only [List.zipIdx_nil, List.foldl_nil, if_neg this]
  | cons c cs ih =>
    intro k acc hlen
    rw [List.zipIdx_cons, List.foldl_cons]
    by_cases hk : k < n
    · have hstep : mapStep idxs acc (c, k) = (acc.1.set k c, true) := by
        unfold mapStep; simp only [hid, if_pos hk]
      rw [hstep]
      obtain ⟨h1, h2, h3⟩ := ih (k + 1) (acc.1.set k c, true) (by simpa using hlen)
      refine ⟨by rw [h1]; simp, by rw [h2]; simp [hk], ?_⟩
      intro o
      rw [h3 o]
      simp only [List.length_cons]
      rw [getD_set _ _ _ _ (by omega)]
      by_cases hko : k = o
      · subst hko
        rw [if_neg (by omega), if_pos rfl, if_pos (by omega)]
        simp
      · rw [if_neg hko]
        by_cases hc : k + 1 ≤ o ∧ o < k + 1 + cs.length ∧ o < n
        · rw [if_pos hc, if_pos (by omega)]
          have : o - k = (o - (k + 1)) + 1 := by omega
          rw [this, List.getD_cons_succ]
        · rw [if_neg hc, if_neg (by omega)]
    · have hstep : mapStep idxs acc (c, k) = acc := by
        unfold mapStep; simp only [hid, if_neg hk]
      rw [hstep]
      obtain ⟨h1, h2, h3⟩ := ih (k + 1) acc hlen
      refine ⟨h1, ?_, ?_⟩
      · rw [h2]
        have h4 : decide (k + 1 < n) = false := by simp; omega
        have h5 : decide (k < n) = false := by simp; omega
        simp [h4, h5]
      · intro o
        rw [h3 o, if_neg (by omega), if_neg (by omega)]

/-- `rowMapper` for a file written with the table's own fields: the columns come out where
    they were; the row is "included" as soon as it has a column -/
theorem mapFileCols_spec {fields : List Field} (hd : FieldsDistinct fields) (cols : List Sq) :
    (mapFileCols fields (fields.map some) cols).1.length = fields.length ∧
    ((mapFileCols fields (fields.map some) cols).2 = (decide (0 < fields.length) && !cols.isEmpty)) ∧
    ∀ o, o < fields.length → (mapFileCols fields (fields.map some) cols).1.getD o none = cols.getD o none := by
  rw [mapFileCols_eq]
  obtain ⟨h1, h2, h3⟩ := mapFold_spec fields.length _ (outIdxs_id hd) cols 0
    (fields.map (fun _ => none), false) (by simp)
  refine ⟨by rw [h1]; simp, by rw [h2]; simp, ?_⟩
  intro o ho
  rw [h3 o]
  by_cases hc : o < cols.length
  · rw [if_pos (by omega)]; simp only [Nat.sub_zero]
  · rw [if_neg (by omega)]
    have : cols.getD o none = none := by
      rw [List.getD_eq_getElem?_getD, List.getElem?_eq_none (by omega)]; rfl
    rw [this]
    simp [List.getD_eq_getElem?_getD, List.getElem?_map]
    cases fields[o]? <;> simp

end Zeno
