/-
SubMerge semantics, part 3: `Sequence.SubMerge` as a whole, for a direct sub-merger.
-/
import ZenoModel.Lemmas.SubMergeSemFrame
set_option linter.unusedSimpArgs false
namespace Zeno

/-- everything `SubMerge` does after the two truncations (direct sub-merger, no shift, no stride) -/
def smBody (e : Ex) (res otherRes : Int) (result : Sq) (otherAsOf : Int) (o0 : Seq) (p : Pt) (hi : Int) : Seq :=
  let r1 := smPrepend e res (roundUntilUp o0.hi res hi) result
  let r2 := smAppend e res otherAsOf r1
  ⟨r2.hi, subMergeLoop (.direct e) otherRes p (res.tdiv otherRes) ((r1.hi - o0.hi).tdiv otherRes) 0
      ((0 : Int).tdiv otherRes) r2.cells.length 0 o0.cells r2.cells⟩

theorem subMerge_direct_eq (e : Ex) (hs : e.shiftOf = 0) (res otherRes : Int) (s other : Sq) (p : Pt)
    (asOf hi : Int) :
    Sq.subMerge e e (.direct e) res otherRes s other p asOf hi 0 =
      match other.truncate otherRes asOf hi with
      | none => s
      | some o0 =>
        if o0.cells.length = 0 then s
        else some (smBody e res otherRes (s.truncate res asOf hi)
          (if other.asOf otherRes < asOf then asOf else other.asOf otherRes) o0 p hi) := by
  unfold Sq.subMerge
  simp only [hs, Int.neg_zero, Int.sub_zero]
  cases other.truncate otherRes asOf hi with
  | none => rfl
  | some o0 =>
    simp only
    split
    · rfl
    · simp only [gt_iff_lt, Int.lt_irrefl, if_false]
      cases hres : s.truncate res asOf hi with
      | none => rfl
      | some r =>
        simp only [Sq.until, smBody, smPrepend, gt_iff_lt]
        by_cases hl : r.cells.length = 0
        · simp only [hl, if_true]; rfl
        · simp only [hl, if_false]
          by_cases hp : 0 < (roundUntilUp o0.hi res hi - r.hi).tdiv res
          · simp only [hp, if_true]; rfl
          · simp only [hp, if_false]; rfl

/-- index → time: the state at source index `i` is the state of the period ending at `U − i·r` -/
theorem cellAtI_at (e : Ex) {r : Int} (h : 0 < r) (U : Int) (cells : List (List Cell)) (i : Int) :
    cellAtI e cells i = Sq.at (some ⟨U, cells⟩) e r (U - i * r) := by
  rw [at_some]
  unfold cellAtI
  have e1 : U - (U - i * r) = i * r := by omega
  rw [e1, Int.mul_emod_left, Int.mul_ediv_cancel _ (Int.ne_of_gt h)]
  by_cases hi : i < 0
  · have hneg : i * r < 0 := Int.mul_neg_of_neg_of_pos hi h
    have hc : ¬ ((0 : Int) = 0 ∧ U - i * r ≤ U) := by intro hh; omega
    rw [if_pos hi, if_neg hc]
  · have hnn : 0 ≤ i * r := Int.mul_nonneg (by omega) (Int.le_of_lt h)
    have hc : (0 : Int) = 0 ∧ U - i * r ≤ U := ⟨rfl, by omega⟩
    rw [if_neg hi, if_pos hc]

/-- a positive multiple of `res` is at least `res` -/
theorem grid_gap {a res : Int} (h : 0 < res) (hm : a % res = 0) (hp : 0 < a) : res ≤ a := by
  have hx : a = res * (a / res) := by have := Int.mul_ediv_add_emod a res; omega
  by_cases hz : a / res ≤ 0
  · have : res * (a / res) ≤ 0 := Int.mul_nonpos_of_nonneg_of_nonpos (Int.le_of_lt h) hz
    omega
  · have : res * 1 ≤ res * (a / res) := Int.mul_le_mul_of_nonneg_left (by omega) (Int.le_of_lt h)
    omega

/-- MID FORM.  After the truncations, the result of `SubMerge` holds at every out period end `T`
    (on the grid anchored at `hi`) the receiver's state merged with the `k` source periods
    `T, T − otherRes, …, T − (k−1)·otherRes` of the truncated source, newest first. -/
theorem smBody_at {e : Ex} (hv : e.valid = true) (hp : e.noPtile = true) {res otherRes : Int} {k : Nat}
    (hr : 0 < otherRes) (hk : 0 < k) (hmul : res = (k : Int) * otherRes)
    (result : Sq) (otherAsOf : Int) (o0 : Seq) (p : Pt) (hi : Int)
    (hhi : hi ≠ 0) (hiAl : hi % otherRes = 0) (hU : 0 < o0.hi) (hUal : o0.hi % otherRes = 0)
    (hoa : 0 < otherAsOf) (hbelow : ∀ t, t ≤ otherAsOf → Sq.at (some o0) e otherRes t = e.empty)
    (hwo : CellsWF e o0.cells) (hwr : SqWF e result)
    (hgr : ∀ r, result = some r → (hi - r.hi) % res = 0) (T : Int) (hT : (hi - T) % res = 0) :
    Sq.at (some (smBody e res otherRes result otherAsOf o0 p hi)) e res T =
      (List.range k).foldl
        (fun a (j : Nat) => e.mrg a (Sq.at (some o0) e otherRes (T - (j : Int) * otherRes))) (result.at e res T) := by
  cases o0 with
  | mk U oc =>
  simp only at hU hUal hwo
  have hkI : (0 : Int) < (k : Int) := by omega
  have hres : 0 < res := by rw [hmul]; exact Int.mul_pos hkI hr
  have toO : ∀ x : Int, x % res = 0 → x % otherRes = 0 := by
    intro x hx; rw [hmul] at hx; exact emod_of_mul _ hx
  obtain ⟨g1, g2, g3⟩ := roundUntilUp_spec (t := U) (hi := hi) hres (by omega) hhi
  have hg : ∀ r, result = some r → (roundUntilUp U res hi - r.hi) % res = 0 := by
    intro r hr'
    have : roundUntilUp U res hi - r.hi = (hi - r.hi) - (hi - roundUntilUp U res hi) := by omega
    rw [this]; exact emod_sub_of (hgr r hr') g1
  obtain ⟨pa, pb, pc, pd⟩ := smPrepend_spec (e := e) hres (roundUntilUp U res hi) result hg hwr
  simp only [smBody]
  generalize smPrepend e res (roundUntilUp U res hi) result = r1 at *
  obtain ⟨qa, qb, qc, qd⟩ := smAppend_spec (e := e) hres otherAsOf r1 (by omega) (by omega) pd
  have hsc : res.tdiv otherRes = (k : Int) := by rw [hmul]; exact tdn hr _
  have hoffm : (r1.hi - U) % otherRes = 0 := by
    have : r1.hi - U = (hi - U) - ((hi - roundUntilUp U res hi) + (roundUntilUp U res hi - r1.hi)) := by omega
    rw [this]
    exact emod_sub_of (emod_sub_of hiAl hUal) (emod_add_of (toO _ g1) (toO _ pc))
  have hTg : (r1.hi - T) % res = 0 := by
    have : r1.hi - T = (hi - T) - ((hi - roundUntilUp U res hi) + (roundUntilUp U res hi - r1.hi)) := by omega
    rw [this]; exact emod_sub_of hT (emod_add_of g1 pc)
  rw [hsc, exact_tdiv hr hoffm]
  have hoff := ediv_mul_exact hoffm
  have hoff0 : 0 ≤ (r1.hi - U) / otherRes := Int.ediv_nonneg (by omega) (Int.le_of_lt hr)
  generalize (r1.hi - U) / otherRes = off at *
  rw [← pa T, ← qa T]
  generalize smAppend e res otherAsOf r1 = r2 at *
  cases r2 with
  | mk R rc =>
  simp only at qb qc qd
  subst qb
  rw [at_some, at_some]
  have jlt : ∀ j : Nat, j < k → (j : Int) * otherRes < res ∧ 0 ≤ (j : Int) * otherRes := by
    intro j hj
    rw [hmul]
    exact ⟨Int.mul_lt_mul_of_pos_right (by omega) hr, Int.mul_nonneg (by omega) (Int.le_of_lt hr)⟩
  by_cases hle : T ≤ r1.hi
  · rw [if_pos ⟨hTg, hle⟩, if_pos ⟨hTg, hle⟩]
    have hqx := ediv_mul_exact hTg
    have hq0 : 0 ≤ (r1.hi - T) / res := Int.ediv_nonneg (by omega) (Int.le_of_lt hres)
    generalize hqd : ((r1.hi - T) / res).toNat = q
    have hqI : (r1.hi - T) / res = (q : Int) := by omega
    rw [hqI] at hqx
    by_cases hq : q < rc.length
    · rw [subMergeLoop_spec e (.direct e) otherRes p hkI 0 _ (Int.le_refl 0) rc.length oc 0 rc q
        (by simp; omega) rfl hq]
      rw [loopSpec_direct hv hp otherRes p hk off q oc 0 _ hwo (getD_wf qd q)]
      apply foldl_mrg_congr
      intro j _
      rw [cellAtI_at e hr U]
      congr 1
      simp only [Int.sub_mul, Int.add_mul, Int.zero_mul, Int.mul_assoc, ← hmul, Int.natCast_zero]
      omega
    · have hlen : rc.length ≤ q := by omega
      have hcast : (rc.length : Int) * res ≤ (q : Int) * res :=
        Int.mul_le_mul_of_nonneg_right (by omega) (Int.le_of_lt hres)
      rw [getD_ge e _ q (by rw [length_subMergeLoop]; exact hlen), getD_ge e rc q hlen]
      symm
      apply foldl_mrg_empty hv hp _ _ _ (wf_empty e)
      intro j hj
      have := jlt j (List.mem_range.mp hj)
      exact hbelow _ (by omega)
  · rw [if_neg (fun hc => hle hc.2), if_neg (fun hc => hle hc.2)]
    have hgap : res ≤ T - r1.hi := by
      apply grid_gap hres _ (by omega)
      have : T - r1.hi = -(r1.hi - T) := by omega
      rw [this]
      exact Int.emod_eq_zero_of_dvd (Int.dvd_neg.mpr (Int.dvd_of_emod_eq_zero hTg))
    symm
    apply foldl_mrg_empty hv hp _ _ _ (wf_empty e)
    intro j hj
    have := jlt j (List.mem_range.mp hj)
    exact at_above e otherRes ⟨U, oc⟩ _ (by simp only; omega)

/-- the result stays on the out grid anchored at `hi`, in positive time, with well-formed states -/
theorem smBody_inv {e : Ex} (hv : e.valid = true) (hp : e.noPtile = true) {res otherRes : Int}
    (hres : 0 < res) (result : Sq) (otherAsOf : Int) (o0 : Seq) (p : Pt) (hi : Int)
    (hhi : hi ≠ 0) (hU : 0 < o0.hi) (hoa : 0 < otherAsOf)
    (hwo : CellsWF e o0.cells) (hwr : SqWF e result)
    (hgr : ∀ r, result = some r → (hi - r.hi) % res = 0) :
    (hi - (smBody e res otherRes result otherAsOf o0 p hi).hi) % res = 0 ∧
      0 < (smBody e res otherRes result otherAsOf o0 p hi).hi ∧
      CellsWF e (smBody e res otherRes result otherAsOf o0 p hi).cells := by
  obtain ⟨g1, g2, g3⟩ := roundUntilUp_spec (t := o0.hi) (hi := hi) hres (by omega) hhi
  have hg : ∀ r, result = some r → (roundUntilUp o0.hi res hi - r.hi) % res = 0 := by
    intro r hr'
    have : roundUntilUp o0.hi res hi - r.hi = (hi - r.hi) - (hi - roundUntilUp o0.hi res hi) := by omega
    rw [this]; exact emod_sub_of (hgr r hr') g1
  obtain ⟨pa, pb, pc, pd⟩ := smPrepend_spec (e := e) hres (roundUntilUp o0.hi res hi) result hg hwr
  simp only [smBody]
  generalize smPrepend e res (roundUntilUp o0.hi res hi) result = r1 at *
  obtain ⟨qa, qb, qc, qd⟩ := smAppend_spec (e := e) hres otherAsOf r1 (by omega) (by omega) pd
  rw [qb]
  refine ⟨?_, by omega, cellsWF_subMergeLoop hv hp _ _ _ _ _ _ _ _ _ _ hwo qd⟩
  have : hi - r1.hi = (hi - roundUntilUp o0.hi res hi) + (roundUntilUp o0.hi res hi - r1.hi) := by omega
  rw [this]; exact emod_add_of g1 pc

end Zeno
