/-
Derived selected expressions, part 7 (stage 1, second half): `AsmSum` for every expression, and the
reading on the closures: running the sub-mergers of all columns of one source row.
-/
import ZenoModel.Lemmas.DerivedRow
set_option linter.unusedSimpArgs false
set_option linter.unusedVariables false
namespace Zeno

section
variable (subs : List Ex) (p : Pt) (st : Nat → List Cell) (hst : ∀ i s, subs[i]? = some s → WF s (st i))
include hst

theorem asmSum_ifE (c : Nat) (w : Ex) (hv : (Ex.ifE c w).valid = true) (hp : (Ex.ifE c w).noPtile = true)
    (ih : AsmSum subs p st w) : AsmSum subs p st (.ifE c w) := by
  cases hm : (Ex.ifE c w).matchIdx subs with
  | some i => exact asmSum_some subs p st hst hv hp hm (fun st' => by simp only [Ex.assemble, hm])
  | none =>
    by_cases hc : p.includes c = true
    · intro d hd
      simp only [Ex.assemble, hm, hc, if_true]
      exact ih d hd
    · exact asmSum_none subs p st hv hp (fun st' => by simp only [Ex.assemble, hm, hc]; rfl)

theorem asmSum_bounded (w : Ex) (lo hi : Rat) (hv : (Ex.bounded w lo hi).valid = true)
    (hp : (Ex.bounded w lo hi).noPtile = true) (ih : AsmSum subs p st w) :
    AsmSum subs p st (.bounded w lo hi) := by
  cases hm : (Ex.bounded w lo hi).matchIdx subs with
  | some i => exact asmSum_some subs p st hst hv hp hm (fun st' => by simp only [Ex.assemble, hm])
  | none =>
    intro d hd
    simp only [Ex.assemble, hm]
    exact ih d hd

theorem asmSum_unary (u : Nat) (w : Ex) (hv : (Ex.unary u w).valid = true)
    (hp : (Ex.unary u w).noPtile = true) (ih : AsmSum subs p st w) :
    AsmSum subs p st (.unary u w) := by
  cases hm : (Ex.unary u w).matchIdx subs with
  | some i => exact asmSum_some subs p st hst hv hp hm (fun st' => by simp only [Ex.assemble, hm])
  | none =>
    intro d hd
    simp only [Ex.assemble, hm]
    exact ih d hd

theorem asmSum_leaf (n : Ex) (hv : n.valid = true) (hp : n.noPtile = true)
    (h : ∀ st', n.assemble subs p st' = match n.matchIdx subs with | some i => st' i | none => n.empty) :
    AsmSum subs p st n := by
  cases hm : n.matchIdx subs with
  | some i => exact asmSum_some subs p st hst hv hp hm (fun st' => by rw [h, hm])
  | none => exact asmSum_none subs p st hv hp (fun st' => by rw [h, hm])

/-- merging the single-column assemblies of all columns, one after the other, merges the assembly
    of all columns -/
theorem asmSum_all : ∀ (e : Ex), e.valid = true → e.noPtile = true → AsmSum subs p st e := by
  intro e
  induction e with
  | field n => intro hv hp; exact asmSum_none subs p st hv hp (fun _ => rfl)
  | const v => intro hv hp; exact asmSum_none subs p st hv hp (fun _ => rfl)
  | agg k w _ => intro hv hp; exact asmSum_leaf subs p st hst _ hv hp (fun _ => by simp only [Ex.assemble]; rfl)
  | avg v w _ _ => intro hv hp; exact asmSum_leaf subs p st hst _ hv hp (fun _ => by simp only [Ex.assemble]; rfl)
  | bin op l r ihl ihr =>
    intro hv hp
    have hv' := hv; have hp' := hp
    simp only [Ex.valid, Bool.and_eq_true] at hv'
    simp only [Ex.noPtile, Bool.and_eq_true] at hp'
    exact asmSum_bin subs p st hst op l r hv hp (ihl hv'.1 hp'.1) (ihr hv'.2 hp'.2)
  | ifE c w ih =>
    intro hv hp
    exact asmSum_ifE subs p st hst c w hv hp (ih (by simpa [Ex.valid] using hv) (by simpa [Ex.noPtile] using hp))
  | bounded w lo hi ih =>
    intro hv hp
    exact asmSum_bounded subs p st hst w lo hi hv hp
      (ih (by simpa [Ex.valid] using hv) (by simpa [Ex.noPtile] using hp))
  | unary f w ih =>
    intro hv hp
    exact asmSum_unary subs p st hst f w hv hp
      (ih (by simpa [Ex.valid] using hv) (by simpa [Ex.noPtile] using hp))
  | shift w off _ => intro hv hp; exact asmSum_none subs p st hv hp (fun _ => rfl)
  | ptile id v pe n _ _ => intro _ hp; simp [Ex.noPtile] at hp

end

/-- the closures of all columns of one source row (states `st j`), run column by column on the
    state `d` of `e` -/
def applyRow (e : Ex) (subs : List Ex) (p : Pt) (st : Nat → List Cell) (otherRes : Int) (d : List Cell) : List Cell :=
  (List.range subs.length).foldl (fun a j => applyOpt (colSM e subs j) a [st j] otherRes p) d

/-- STAGE 1, all columns of one source row: = `e.mrg d (assembled state of the row)` -/
theorem sem_applyRow_lem {e : Ex} (hv : e.valid = true) (hp : e.noPtile = true) (hs : e.shiftFree = true)
    (subs : List Ex) (p : Pt) (st : Nat → List Cell) (hst : ∀ i s, subs[i]? = some s → WF s (st i))
    (otherRes : Int) (d : List Cell) (hd : WF e d) :
    applyRow e subs p st otherRes d = e.mrg d (e.assemble subs p st) := by
  rw [← asmSum_all subs p st hst e hv hp d hd]
  unfold applyRow
  have key : ∀ (l : List Nat) (d : List Cell), WF e d → (∀ j ∈ l, j < subs.length) →
      l.foldl (fun a j => applyOpt (colSM e subs j) a [st j] otherRes p) d =
        l.foldl (fun a j => e.mrg a (e.assemble subs p (singleCol subs j (st j)))) d := by
    intro l
    induction l with
    | nil => intro d _ _; rfl
    | cons j l ih =>
      intro d hd hl
      have hjl : j < subs.length := hl j (by simp)
      have hj : subs[j]? = some subs[j] := List.getElem?_eq_getElem hjl
      have h1 := sem_apply_lem hv hp hs subs j _ hj p d (st j) [] [] otherRes hd (hst j _ hj)
      simp only [List.append_nil] at h1
      simp only [List.foldl_cons]
      rw [h1]
      exact ih _ (mrg_wf hv hp hd (assemble_wf subs p _ (singleCol_wf_all subs st hst j) e))
        (fun j' hj' => hl j' (by simp [hj']))
  exact key _ d hd (fun j hj => List.mem_range.mp hj)

end Zeno
