/-
SubMerge semantics, part 8: `groupRows` (core.Group) column by column.
-/
import ZenoModel.Lemmas.SubMergeSemGroup
import ZenoModel.Lemmas.SubMergeSemAll
set_option linter.unusedSimpArgs false
namespace Zeno

/-- the group operator's resolution / until / asOf, as `groupRows` computes them -/
def gResOf (cfg : TableCfg) (pl : Plan) : Int :=
  if pl.resolutionTruncated || pl.resolutionChanged then pl.resolution else cfg.res
def gUntilOf (cfg : TableCfg) (now : Int) (pl : Plan) : Int :=
  if pl.qUntil = 0 then tableUntil cfg now else pl.qUntil
def gAsOfOf (cfg : TableCfg) (now : Int) (pl : Plan) : Int :=
  let gAsOf0 := if pl.qAsOf = 0 then tableAsOf cfg now else pl.qAsOf
  if gUntilOf cfg now pl - gAsOf0 < gResOf cfg pl then gUntilOf cfg now pl - gResOf cfg pl else gAsOf0

/-- the key of the output row a scan row goes to -/
def gSlice (q : Query) (k : Key) : Key :=
  if q.groupBy.isEmpty then k else k.filter (fun kv => q.groupBy.contains kv.1)

/-- the metadata handed to the sub-mergers for a scan row -/
def rowPt (metas : List KeyMeta) (r : Row) : Pt :=
  { vals := [], conds := ((metas.find? (fun m => m.key == r.key)).getD { key := r.key }).conds }

/-- one output column, one scan row: every input column that has a sub-merger is sub-merged in -/
def colStep (f : Field) (smsO : List (Option SM)) (inFields : List Field) (gRes otherRes gAsOf gUntil stride : Int)
    (pt : Pt) (c : Sq) (rcols : List Sq) : Sq :=
  ((smsO.zip inFields).zip rcols).foldl (fun (acc : Sq) a =>
    match a.1.1 with
    | none => acc
    | some sm => Sq.subMerge f.ex a.1.2.ex sm gRes otherRes acc a.2 pt gAsOf gUntil stride) c

def groupSms (q : Query) (inFields : List Field) : List (List (Option SM)) :=
  q.outFields.map (fun f => dedupInputs (inFields.map (·.ex)) (f.ex.subMergers (inFields.map (·.ex))))

def groupUpd (cfg : TableCfg) (now : Int) (q : Query) (pl : Plan) (inFields : List Field) (metas : List KeyMeta)
    (cur : List Sq) (r : Row) : List Sq :=
  ((q.outFields.zip (groupSms q inFields)).zip cur).map (fun a =>
    colStep a.1.1 a.1.2 inFields (gResOf cfg pl) cfg.res (gAsOfOf cfg now pl) (gUntilOf cfg now pl) pl.strideSlice
      (rowPt metas r) a.2 r.cols)

/-- `groupRows` is a fold of upserts -/
theorem groupRows_eq (cfg : TableCfg) (now : Int) (q : Query) (pl : Plan) (inFields : List Field)
    (metas : List KeyMeta) (rows : List Row) :
    (groupRows cfg now q pl inFields metas rows).1 =
      rows.foldl (fun out r => upsertRow out (gSlice q r.key)
        (groupUpd cfg now q pl inFields metas (colsOf (q.outFields.map (fun _ => (none : Sq))) out (gSlice q r.key)) r)) [] :=
  rfl

theorem groupRows_res (cfg : TableCfg) (now : Int) (q : Query) (pl : Plan) (inFields : List Field)
    (metas : List KeyMeta) (rows : List Row) :
    (groupRows cfg now q pl inFields metas rows).2 = gResOf cfg pl := rfl

/-! ### one output column whose only sub-merger is a direct one -/

/-- exactly the `j`-th input column has a sub-merger, the direct one for `e` -/
def OneHot (smsO : List (Option SM)) (j : Nat) (e : Ex) : Prop :=
  smsO[j]? = some (some (.direct e)) ∧ ∀ i, i ≠ j → ∀ sm, smsO[i]? = some sm → sm = none

theorem foldl_skip {α : Type} (g : α → Option SM) (F : Sq → α → SM → Sq) :
    ∀ (l : List α) (c : Sq), (∀ a ∈ l, g a = none) →
      l.foldl (fun acc a => match g a with | none => acc | some sm => F acc a sm) c = c := by
  intro l
  induction l with
  | nil => intro c _; rfl
  | cons x xs ih =>
    intro c h
    simp only [List.foldl_cons]
    rw [h x (by simp)]
    exact ih c (fun a ha => h a (by simp [ha]))

theorem foldl_onehot {α : Type} (g : α → Option SM) (F : Sq → α → SM → Sq) :
    ∀ (l : List α) (j : Nat) (a : α) (sm : SM) (c : Sq), l[j]? = some a → g a = some sm →
      (∀ i a', i ≠ j → l[i]? = some a' → g a' = none) →
      l.foldl (fun acc a => match g a with | none => acc | some sm => F acc a sm) c = F c a sm := by
  intro l
  induction l with
  | nil => intro j a sm c hj; simp at hj
  | cons x xs ih =>
    intro j a sm c hj hg ho
    simp only [List.foldl_cons]
    cases j with
    | zero =>
      simp at hj
      subst hj
      rw [hg]
      apply foldl_skip
      intro a' ha'
      obtain ⟨i, hi, hget⟩ := List.getElem_of_mem ha'
      exact ho (i + 1) a' (by omega) (by simp [List.getElem?_eq_getElem hi, hget])
    | succ j =>
      have hx : g x = none := ho 0 x (by omega) (by simp)
      rw [hx]
      exact ih j a sm c (by simpa using hj) hg
        (fun i a' hi hget => ho (i + 1) a' (by omega) (by simpa using hget))

theorem colStep_onehot (f : Field) (smsO : List (Option SM)) (inFields : List Field)
    (gRes otherRes gAsOf gUntil stride : Int) (pt : Pt) (c : Sq) (rcols : List Sq)
    (j : Nat) (e : Ex) (inF : Field) (col : Sq) (h1 : OneHot smsO j e) (h2 : inFields[j]? = some inF)
    (h3 : rcols[j]? = some col) :
    colStep f smsO inFields gRes otherRes gAsOf gUntil stride pt c rcols =
      Sq.subMerge f.ex inF.ex (.direct e) gRes otherRes c col pt gAsOf gUntil stride := by
  unfold colStep
  apply foldl_onehot (fun a : (Option SM × Field) × Sq => a.1.1)
    (fun acc a sm => Sq.subMerge f.ex a.1.2.ex sm gRes otherRes acc a.2 pt gAsOf gUntil stride)
    _ j ((some (.direct e), inF), col) (.direct e) c
  · rw [List.getElem?_zip_eq_some]
    exact ⟨by rw [List.getElem?_zip_eq_some]; exact ⟨h1.1, h2⟩, h3⟩
  · rfl
  · intro i a' hi hget
    rw [List.getElem?_zip_eq_some, List.getElem?_zip_eq_some] at hget
    exact h1.2 i hi _ hget.1.1

/-! ### the columns of `groupUpd`, one at a time -/

theorem length_groupUpd (cfg : TableCfg) (now : Int) (q : Query) (pl : Plan) (inFields : List Field)
    (metas : List KeyMeta) (cur : List Sq) (r : Row) (hc : cur.length = q.outFields.length) :
    (groupUpd cfg now q pl inFields metas cur r).length = q.outFields.length := by
  simp [groupUpd, groupSms, hc]

theorem getD_groupUpd (cfg : TableCfg) (now : Int) (q : Query) (pl : Plan) (inFields : List Field)
    (metas : List KeyMeta) (cur : List Sq) (r : Row) (hc : cur.length = q.outFields.length)
    (i : Nat) (f : Field) (hf : q.outFields[i]? = some f) :
    (groupUpd cfg now q pl inFields metas cur r).getD i none =
      colStep f (dedupInputs (inFields.map (·.ex)) (f.ex.subMergers (inFields.map (·.ex)))) inFields
        (gResOf cfg pl) cfg.res (gAsOfOf cfg now pl) (gUntilOf cfg now pl) pl.strideSlice
        (rowPt metas r) (cur.getD i none) r.cols := by
  have hi : i < q.outFields.length := by
    rcases Nat.lt_or_ge i q.outFields.length with h | h
    · exact h
    · rw [List.getElem?_eq_none h] at hf; cases hf
  have hcur : cur[i]? = some (cur.getD i none) := by
    rw [List.getD_eq_getElem?_getD, List.getElem?_eq_getElem (by omega)]; rfl
  have hs : (groupSms q inFields)[i]? =
      some (dedupInputs (inFields.map (·.ex)) (f.ex.subMergers (inFields.map (·.ex)))) := by
    simp [groupSms, List.getElem?_map, hf]
  have hz : ((q.outFields.zip (groupSms q inFields)).zip cur)[i]? =
      some ((f, dedupInputs (inFields.map (·.ex)) (f.ex.subMergers (inFields.map (·.ex)))), cur.getD i none) := by
    rw [List.getElem?_zip_eq_some]
    exact ⟨by rw [List.getElem?_zip_eq_some]; exact ⟨hf, hs⟩, hcur⟩
  unfold groupUpd
  rw [List.getD_eq_getElem?_getD, List.getElem?_map, hz]
  rfl

theorem getD_groupUpd_foldl (cfg : TableCfg) (now : Int) (q : Query) (pl : Plan) (inFields : List Field)
    (metas : List KeyMeta) (i : Nat) (f : Field) (hf : q.outFields[i]? = some f) :
    ∀ (rows : List Row) (cur : List Sq), cur.length = q.outFields.length →
      (rows.foldl (groupUpd cfg now q pl inFields metas) cur).getD i none =
        rows.foldl (fun c r =>
          colStep f (dedupInputs (inFields.map (·.ex)) (f.ex.subMergers (inFields.map (·.ex)))) inFields
            (gResOf cfg pl) cfg.res (gAsOfOf cfg now pl) (gUntilOf cfg now pl) pl.strideSlice
            (rowPt metas r) c r.cols) (cur.getD i none) := by
  intro rows
  induction rows with
  | nil => intro cur _; rfl
  | cons r rows ih =>
    intro cur hc
    simp only [List.foldl_cons]
    rw [ih _ (length_groupUpd cfg now q pl inFields metas cur r hc),
      getD_groupUpd cfg now q pl inFields metas cur r hc i f hf]

end Zeno
