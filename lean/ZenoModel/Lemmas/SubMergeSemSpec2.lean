/-
SubMerge semantics, part 13 (stage 3): the grouped cell equals the accumulation `specQuery`
performs for the bucket, given the store invariant as a hypothesis; `specQuery` restated around
`specBucketPts`.
-/
import ZenoModel.Lemmas.SubMergeSemSpec
set_option linter.unusedSimpArgs false
namespace Zeno

/-- STAGE 3 -/
theorem sem_groupRows_spec_lem (x : Ext) (cfg : TableCfg) (now : Int) (q : Query) (pl : Plan)
    (inFields : List Field) (metas : List KeyMeta) (rows : List Row) (hstride : pl.strideSlice = 0) {kk : Nat}
    (w : SMWindow (gResOf cfg pl) cfg.res kk (gAsOfOf cfg now pl) (gUntilOf cfg now pl))
    (i : Nat) (f : Field) (hf : q.outFields[i]? = some f)
    (hv : f.ex.valid = true) (hp : f.ex.noPtile = true) (hs : f.ex.shiftOf = 0)
    (j : Nat) (inF : Field) (hin : inFields[j]? = some inF) (hex : inF.ex = f.ex)
    (hone : OneHot (dedupInputs (inFields.map (·.ex)) (f.ex.subMergers (inFields.map (·.ex)))) j f.ex)
    (hrows : ∀ r ∈ rows, j < r.cols.length ∧ SqOk cfg.res (r.cols.getD j none) ∧ SqWF f.ex (r.cols.getD j none))
    (k : Key) (T : Int) (hT : (gUntilOf cfg now pl - T) % gResOf cfg pl = 0)
    (hW : gAsOfOf cfg now pl < T ∧ T ≤ gUntilOf cfg now pl)
    (A : List AccRow) (adj : AccRow → Pt)
    (hper : ∀ a ∈ A, a.period % cfg.res = 0) (hkeys : (rows.map (·.key)).Nodup)
    (hcover : ∀ a ∈ A, gAsOfOf cfg now pl < a.period ∧ a.period ≤ gUntilOf cfg now pl → ∃ r ∈ rows, r.key = a.key)
    (hstore : ∀ r ∈ rows, ∀ t, gAsOfOf cfg now pl < t ∧ t ≤ gUntilOf cfg now pl →
      (r.cols.getD j none).at f.ex cfg.res t = f.ex.acc x (keyPeriodPts A adj r.key t)) :
    ((colsOf (q.outFields.map (fun _ => (none : Sq))) (groupRows cfg now q pl inFields metas rows).1 k).getD i none).at
        f.ex (gResOf cfg pl) T =
      f.ex.acc x (specBucketPts q A adj (gAsOfOf cfg now pl) (gUntilOf cfg now pl) (gResOf cfg pl) k T) := by
  rw [sem_groupRows_points_lem x cfg now q pl inFields metas rows hstride w i f hf hv hp hs j inF hin hex hone hrows
    k T hT hW (fun r t => keyPeriodPts A adj r.key t)
    (fun r hr t ht => hstore r (List.mem_filter.mp hr).1 t ((mem_bucketTimes w.otherResPos _ _ _ _ _).mp ht).2)]
  exact acc_perm x hv hp (memberPoints_perm_spec q A adj w rows k T hT hper hkeys hcover)

/-! ### `specQuery`, restated -/

def specMetaOf (metas : List KeyMeta) (k : Key) : KeyMeta := (metas.find? (fun m => m.key == k)).getD { key := k }

/-- the spec's adjustment of a row's point: the IF conditions of the selected expressions are
    evaluated on the source row's key -/
def specAdj (metas : List KeyMeta) (r : AccRow) : Pt :=
  { r.pt with conds := r.pt.conds ++ (specMetaOf metas r.key).conds }

/-- the accepted rows that pass WHERE -/
def specRows (q : Query) (metas : List KeyMeta) (accepted : List AccRow) : List AccRow :=
  if q.hasWhere then accepted.filter (fun r => (specMetaOf metas r.key).whereOk) else accepted

/-- what `specQuery` returns once the plan is known -/
def specOut (x : Ext) (cfg : TableCfg) (q : Query) (metas : List KeyMeta) (accepted : List AccRow) (now : Int)
    (pl : Plan) : List QRow :=
  let P := gResOf cfg pl
  let hi := gUntilOf cfg now pl
  let lo := gAsOfOf cfg now pl
  let A := specRows q metas accepted
  let rows := A.filter (fun r => lo < r.period ∧ r.period ≤ hi)
  let bucketOf := fun (r : AccRow) => (gSlice q r.key, hi - ((hi - r.period) / P) * P)
  let buckets := (rows.map bucketOf).eraseDups
  let out := buckets.filterMap (fun (kT : Key × Int) =>
    let pts := specBucketPts q A (specAdj metas) lo hi P kT.1 kT.2
    let vs := q.outFields.map (fun f => (f.ex.val x (f.ex.acc x pts), f.ex.isConstant))
    if vs.any (fun (v, c) => v.isSome && !c) then
      some ({ ts := kT.2, key := kT.1, vals := vs.map (fun (v, _) => v.getD 0) } : QRow)
    else none)
  if q.hasHaving then havingFilter out else out

theorem specQuery_eq (x : Ext) (cfg : TableCfg) (dup : Bool) (ps : List RawPoint) (q : Query) (metas : List KeyMeta) :
    specQuery x cfg dup ps q metas =
      match planLocal cfg (acceptedRows cfg dup ps).2 q with
      | .error e => .error e
      | .ok pl => .ok (specOut x cfg q metas (acceptedRows cfg dup ps).1 (acceptedRows cfg dup ps).2 pl) := by
  unfold specQuery
  generalize acceptedRows cfg dup ps = ar
  obtain ⟨rows, now⟩ := ar
  show (do
    let pl ← planLocal cfg now q
    _) = _
  cases h : planLocal cfg now q with
  | error e => rfl
  | ok pl => rfl

/-! ### expressions without IF do not look at the conditions of a point -/

/-- no IF inside -/
def Ex.noIf : Ex → Bool
  | .field _ => true
  | .const _ => true
  | .agg _ w => w.noIf
  | .avg v w => v.noIf && w.noIf
  | .bin _ l r => l.noIf && r.noIf
  | .ifE _ _ => false
  | .bounded w _ _ => w.noIf
  | .shift w _ => w.noIf
  | .unary _ w => w.noIf
  | .ptile _ v p _ => v.noIf && p.noIf

theorem update_congr_conds (x : Ext) : ∀ (e : Ex), e.noIf = true → ∀ (cs : List Cell) (p p' : Pt),
    p.vals = p'.vals → p.bucket = p'.bucket → e.update x cs p = e.update x cs p' := by
  intro e
  induction e with
  | field n => intro _ cs p p' hv _; simp [Ex.update, Pt.get, hv]
  | const v => intro _ cs p p' _ _; simp [Ex.update]
  | agg k w ih => intro h cs p p' hv hb; simp only [Ex.noIf] at h; simp only [Ex.update, ih h _ p p' hv hb]
  | avg v w ihv ihw =>
    intro h cs p p' hv hb
    simp only [Ex.noIf, Bool.and_eq_true] at h
    simp only [Ex.update, ihv h.1 _ p p' hv hb, ihw h.2 _ p p' hv hb]
  | bin op l r ihl ihr =>
    intro h cs p p' hv hb
    simp only [Ex.noIf, Bool.and_eq_true] at h
    simp only [Ex.update, ihl h.1 _ p p' hv hb, ihr h.2 _ p p' hv hb]
  | ifE c w _ => intro h; simp [Ex.noIf] at h
  | bounded w lo hi ih => intro h cs p p' hv hb; simp only [Ex.noIf] at h; simp only [Ex.update, ih h _ p p' hv hb]
  | shift w off ih => intro h cs p p' hv hb; simp only [Ex.noIf] at h; simp only [Ex.update, ih h _ p p' hv hb]
  | unary f w ih => intro h cs p p' hv hb; simp only [Ex.noIf] at h; simp only [Ex.update, ih h _ p p' hv hb]
  | ptile id v pe n ihv ihp =>
    intro h cs p p' hv hb
    simp only [Ex.noIf, Bool.and_eq_true] at h
    simp only [Ex.update, ihv h.1 _ p p' hv hb, ihp h.2 _ p p' hv hb, Pt.bucketOf, hb]

theorem acc_map_congr_conds (x : Ext) {e : Ex} (h : e.noIf = true) {α : Type} (f g : α → Pt)
    (hfg : ∀ a, (f a).vals = (g a).vals ∧ (f a).bucket = (g a).bucket) (l : List α) :
    e.acc x (l.map f) = e.acc x (l.map g) := by
  unfold Ex.acc
  generalize e.empty = st
  induction l generalizing st with
  | nil => rfl
  | cons a l ih =>
    simp only [List.map_cons, List.foldl_cons]
    have : e.upd x st (f a) = e.upd x st (g a) := by
      unfold Ex.upd; rw [update_congr_conds x e h st (f a) (g a) (hfg a).1 (hfg a).2]
    rw [this]; exact ih _

/-- for a selected expression without IF, the spec's bucket accumulation does not depend on the
    key metadata: it is the accumulation of the accepted rows' own points -/
theorem acc_specAdj (x : Ext) {e : Ex} (h : e.noIf = true) (metas : List KeyMeta) (l : List AccRow) :
    e.acc x (l.map (specAdj metas)) = e.acc x (l.map (·.pt)) :=
  acc_map_congr_conds x h (specAdj metas) (fun a => a.pt) (fun _ => ⟨rfl, rfl⟩) l

end Zeno
