/-
Store ↔ column projection, part 8: the raw-point spec of one (key, period) stated on the store
script itself (`tableRowsFor`: no sequences, no files, no flushes, no store state), the clock of
a store script from the points alone, and their agreement with the column-level spec
(`rowsFor`) of the projected script.
-/
import ZenoModel.Lemmas.StoreProjScript
set_option linter.unusedSimpArgs false
set_option linter.unusedVariables false
namespace Zeno

/-- is the point turned into rows (`table.insert` + `doInsert`): not too old at clock `now`,
    WHERE satisfied, payload well-formed -/
def ptStored (cfg : TableCfg) (now : Int) (p : RawPoint) : Bool :=
  !(decide (p.ts < now - cfg.retention)) && p.whereOk && !p.panics

/-- SPEC: the rows (in arrival order, each once) that period `T` of group `key` accumulates —
    the rows of stored points of that group whose timestamp rounds up to `T` -/
def tableRowsFor (cfg : TableCfg) (key : Key) (T : Int) : Int → List StoreOp → List Pt
  | _, [] => []
  | now, .flush _ :: r => tableRowsFor cfg key T now r
  | now, .ingest p :: r =>
      (if ptStored cfg now p && (reslice cfg p.dims == key) && decide (roundUp p.ts cfg.res = T)
        then (pointRows p).map (mkPt p) else [])
      ++ tableRowsFor cfg key T (ptNow cfg now p) r

/-- the clock after a script: maximum timestamp of the points that passed the age check and WHERE -/
def nowAfter (cfg : TableCfg) : Int → List StoreOp → Int
  | now, [] => now
  | now, .flush _ :: r => nowAfter cfg now r
  | now, .ingest p :: r => nowAfter cfg (ptNow cfg now p) r

theorem foldl_now (x : Ext) (cfg : TableCfg) (ops : List StoreOp) :
    ∀ st : Store, (ops.foldl (storeStep x cfg) st).now = nowAfter cfg st.now ops := by
  induction ops with
  | nil => intro st; rfl
  | cons op r ih =>
    intro st
    cases op with
    | ingest p => rw [List.foldl_cons, ih]; simp only [storeStep, ingest_now, nowAfter]
    | flush s => rw [List.foldl_cons, ih]; simp only [storeStep, flush_now, nowAfter]

theorem runStore_now (x : Ext) (cfg : TableCfg) (ops : List StoreOp) :
    (runStore x cfg ops).now = nowAfter cfg 0 ops := by
  rw [runStore_eq, foldl_now]; rfl

theorem nowAfter_eraseFlush (cfg : TableCfg) (ops : List StoreOp) :
    ∀ now, nowAfter cfg now (eraseFlush ops) = nowAfter cfg now ops := by
  induction ops with
  | nil => intro now; rfl
  | cons op r ih =>
    intro now
    cases op with
    | ingest p => simp only [eraseFlush, nowAfter, ih]
    | flush s => simp only [eraseFlush, nowAfter, ih]

theorem tableRowsFor_eraseFlush (cfg : TableCfg) (key : Key) (T : Int) (ops : List StoreOp) :
    ∀ now, tableRowsFor cfg key T now (eraseFlush ops) = tableRowsFor cfg key T now ops := by
  induction ops with
  | nil => intro now; rfl
  | cons op r ih =>
    intro now
    cases op with
    | ingest p => simp only [eraseFlush, tableRowsFor, ih]
    | flush s => simp only [eraseFlush, tableRowsFor, ih]

/-- rows of one stored point followed by the rest of the script -/
theorem rowsFor_map_ingest (ccfg : ColCfg) (hret : 0 ≤ ccfg.retention) (T : Int) (ts : Int) (p : RawPoint)
    (rest : List ColOp) (rows : List (List (String × Rat))) :
    ∀ now, ¬ ts < now - ccfg.retention →
      rowsFor ccfg T now (rows.map (fun vals => ColOp.ingest ts (mkPt p vals)) ++ rest) =
        (if roundUp ts ccfg.res = T then rows.map (mkPt p) else []) ++
          rowsFor ccfg T (if rows.isEmpty then now else max now ts) rest := by
  induction rows with
  | nil => intro now _; simp
  | cons v r ih =>
    intro now hacc
    simp only [List.map_cons, List.cons_append, rowsFor, accepted, hacc, decide_false, Bool.not_false, if_true]
    rw [ih (max now ts) (by omega)]
    have hmax : (if r.isEmpty then max now ts else max (max now ts) ts) = max now ts := by
      split <;> omega
    rw [hmax]
    simp only [List.isEmpty_cons, Bool.false_eq_true, if_false]
    split <;> simp

theorem rowsFor_ptOps (cfg : TableCfg) (hret : 0 ≤ cfg.retention) (ccfg : ColCfg)
    (hr : ccfg.res = cfg.res) (hrt : ccfg.retention = cfg.retention) (key : Key) (T : Int) (now : Int)
    (p : RawPoint) (rest : List ColOp) :
    rowsFor ccfg T now (ptOps cfg key now p ++ rest) =
      (if ptStored cfg now p && (reslice cfg p.dims == key) && decide (roundUp p.ts cfg.res = T)
        then (pointRows p).map (mkPt p) else [])
      ++ rowsFor ccfg T (ptNow cfg now p) rest := by
  unfold ptOps ptNow ptStored
  by_cases hold : p.ts < now - cfg.retention
  · simp [hold, rowsFor]
  by_cases hw : p.whereOk = false
  · simp [hold, hw, rowsFor]
  have hw' : p.whereOk = true := by simpa using hw
  have hacc : accepted ccfg now p.ts = true := by simp [accepted, hrt, hold]
  by_cases hpan : p.panics = true
  · simp [hold, hw', hpan, rowsFor, hacc]
  have hpan' : p.panics = false := by simpa using hpan
  by_cases hk : (reslice cfg p.dims == key) = true
  · by_cases hemp : (pointRows p) = []
    · simp [hold, hw', hpan', hk, hemp, rowsFor, hacc]
    · have hemp' : (pointRows p).isEmpty = false := by simpa using hemp
      simp only [hold, hw', hpan', hk, hemp', if_false, Bool.not_true, Bool.false_eq_true,
        decide_false, Bool.not_false, Bool.true_and, if_true, Bool.and_true]
      rw [rowsFor_map_ingest ccfg (by omega) T p.ts p rest (pointRows p) now (by omega)]
      simp [hemp', hr]
  · simp [hold, hw', hpan', hk, rowsFor, hacc]

/-- the column-level spec of the projected script is the table-level spec of the store script -/
theorem rowsFor_colOpsNF (cfg : TableCfg) (hret : 0 ≤ cfg.retention) (ccfg : ColCfg)
    (hr : ccfg.res = cfg.res) (hrt : ccfg.retention = cfg.retention) (key : Key) (T : Int)
    (ops : List StoreOp) :
    ∀ now, rowsFor ccfg T now (colOpsNF cfg key now ops) = tableRowsFor cfg key T now ops := by
  induction ops with
  | nil => intro now; rfl
  | cons op r ih =>
    intro now
    cases op with
    | flush s => exact ih now
    | ingest p =>
      simp only [colOpsNF, tableRowsFor]
      rw [rowsFor_ptOps cfg hret ccfg hr hrt, ih]

theorem rowsFor_colOpsOf (x : Ext) (cfg : TableCfg) (hret : 0 ≤ cfg.retention) (key : Key) (i : Nat)
    (T : Int) (ops : List StoreOp) :
    rowsFor (ccfgOf cfg i) T 0 (colOpsOf x cfg key (Store.init cfg) ops) = tableRowsFor cfg key T 0 ops := by
  rw [rowsFor_noFlush, noFlush_colOpsOf]
  exact rowsFor_colOpsNF cfg hret (ccfgOf cfg i) rfl rfl key T ops 0

end Zeno
