/-
Derived selected expressions, part 34 (stage 3, physical spans): `subMergeAll` and the grouped cell of
a derived field; every non-stateless resolved expression has a closure from some scanned column.
-/
import ZenoModel.Lemmas.DerivedSpan4
import ZenoModel.Lemmas.DerivedRead6
set_option linter.unusedSimpArgs false
set_option linter.unusedVariables false
namespace Zeno

theorem subMergeAll_covers {e : Ex} (hv : e.valid = true) (hp : e.noPtile = true) (hs : e.shiftOf = 0)
    {res otherRes : Int} {k : Nat} {asOf hi : Int} (w : SMWindow res otherRes k asOf hi) (T : Int)
    (hT : (hi - T) % res = 0) (hW : asOf < T ∧ T ≤ hi) :
    ∀ (srcs : List Src) (init : Sq), (∀ op ∈ srcs, SqOk otherRes op.1 ∧ SqWF e op.1) →
      RecvGrid e res hi init → InWindow e res asOf hi init →
      (sqCovers init res T ∨ ∃ op ∈ srcs, ∃ t ∈ bucketTimes otherRes k asOf hi T, sqCovers op.1 otherRes t) →
      sqCovers (subMergeAll e res otherRes asOf hi srcs init) res T := by
  intro srcs
  induction srcs with
  | nil =>
    intro init _ _ _ h
    rcases h with h | ⟨op, hop, _⟩
    · exact h
    · simp at hop
  | cons op srcs ih =>
    intro init hall hg hin h
    obtain ⟨ho, hwo⟩ := hall op (by simp)
    obtain ⟨ig, iin⟩ := subMerge_inv_lem hv hp hs w init op.1 op.2 ho hwo hg hin
    obtain ⟨ca, cb⟩ := subMerge_covers hv hp hs w init op.1 op.2 ho hwo hg T hT hW
    simp only [subMergeAll, List.foldl_cons]
    apply ih _ (fun o ho' => hall o (by simp [ho'])) ig iin
    rcases h with h | ⟨op', hop', t, ht, hc⟩
    · exact Or.inl (ca h)
    · rw [List.mem_cons] at hop'
      rcases hop' with rfl | hop'
      · exact Or.inl (cb ⟨t, ht, hc⟩)
      · exact Or.inr ⟨op', hop', t, ht, hc⟩

theorem sqCovers_mapSq (g : List Cell → List Cell) (s : Sq) (res T : Int) (h : sqCovers s res T) :
    sqCovers (mapSq g s) res T := by
  obtain ⟨q, rfl, hc⟩ := h
  refine ⟨mapSeq g q, rfl, ?_⟩
  unfold covers at *
  simpa [mapSeq] using hc

/-- the grouped cell of a derived field physically holds the out period `T` as soon as a member row
    physically holds a period of the bucket in a column that has a closure -/
theorem groupCell_covers {cfg : TableCfg} {now : Int} {q : Query} {pl : Plan} {inFields : List Field}
    {rows : List Row} {kk i : Nat} {f : Field} (H : DerivedCell cfg now q pl inFields rows kk i f)
    (metas : List KeyMeta) (k : Key) (T : Int) (hT : (gUntilOf cfg now pl - T) % gResOf cfg pl = 0)
    (hW : gAsOfOf cfg now pl < T ∧ T ≤ gUntilOf cfg now pl)
    (r : Row) (hr : r ∈ groupMembers q rows k) (j : Nat) (hj : j < (inFields.map (·.ex)).length)
    (hsm : (colSM f.ex (inFields.map (·.ex)) j).isSome = true)
    (t : Int) (ht : t ∈ bucketTimes cfg.res kk (gAsOfOf cfg now pl) (gUntilOf cfg now pl) T)
    (hc : sqCovers (r.cols.getD j none) cfg.res t) :
    sqCovers (groupCell cfg now q pl inFields metas rows k i) (gResOf cfg pl) T := by
  rw [groupCell_derived H metas k]
  apply subMergeAll_covers H.valid H.noPtile (shiftFree_shiftOf H.shiftFree) H.window T hT hW _ none
    (derivedSrcs_ok H metas k) trivial (fun _ _ => rfl)
  right
  cases hs : colSM f.ex (inFields.map (·.ex)) j with
  | none => rw [hs] at hsm; cases hsm
  | some sm =>
    refine ⟨(mapSq (colImage f.ex (inFields.map (·.ex)) j (rowPt metas r)) (r.cols.getD j none), rowPt metas r), ?_,
      t, ht, sqCovers_mapSq _ _ _ _ hc⟩
    unfold derivedSrcs rowSrcs
    apply List.mem_flatMap.mpr ⟨r, hr, ?_⟩
    apply List.mem_filterMap.mpr ⟨j, List.mem_range.mpr hj, ?_⟩
    simp only [colSrc, hs, Option.map_some]

end Zeno
