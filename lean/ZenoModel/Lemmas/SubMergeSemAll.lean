/-
SubMerge semantics, part 6: many sources sub-merged into one receiver (what `core.Group` does for
one output column of one group), and the raw-point reading of the result.
-/
import ZenoModel.Lemmas.SubMergeSemThm
set_option linter.unusedSimpArgs false
namespace Zeno

theorem mrg_acc (x : Ext) {e : Ex} (hv : e.valid = true) (hp : e.noPtile = true) (a b : List Pt) :
    e.mrg (e.acc x a) (e.acc x b) = e.acc x (a ++ b) := by
  have h1 := mrg_foldl x hv hp b (acc_wf x hv hp a) (wf_empty e)
  rw [mrg_empty_right hv hp (acc_wf x hv hp a)] at h1
  simpa [Ex.acc, List.foldl_append] using h1

/-- merging stored states that are accumulations of raw points = accumulating the points -/
theorem mergeOnto_acc (x : Ext) {e : Ex} (hv : e.valid = true) (hp : e.noPtile = true) (otherRes : Int)
    (other : Sq) (pts : Int → List Pt) :
    ∀ (ts : List Int) (pre : List Pt), (∀ t ∈ ts, other.at e otherRes t = e.acc x (pts t)) →
      mergeOnto e otherRes other ts (e.acc x pre) = e.acc x (pre ++ (ts.map pts).flatten) := by
  intro ts
  induction ts with
  | nil => intro pre _; simp [mergeOnto]
  | cons t ts ih =>
    intro pre h
    have ih' := ih (pre ++ pts t) (fun t' ht' => h t' (by simp [ht']))
    unfold mergeOnto at ih' ⊢
    simp only [List.foldl_cons, List.map_cons, List.flatten_cons]
    rw [h t (by simp), mrg_acc x hv hp, ih', List.append_assoc]

/-- one source of a group: the source column and the metadata of its row -/
abbrev Src := Sq × Pt

/-- `core.Group`'s accumulation of one output column of one group: `SubMerge` of each
    contributing scan row's source column, one after the other -/
def subMergeAll (e : Ex) (res otherRes asOf hi : Int) (srcs : List Src) (init : Sq) : Sq :=
  srcs.foldl (fun acc op => Sq.subMerge e e (.direct e) res otherRes acc op.1 op.2 asOf hi 0) init

/-- merge, source after source, the states of the periods `ts` onto `acc` -/
def mergeAllOnto (e : Ex) (otherRes : Int) (srcs : List Src) (ts : List Int) (acc : List Cell) : List Cell :=
  srcs.foldl (fun a op => mergeOnto e otherRes op.1 ts a) acc

theorem sem_subMergeAll_lem {e : Ex} (hv : e.valid = true) (hp : e.noPtile = true) (hs : e.shiftOf = 0)
    {res otherRes : Int} {k : Nat} {asOf hi : Int} (w : SMWindow res otherRes k asOf hi) :
    ∀ (srcs : List Src) (init : Sq), (∀ op ∈ srcs, SqOk otherRes op.1 ∧ SqWF e op.1) →
      RecvGrid e res hi init → InWindow e res asOf hi init →
      (RecvGrid e res hi (subMergeAll e res otherRes asOf hi srcs init) ∧
       InWindow e res asOf hi (subMergeAll e res otherRes asOf hi srcs init)) ∧
      ∀ T, (hi - T) % res = 0 →
        (subMergeAll e res otherRes asOf hi srcs init).at e res T =
          if asOf < T ∧ T ≤ hi
          then mergeAllOnto e otherRes srcs (bucketTimes otherRes k asOf hi T) (init.at e res T)
          else e.empty := by
  intro srcs
  induction srcs with
  | nil =>
    intro init _ hg hin
    refine ⟨⟨hg, hin⟩, fun T _ => ?_⟩
    simp only [subMergeAll, mergeAllOnto, List.foldl_nil]
    split
    · rfl
    · rename_i hW; exact hin T hW
  | cons op srcs ih =>
    intro init hall hg hin
    obtain ⟨ho, hwo⟩ := hall op (by simp)
    obtain ⟨ig, iin⟩ := subMerge_inv_lem hv hp hs w init op.1 op.2 ho hwo hg hin
    obtain ⟨inv, hat⟩ := ih _ (fun o ho' => hall o (by simp [ho'])) ig iin
    refine ⟨inv, fun T hT => ?_⟩
    have h1 := hat T hT
    simp only [subMergeAll, List.foldl_cons, mergeAllOnto] at h1 ⊢
    rw [h1, sem_subMerge_lem hv hp hs w init op.1 op.2 ho hwo hg hin T hT]
    by_cases hW : asOf < T ∧ T ≤ hi
    · simp only [hW, and_self, if_true]
    · simp only [hW, if_false]

/-- all the raw points of the members `l` (e.g. scan rows) in the periods `ts`, member by member,
    period by period -/
def memberPoints {ι : Type} (pts : ι → Int → List Pt) (l : List ι) (ts : List Int) : List Pt :=
  (l.map (fun i => (ts.map (pts i)).flatten)).flatten

theorem mergeAllOnto_acc (x : Ext) {e : Ex} (hv : e.valid = true) (hp : e.noPtile = true) (otherRes : Int)
    {ι : Type} (g : ι → Src) (pts : ι → Int → List Pt) (ts : List Int) :
    ∀ (l : List ι) (pre : List Pt),
      (∀ i ∈ l, ∀ t ∈ ts, (g i).1.at e otherRes t = e.acc x (pts i t)) →
      mergeAllOnto e otherRes (l.map g) ts (e.acc x pre) = e.acc x (pre ++ memberPoints pts l ts) := by
  intro l
  induction l with
  | nil => intro pre _; simp [mergeAllOnto, memberPoints]
  | cons i l ih =>
    intro pre h
    have ih' := ih (pre ++ (ts.map (pts i)).flatten) (fun o ho => h o (by simp [ho]))
    unfold mergeAllOnto memberPoints at ih' ⊢
    simp only [List.map_cons, List.foldl_cons, List.flatten_cons]
    rw [mergeOnto_acc x hv hp otherRes (g i).1 (pts i) ts pre (h i (by simp)), ih', List.append_assoc]

end Zeno
