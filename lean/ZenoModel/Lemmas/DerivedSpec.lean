/-
Derived selected expressions, part 19 (stage 2 → spec): with the store half as a hypothesis (every
stored column state = the column's accumulation of the accepted rows of its (key, period)), the
cell of a derived output field = the derived expression accumulated DIRECTLY over the spec's
bucket, the source key's IF conditions appended to every point — exactly what `specQuery` does.
-/
import ZenoModel.Lemmas.DerivedLeaf2
import ZenoModel.Lemmas.DerivedAcc2
set_option linter.unusedSimpArgs false
set_option linter.unusedVariables false
namespace Zeno

/-- `assemble` only reads the states of existing columns -/
theorem assemble_congr (subs : List Ex) (p : Pt) (st st' : Nat → List Cell)
    (h : ∀ i, i < subs.length → st i = st' i) : ∀ e : Ex, e.assemble subs p st = e.assemble subs p st' := by
  have node : ∀ (n : Ex) (X X' : List Cell), X = X' →
      (match n.matchIdx subs with | some i => st i | none => X) =
        (match n.matchIdx subs with | some i => st' i | none => X') := by
    intro n X X' hX
    cases hm : n.matchIdx subs with
    | none => exact hX
    | some i =>
      obtain ⟨s, hs, _, _⟩ := matchIdx_some hm
      apply h
      rcases Nat.lt_or_ge i subs.length with hl | hl
      · exact hl
      · rw [List.getElem?_eq_none hl] at hs; cases hs
  intro e
  induction e with
  | field n => rfl
  | const v => rfl
  | agg k w _ => simp only [Ex.assemble]; exact node _ _ _ rfl
  | avg v w _ _ => simp only [Ex.assemble]; exact node _ _ _ rfl
  | bin op l r ihl ihr => simp only [Ex.assemble]; exact node _ _ _ (by rw [ihl, ihr])
  | ifE c w ih => simp only [Ex.assemble]; exact node _ _ _ (by rw [ih])
  | bounded w lo hi ih => simp only [Ex.assemble]; exact node _ _ _ ih
  | unary f w ih => simp only [Ex.assemble]; exact node _ _ _ ih
  | shift w off _ => rfl
  | ptile id v pe n _ _ => rfl

/-- the points of (key, period) with the key's IF conditions appended are the spec's adjusted points -/
theorem keyPeriodPts_specAdj (metas : List KeyMeta) (A : List AccRow) (r : Row) (t : Int) :
    (keyPeriodPts A (·.pt) r.key t).map (addConds (rowPt metas r).conds) = keyPeriodPts A (specAdj metas) r.key t := by
  unfold keyPeriodPts
  rw [List.map_map]
  apply List.map_congr_left
  intro a ha
  have hk : a.key = r.key := by
    have := (List.mem_filter.mp ha).2
    simp only [Bool.and_eq_true, beq_iff_eq] at this
    exact this.1
  simp only [Function.comp, specAdj, addConds, specMetaOf, rowPt, hk]

/-- one scan row at one native period, read on raw points -/
theorem rowState_points (x : Ext) {e : Ex} (hv : e.valid = true) (hp : e.noPtile = true) {subs : List Ex}
    (hres : e.resolved subs = true) (metas : List KeyMeta) (A : List AccRow) (r : Row) (otherRes t : Int)
    (hirr : ColsIgnore x subs (rowPt metas r).conds)
    (hfresh : ∀ c ∈ e.openConds subs, ∀ a ∈ A, a.pt.includes c = false)
    (hstore : ∀ j cj, subs[j]? = some cj →
      (r.cols.getD j none).at cj otherRes t = cj.acc x (keyPeriodPts A (·.pt) r.key t)) :
    rowState e subs (rowPt metas r) r.cols otherRes t = e.acc x (keyPeriodPts A (specAdj metas) r.key t) := by
  unfold rowState
  rw [assemble_congr subs _ _ (colAccs x subs (keyPeriodPts A (·.pt) r.key t)) _ e]
  · rw [assemble_acc x rfl hirr e hv hp hres, keyPeriodPts_specAdj]
    intro c hc pt hpt
    unfold keyPeriodPts at hpt
    obtain ⟨a, ha, rfl⟩ := List.mem_map.mp hpt
    exact hfresh c hc a (List.mem_filter.mp ha).1
  · intro i hi
    have hs : subs[i]? = some subs[i] := List.getElem?_eq_getElem hi
    have hgd : subs.getD i (.const 0) = subs[i] := by rw [List.getD_eq_getElem?_getD, hs]; rfl
    unfold colAt colAccs
    rw [hgd]
    exact hstore i _ hs

/-- the leaf-wise merge of states that are accumulations = the accumulation of all the points -/
theorem leafwise_acc (x : Ext) {e : Ex} (hv : e.valid = true) (hp : e.noPtile = true) (subs : List Ex)
    (metas : List KeyMeta) (otherRes : Int) (pts : Row → Int → List Pt) (ts : List Int) :
    ∀ (l : List Row) (pre : List Pt),
      (∀ r ∈ l, ∀ t ∈ ts, rowState e subs (rowPt metas r) r.cols otherRes t = e.acc x (pts r t)) →
      leafwise e subs metas otherRes l ts (e.acc x pre) = e.acc x (pre ++ memberPoints pts l ts) := by
  have inner : ∀ (r : Row) (ts' : List Int) (pre : List Pt),
      (∀ t ∈ ts', rowState e subs (rowPt metas r) r.cols otherRes t = e.acc x (pts r t)) →
      ts'.foldl (fun a t => e.mrg a (rowState e subs (rowPt metas r) r.cols otherRes t)) (e.acc x pre) =
        e.acc x (pre ++ (ts'.map (pts r)).flatten) := by
    intro r ts'
    induction ts' with
    | nil => intro pre _; simp
    | cons t ts' ih =>
      intro pre h
      simp only [List.foldl_cons, List.map_cons, List.flatten_cons]
      rw [h t (by simp), mrg_acc x hv hp, ih _ (fun t' ht' => h t' (by simp [ht'])), List.append_assoc]
  intro l
  induction l with
  | nil => intro pre _; simp [leafwise, memberPoints]
  | cons r l ih =>
    intro pre h
    have ih' := ih (pre ++ (ts.map (pts r)).flatten) (fun r' hr' => h r' (by simp [hr']))
    unfold leafwise memberPoints at ih' ⊢
    simp only [List.foldl_cons, List.map_cons, List.flatten_cons]
    rw [inner r ts pre (h r (by simp)), ih', List.append_assoc]

end Zeno
