/-
Derived selected expressions, part 26 (stage 3): at every slot (key, out period) that HOLDS DATA in
each field that has a value on the empty state, `Flatten` and `specOut` build the same row.
-/
import ZenoModel.Lemmas.DerivedRead2
set_option linter.unusedSimpArgs false
set_option linter.unusedVariables false
namespace Zeno

/-- the slot `(k, T)` holds data in every non-constant selected field that would have a value even
    without data (a field with a constant operand: `SUM(a) * 2`, `f > 1`, the `_having` helper).
    Vacuous for queries without such fields. -/
def HoldsData (x : Ext) (cfg : TableCfg) (ops : List StoreOp) (q : Query) (metas : List KeyMeta) (pl : Plan)
    (k : Key) (T : Int) : Prop :=
  ∀ f ∈ q.outFields, f.ex.isConstant = false → f.ex.val x f.ex.empty ≠ none →
    f.ex.acc x (e2eBucket x cfg ops q metas pl k T) ≠ f.ex.empty

/-- the row `specOut` builds for the bucket `(k, T)` of the script -/
def e2eSpecAt (x : Ext) (cfg : TableCfg) (ops : List StoreOp) (q : Query) (metas : List KeyMeta) (pl : Plan)
    (k : Key) (T : Int) : Option QRow :=
  specAt x q metas (specRows q metas (acceptedRows cfg true (pointsOf ops)).1)
    (gAsOfOf cfg (runStore x cfg ops).now pl) (gUntilOf cfg (runStore x cfg ops).now pl) (gResOf cfg pl) k T

theorem rowOf_some_witness {β : Type} (l : List β) (F : β → Option Rat × Bool) (ts : Int) (key : Key) (row : QRow)
    (h : rowOf (l.map F) ts key = some row) :
    row.key = key ∧ row.ts = ts ∧ ∃ b ∈ l, (F b).1.isSome = true ∧ (F b).2 = false := by
  unfold rowOf at h
  split at h
  · rename_i hany
    injection h with h
    obtain ⟨p, hp, hc⟩ := List.any_eq_true.mp hany
    obtain ⟨b, hb, rfl⟩ := List.mem_map.mp hp
    simp only [Bool.and_eq_true, Bool.not_eq_true'] at hc
    exact ⟨by rw [← h], by rw [← h], b, hb, hc.1, hc.2⟩
  · cases h

section
variable (x : Ext) {cfg : TableCfg} {ops : List StoreOp} {q : Query} {metas : List KeyMeta} {pl : Plan}
  (C : DerivedCtx x cfg ops q metas pl) (hall : ∀ f ∈ q.outFields, DerivedField x cfg ops q f)
include C hall

/-- FLATTEN = SPEC at a slot that holds data -/
theorem derived_flatAt_data (g : Row) (hg : g ∈ e2eGroup x cfg ops q metas pl) (T : Int)
    (hT : (gUntilOf cfg (runStore x cfg ops).now pl - T) % gResOf cfg pl = 0)
    (hd : HoldsData x cfg ops q metas pl g.key T) :
    flatAt x q.outFields (gResOf cfg pl) g T = e2eSpecAt x cfg ops q metas pl g.key T := by
  have hw := groupRows_width cfg _ q pl _ metas _ g hg
  unfold e2eSpecAt
  rw [flatAt_rowOf, derived_flat_vs x C hall g hg T hT, specAt_rowOf]
  congr 1
  apply zip_map_eq_map _ _ _ _ hw
  intro i h1 h2
  have hout : q.outFields[i]? = some (q.outFields[i]) := List.getElem?_eq_getElem h1
  have df := hall _ (List.getElem_mem h1)
  simp only
  congr 1
  unfold readVal
  split
  · rfl
  · rename_i hc
    split
    · rfl
    · rename_i hsp
      have hsp' : spanHas (g.cols[i]) (gResOf cfg pl) T = false := by simpa using hsp
      have hat := at_outside_span (q.outFields[i]).ex _ _ _ hsp'
      rw [derived_col_is_cell x C g hg i h2, derived_cell_at x C i _ hout df g.key T hT] at hat
      have hnone : (q.outFields[i]).ex.val x (q.outFields[i]).ex.empty = none := by
        cases hv : (q.outFields[i]).ex.val x (q.outFields[i]).ex.empty with
        | none => rfl
        | some v =>
          exact absurd hat (hd _ (List.getElem_mem h1) (by simpa using hc) (by rw [hv]; simp))
      unfold e2eBucket at hat
      rw [hat, hnone]

/-- a data-holding slot in which `specOut` builds a row: its bucket is visited and the key has a
    grouped row -/
theorem derived_spec_row_grouped (k : Key) (T : Int) (row : QRow)
    (hT : (gUntilOf cfg (runStore x cfg ops).now pl - T) % gResOf cfg pl = 0)
    (hd : HoldsData x cfg ops q metas pl k T) (h : e2eSpecAt x cfg ops q metas pl k T = some row) :
    e2eBucket x cfg ops q metas pl k T ≠ [] ∧ ∃ g ∈ e2eGroup x cfg ops q metas pl, g.key = k := by
  unfold e2eSpecAt at h
  rw [specAt_rowOf] at h
  obtain ⟨_, _, f, hf, hs, hnc⟩ := rowOf_some_witness _ _ _ _ _ h
  simp only at hs hnc
  have hne : f.ex.acc x (e2eBucket x cfg ops q metas pl k T) ≠ f.ex.empty := by
    cases hv : f.ex.val x f.ex.empty with
    | some v => exact hd f hf hnc (by rw [hv]; simp)
    | none =>
      intro heq
      unfold e2eBucket at heq
      rw [heq, hv] at hs; cases hs
  refine ⟨fun hnil => hne (by rw [hnil]; rfl), ?_⟩
  obtain ⟨i, hi, rfl⟩ := List.getElem_of_mem hf
  have hout : q.outFields[i]? = some (q.outFields[i]) := List.getElem?_eq_getElem hi
  by_cases hex : ∃ g ∈ e2eGroup x cfg ops q metas pl, g.key = k
  · exact hex
  · exfalso
    have habs : ∀ g ∈ e2eGroup x cfg ops q metas pl, g.key ≠ k := fun g hg hk => hex ⟨g, hg, hk⟩
    have hcell := derived_cell_at x C i _ hout (hall _ hf) k T hT
    rw [groupCell_absent cfg (runStore x cfg ops).now q pl (includedFields cfg q) metas (e2eScan x cfg ops q metas)
      k i habs, at_none] at hcell
    exact hne hcell.symm

end

end Zeno
