/-
Semantics and invariants of `Sequence.UpdateValue` as the memstore uses it
(truncateBefore = zero time): `sem_updateValue0`, `updateValue0_inv`.
-/
import ZenoModel.Lemmas.SeqMerge

set_option linter.unusedSimpArgs false
namespace Zeno

theorem getD_modify' (e : Ex) (l : List (List Cell)) (i j : Nat) (f : List Cell → List Cell) :
    (l.modify i f).getD j e.empty = if j = i ∧ i < l.length then f (l.getD i e.empty) else l.getD j e.empty := by
  simp only [List.getD_eq_getElem?_getD, List.getElem?_modify]
  by_cases hji : j = i
  · subst hji
    by_cases hl : j < l.length
    · simp [hl, List.getElem?_eq_getElem hl]
    · simp [hl, List.getElem?_eq_none (Nat.le_of_not_lt hl)]
  · have : ¬ i = j := fun h => hji h.symm
    simp [hji, this]


/-- a stored sequence is on the absolute grid and does not reach back before time 0 -/
structure SeqOk (res : Int) (q : Seq) : Prop where
  aligned : q.hi % res = 0
  bound : (q.cells.length : Int) * res ≤ q.hi
  pos : 0 < q.hi

def SqOk (res : Int) : Sq → Prop
  | none => True
  | some q => SeqOk res q

theorem tdiv_nonneg_of {a b : Int} (ha : 0 ≤ a) (hb : 0 < b) : a.tdiv b = a / b :=
  Int.tdiv_eq_ediv_of_nonneg ha

theorem getD_append_replicate (e : Ex) (g : Nat) (cs : List (List Cell)) (i : Nat) :
    (List.replicate g e.empty ++ cs).getD i e.empty = if i < g then e.empty else cs.getD (i - g) e.empty := by
  rw [List.getD_eq_getElem?_getD]
  by_cases h : i < g
  · rw [List.getElem?_append_left (by simpa using h)]
    simp [h]
  · rw [List.getElem?_append_right (by simpa using Nat.le_of_not_lt h)]
    simp [h, List.getD_eq_getElem?_getD]

/-- Semantics of `UpdateValue` as the memstore uses it (truncateBefore = zero time): exactly the
    state of the point's period `roundUp ts res` is updated; every other period is untouched. -/
theorem sem_updateValue0 (x : Ext) (e : Ex) {res : Int} (h : 0 < res) (s : Sq) (hs : SqOk res s)
    (ts : Int) (hts : 0 < ts) (p : Pt) (T : Int) :
    (Sq.updateValue x e res s ts p 0).at e res T =
      if T = roundUp ts res then e.upd x (s.at e res T) p else s.at e res T := by
  have hr1 := roundUp_ge (t := ts) h
  have hrm := roundUp_mod (t := ts) h
  generalize hR : roundUp ts res = ts' at *
  have hpos : 0 < ts' := by omega
  unfold Sq.updateValue
  simp only [hR]
  cases s with
  | none =>
    simp only
    have htb : roundUntilUp 0 res ts' = 0 := by simp [roundUntilUp]
    simp only [htb]
    rw [if_neg (by omega)]
    rw [at_some, at_none]
    by_cases hT : T = ts'
    · subst hT; simp
    · simp only [hT, if_false]
      split
      · rename_i hc
        have hq : 0 < (ts' - T) / res := by
          have hx : ts' - T = res * ((ts' - T) / res) := by
            have := Int.mul_ediv_add_emod (ts' - T) res; omega
          have : 0 < ts' - T := by omega
          by_cases hz : (ts' - T) / res ≤ 0
          · exfalso
            have : res * ((ts' - T) / res) ≤ 0 := Int.mul_nonpos_of_nonneg_of_nonpos (Int.le_of_lt h) hz
            omega
          · omega
        have : ((ts' - T) / res).toNat ≠ 0 := by omega
        rw [List.getD_eq_getElem?_getD]
        cases hn : ((ts' - T) / res).toNat with
        | zero => exact absurd hn this
        | succ n => simp
      · rfl
  | some q =>
    obtain ⟨hal, hbd, hqp⟩ := hs
    have hne : (if q.hi = 0 then ts' else q.hi) = q.hi := if_neg (by omega)
    have htb : roundUntilUp 0 res q.hi = 0 := by simp [roundUntilUp]
    simp only [hne, htb]
    rw [if_neg (by omega)]
    -- the "fresh" branch is never taken
    have hd : (ts' - q.hi) % res = 0 := by rw [Int.sub_emod, hrm, hal]; simp
    have hgm : ¬ (q.hi < 0 ∨ (ts' - q.hi).tdiv res > (ts' - 0).tdiv res) := by
      intro hc
      cases hc with
      | inl h0 => omega
      | inr h1 =>
        rw [Int.sub_zero, tdiv_nonneg_of (Int.le_of_lt hpos) h] at h1
        by_cases hle : q.hi ≤ ts'
        · rw [tdiv_nonneg_of (by omega) h] at h1
          have : (ts' - q.hi) / res ≤ ts' / res := Int.ediv_le_ediv h (by omega)
          omega
        · have hneg : (ts' - q.hi).tdiv res ≤ 0 := by
            have : ts' - q.hi = -(q.hi - ts') := by omega
            rw [this, Int.neg_tdiv]
            have : 0 ≤ (q.hi - ts').tdiv res := Int.tdiv_nonneg (by omega) (Int.le_of_lt h)
            omega
          have : 0 ≤ ts' / res := Int.ediv_nonneg (Int.le_of_lt hpos) (Int.le_of_lt h)
          omega
    rw [if_neg hgm]
    have hx : ts' - q.hi = res * ((ts' - q.hi) / res) := by
      have := Int.mul_ediv_add_emod (ts' - q.hi) res; omega
    by_cases hgt : ts' > q.hi
    · -- prepend
      rw [if_pos hgt]
      rw [exact_tdiv h hd]
      have hmax : (ts' - 0).tdiv res = ts' / res := by
        rw [Int.sub_zero, tdiv_nonneg_of (Int.le_of_lt hpos) h]
      rw [hmax]
      generalize hg : (ts' - q.hi) / res = g at hx
      have hgpos : 0 < g := by
        by_cases hz : g ≤ 0
        · exfalso
          have : res * g ≤ 0 := Int.mul_nonpos_of_nonneg_of_nonpos (Int.le_of_lt h) hz
          omega
        · omega
      -- no truncation: the sequence does not reach back before time 0
      have hnot : ¬ ((q.cells.length : Int) + g > ts' / res) := by
        intro hc
        have : ts' / res * res ≤ ts' := Int.ediv_mul_le ts' (Int.ne_of_gt h)
        have h2 : ((q.cells.length : Int) + g) * res ≥ (ts' / res + 1) * res :=
          Int.mul_le_mul_of_nonneg_right (by omega) (Int.le_of_lt h)
        have h3 : ts' < (ts' / res + 1) * res := by
          have := Int.lt_ediv_add_one_mul_self ts' h
          simpa using this
        rw [Int.add_mul] at h2
        have : g * res = res * g := Int.mul_comm _ _
        omega
      simp only [hnot, if_false]
      have hnat : ((q.cells.length : Int) + g).toNat = g.toNat + q.cells.length := by omega
      have hfit : fit e ((q.cells.length : Int) + g).toNat
          (List.replicate g.toNat e.empty ++ List.take q.cells.length q.cells)
          = List.replicate g.toNat e.empty ++ q.cells := by
        unfold fit
        rw [List.take_length, hnat, List.take_of_length_le (by simp)]
        simp
      rw [hfit, at_some]
      unfold modifyAt
      rw [getD_modify', getD_append_replicate]
      by_cases hT : T = ts'
      · have hlt : q.hi < T := by omega
        have hsat : Sq.at (some q) e res T = e.empty := at_above e res q T hlt
        rw [hsat, hT]
        simp only [Int.sub_self, Int.zero_emod, Int.le_refl, and_self, if_true, Int.zero_ediv, Int.toNat_zero,
          List.length_append, List.length_replicate]
        have hg0 : 0 < g.toNat := by omega
        simp [hg0]
        intro hcontra; omega
      · simp only [hT, if_false]
        cases q with
        | mk qhi qcells =>
        simp only at hx hgt hal hbd hqp hd hnot hnat hfit ⊢
        rw [at_some]
        by_cases hc : (ts' - T) % res = 0 ∧ T ≤ ts'
        · obtain ⟨hm, hle⟩ := hc
          simp only [hm, hle, and_self, if_true]
          have hTx : ts' - T = res * ((ts' - T) / res) := by
            have := Int.mul_ediv_add_emod (ts' - T) res; omega
          generalize hi : (ts' - T) / res = i at hTx
          have hipos : 0 < i := by
            by_cases hz : i ≤ 0
            · exfalso
              have : res * i ≤ 0 := Int.mul_nonpos_of_nonneg_of_nonpos (Int.le_of_lt h) hz
              omega
            · omega
          have hne0 : ¬ (i.toNat = 0 ∧ 0 < (List.replicate g.toNat e.empty ++ qcells).length) := by omega
          rw [if_neg hne0]
          have hm2 : (qhi - T) % res = 0 := by
            have : qhi - T = (ts' - T) - (ts' - qhi) := by omega
            rw [this, Int.sub_emod, hm, hd]; simp
          simp only [hm2, true_and]
          rw [getD_append_replicate]
          by_cases hig : i.toNat < g.toNat
          · have : ¬ T ≤ qhi := by
              intro hle'
              have : res * i < res * g := Int.mul_lt_mul_of_pos_left (by omega) h
              omega
            rw [if_pos hig, if_neg this]
          · have hge : g ≤ i := by omega
            have hle' : T ≤ qhi := by
              have : res * g ≤ res * i := Int.mul_le_mul_of_nonneg_left hge (Int.le_of_lt h)
              omega
            have hq2 : (qhi - T) / res = i - g := by
              have : qhi - T = res * (i - g) := by rw [Int.mul_sub]; omega
              rw [this, Int.mul_ediv_cancel_left _ (Int.ne_of_gt h)]
            rw [if_neg hig, if_pos hle', hq2]
            have : i.toNat - g.toNat = (i - g).toNat := by omega
            rw [this]
        · simp only [hc, if_false]
          have : ¬ ((qhi - T) % res = 0 ∧ T ≤ qhi) := by
            intro ⟨hm2, hle'⟩
            apply hc
            constructor
            · have : ts' - T = (qhi - T) + (ts' - qhi) := by omega
              rw [this, Int.add_emod, hm2, hd]; simp
            · omega
          simp [this]
    · -- update in place (growing the sequence towards the past if needed)
      rw [if_neg hgt]
      have hd' : (q.hi - ts') % res = 0 := by
        rw [Int.sub_emod, hal, hrm]; simp
      rw [exact_tdiv h hd']
      have hx' : q.hi - ts' = res * ((q.hi - ts') / res) := by
        have := Int.mul_ediv_add_emod (q.hi - ts') res; omega
      generalize hk : (q.hi - ts') / res = k at hx'
      have hk0 : 0 ≤ k := by
        by_cases hz : k < 0
        · exfalso
          have : res * k < 0 := Int.mul_neg_of_pos_of_neg h hz
          omega
        · omega
      cases q with
      | mk qhi qcells =>
      simp only at hx' hgt hal hbd hqp hd hd' ⊢
      -- the (possibly grown) body reads like the original cells
      have hbody : ∀ j, (if k.toNat + 1 > qcells.length then fit e (k.toNat + 1) qcells else qcells).getD j e.empty
          = qcells.getD j e.empty := by
        intro j
        split
        · rename_i hgrow
          rw [getD_fit]
          split
          · rfl
          · exact (getD_ge e qcells j (by omega)).symm
        · rfl
      have hlen : k.toNat < (if k.toNat + 1 > qcells.length then fit e (k.toNat + 1) qcells else qcells).length := by
        split
        · unfold fit; simp; omega
        · omega
      rw [at_some, at_some]
      unfold modifyAt
      by_cases hc : (qhi - T) % res = 0 ∧ T ≤ qhi
      · obtain ⟨hm, hle⟩ := hc
        simp only [hm, hle, and_self, if_true]
        rw [getD_modify', hbody, hbody]
        have hTx : qhi - T = res * ((qhi - T) / res) := by
          have := Int.mul_ediv_add_emod (qhi - T) res; omega
        generalize hi : (qhi - T) / res = i at hTx
        have hi0 : 0 ≤ i := by
          by_cases hz : i < 0
          · exfalso
            have : res * i < 0 := Int.mul_neg_of_pos_of_neg h hz
            omega
          · omega
        by_cases hT : T = ts'
        · have hik : i = k := by
            have : res * i = res * k := by omega
            exact Int.eq_of_mul_eq_mul_left (Int.ne_of_gt h) this
          simp only [hT, if_true]
          rw [if_pos ⟨by omega, hlen⟩]
          rw [hik]
        · have hik : ¬ i.toNat = k.toNat := by
            intro heq
            have : i = k := by omega
            rw [this] at hTx
            omega
          simp only [hT, if_false]
          rw [if_neg (fun hh => hik hh.1)]
      · simp only [hc, if_false]
        have hT : ¬ T = ts' := by
          intro heq
          apply hc
          rw [heq]
          exact ⟨hd', by omega⟩
        simp [hT]


def SqWF (e : Ex) : Sq → Prop
  | none => True
  | some q => CellsWF e q.cells

theorem cellsWF_replicate (e : Ex) (n : Nat) : CellsWF e (List.replicate n e.empty) := by
  intro c hc
  rw [List.mem_replicate] at hc
  rw [hc.2]; exact wf_empty e

theorem cellsWF_append {e : Ex} {a b : List (List Cell)} (ha : CellsWF e a) (hb : CellsWF e b) :
    CellsWF e (a ++ b) := by
  intro c hc
  rw [List.mem_append] at hc
  cases hc with
  | inl h => exact ha c h
  | inr h => exact hb c h

theorem cellsWF_fit {e : Ex} {cs : List (List Cell)} (h : CellsWF e cs) (n : Nat) : CellsWF e (fit e n cs) := by
  unfold fit
  apply cellsWF_append
  · intro c hc; exact h c (List.mem_of_mem_take hc)
  · exact cellsWF_replicate e _

theorem cellsWF_modify {e : Ex} {cs : List (List Cell)} (h : CellsWF e cs) (i : Nat)
    (f : List Cell → List Cell) (hf : ∀ c, WF e c → WF e (f c)) : CellsWF e (cs.modify i f) := by
  intro c hc
  obtain ⟨j, hj, rfl⟩ := List.getElem_of_mem hc
  rw [List.getElem_modify]
  split
  · exact hf _ (h _ (List.getElem_mem _))
  · exact h _ (List.getElem_mem _)

/-- `UpdateValue` (memstore form) keeps sequences on the grid, inside time, with well-formed
    states -/
theorem updateValue0_inv (x : Ext) {e : Ex} (hv : e.valid = true) (hp : e.noPtile = true)
    {res : Int} (h : 0 < res) (s : Sq) (hs : SqOk res s) (hw : SqWF e s)
    (ts : Int) (hts : 0 < ts) (p : Pt) :
    SqOk res (Sq.updateValue x e res s ts p 0) ∧ SqWF e (Sq.updateValue x e res s ts p 0) := by
  have hr1 := roundUp_ge (t := ts) h
  have hrm := roundUp_mod (t := ts) h
  generalize hR : roundUp ts res = ts' at *
  have hpos : 0 < ts' := by omega
  have hge : res ≤ ts' := by
    have hx : ts' = res * (ts' / res) := by have := Int.mul_ediv_add_emod ts' res; omega
    by_cases hz : ts' / res ≤ 0
    · exfalso
      have : res * (ts' / res) ≤ 0 := Int.mul_nonpos_of_nonneg_of_nonpos (Int.le_of_lt h) hz
      omega
    · have : res * 1 ≤ res * (ts' / res) := Int.mul_le_mul_of_nonneg_left (by omega) (Int.le_of_lt h)
      omega
  have hupd : ∀ c, WF e c → WF e (e.upd x c p) := fun c hc => upd_wf x hv hp hc p
  unfold Sq.updateValue
  simp only [hR]
  cases s with
  | none =>
    have htb : roundUntilUp 0 res ts' = 0 := by simp [roundUntilUp]
    simp only [htb]
    rw [if_neg (by omega)]
    constructor
    · exact ⟨hrm, by simp; omega, hpos⟩
    · intro c hc
      simp at hc
      rw [hc]; exact hupd _ (wf_empty e)
  | some q =>
    obtain ⟨hal, hbd, hqp⟩ := hs
    have hne : (if q.hi = 0 then ts' else q.hi) = q.hi := if_neg (by omega)
    have htb : roundUntilUp 0 res q.hi = 0 := by simp [roundUntilUp]
    simp only [hne, htb]
    rw [if_neg (by omega)]
    have hd : (ts' - q.hi) % res = 0 := by rw [Int.sub_emod, hrm, hal]; simp
    have hgm : ¬ (q.hi < 0 ∨ (ts' - q.hi).tdiv res > (ts' - 0).tdiv res) := by
      intro hc
      cases hc with
      | inl h0 => omega
      | inr h1 =>
        rw [Int.sub_zero, tdiv_nonneg_of (Int.le_of_lt hpos) h] at h1
        by_cases hle : q.hi ≤ ts'
        · rw [tdiv_nonneg_of (by omega) h] at h1
          have : (ts' - q.hi) / res ≤ ts' / res := Int.ediv_le_ediv h (by omega)
          omega
        · have hneg : (ts' - q.hi).tdiv res ≤ 0 := by
            have : ts' - q.hi = -(q.hi - ts') := by omega
            rw [this, Int.neg_tdiv]
            have : 0 ≤ (q.hi - ts').tdiv res := Int.tdiv_nonneg (by omega) (Int.le_of_lt h)
            omega
          have : 0 ≤ ts' / res := Int.ediv_nonneg (Int.le_of_lt hpos) (Int.le_of_lt h)
          omega
    rw [if_neg hgm]
    by_cases hgt : ts' > q.hi
    · rw [if_pos hgt, exact_tdiv h hd]
      have hx : ts' - q.hi = res * ((ts' - q.hi) / res) := by
        have := Int.mul_ediv_add_emod (ts' - q.hi) res; omega
      have hmax : (ts' - 0).tdiv res = ts' / res := by
        rw [Int.sub_zero, tdiv_nonneg_of (Int.le_of_lt hpos) h]
      rw [hmax]
      generalize hg : (ts' - q.hi) / res = g at hx
      have hgpos : 0 < g := by
        by_cases hz : g ≤ 0
        · exfalso
          have : res * g ≤ 0 := Int.mul_nonpos_of_nonneg_of_nonpos (Int.le_of_lt h) hz
          omega
        · omega
      have hnot : ¬ ((q.cells.length : Int) + g > ts' / res) := by
        intro hc
        have h2 : ((q.cells.length : Int) + g) * res ≥ (ts' / res + 1) * res :=
          Int.mul_le_mul_of_nonneg_right (by omega) (Int.le_of_lt h)
        have h3 : ts' < (ts' / res + 1) * res := by
          have := Int.lt_ediv_add_one_mul_self ts' h
          simpa using this
        rw [Int.add_mul] at h2
        have : g * res = res * g := Int.mul_comm _ _
        omega
      simp only [hnot, if_false]
      have hnat : ((q.cells.length : Int) + g).toNat = g.toNat + q.cells.length := by omega
      have hfit : fit e ((q.cells.length : Int) + g).toNat
          (List.replicate g.toNat e.empty ++ List.take q.cells.length q.cells)
          = List.replicate g.toNat e.empty ++ q.cells := by
        unfold fit
        rw [List.take_length, hnat, List.take_of_length_le (by simp)]
        simp
      rw [hfit]
      unfold modifyAt
      constructor
      · refine ⟨hrm, ?_, hpos⟩
        simp only [List.length_modify, List.length_append, List.length_replicate]
        have hgn : (g.toNat : Int) = g := Int.toNat_of_nonneg (by omega)
        have : ((g.toNat + q.cells.length : Nat) : Int) * res = g * res + (q.cells.length : Int) * res := by
          rw [Int.natCast_add, hgn, Int.add_mul]
        rw [this]
        have : g * res = res * g := Int.mul_comm _ _
        omega
      · exact cellsWF_modify (cellsWF_append (cellsWF_replicate e _) hw) 0 _ hupd
    · rw [if_neg hgt]
      have hd' : (q.hi - ts') % res = 0 := by
        rw [Int.sub_emod, hal, hrm]; simp
      rw [exact_tdiv h hd']
      have hx' : q.hi - ts' = res * ((q.hi - ts') / res) := by
        have := Int.mul_ediv_add_emod (q.hi - ts') res; omega
      generalize hk : (q.hi - ts') / res = k at hx'
      have hk0 : 0 ≤ k := by
        by_cases hz : k < 0
        · exfalso
          have : res * k < 0 := Int.mul_neg_of_pos_of_neg h hz
          omega
        · omega
      unfold modifyAt
      constructor
      · refine ⟨hal, ?_, hqp⟩
        simp only [List.length_modify]
        split
        · unfold fit
          simp only [List.length_append, List.length_take, List.length_replicate]
          have hkn : (k.toNat : Int) = k := Int.toNat_of_nonneg hk0
          have hl : min (k.toNat + 1) q.cells.length + (k.toNat + 1 - q.cells.length) = k.toNat + 1 := by omega
          rw [hl, Int.natCast_add, hkn, Int.add_mul]
          have : k * res = res * k := Int.mul_comm _ _
          simp
          omega
        · exact hbd
      · apply cellsWF_modify _ _ _ hupd
        split
        · exact cellsWF_fit hw _
        · exact hw

end Zeno
