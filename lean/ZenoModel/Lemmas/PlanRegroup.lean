/-
C11 helper lemmas, non-pushdown side: partitions pre-aggregate by the params of the GROUP BY
expressions (+ crosstab value + period), the leader re-groups by the query's GROUP BY and
merges the states; the merged state of every output group equals the state of the group
computed directly over all rows (merge homomorphism + regrouping fine → coarse composes).
-/
import ZenoModel.Lemmas.PlanSplit

namespace Zeno.PlanLemmas
open Zeno Zeno.Plan

/-- hypotheses of the non-pushdown equivalence on one SELECT -/
structure NPWF (q : Query) : Prop where
  /-- the field expressions are valid and PERCENTILE-free (C05's hypotheses) -/
  fieldsOK : ∀ f ∈ bfields q, f.2.valid = true ∧ f.2.noPtile = true
  /-- GROUP BY expressions read the key through their params only -/
  gbLocal : ∀ g ∈ q.by_, GBLocal g
  /-- no dimension is called `_crosstab` -/
  noCtabParam : "_crosstab" ∉ paramDims q

/-! ### the partition-side key determines the query's group -/

theorem rewriteAst_names (q : Query) (h : "_crosstab" ∉ paramDims q) :
    ((rewriteAst q).by_.map (·.name)).Nodup := by
  have hd : (paramDims q).Nodup := nodup_dedup _
  have e1 : ((paramDims q).map dimGB).map (·.name) = paramDims q := by
    rw [List.map_map]
    conv => rhs; rw [← List.map_id (paramDims q)]
    apply List.map_congr_left
    intro p _; rfl
  simp only [rewriteAst, List.map_append, e1]
  cases hc : q.ctab with
  | none => simpa using hd
  | some ct =>
    simp only [List.map_cons, List.map_nil, ctabGB]
    rw [List.nodup_append]
    refine ⟨hd, by simp, ?_⟩
    intro a ha b hb
    simp only [List.mem_singleton] at hb
    subst hb
    intro e
    exact h (e ▸ ha)

theorem fine_get_param {q : Query} (h : "_crosstab" ∉ paramDims q) {p : String}
    (hp : p ∈ paramDims q) (k : DKey) : (sliceKey (rewriteAst q) k).get p = k.get p := by
  have hmem : dimGB p ∈ (rewriteAst q).by_ := by
    simp only [rewriteAst, List.mem_append, List.mem_map]
    exact Or.inl ⟨p, hp, rfl⟩
  have hne : (rewriteAst q).by_ ≠ [] := List.ne_nil_of_mem hmem
  exact sliceKey_get hne (rewriteAst_names q h) hmem k

theorem fine_get_ctab {q : Query} (h : "_crosstab" ∉ paramDims q) {ct : DKey → String}
    (hc : q.ctab = some ct) (k : DKey) :
    (sliceKey (rewriteAst q) k).get "_crosstab" = some (.str (ct k)) := by
  have hmem : ctabGB ct ∈ (rewriteAst q).by_ := by
    simp [rewriteAst, hc]
  have hne : (rewriteAst q).by_ ≠ [] := List.ne_nil_of_mem hmem
  exact sliceKey_get hne (rewriteAst_names q h) hmem k

theorem ctabOf_fine {q : Query} (h : "_crosstab" ∉ paramDims q) {ct : DKey → String}
    (hc : q.ctab = some ct) (k : DKey) : ctabOf (sliceKey (rewriteAst q) k) = ct k := by
  simp [ctabOf, fine_get_ctab h hc k]

theorem leaderKey_fine {q : Query} (hq : NPWF q) (k : DKey) :
    leaderKey q (sliceKey (rewriteAst q) k) = sliceKey q k := by
  by_cases hb : q.by_ = []
  · have hp : paramDims q = [] := by simp [paramDims, hb, dedup]
    cases hc : q.ctab with
    | none =>
      simp [leaderKey, sliceKey, rewriteAst, hb, hc, hp]
    | some ct =>
      simp [leaderKey, sliceKey, rewriteAst, hb, hc, hp, ctabGB]
  · have hemp : q.by_.isEmpty = false := by
      cases h : q.by_ with
      | nil => exact absurd h hb
      | cons _ _ => rfl
    simp only [leaderKey, hemp, Bool.false_eq_true, if_false]
    conv => rhs; simp only [sliceKey, hemp, Bool.false_eq_true, if_false]
    apply filterMap_congr'
    intro g hg
    have : g.eval (sliceKey (rewriteAst q) k) = g.eval k := by
      apply hq.gbLocal g hg
      intro p hp
      apply fine_get_param hq.noCtabParam _ k
      exact (mem_dedup p _).mpr (List.mem_flatMap.mpr ⟨g, hg, hp⟩)
    rw [this]

theorem admits_rewrite (q : Query) (s : Src) : admits (rewriteAst q) s = admits q s := rfl
theorem toPt_rewrite (q : Query) : toPt (rewriteAst q) = toPt q := rfl

/-- leader-side group of the partition-side group of a row = the row's group in the query -/
theorem cid_fine {q : Query} (hq : NPWF q) (s : Src) (r : PRow) :
    (leaderKey q (gid (rewriteAst q) s r).1, (gid (rewriteAst q) s r).2) = gid q s r := by
  simp only [gid]
  rw [leaderKey_fine hq]
  rfl

/-! ### states -/

variable (x : Ext)

/-- leader-side selection of a partition-side group for a column -/
def selF (sel : Option String) (F : DKey × Int) : Bool :=
  match sel with
  | some v => ctabOf F.1 == v
  | none => true

theorem selF_fine {q : Query} (hq : NPWF q) (s : Src) (sel : Option String)
    (hsel : sel = none ∨ q.ctab.isSome = true) (r : PRow) :
    selF sel (gid (rewriteAst q) s r) = selR q sel r := by
  cases sel with
  | none => simp [selF, selR]
  | some v =>
    rcases hsel with h | h
    · cases h
    · cases hc : q.ctab with
      | none => simp [hc] at h
      | some ct =>
        simp only [selF, selR, hc, gid]
        rw [ctabOf_fine hq.noCtabParam hc]

/-- the partition rows of one partition that fall into output group `G` and column
    selection `sel`, as produced by `runStates` -/
theorem part_contribution {q : Query} (hq : NPWF q) (s : Src) (G : DKey × Int)
    (sel : Option String) (hsel : sel = none ∨ q.ctab.isSome = true) (P' : List PRow) :
    (((dedup (P'.map (gid (rewriteAst q) s))).filter
        (fun F => (leaderKey q F.1, F.2) == G && selF sel F)).flatMap
        (fun F => (P'.filter (fun r => gid (rewriteAst q) s r == F)).map (toPt q))).Perm
      (((P'.filter (fun r => gid q s r == G)).filter (selR q sel)).map (toPt q)) := by
  have hn : ((dedup (P'.map (gid (rewriteAst q) s))).filter
      (fun F => (leaderKey q F.1, F.2) == G && selF sel F)).Nodup :=
    List.Pairwise.filter _ (nodup_dedup _)
  have h1 := flatMap_filter_perm (gid (rewriteAst q) s) _ hn P'
  have key : (((dedup (P'.map (gid (rewriteAst q) s))).filter
        (fun F => (leaderKey q F.1, F.2) == G && selF sel F)).flatMap
        (fun F => P'.filter (fun r => gid (rewriteAst q) s r == F))).Perm
      ((P'.filter (fun r => gid q s r == G)).filter (selR q sel)) := by
    refine h1.trans (List.Perm.of_eq ?_)
    rw [List.filter_filter]
    apply List.filter_congr
    intro r hr
    have hmem : gid (rewriteAst q) s r ∈ dedup (P'.map (gid (rewriteAst q) s)) :=
      (mem_dedup _ _).mpr (List.mem_map_of_mem hr)
    have e1 : (leaderKey q (gid (rewriteAst q) s r).1, (gid (rewriteAst q) s r).2) = gid q s r :=
      cid_fine hq s r
    have e2 : selF sel (gid (rewriteAst q) s r) = selR q sel r := selF_fine hq s sel hsel r
    simp only [List.contains_eq_mem, List.mem_filter, hmem, true_and, e1, e2]
    by_cases hg : gid q s r = G <;> simp [hg]
  have h3 := key.map (toPt q)
  rw [List.map_flatMap] at h3
  exact h3

/-- what `runStates` hands the leader for group `G` / selection `sel`, partition by partition -/
theorem leader_members {q : Query} (s : Src) (G : DKey × Int) (sel : Option String)
    (e : Ex) (parts : List (List PRow)) :
    (((parts.flatMap (runStates x (rewriteAst q) s)).filter (fun m => cid q m == G)).filter
        (selS sel)).map (fun m => m.st e) =
      (parts.flatMap (fun P =>
        ((dedup ((P.filter (admits q s)).map (gid (rewriteAst q) s))).filter
            (fun F => (leaderKey q F.1, F.2) == G && selF sel F)).map
          (fun F => ((P.filter (admits q s)).filter
            (fun r => gid (rewriteAst q) s r == F)).map (toPt q)))).map (fun ps => e.acc x ps) := by
  induction parts with
  | nil => simp
  | cons P rest ih =>
    simp only [List.flatMap_cons, List.filter_append, List.map_append, ih]
    congr 1
    simp only [runStates, admits_rewrite, toPt_rewrite, List.filter_map, List.map_map,
      List.filter_filter]
    congr 1
    apply List.filter_congr
    intro F _
    simp only [Function.comp, cid, selS, selF]
    cases sel <;> simp [Bool.and_comm]

theorem flatten_flatMap_map {α β γ : Type} (l : List α) (f : α → List β) (g : α → β → List γ) :
    (l.flatMap (fun a => (f a).map (g a))).flatten = l.flatMap (fun a => (f a).flatMap (g a)) := by
  induction l with
  | nil => simp
  | cons a l ih =>
    simp only [List.flatMap_cons, List.flatten_append, ih]
    rfl

/-- the merged state on the leader = the state accumulated over all rows of the group -/
theorem leaderState_eq {q : Query} (hq : NPWF q) (s : Src) (G : DKey × Int)
    (sel : Option String) (hsel : sel = none ∨ q.ctab.isSome = true)
    {e : Ex} (hv : e.valid = true) (hp : e.noPtile = true) (parts : List (List PRow)) :
    leaderState e sel ((parts.flatMap (runStates x (rewriteAst q) s)).filter (fun m => cid q m == G)) =
      e.acc x ((((parts.flatten.filter (admits q s)).filter (fun r => gid q s r == G)).filter
        (selR q sel)).map (toPt q)) := by
  unfold leaderState
  rw [leader_members x s G sel e parts, foldl_mrg_acc_empty x hv hp]
  apply acc_perm x hv hp
  rw [flatten_flatMap_map]
  refine (flatMap_perm_congr parts _ _
    (fun P _ => part_contribution hq s G sel hsel (P.filter (admits q s)))).trans ?_
  apply List.Perm.of_eq
  induction parts with
  | nil => simp
  | cons P rest ih =>
    simp only [List.flatMap_cons, List.flatten_cons, List.filter_append, List.map_append, ih]

/-! ### groups -/

theorem leader_ids_mem {q : Query} (hq : NPWF q) (s : Src) (parts : List (List PRow))
    (G : DKey × Int) :
    G ∈ (parts.flatMap (runStates x (rewriteAst q) s)).map (cid q) ↔
      G ∈ (parts.flatten.filter (admits q s)).map (gid q s) := by
  simp only [List.mem_map, List.mem_flatMap, List.mem_filter, List.mem_flatten]
  constructor
  · rintro ⟨m, ⟨P, hP, hm⟩, rfl⟩
    simp only [runStates, List.mem_map] at hm
    obtain ⟨F, hF, rfl⟩ := hm
    obtain ⟨r, hr, rfl⟩ := List.mem_map.mp ((mem_dedup F _).mp hF)
    rw [admits_rewrite] at hr
    refine ⟨r, ⟨⟨P, hP, (List.mem_filter.mp hr).1⟩, (List.mem_filter.mp hr).2⟩, ?_⟩
    exact (cid_fine hq s r).symm
  · rintro ⟨r, ⟨⟨P, hP, hr⟩, ha⟩, rfl⟩
    have hF : gid (rewriteAst q) s r ∈
        dedup ((P.filter (admits (rewriteAst q) s)).map (gid (rewriteAst q) s)) := by
      refine (mem_dedup _ _).mpr (List.mem_map_of_mem ?_)
      rw [admits_rewrite]
      exact List.mem_filter.mpr ⟨hr, ha⟩
    simp only [runStates]
    exact ⟨_, ⟨P, hP, List.mem_map_of_mem hF⟩, cid_fine hq s r⟩

theorem mkRow_congr (q : Query) (cv : List String) (g : DKey × Int)
    (stf₁ stf₂ : Ex → Option String → List Cell)
    (h : ∀ f ∈ xfields q cv, stf₁ f.ex f.sel = stf₂ f.ex f.sel) :
    mkRow x q cv g stf₁ = mkRow x q cv g stf₂ := by
  unfold mkRow
  have : (xfields q cv).map (fun f => f.ex.val x (stf₁ f.ex f.sel)) =
      (xfields q cv).map (fun f => f.ex.val x (stf₂ f.ex f.sel)) := by
    apply List.map_congr_left
    intro f hf
    rw [h f hf]
  simp only [this]

/-- every output column's expression is one of the base fields, and a column is restricted
    to a crosstab value only when the query has a CROSSTAB -/
theorem xfields_spec (q : Query) (cv : List String) (f : XField) (hf : f ∈ xfields q cv) :
    (∃ b ∈ bfields q, b.2 = f.ex) ∧ (f.sel = none ∨ q.ctab.isSome = true) := by
  unfold xfields at hf
  unfold bfields
  cases hc : q.ctab with
  | none =>
    simp only [hc, List.mem_append, List.mem_map] at hf
    rcases hf with ⟨b, hb, rfl⟩ | hh
    · exact ⟨⟨b, by simp [hb], rfl⟩, Or.inl rfl⟩
    · cases hh' : q.having with
      | none => simp [hh'] at hh
      | some hx =>
        simp only [hh', List.mem_singleton] at hh
        subst hh
        exact ⟨⟨("_having", hx), by simp, rfl⟩, Or.inl rfl⟩
  | some ct =>
    simp only [hc, List.mem_append, List.mem_flatMap, List.mem_map] at hf
    refine ⟨?_, Or.inr rfl⟩
    rcases hf with (⟨v, _, b, hb, rfl⟩ | ht) | hh
    · exact ⟨b, by simp [hb], rfl⟩
    · split at ht
      · obtain ⟨b, hb, rfl⟩ := List.mem_map.mp ht
        exact ⟨b, by simp [hb], rfl⟩
      · cases ht
    · cases hh' : q.having with
      | none => simp [hh'] at hh
      | some hx =>
        simp only [hh', List.mem_singleton] at hh
        subst hh
        exact ⟨("_having", hx), by simp, rfl⟩

/-- rows computed by the leader from the partitions' states = rows of the local plan, up to
    the order in which groups are listed -/
theorem leaderPre_perm {q : Query} (hq : NPWF q) (s : Src) (cv : List String)
    (parts : List (List PRow)) :
    (leaderPre x q cv (parts.flatMap (runStates x (rewriteAst q) s))).Perm
      (runPre x q s cv parts.flatten) := by
  unfold leaderPre runPre
  have hids : (dedup ((parts.flatMap (runStates x (rewriteAst q) s)).map (cid q))).Perm
      (dedup ((parts.flatten.filter (admits q s)).map (gid q s))) := by
    apply (List.perm_ext_iff_of_nodup (nodup_dedup _) (nodup_dedup _)).mpr
    intro G
    rw [mem_dedup, mem_dedup]
    exact leader_ids_mem x hq s parts G
  refine List.Perm.trans ?_ (hids.filterMap _)
  apply List.Perm.of_eq
  apply filterMap_congr'
  intro G _
  apply mkRow_congr
  intro f hf
  obtain ⟨⟨b, hb, hbe⟩, hsel⟩ := xfields_spec q cv f hf
  have hok := hq.fieldsOK b hb
  rw [hbe] at hok
  exact leaderState_eq x hq s G f.sel hsel hok.1 hok.2 parts

/-- the leader sees the same crosstab values as the local plan -/
theorem leader_ctab_values {q : Query} (hq : NPWF q) (s : Src) (parts : List (List PRow))
    (v : String) :
    v ∈ leaderCtabValues q (parts.flatMap (runStates x (rewriteAst q) s)) ↔
      v ∈ ctabValues q s parts.flatten := by
  unfold leaderCtabValues ctabValues
  cases hc : q.ctab with
  | none => simp
  | some ct =>
    simp only [mem_dedup, List.mem_map, List.mem_flatMap, List.mem_filter, List.mem_flatten]
    constructor
    · rintro ⟨m, ⟨P, hP, hm⟩, rfl⟩
      simp only [runStates, List.mem_map] at hm
      obtain ⟨F, hF, rfl⟩ := hm
      obtain ⟨r, hr, rfl⟩ := List.mem_map.mp ((mem_dedup F _).mp hF)
      rw [admits_rewrite] at hr
      refine ⟨r, ⟨⟨P, hP, (List.mem_filter.mp hr).1⟩, (List.mem_filter.mp hr).2⟩, ?_⟩
      simp only [gid]
      exact (ctabOf_fine hq.noCtabParam hc r.key).symm
    · rintro ⟨r, ⟨⟨P, hP, hr⟩, ha⟩, rfl⟩
      have hF : gid (rewriteAst q) s r ∈
          dedup ((P.filter (admits (rewriteAst q) s)).map (gid (rewriteAst q) s)) := by
        refine (mem_dedup _ _).mpr (List.mem_map_of_mem ?_)
        rw [admits_rewrite]
        exact List.mem_filter.mpr ⟨hr, ha⟩
      simp only [runStates]
      refine ⟨_, ⟨P, hP, List.mem_map_of_mem hF⟩, ?_⟩
      simp only [gid]
      exact ctabOf_fine hq.noCtabParam hc r.key

end Zeno.PlanLemmas
