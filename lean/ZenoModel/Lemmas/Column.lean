/-
Refinement of the one-column store model to its raw-point spec: invariant `ColInv`,
its preservation by every operation (`colInv_step`) and the lift to whole scripts.
-/
import ZenoModel.Lemmas.SeqInv
import ZenoModel.Model.Column
set_option linter.unusedSimpArgs false
namespace Zeno

/-- `T` is a period end on the absolute grid that has not expired at clock `now` -/
def Live (cfg : ColCfg) (now T : Int) : Prop := T % cfg.res = 0 ∧ T > now - cfg.retention

theorem sqAt_wf {e : Ex} {s : Sq} (hw : SqWF e s) (res T : Int) : WF e (s.at e res T) := by
  cases s with
  | none => exact wf_empty e
  | some q => exact at_wf hw res T

/-- the rounded truncation bound of a merge never exceeds a live grid point -/
theorem roundUntilUp_le_live {res tb hi T : Int} (h : 0 < res) (hhi : hi % res = 0) (hpos : 0 < hi)
    (hT : T % res = 0) (hgt : T > tb) (hT0 : 0 < T) : roundUntilUp tb res hi ≤ T := by
  by_cases htb : tb = 0
  · simp [roundUntilUp, htb]; omega
  · obtain ⟨hg, hge, hlt⟩ := roundUntilUp_spec (t := tb) (hi := hi) h htb (by omega)
    by_cases hc : roundUntilUp tb res hi ≤ T
    · exact hc
    · exfalso
      generalize roundUntilUp tb res hi = r at *
      have hm : (r - T) % res = 0 := by
        have : r - T = (hi - T) - (hi - r) := by omega
        rw [this, Int.sub_emod, hg]
        have : (hi - T) % res = 0 := by rw [Int.sub_emod, hhi, hT]; simp
        rw [this]; simp
      have hx : r - T = res * ((r - T) / res) := by
        have := Int.mul_ediv_add_emod (r - T) res; omega
      have hq : 1 ≤ (r - T) / res := by
        by_cases hz : (r - T) / res ≤ 0
        · exfalso
          have : res * ((r - T) / res) ≤ 0 := Int.mul_nonpos_of_nonneg_of_nonpos (Int.le_of_lt h) hz
          omega
        · omega
      have : res * 1 ≤ res * ((r - T) / res) := Int.mul_le_mul_of_nonneg_left hq (Int.le_of_lt h)
      omega

/-- on live periods, a memstore-inclusive scan hands out the merge of the file state and the
    memstore state -/
theorem view_at {e : Ex} (hv : e.valid = true) (hp : e.noPtile = true) {res : Int} (h : 0 < res)
    (file mem : Sq) (hf : SqOk res file) (hm : SqOk res mem) (wf : SqWF e file) (wm : SqWF e mem)
    (tb T : Int) (hT : T % res = 0) (hgt : T > tb) (hT0 : 0 < T) :
    (Sq.merge e res file mem tb).at e res T = e.mrg (file.at e res T) (mem.at e res T) := by
  cases file with
  | none =>
    cases mem with
    | none => simp [Sq.merge, at_none, mrg_empty_empty hv hp]
    | some m =>
      simp only [Sq.merge, at_none]
      exact (mrg_empty_left hv hp (at_wf wm res T)).symm
  | some f =>
    cases mem with
    | none =>
      simp only [Sq.merge, at_none]
      exact (mrg_empty_right hv hp (at_wf wf res T)).symm
    | some m =>
      have hal : (f.hi - m.hi) % res = 0 := by rw [Int.sub_emod, hf.aligned, hm.aligned]; simp
      apply sem_merge hv hp h f m wf wm hal tb T
      by_cases hmx : f.hi ≤ m.hi
      · rw [Int.max_eq_right hmx]
        exact roundUntilUp_le_live h hm.aligned hm.pos hT hgt hT0
      · rw [Int.max_eq_left (by omega)]
        exact roundUntilUp_le_live h hf.aligned hf.pos hT hgt hT0

/-- truncating to the retention window keeps every live period as it is -/
theorem truncate_live (e : Ex) {res : Int} (h : 0 < res) (s : Sq) (tb T : Int) (hgt : T > tb) :
    (Sq.truncate s res tb 0).at e res T = s.at e res T := by
  cases s with
  | none => rfl
  | some q =>
    rw [sem_truncate e h q tb 0 T]
    have h0 : roundUntilDown 0 res q.hi = 0 := by simp [roundUntilDown]
    have ha : roundUntilDown tb res q.hi = 0 ∨ roundUntilDown tb res q.hi < T := by
      by_cases htb : tb = 0
      · left; simp [roundUntilDown, htb]
      · by_cases hq : q.hi = 0
        · right
          have : roundUntilDown tb res q.hi = roundDown tb res := by simp [roundUntilDown, htb, hq]
          rw [this]
          have := roundDown_le (t := tb) h
          omega
        · right
          have := (roundUntilDown_spec (t := tb) (hi := q.hi) h htb hq).2.1
          omega
    simp [h0, ha]

/-- the invariant tying a column's state to its spec -/
structure ColInv (x : Ext) (cfg : ColCfg) (c : Col) (s : ColSpec) : Prop where
  now_eq : c.now = s.now
  now_nonneg : 0 ≤ c.now
  fileOk : SqOk cfg.res c.file
  memOk : SqOk cfg.res c.mem
  fileWF : SqWF cfg.e c.file
  memWF : SqWF cfg.e c.mem
  specWF : ∀ T, WF cfg.e (s.cells T)
  agree : ∀ T, Live cfg c.now T → 0 < T →
    cfg.e.mrg (c.file.at cfg.e cfg.res T) (c.mem.at cfg.e cfg.res T) = s.cells T

/-- every timestamp in the script is after time 0 (Go's zero `time.Time`) -/
def OpsPos : List ColOp → Prop
  | [] => True
  | .ingest ts _ :: r => 0 < ts ∧ OpsPos r
  | .tick ts :: r => 0 < ts ∧ OpsPos r
  | .late _ :: r => OpsPos r
  | .flush _ :: r => OpsPos r

theorem colInv_init (x : Ext) (cfg : ColCfg) (hv : cfg.e.valid = true) (hp : cfg.e.noPtile = true) :
    ColInv x cfg {} (ColSpec.init cfg) := by
  refine ⟨rfl, Int.le_refl 0, trivial, trivial, trivial, trivial, fun _ => wf_empty _, ?_⟩
  intro T _ _
  simp [Sq.at, ColSpec.init, mrg_empty_empty hv hp]

theorem colInv_step (x : Ext) (cfg : ColCfg) (hv : cfg.e.valid = true) (hp : cfg.e.noPtile = true)
    (hres : 0 < cfg.res) (c : Col) (s : ColSpec) (inv : ColInv x cfg c s) (op : ColOp)
    (hop : OpsPos [op]) : ColInv x cfg (c.step x cfg op) (s.step x cfg op) := by
  obtain ⟨hnow, hnn, fOk, mOk, fWF, mWF, sWF, agree⟩ := inv
  cases op with
  | late ts => exact ⟨hnow, hnn, fOk, mOk, fWF, mWF, sWF, agree⟩
  | tick ts =>
    simp only [Col.step, ColSpec.step, ← hnow]
    split
    · refine ⟨by simp [hnow], by simp; omega, fOk, mOk, fWF, mWF, sWF, ?_⟩
      intro T hl hT0
      apply agree T _ hT0
      exact ⟨hl.1, by have := hl.2; simp at this; omega⟩
    · exact ⟨hnow, hnn, fOk, mOk, fWF, mWF, sWF, agree⟩
  | ingest ts pt =>
    have hts : 0 < ts := hop.1
    simp only [Col.step, ColSpec.step, ← hnow]
    split
    · obtain ⟨mOk', mWF'⟩ := updateValue0_inv x hv hp hres c.mem mOk mWF ts hts pt
      refine ⟨by simp [hnow], by simp; omega, fOk, mOk', fWF, mWF', ?_, ?_⟩
      · intro T
        simp only
        split
        · exact upd_wf x hv hp (sWF T) pt
        · exact sWF T
      · intro T hl hT0
        simp only
        rw [sem_updateValue0 x cfg.e hres c.mem mOk ts hts pt T]
        have hl' : Live cfg c.now T := ⟨hl.1, by have := hl.2; simp at this; omega⟩
        split
        · rw [← agree T hl' hT0]
          exact (upd_mrg x pt hv hp (sqAt_wf fWF _ _) (sqAt_wf mWF _ _)).symm
        · exact agree T hl' hT0
    · exact ⟨hnow, hnn, fOk, mOk, fWF, mWF, sWF, agree⟩
  | flush raw =>
    simp only [Col.step, ColSpec.step]
    split
    · exact ⟨hnow, hnn, fOk, mOk, fWF, mWF, sWF, agree⟩
    · obtain ⟨gOk, gWF⟩ := merge_inv hv hp hres c.file c.mem fOk mOk fWF mWF (c.now - cfg.retention)
      obtain ⟨tOk, tWF⟩ := truncate_inv (e := cfg.e) hres _ gOk gWF (c.now - cfg.retention)
      refine ⟨hnow, hnn, tOk, trivial, tWF, trivial, sWF, ?_⟩
      intro T hl hT0
      simp only
      rw [at_none, mrg_empty_right hv hp (sqAt_wf tWF _ _)]
      rw [truncate_live cfg.e hres _ _ T hl.2]
      rw [view_at hv hp hres c.file c.mem fOk mOk fWF mWF _ T hl.1 hl.2 hT0]
      exact agree T hl hT0


theorem opsPos_head {op : ColOp} {r : List ColOp} (h : OpsPos (op :: r)) : OpsPos [op] ∧ OpsPos r := by
  cases op <;> simp_all [OpsPos]

theorem colInv_foldl (x : Ext) (cfg : ColCfg) (hv : cfg.e.valid = true) (hp : cfg.e.noPtile = true)
    (hres : 0 < cfg.res) (ops : List ColOp) :
    ∀ (c : Col) (s : ColSpec), ColInv x cfg c s → OpsPos ops →
      ColInv x cfg (ops.foldl (Col.step x cfg) c) (ops.foldl (ColSpec.step x cfg) s) := by
  induction ops with
  | nil => intro c s inv _; exact inv
  | cons op r ih =>
    intro c s inv hpos
    obtain ⟨h1, h2⟩ := opsPos_head hpos
    exact ih _ _ (colInv_step x cfg hv hp hres c s inv op h1) h2

theorem colInv_run (x : Ext) (cfg : ColCfg) (hv : cfg.e.valid = true) (hp : cfg.e.noPtile = true)
    (hres : 0 < cfg.res) (ops : List ColOp) (hpos : OpsPos ops) :
    ColInv x cfg (Col.run x cfg ops) (ColSpec.run x cfg ops) :=
  colInv_foldl x cfg hv hp hres ops _ _ (colInv_init x cfg hv hp) hpos

/-- what a memstore-inclusive scan returns on a live period is the spec's state -/
theorem view_eq_spec (x : Ext) (cfg : ColCfg) (hv : cfg.e.valid = true) (hp : cfg.e.noPtile = true)
    (hres : 0 < cfg.res) {c : Col} {s : ColSpec} (inv : ColInv x cfg c s) (T : Int)
    (hl : Live cfg c.now T) (hT0 : 0 < T) :
    ((c.view cfg true).at cfg.e cfg.res T) = s.cells T := by
  simp only [Col.view, if_true]
  rw [view_at hv hp hres c.file c.mem inv.fileOk inv.memOk inv.fileWF inv.memWF _ T hl.1 hl.2 hT0]
  exact inv.agree T hl hT0

end Zeno
